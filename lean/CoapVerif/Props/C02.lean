import CoapVerif.Go.Basic
import CoapVerif.Model.PoolRetry
import CoapVerif.Spec.Rfc8323Parse
import CoapVerif.Lemmas.CoderDecode
import CoapVerif.Lemmas.RefParser
import CoapVerif.Lemmas.DecodeWF
import CoapVerif.Lemmas.PoolRetry
import CoapVerif.Lemmas.Views
import CoapVerif.Props.C01
/-!
# C02 — Decoders are total, safe and canonicalising on arbitrary bytes

Statement (properties.jsonl): for every byte string, the datagram and stream decoders (including
stream header pre-parsing) return in bounded time without crashing, and they accept or reject exactly
as an independent reference parser written from RFC 7252 section 3 / RFC 8323 section 3 (extended only
by the library's documented leniencies) does, yielding the same fields.  Whatever they accept can be
re-encoded, and re-encoding then decoding gives the same message again (decoding is idempotent onto
canonical encodings).  A message decoded through the pooled-message API never aliases the caller's
receive buffer, so overwriting that buffer afterwards does not change the message.

* Models: `Model/{OptionCodec,UdpCoder,TcpCoder,PoolMessage}.lean` — every `b[i]`, `b[i:]`, `b[:j]` is a
  checked primitive returning `Err.panic` exactly when Go would panic; "never crashes" is the theorem
  "never returns `Err.panic`", for ALL byte strings and ALL option capacities.
* Bounded time: every model function is a total Lean function by structural or well-founded recursion;
  the pooled retry loop `decodeRetry` is defined by well-founded recursion on `len(data) − cap`, which
  needs exactly `decode_optCap_lt` and `newCap_gt` (see `retry_measure`).  With the loop as it was
  before the fix of DESIGN §6-F2 (`newCap 0 = 0`) the second fact is false and the definition is rejected.
* Reference parsers: `Spec/Rfc7252Parse.lean`, `Spec/Rfc8323Parse.lean` (tokenise → prefix sums → 16-bit
  check → leniency filter), structured differently from the code.  Documented leniencies only; one
  documented restriction (frames whose declared length exceeds 32 bits are refused).
* Limits stated as hypotheses: stream inputs below 4 GiB (`uint32(len(data))` in `Coder.Decode`) for the
  reference equality, and stream inputs below the library's 0x7fff0000 framing limit (`messageMaxLen`)
  for "accepted ⇒ re-encodable".
-/
namespace CoapVerif.Props.C02
open CoapVerif CoapVerif.Model CoapVerif.Model.OptionCodec CoapVerif.Model.PoolMessage
open CoapVerif.Spec CoapVerif.Spec.Wire
open CoapVerif.Lemmas CoapVerif.Lemmas.CoderDecode CoapVerif.Lemmas.RefParser CoapVerif.Lemmas.PoolRetry
open CoapVerif.Lemmas.DecodeWF CoapVerif.Lemmas.Views
open CoapVerif.Props.C01 (wireOf framingOf)

/-! ## Total and safe -/

/-- The datagram decoder never indexes or slices out of range: any byte string, any option capacity. -/
theorem udp_decode_no_panic (bs : Bytes) (cap : Nat) : UdpCoder.decode cap bs ≠ .error .panic := by
  rw [udp_decode_eq]; exact udpDec_no_panic cap bs

theorem tcp_decodeHeader_no_panic (bs : Bytes) : TcpCoder.decodeHeader bs ≠ .error .panic := by
  rw [tcp_decodeHeader_eq]; exact tcpHdr_no_panic bs

theorem tcp_decode_no_panic (bs : Bytes) (cap : Nat) : TcpCoder.decode cap bs ≠ .error .panic := by
  rw [tcp_decode_eq]; exact tcpDec_no_panic cap bs

/-- `Options.Unmarshal` alone (any table, any capacity / length of the option slice, any input). -/
theorem options_unmarshal_no_panic (defs : Defs) (cap n : Nat) (bs : Bytes) :
    optionsUnmarshal defs cap n bs ≠ .error .panic :=
  OptionCodec.unmarshalLoop_no_panic defs cap n 0 0 bs

/-- Tie of the retry loop to the source: the shape of the retry branch of `(*Message).decode`, regenerated from
the AST on every run — the new capacity is a multiple ≥ 2 of the old one, capacity 0 is replaced by a positive
value, and the capacity is not capped.  `newCap_gt` (hence the definition of `decodeRetry`) is proved from exactly
these generated facts, so a change of the loop's shape breaks the termination proof by name. -/
theorem retry_shape :
    Generated.PoolRetry.retryCapLimit = none ∧ 2 ≤ Generated.PoolRetry.retryFactor ∧ 0 < Generated.PoolRetry.retryZeroCap := by
  decide

/-- The two facts the termination measure `len(data) − cap` of the pooled retry loop rests on: a decoder
reports `ErrOptionsTooSmall` only while the capacity is below the input length, and the retried capacity
is strictly larger.  (`decodeRetry` is accepted by Lean's termination checker because of them.) -/
theorem retry_measure (c : Coder) (cap : Nat) (data : Bytes) (h : c.decode cap data = .error .optCap) :
    cap < data.length ∧ cap < newCap cap ∧ data.length - newCap cap < data.length - cap := by
  have h1 := decode_optCap_lt h
  have h2 := newCap_gt cap
  exact ⟨h1, h2, by omega⟩

/-- The retry loop ends with a decoder result that is not the capacity error — from every initial
capacity, 0 included. -/
theorem retry_resolves (c : Coder) (cap : Nat) (data : Bytes) :
    ∃ cap', cap ≤ cap' ∧ decodeRetry c cap data = (c.decode cap' data, cap') ∧ c.decode cap' data ≠ .error .optCap :=
  decodeRetry_spec c cap data

/-- … and that result is what the decoder returns with any capacity that cannot run out. -/
theorem retry_result_eq (c : Coder) (cap big : Nat) (data : Bytes) (hb : data.length ≤ big) :
    (decodeRetry c cap data).1 = c.decode big data :=
  decodeRetry_eq_big c cap big data hb

/-- The proof-free executable twin that the correspondence driver runs (explicit fuel `len(data)+1`) is
the well-founded model the theorems are about. -/
theorem exec_twin_eq (c : Coder) (r : PoolMsg) (data : Bytes) :
    unmarshalWithDecoderN c r data = unmarshalWithDecoder c r data :=
  unmarshalWithDecoderN_eq c r data

/-- The pooled unmarshal never panics and never reports the capacity error. -/
theorem pool_unmarshal_total (c : Coder) (r : PoolMsg) (data : Bytes) :
    unmarshalWithDecoder c r data ≠ .error .panic ∧ unmarshalWithDecoder c r data ≠ .error .optCap := by
  unfold unmarshalWithDecoder
  simp only [bind, Except.bind, C01.pool_copy]
  obtain ⟨cap', _, heq, hne⟩ := decodeRetry_spec c r.optCap data
  rw [heq]
  simp only []
  have hnp : c.decode cap' data ≠ .error .panic := by
    cases c with
    | udp => exact udp_decode_no_panic data cap'
    | tcp => exact tcp_decode_no_panic data cap'
  cases hd : c.decode cap' data with
  | error e =>
    constructor
    · intro h; injection h with h; subst h; exact hnp hd
    · intro h; injection h with h; subst h; exact hne hd
  | ok v => obtain ⟨m, n⟩ := v; exact ⟨by simp, by simp⟩

/-! ## Decoder = reference parser -/

/-- Datagram decoder: accepts exactly what the RFC 7252 reference parser accepts, with the same fields, and
an accepted datagram is consumed completely.  (`cap ≥ len` = "enough option capacity"; see
`pooled_decode_eq_ref` for the wrapper that removes the hypothesis.) -/
theorem udp_decode_eq_ref (bs : Bytes) (cap : Nat) (hc : bs.length ≤ cap) :
    toOpt (UdpCoder.decode cap bs) = (Rfc7252.parse bs).map fun m => (m, bs.length) := by
  rw [udp_decode_eq]; exact udpDec_eq_ref cap bs hc

/-- Header pre-parse: `ErrShortRead` exactly when the reference says "incomplete", another error exactly
when it says "malformed" (reserved token length, declared length beyond 32 bits), otherwise the same
header length, frame length, code and token. -/
theorem tcp_decodeHeader_eq_ref (bs : Bytes) : headVerdict (TcpCoder.decodeHeader bs) = Rfc8323.parseHead bs := by
  rw [tcp_decodeHeader_eq]; exact tcpHdr_eq_ref bs

/-- Stream decoder: same message and same consumed count (= the declared frame, never the bytes behind it)
as the RFC 8323 reference parser. -/
theorem tcp_decode_eq_ref (bs : Bytes) (cap : Nat) (hc : bs.length ≤ cap) (h32 : bs.length < 4294967296) :
    toOpt (TcpCoder.decode cap bs) = Rfc8323.parse bs := by
  rw [tcp_decode_eq]; exact tcpDec_eq_ref cap bs hc h32

/-- Through the pooled API the capacity hypothesis disappears: whatever the capacity of the recycled
message (0 included), the result is the reference parser's. -/
theorem pooled_decode_eq_ref (c : Coder) (cap : Nat) (bs : Bytes) (h32 : bs.length < 4294967296) :
    toOpt (decodeRetry c cap bs).1 =
      match c with
      | .udp => (Rfc7252.parse bs).map fun m => (m, bs.length)
      | .tcp => Rfc8323.parse bs := by
  rw [retry_result_eq c cap bs.length bs (Nat.le_refl _)]
  cases c with
  | udp => exact udp_decode_eq_ref bs bs.length (Nat.le_refl _)
  | tcp => exact tcp_decode_eq_ref bs bs.length (Nat.le_refl _) h32

/-! ## Accepted ⇒ well-formed ⇒ canonical -/

theorem udp_decode_result_WF (bs : Bytes) (cap : Nat) (m : Msg) (n : Nat) (h : UdpCoder.decode cap bs = .ok (m, n)) :
    WF .udp m = true := by
  rw [udp_decode_eq] at h; exact udpDec_WF cap bs m n h

/-- The canonical re-encoding of an accepted stream message is never longer than the bytes it was decoded
from (delta/length fields have a unique encoding; dropped options only free bytes). -/
theorem tcp_decode_body_le (bs : Bytes) (cap : Nat) (m : Msg) (n : Nat) (h : TcpCoder.decode cap bs = .ok (m, n)) :
    (encBody m).length ≤ bs.length := by
  rw [tcp_decode_eq] at h; exact tcpDec_body_len cap bs m n h

theorem tcp_decode_result_WF (bs : Bytes) (cap : Nat) (m : Msg) (n : Nat) (h : TcpCoder.decode cap bs = .ok (m, n))
    (hb : bs.length < tcpBodyLimit) : WF .tcp m = true := by
  have hle := tcp_decode_body_le bs cap m n h
  rw [tcp_decode_eq] at h; exact tcpDec_WF cap bs m n h (by omega)

/-- Whatever the datagram decoder accepts can be re-encoded (`Size` and `Encode` succeed and produce `bs'`),
and decoding `bs'` gives the same message again, consuming all of `bs'`. -/
theorem udp_decode_canonical (bs : Bytes) (cap : Nat) (m : Msg) (n : Nat) (h : UdpCoder.decode cap bs = .ok (m, n)) :
    ∃ bs', UdpCoder.size m = .ok bs'.length ∧
      (∀ buf : Bytes, buf.length = bs'.length → UdpCoder.encode m buf = .ok ⟨bs'.length, false, bs'⟩) ∧
      UdpCoder.decode cap bs' = .ok (m, bs'.length) := by
  have hwf := udp_decode_result_WF bs cap m n h
  have hlen : m.options.length ≤ cap := by rw [udp_decode_eq] at h; exact udpDec_ok_len cap bs m n h
  refine ⟨encUdp m, C01.udp_size_eq m hwf, ?_, C01.udp_decode_encode m hwf cap hlen⟩
  intro buf hb
  have := C01.udp_encode_eq_spec m hwf buf (by omega)
  rw [this, ← hb, List.drop_length]; simp

theorem tcp_decode_canonical (bs : Bytes) (cap : Nat) (m : Msg) (n : Nat) (h : TcpCoder.decode cap bs = .ok (m, n))
    (hb : bs.length < tcpBodyLimit) :
    ∃ bs', TcpCoder.size m = .ok bs'.length ∧
      (∀ buf : Bytes, buf.length = bs'.length → TcpCoder.encode m buf = .ok ⟨bs'.length, false, bs'⟩) ∧
      TcpCoder.decode cap bs' = .ok (m, bs'.length) := by
  have hwf := tcp_decode_result_WF bs cap m n h hb
  have hlen : m.options.length ≤ cap := by rw [tcp_decode_eq] at h; exact tcpDec_ok_len cap bs m n h
  have hcanon : canon .tcp m = m := by
    rw [tcp_decode_eq] at h
    unfold tcpDec at h
    split at h
    · cases h
    · split at h
      · cases h
      · split at h
        · cases h
        · simp only [Except.ok.injEq, Prod.mk.injEq] at h
          obtain ⟨rfl, _⟩ := h
          rfl
  refine ⟨encTcp m, C01.tcp_size_eq m hwf, ?_, ?_⟩
  · intro buf hbl
    have := C01.tcp_encode_eq_spec m hwf buf (by omega)
    rw [this, ← hbl, List.drop_length]; simp
  · have := C01.tcp_decode_encode m hwf cap hlen
    rwa [hcanon] at this

/-! ## No aliasing of the caller's buffer -/

/-- After `UnmarshalWithDecoder` the message's receive buffer holds a copy of the input (equal contents, a
buffer the message owns), and token, payload and every option value of the decoded message are regions
of THAT buffer.  The caller's buffer does not occur in the resulting state at all. -/
theorem unmarshal_owns (c : Coder) (r r' : PoolMsg) (data : Bytes) (n : Nat)
    (h : unmarshalWithDecoder c r data = .ok (n, r')) :
    r'.bufferUnmarshal = data ∧ ViewsIn r'.bufferUnmarshal r'.msg := by
  unfold unmarshalWithDecoder at h
  simp only [bind, Except.bind, C01.pool_copy] at h
  obtain ⟨cap', _, heq, _⟩ := decodeRetry_spec c r.optCap data
  rw [heq] at h
  simp only [] at h
  cases hd : c.decode cap' data with
  | error e => rw [hd] at h; cases h
  | ok v =>
    obtain ⟨m, k⟩ := v
    rw [hd] at h
    simp only [Except.ok.injEq, Prod.mk.injEq] at h
    obtain ⟨_, rfl⟩ := h
    exact ⟨rfl, decode_views c cap' data m k hd⟩

/-! ## Non-vacuity -/

/-- A datagram with a dropped option (If-None-Match with a value), option number 0, and a marker followed
by nothing: accepted leniently by the reference. -/
def exBytes : Bytes := [0x41, 0x01, 0x12, 0x34, 0xAA, 0x01, 0x7A, 0x51, 0x78, 0x61, 0x62, 0xFF]

example : Rfc7252.parse exBytes = some ⟨0, 0x1234, 1, [0xAA], [⟨11, [0x62]⟩], []⟩ := by
  simp [Rfc7252.parse, exBytes, Rfc7252.parseBody, Rfc7252.tokens, Rfc7252.field, Rfc7252.absolute, Rfc7252.lenient,
    lengthLegal, lookup, rfcRegistry]
example : Rfc8323.parseHead [0x09] = .malformed ∧ Rfc8323.parseHead [0xD1] = .incomplete := by decide
example : Rfc8323.parseHead [0x21, 0x45, 0x07, 0xFF, 0x01, 0x99] = .ok ⟨3, 5, 0x45, [0x07]⟩ := by decide
example : ∃ cap', decodeRetry .udp 0 exBytes = (Coder.decode .udp cap' exBytes, cap') := by
  obtain ⟨c, _, h, _⟩ := retry_resolves .udp 0 exBytes; exact ⟨c, h⟩

end CoapVerif.Props.C02

section Audit
open CoapVerif.Props.C02
#print axioms udp_decode_no_panic
#print axioms tcp_decodeHeader_no_panic
#print axioms tcp_decode_no_panic
#print axioms options_unmarshal_no_panic
#print axioms retry_shape
#print axioms retry_measure
#print axioms retry_resolves
#print axioms retry_result_eq
#print axioms exec_twin_eq
#print axioms pool_unmarshal_total
#print axioms udp_decode_eq_ref
#print axioms tcp_decodeHeader_eq_ref
#print axioms tcp_decode_eq_ref
#print axioms pooled_decode_eq_ref
#print axioms udp_decode_result_WF
#print axioms tcp_decode_body_le
#print axioms tcp_decode_result_WF
#print axioms udp_decode_canonical
#print axioms tcp_decode_canonical
#print axioms unmarshal_owns
end Audit
