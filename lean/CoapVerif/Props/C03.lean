import CoapVerif.Go.Basic
import CoapVerif.Model.TokenTable
import CoapVerif.Lemmas.TokenTable
import CoapVerif.Lemmas.TokenReach
import CoapVerif.Spec.TokenMatch
/-!
# C03 — every response reaches exactly the request that carries its token

Statement (properties.jsonl): whenever any number of requests with distinct tokens are outstanding
concurrently on one connection and the peer answers them in any order with any mix of piggybacked,
separate, delayed or duplicated responses, every request call that returns successfully returns a response
carrying its own token and the content the peer produced for that request.  A response is never delivered
to a different caller or to two callers, and a second request issued with a token that is still
outstanding is rejected rather than displacing the first.

**Property-level theorems are the trace-level ones**: `response_reaches_request` (the title: an outstanding, unanswered
request whose response is next in the queue gets it — no assumption about the table, the registration is the proved
invariant `InvR`), `outstanding_iff_registered`, `held_was_sent_by_the_peer` (what a caller holds was sent by the peer in
this history, field by field), `resp_token_matches` / `no_cross_delivery` / `at_most_one_receiver`,
`late_copy_goes_to_default`, `duplicate_token_rejected_first_kept`, and — for every history, token re-use included —
`retransmission_reaches_nobody` (a message ID processed once is recognised afterwards: the copy of a separate confirmable
response cannot reach the request that has taken over its token).  The others need the premise of the property, "requests
with distinct tokens" (`DistinctRequests`: the request tokens of the history are pairwise distinct and separated by the
key function); the single-step facts further down hold in every state and are the building blocks.

The theorems are about `Model.TokenTable` (`run h cfg evs`): **every** list of events `evs` (any number of
callers, any arrival order, duplicates, piggybacked/separate/bare ACK/RST, cancellation, close, every
interleaving of receive path and callers), **every** hash function `h` and all four configurations
(datagram/stream × block-wise on/off).  Statements about *token equality* need the hash to be injective
on the tokens in play (`HashInj`) — the code keys its table by CRC-64 of the token — and are stated with
that hypothesis explicitly; without it the statement is false (`Findings/C03.lean`, F13).
The shape of the code the model follows (which table operation each path uses, under which key, with
which removal) is regenerated from the source and compared by `shape_agrees`.
-/
namespace CoapVerif.Props.C03
open CoapVerif CoapVerif.Model.TokenTable CoapVerif.Lemmas.TokenTable CoapVerif.Lemmas.TokenReach

/-- the hash separates the tokens in play -/
def HashInj (h : Token → Nat) (toks : List Token) : Prop := ∀ a ∈ toks, ∀ b ∈ toks, h a = h b → a = b

/-- **resp_token_matches (hash level, no hypothesis).** Whatever a caller is handed — and in particular what a
    successful call returns — hashes like the caller's own token, for every schedule and every hash function. -/
theorem resp_token_matches_hash (h : Token → Nat) (cfg : Cfg) (evs : List Event) (c : Nat) (cl : Caller) (m : Msg)
    (hc : (run h cfg evs).callers c = some cl) (hr : cl.res = some (.ok m)) : h m.tok = h cl.tok := by
  obtain ⟨cl', h1, h2⟩ := (invTM_run h cfg evs).hold c m ⟨cl, hc, Or.inr hr⟩
  rw [hc] at h1; cases h1; exact h2

/-- **resp_token_matches.** If the hash separates the tokens in play, a call that returns successfully returns a
    message carrying exactly its own token. -/
theorem resp_token_matches (h : Token → Nat) (cfg : Cfg) (evs : List Event) (inj : HashInj h (tokensInPlay evs))
    (c : Nat) (cl : Caller) (m : Msg)
    (hc : (run h cfg evs).callers c = some cl) (hr : cl.res = some (.ok m)) : m.tok = cl.tok := by
  have hp := invP_run h cfg evs
  exact inj _ (hp.htok c m ⟨cl, hc, Or.inr hr⟩) _ (hp.ctok c cl hc) (resp_token_matches_hash h cfg evs c cl m hc hr)

/-- **at_most_one_receiver.** One arrival (identified by its arrival number) is handed to at most one caller — neither
    as a returned response nor waiting in a caller's channel — for every schedule. -/
theorem at_most_one_receiver (h : Token → Nat) (cfg : Cfg) (evs : List Event) (c c' : Nat) (m m' : Msg)
    (h1 : Holds (run h cfg evs) c m) (h2 : Holds (run h cfg evs) c' m') (hs : m.seq = m'.seq) : c = c' :=
  (invS_run h cfg evs).uniq c c' m m' h1 h2 hs

/-- **no_cross_delivery.** Under `HashInj`, a message carrying the token of caller `c'` is never handed to a caller
    `c` whose token is different. -/
theorem no_cross_delivery (h : Token → Nat) (cfg : Cfg) (evs : List Event) (inj : HashInj h (tokensInPlay evs))
    (c c' : Nat) (cl cl' : Caller) (m : Msg)
    (hc : (run h cfg evs).callers c = some cl) (_hc' : (run h cfg evs).callers c' = some cl')
    (hne : cl.tok ≠ cl'.tok) (hm : m.tok = cl'.tok) : ¬ Holds (run h cfg evs) c m := by
  intro hh
  have hp := invP_run h cfg evs
  obtain ⟨cl2, g1, g2⟩ := (invTM_run h cfg evs).hold c m hh
  have e2 : cl2 = cl := by rw [hc] at g1; exact (Option.some.inj g1).symm
  subst e2
  have e : m.tok = cl2.tok := inj _ (hp.htok c m hh) _ (hp.ctok c cl2 hc) g2
  exact hne (e.symm.trans hm)

/-- an unmatched message goes to the default path and touches no caller and no table (single step) -/
theorem deliver_miss_default_eq (h : Token → Nat) (cfg : Cfg) (s : State) (m : Msg) (hmiss : s.table (h m.tok) = none) :
    deliver h cfg s m = { s with dflt := s.dflt ++ [m] } := by
  unfold deliver; rw [hmiss]

/-! ### The headline, at trace level

`DistinctRequests`: the premise of the property ("requests with distinct tokens", and — since the table is keyed by a
hash — a key function that separates them).  `FreshKeys` is its operational form (every request is issued with a token
whose key differs from the key of every request issued before on the connection); `distinctRequests_fresh` derives it
from the syntactic condition on the history. -/

/-- the tokens of the requests of the history are pairwise distinct and the key function separates them -/
def DistinctRequests (h : Token → Nat) (evs : List Event) : Prop :=
  (doTokens evs).Nodup ∧ ∀ a ∈ doTokens evs, ∀ b ∈ doTokens evs, h a = h b → a = b

theorem distinctRequests_fresh (h : Token → Nat) (cfg : Cfg) (evs : List Event) (hd : DistinctRequests h evs) :
    FreshKeys h cfg init evs :=
  freshKeys_of_nodup h cfg evs init [] (by intro c cl h1; simp [init] at h1)
    (by simpa using nodup_map_of_inj h (doTokens evs) hd.1 hd.2)

/-- **response_reaches_request (the title of the property).**  For every schedule of requests with distinct tokens: if,
    after the history `evs`, caller `c` is outstanding and unanswered (its call has not returned, nothing is in its
    channel) and the oldest queued message carries `c`'s token (and is not a retransmission that the response cache
    answers), then processing that message hands it to `c`.  No hypothesis about the table: that `c` is registered under
    the key of its token is the invariant `InvR`, proved for every such history. -/
theorem response_reaches_request (h : Token → Nat) (cfg : Cfg) (evs : List Event) (hd : DistinctRequests h evs)
    (c : Nat) (cl : Caller) (hc : (run h cfg evs).callers c = some cl) (hp : cl.pc ≠ .returned) (hs : cl.slot = none)
    (m : Msg) (q : List Msg) (hq : (run h cfg evs).queue = m :: q) (hm : m.tok = cl.tok)
    (hnd : dedupHit cfg { run h cfg evs with queue := q } m = false) :
    Holds (run h cfg (evs ++ [.process])) c m := by
  have ir := invR_run h cfg evs (distinctRequests_fresh h cfg evs hd)
  have hreg : (run h cfg evs).table (h m.tok) = some c := by rw [hm]; exact ir.reg c cl hc hp hs
  have e : run h cfg (evs ++ [.process]) = step h cfg (run h cfg evs) .process := by simp [run, List.foldl_append]
  rw [e, step, hq]
  dsimp only
  rw [hnd]
  simp only [Bool.false_eq_true, if_false]
  rw [remember_holds]
  exact deliver_reaches h cfg _ m c cl hreg hc hs

/-- **an outstanding request is registered** (the converse of "table entries belong to callers"), for every history of
    requests with distinct tokens; and once answered or returned it is not (where delivery consumes the entry). -/
theorem outstanding_iff_registered (h : Token → Nat) (cfg : Cfg) (evs : List Event) (hd : DistinctRequests h evs)
    (c : Nat) (cl : Caller) (hc : (run h cfg evs).callers c = some cl) :
    (cl.pc ≠ .returned → cl.slot = none → (run h cfg evs).table (h cl.tok) = some c) ∧
    (deliverDeletes cfg = true → (cl.slot ≠ none ∨ cl.pc = .returned) → (run h cfg evs).table (h cl.tok) = none) := by
  have ir := invR_run h cfg evs (distinctRequests_fresh h cfg evs hd)
  exact ⟨ir.reg c cl hc, fun hdd hor => ir.gone hdd c cl hc hor⟩

/-- **held_was_sent_by_the_peer ("the content the peer produced").**  For every schedule: whatever a caller holds — in
    its channel or as the returned response — is, field by field (kind, token, message ID, content), a message that
    arrived from the peer in this history; with `resp_token_matches` its token is the caller's own. -/
theorem held_was_sent_by_the_peer (h : Token → Nat) (cfg : Cfg) (evs : List Event) (c : Nat) (m : Msg)
    (hh : Holds (run h cfg evs) c m) : Event.arrive m.kind m.tok m.mid m.tag ∈ evs :=
  (invMsg_run h cfg evs).hd c m hh

/-- **late_copy_goes_to_default (duplicates and late responses, trace level).**  For every schedule of requests with
    distinct tokens, on a connection whose delivery consumes the registration (datagram; stream without block-wise): once
    caller `c` has been answered or has returned, the next message carrying its token reaches no caller — the callers
    are untouched and the message is on the default path. -/
theorem late_copy_goes_to_default (h : Token → Nat) (cfg : Cfg) (evs : List Event) (hd : DistinctRequests h evs)
    (hdd : deliverDeletes cfg = true) (c : Nat) (cl : Caller) (hc : (run h cfg evs).callers c = some cl)
    (hdone : cl.slot ≠ none ∨ cl.pc = .returned)
    (m : Msg) (q : List Msg) (hq : (run h cfg evs).queue = m :: q) (hm : m.tok = cl.tok)
    (hnd : dedupHit cfg { run h cfg evs with queue := q } m = false) :
    (run h cfg (evs ++ [.process])).callers = (run h cfg evs).callers ∧
    (run h cfg (evs ++ [.process])).dflt = (run h cfg evs).dflt ++ [m] := by
  have ir := invR_run h cfg evs (distinctRequests_fresh h cfg evs hd)
  have hgone : (run h cfg evs).table (h m.tok) = none := by rw [hm]; exact ir.gone hdd c cl hc hdone
  have e : run h cfg (evs ++ [.process]) = step h cfg (run h cfg evs) .process := by simp [run, List.foldl_append]
  rw [e, step, hq]
  dsimp only
  rw [hnd]
  simp only [Bool.false_eq_true, if_false]
  have hmiss : ({ run h cfg evs with queue := q } : State).table (h m.tok) = none := hgone
  rw [deliver_miss_default_eq h cfg _ m hmiss]
  unfold remember
  split <;> exact ⟨rfl, rfl⟩

/-- **retransmission_reaches_nobody (message-ID layer, trace level).**  Datagram transport, **every** history — in
    particular histories in which the token of an ended exchange is re-used by a later request, which `DistinctRequests`
    excludes and the protocol allows: once a confirmable message `m` of the peer has been processed, every later message
    of the peer with the same message ID (confirmable or not — the retransmission of `m`) is dropped before token
    matching, whatever happened in between (`evs2`: requests starting with any token, returns, cancellations, other
    arrivals): processing it changes nothing but the queue — no caller, no table entry, no default-path delivery.  So a
    retransmitted separate response cannot reach the request that has taken over its token.  (No cache expiry here:
    a history is shorter than EXCHANGE_LIFETIME; expiry is C05's.) -/
theorem retransmission_reaches_nobody (h : Token → Nat) (cfg : Cfg) (evs1 evs2 : List Event) (hudp : cfg.udp = true)
    (m : Msg) (q : List Msg) (hq : (run h cfg evs1).queue = m :: q) (hk : m.kind = .con)
    (m' : Msg) (q' : List Msg) (hq' : (run h cfg (evs1 ++ .process :: evs2)).queue = m' :: q')
    (hk' : m'.kind = .con ∨ m'.kind = .non) (hmid : m'.mid = m.mid) :
    run h cfg (evs1 ++ .process :: evs2 ++ [.process]) = { run h cfg (evs1 ++ .process :: evs2) with queue := q' } := by
  have e1 : run h cfg (evs1 ++ .process :: evs2) = evs2.foldl (step h cfg) (step h cfg (run h cfg evs1) .process) := by
    simp [run, List.foldl_append]
  have hc : m.mid ∈ (run h cfg (evs1 ++ .process :: evs2)).cache := by
    rw [e1]
    exact cache_mono_fold h cfg evs2 _ _ (process_con_cached h cfg _ m q hudp hq hk)
  have e2 : run h cfg (evs1 ++ .process :: evs2 ++ [.process]) = step h cfg (run h cfg (evs1 ++ .process :: evs2)) .process := by
    simp [run, List.foldl_append]
  rw [e2, step, hq']
  dsimp only
  have hd : dedupHit cfg { run h cfg (evs1 ++ .process :: evs2) with queue := q' } m' = true := by
    simp only [dedupHit, hudp, Bool.true_and, Bool.and_eq_true, Bool.or_eq_true, decide_eq_true_eq, List.contains_iff_mem, hmid]
    exact ⟨hk', hc⟩
  rw [hd]
  simp

/-! ### Single-step facts (valid in *every* state, hence in every reachable one; the trace-level theorems above and
    the invariants are built from them) -/

/-- **second_do_rejected.** In every state, a request whose token hashes like a registered one is refused
    (`exists`, or `badToken` from the block-wise layer), and nothing else changes: the table — in particular the first
    caller's entry —, every other caller, the queue and the default-path log stay exactly as they were. -/
theorem second_do_rejected (h : Token → Nat) (cfg : Cfg) (s : State) (c c0 : Nat) (tok : Token) (con : Bool) (mid : Nat)
    (hnew : s.callers c = none) (hreg : s.table (h tok) = some c0) :
    let s' := step h cfg s (.doStart c tok con mid)
    s'.table = s.table ∧ s'.queue = s.queue ∧ s'.dflt = s.dflt ∧ s'.mids = s.mids ∧ s'.bwSend = s.bwSend ∧
    (∀ i, i ≠ c → s'.callers i = s.callers i) ∧
    (∃ r, s'.callers c = some ⟨tok, mid, .returned, none, some r⟩ ∧ (r = .exists_ ∨ r = .badToken)) := by
  intro s'
  have hs' : s' = step h cfg s (.doStart c tok con mid) := rfl
  rw [step] at hs'
  rw [hnew] at hs'
  dsimp only at hs'
  have frame : ∀ r : Res, (r = .exists_ ∨ r = .badToken) → s' = reject s c tok mid r →
      s'.table = s.table ∧ s'.queue = s.queue ∧ s'.dflt = s.dflt ∧ s'.mids = s.mids ∧ s'.bwSend = s.bwSend ∧
      (∀ i, i ≠ c → s'.callers i = s.callers i) ∧
      (∃ r, s'.callers c = some ⟨tok, mid, .returned, none, some r⟩ ∧ (r = .exists_ ∨ r = .badToken)) := by
    intro r hr e
    rw [e]
    refine ⟨rfl, rfl, rfl, rfl, rfl, ?_, r, ?_, hr⟩
    · intro i hi; simp [reject, upd, hi]
    · simp [reject, upd]
  by_cases h1 : tok = []
  · rw [if_pos h1] at hs'; exact frame _ (Or.inr rfl) hs'
  · rw [if_neg h1] at hs'
    by_cases h2 : (cfg.bw && (s.bwSend (h tok)).isSome) = true
    · rw [if_pos h2] at hs'; exact frame _ (Or.inr rfl) hs'
    · rw [if_neg h2] at hs'
      have h3 : (s.table (h tok)).isSome = true := by rw [hreg]; rfl
      rw [if_pos h3] at hs'; exact frame _ (Or.inl rfl) hs'

/-- **duplicate_token_rejected_first_kept (trace level).**  For every schedule of requests with distinct tokens: while
    caller `c0` is outstanding and unanswered, a further request with *its* token is refused (`exists`, or `badToken`
    from the block-wise layer) and `c0` stays exactly as it was, still registered — so by `response_reaches_request`'s
    argument its response still reaches it. -/
theorem duplicate_token_rejected_first_kept (h : Token → Nat) (cfg : Cfg) (evs : List Event) (hd : DistinctRequests h evs)
    (c0 : Nat) (cl0 : Caller) (hc0 : (run h cfg evs).callers c0 = some cl0) (hp : cl0.pc ≠ .returned) (hs : cl0.slot = none)
    (c : Nat) (hnew : (run h cfg evs).callers c = none) (con : Bool) (mid : Nat) :
    let s' := run h cfg (evs ++ [.doStart c cl0.tok con mid])
    (∃ r, s'.callers c = some ⟨cl0.tok, mid, .returned, none, some r⟩ ∧ (r = .exists_ ∨ r = .badToken)) ∧
    s'.callers c0 = some cl0 ∧ s'.table (h cl0.tok) = some c0 ∧
    (∀ m : Msg, m.tok = cl0.tok → Holds (deliver h cfg s' m) c0 m) := by
  intro s'
  have ir := invR_run h cfg evs (distinctRequests_fresh h cfg evs hd)
  have hreg := ir.reg c0 cl0 hc0 hp hs
  have e : s' = step h cfg (run h cfg evs) (.doStart c cl0.tok con mid) := by simp [s', run, List.foldl_append]
  obtain ⟨t1, _, _, _, _, t6, t7⟩ := second_do_rejected h cfg (run h cfg evs) c c0 cl0.tok con mid hnew hreg
  have hne : c0 ≠ c := by intro x; subst x; rw [hnew] at hc0; cases hc0
  have hc0' : s'.callers c0 = some cl0 := by rw [e, t6 c0 hne]; exact hc0
  have ht' : s'.table (h cl0.tok) = some c0 := by rw [e, t1]; exact hreg
  refine ⟨by rw [e]; exact t7, hc0', ht', ?_⟩
  intro m hm
  exact deliver_reaches h cfg s' m c0 cl0 (by rw [hm]; exact ht') hc0' hs

/-- **dup_resp_harmless (1): the first match consumes the registration** (datagram transport, and stream transport
    without block-wise): after a message has been delivered, no caller is registered under its token's hash. -/
theorem deliver_consumes (h : Token → Nat) (cfg : Cfg) (s : State) (m : Msg) (hd : deliverDeletes cfg = true) :
    (deliver h cfg s m).table (h m.tok) = none := by
  unfold deliver
  split
  · dsimp only
    split
    · rw [wakeCaller_table, handover_table]; simp [hd, upd]
    · rw [handover_table]; simp [hd, upd]
  · rename_i hn; exact hn

/-- **dup_resp_harmless (2): an unmatched message goes to the default path** and touches no caller and no table. -/
theorem deliver_miss_default (h : Token → Nat) (cfg : Cfg) (s : State) (m : Msg) (hmiss : s.table (h m.tok) = none) :
    deliver h cfg s m = { s with dflt := s.dflt ++ [m] } := by
  unfold deliver; rw [hmiss]

/-- **dup_resp_harmless (3): a duplicate of a delivered response is harmless.** Deliver `m`, then deliver any message
    `m2` with the same token hash (a duplicate, a late copy): the callers are exactly as after the first delivery and
    `m2` is on the default path. -/
theorem dup_resp_harmless (h : Token → Nat) (cfg : Cfg) (s : State) (m m2 : Msg) (hd : deliverDeletes cfg = true)
    (hsame : h m2.tok = h m.tok) :
    (deliver h cfg (deliver h cfg s m) m2).callers = (deliver h cfg s m).callers ∧
    (deliver h cfg (deliver h cfg s m) m2).dflt = (deliver h cfg s m).dflt ++ [m2] := by
  have hmiss : (deliver h cfg s m).table (h m2.tok) = none := by rw [hsame]; exact deliver_consumes h cfg s m hd
  rw [deliver_miss_default h cfg _ m2 hmiss]
  exact ⟨rfl, rfl⟩

/-- **dup_resp_harmless (4): with `Load` (stream transport, block-wise negotiated) a copy that arrives while the first
    one is still in the caller's channel is dropped** — the channel has one slot and the send does not block. -/
theorem dup_dropped_when_slot_full (s : State) (c : Nat) (cl : Caller) (m0 m : Msg)
    (hc : s.callers c = some cl) (hfull : cl.slot = some m0) : handover s c m = s := by
  unfold handover; rw [hc]; dsimp only; rw [hfull]

/-- **dup_resp_harmless (5): late responses after return.** When a call returns (with its response, by cancellation or
    because the connection closed) its registration is gone, so by (2) later copies go to the default path. -/
theorem return_clears (h : Token → Nat) (s : State) (c : Nat) (cl : Caller) (m : Msg)
    (hc : s.callers c = some cl) (hpc : cl.pc = .waitResp) (hs : cl.slot = some m) :
    (finish h s c).table (h cl.tok) = none ∧ (finish h s c).callers c = some { cl with pc := .returned, slot := none, res := some (.ok m) } := by
  unfold finish; rw [hc]; dsimp only; rw [if_pos hpc, hs]
  exact ⟨by simp [upd], by simp [upd]⟩

theorem leave_clears (h : Token → Nat) (s : State) (c : Nat) (cl : Caller) (r : Res)
    (hc : s.callers c = some cl) (hpc : cl.pc ≠ .returned) : (leave h s c r).table (h cl.tok) = none := by
  unfold leave; rw [hc]; dsimp only; rw [if_neg hpc]; simp [upd]

/-- **Every response reaches the request that carries its token.** In a reachable state, if a caller is registered
    under the hash of the arriving message's token and its channel is empty, delivery puts the message into that
    caller's channel (and, on the datagram transport, lets it stop waiting for the acknowledgement); under `HashInj`
    that caller's token *is* the message's token. -/
theorem response_reaches_caller (h : Token → Nat) (cfg : Cfg) (evs : List Event) (m : Msg) (c : Nat)
    (hreg : (run h cfg evs).table (h m.tok) = some c) :
    ∃ cl, (run h cfg evs).callers c = some cl ∧ h cl.tok = h m.tok ∧ cl.pc ≠ .returned ∧
      (cl.slot = none → ∃ cl', (deliver h cfg (run h cfg evs) m).callers c = some cl' ∧ cl'.slot = some m ∧
        cl'.tok = cl.tok ∧ cl'.pc ≠ .returned ∧ (cfg.udp = true → cl'.pc = .waitResp)) := by
  obtain ⟨cl, h1, h2, h3⟩ := (invTM_run h cfg evs).tbl _ c hreg
  refine ⟨cl, h1, h2, h3, ?_⟩
  intro hs
  have hho : (handover { (run h cfg evs) with table := if deliverDeletes cfg = true then upd (run h cfg evs).table (h m.tok) none else (run h cfg evs).table } c m).callers c
      = some { cl with slot := some m } := by
    unfold handover; dsimp only; rw [h1]; dsimp only; rw [hs]; simp [upd]
  unfold deliver; rw [hreg]; dsimp only
  cases hu : cfg.udp
  · simp only [Bool.false_eq_true, if_false]
    exact ⟨_, hho, rfl, rfl, h3, by intro e; cases e⟩
  · simp only [if_true]
    unfold wakeCaller
    rw [hho]; dsimp only
    by_cases hp : cl.pc = .waitAck
    · simp only [hp, if_true]
      exact ⟨{ cl with pc := .waitResp, slot := some m }, by simp [upd], rfl, rfl, by simp, fun _ => rfl⟩
    · simp only [hp, if_false]
      refine ⟨_, hho, rfl, rfl, h3, ?_⟩
      intro _
      cases hpc : cl.pc
      · exact absurd hpc hp
      · rfl
      · exact absurd hpc h3

theorem registered_token_eq (h : Token → Nat) (cfg : Cfg) (evs : List Event) (tok : Token)
    (inj : HashInj h (tok :: tokensInPlay evs)) (c : Nat) (hreg : (run h cfg evs).table (h tok) = some c) :
    ∃ cl, (run h cfg evs).callers c = some cl ∧ cl.tok = tok := by
  obtain ⟨cl, h1, h2, _⟩ := (invTM_run h cfg evs).tbl _ c hreg
  refine ⟨cl, h1, ?_⟩
  exact inj _ (List.mem_cons_of_mem _ ((invP_run h cfg evs).ctok c cl h1)) _ List.mem_cons_self h2

/-- **shape_agrees.** The table operations the model follows are the ones in today's source: every lookup on a
    token-handler table (file, function, operation, key expression) and every registration with its removal. -/
theorem shape_agrees :
    Generated.TableShape.tokenLookups.map (fun l => (l.file, l.func, l.op, l.key)) = expectedLookups ∧
    (Generated.TableShape.insertions.filter (·.table == "tokenHandlerContainer")).map
      (fun i => (i.file, i.func, i.op, i.key, i.removal)) = expectedRegistrations := by
  decide

/-- **crc64_check.** The model's key function reproduces values computed by the real `message.Token.Hash` (regenerated
    on every run; the polynomial is regenerated too). -/
theorem crc64_check : crc64 [1, 2, 3, 4] = Generated.TokenHash.check1 ∧
    crc64 [0x31, 0x32, 0x33, 0x34, 0x35, 0x36, 0x37, 0x38, 0x39] = Generated.TokenHash.check2 := by
  decide +kernel

/-! ### Non-vacuity: concrete schedules (hash = the real CRC-64) -/

/-- three callers outstanding, answered out of order, one piggybacked, one duplicate: everybody gets its own -/
def demo : List Event := [
  .doStart 1 [0xaa] true 1, .doStart 2 [0xbb] true 2, .doStart 3 [0xcc] false 3,
  .arrive .ack [] 2 "", .arrive .con [0xcc] 40001 "x3", .process, .ret 3,
  .arrive .con [0xbb] 40002 "x2", .process, .ret 2, .arrive .con [0xbb] 40002 "x2", .process,
  .arrive .pig [0xaa] 1 "x1", .process, .ret 1, .arrive .non [0xaa] 40003 "x1", .process]

example : DistinctRequests crc64 demo := by
  refine ⟨by decide, ?_⟩
  intro a ha b hb hab
  simp only [demo, doTokens, List.mem_cons, List.mem_nil_iff, or_false] at ha hb
  rcases ha with rfl | rfl | rfl <;> rcases hb with rfl | rfl | rfl <;> first | rfl | (exfalso; revert hab; decide +kernel)
example : ((run crc64 ⟨true, false⟩ demo).callers 1).bind (·.res) = some (.ok ⟨.pig, [0xaa], 1, "x1", 4⟩) := by decide +kernel
example : ((run crc64 ⟨true, false⟩ demo).callers 2).bind (·.res) = some (.ok ⟨.con, [0xbb], 40002, "x2", 2⟩) := by decide +kernel
example : (run crc64 ⟨true, false⟩ demo).dflt.map (·.tag) = ["x1"] := by decide
/-- a second request with an outstanding token is refused; the first still gets its response -/
example : ((run crc64 ⟨true, false⟩ [.doStart 1 [0xaa] false 1, .doStart 2 [0xaa] false 2, .arrive .non [0xaa] 9 "r", .process, .ret 1]).callers 2).bind (·.res) = some .exists_ := by decide +kernel
example : ((run crc64 ⟨true, false⟩ [.doStart 1 [0xaa] false 1, .doStart 2 [0xaa] false 2, .arrive .non [0xaa] 9 "r", .process, .ret 1]).callers 1).bind (·.res) = some (.ok ⟨.non, [0xaa], 9, "r", 0⟩) := by decide +kernel

end CoapVerif.Props.C03

section Audit
open CoapVerif.Props.C03
#print axioms resp_token_matches_hash
#print axioms resp_token_matches
#print axioms at_most_one_receiver
#print axioms no_cross_delivery
#print axioms distinctRequests_fresh
#print axioms response_reaches_request
#print axioms outstanding_iff_registered
#print axioms held_was_sent_by_the_peer
#print axioms late_copy_goes_to_default
#print axioms retransmission_reaches_nobody
#print axioms duplicate_token_rejected_first_kept
#print axioms deliver_miss_default_eq
#print axioms second_do_rejected
#print axioms deliver_consumes
#print axioms deliver_miss_default
#print axioms dup_resp_harmless
#print axioms dup_dropped_when_slot_full
#print axioms return_clears
#print axioms leave_clears
#print axioms response_reaches_caller
#print axioms registered_token_eq
#print axioms shape_agrees
#print axioms crc64_check
end Audit
