import CoapVerif.Model.TokenGen
import CoapVerif.Props.C03
/-!
# C03 — requests whose token the library chooses

Statement (properties.jsonl, C03): "Whenever any number of requests with distinct tokens are outstanding concurrently on one
connection … every request call that returns successfully returns a response carrying its own token and the content the peer
produced for that request. …"  Mechanism: "random 8-byte tokens by default — message/getToken.go: GetToken".

For a caller that lets the library choose the token the premise *requests with distinct tokens* is the generator's to provide.  This
module proves it for the generator as the code is (`Model.TokenGen`: one read of the random source per token), for runs of any
length — the 513th, the 65 537th token are as fresh as the second:

* `draw_mem`                       the tokens handed out are exactly the successive reads of the source;
* `fresh_token_never_in_use`       (judge clause fresh-token) the token chosen after any number of draws differs from every token chosen before;
* `library_tokens_nodup`           all tokens of a run are pairwise different;
* `library_requests_are_distinct`  a history whose requests carry the tokens the generator handed out satisfies `DistinctRequests`, the
                                   premise of `response_reaches_request`, `late_copy_goes_to_default`, … of `Props/C03.lean`;
* `answer_to_another_request_not_held` (judge clause peer-produced, strengthened) in such a history a message that echoes the token of
                                   request c' is never handed to another request c — in particular not a late duplicate of the answer to an
                                   earlier, finished exchange.

The hypothesis `SrcFresh` (the reads of the random source returned pairwise different strings) is the one thing the random source is
trusted for; the second example shows that a source which repeats (what a generator that never re-reads its block amounts to) breaks the
conclusion.
-/
namespace CoapVerif.Props.C03Gen
open CoapVerif.Model.TokenGen
open CoapVerif.Model.TokenTable (Event Cfg Caller Msg run)

theorem draw_mem (src : Source) : ∀ (n : Nat) (g : Gen) (t : Token), t ∈ draw src n g ↔ ∃ i, i < n ∧ t = src (g.reads + i)
  | 0, g, t => by simp [draw]
  | n + 1, g, t => by
    simp only [draw, getToken, List.mem_cons, draw_mem src n]
    constructor
    · rintro (h | ⟨i, hi, h⟩)
      · exact ⟨0, by omega, by simpa using h⟩
      · exact ⟨i + 1, by omega, by rw [h]; congr 1; omega⟩
    · rintro ⟨i, hi, h⟩
      cases i with
      | zero => exact Or.inl (by simpa using h)
      | succ k => exact Or.inr ⟨k, by omega, by rw [h]; congr 1; omega⟩

/-- **fresh-token.**  After `n` draws — however many — the token the generator hands out next is none of the `n` handed out before. -/
theorem fresh_token_never_in_use (src : Source) (g : Gen) (n : Nat) (hs : SrcFresh src g.reads (n + 1)) :
    (getToken src (after n g)).1 ∉ draw src n g := by
  intro hm
  obtain ⟨i, hi, h⟩ := (draw_mem src n g _).1 hm
  have := hs n i (by omega) (by omega) (by simpa [getToken, after] using h)
  omega

theorem library_tokens_nodup (src : Source) : ∀ (n : Nat) (g : Gen), SrcFresh src g.reads n → (draw src n g).Nodup
  | 0, _, _ => by simp [draw]
  | n + 1, g, hs => by
    simp only [draw, getToken, List.nodup_cons]
    refine ⟨?_, library_tokens_nodup src n _ ?_⟩
    · intro hm
      obtain ⟨i, hi, h⟩ := (draw_mem src n _ _).1 hm
      have e : g.reads + (i + 1) = g.reads + 1 + i := by omega
      have h' : src (g.reads + 0) = src (g.reads + (i + 1)) := by rw [e]; exact h
      have := hs 0 (i + 1) (by omega) (by omega) h'
      omega
    · intro i j hi hj h
      have ei : g.reads + (i + 1) = g.reads + 1 + i := by omega
      have ej : g.reads + (j + 1) = g.reads + 1 + j := by omega
      have := hs (i + 1) (j + 1) (by omega) (by omega) (by rw [ei, ej]; exact h)
      omega

/-- **The library provides the property's premise.**  A history (any length, any schedule) whose requests carry, in order, the tokens the
    generator handed out — a fresh source, a key function that separates these tokens — is a history of requests with distinct tokens. -/
theorem library_requests_are_distinct (h : Token → Nat) (src : Source) (g : Gen) (n : Nat) (evs : List Event)
    (htok : CoapVerif.Lemmas.TokenReach.doTokens evs = draw src n g) (hs : SrcFresh src g.reads n)
    (hinj : ∀ a ∈ draw src n g, ∀ b ∈ draw src n g, h a = h b → a = b) : CoapVerif.Props.C03.DistinctRequests h evs := by
  unfold CoapVerif.Props.C03.DistinctRequests
  rw [htok]
  exact ⟨library_tokens_nodup src n g hs, hinj⟩

/-- **peer-produced, strengthened.**  Two requests of such a history have different tokens, so a message that echoes the token of request
    `c'` (the answer to `c'`, or any later copy of it) is never handed to request `c`. -/
theorem answer_to_another_request_not_held (h : Token → Nat) (cfg : Cfg) (evs : List Event)
    (inj : CoapVerif.Props.C03.HashInj h (CoapVerif.Lemmas.TokenTable.tokensInPlay evs))
    (c c' : Nat) (cl cl' : Caller) (m : Msg)
    (hc : (run h cfg evs).callers c = some cl) (hc' : (run h cfg evs).callers c' = some cl')
    (hne : cl.tok ≠ cl'.tok) (hm : m.tok = cl'.tok) : ¬ CoapVerif.Lemmas.TokenTable.Holds (run h cfg evs) c m :=
  CoapVerif.Props.C03.no_cross_delivery h cfg evs inj c c' cl cl' m hc hc' hne hm

/-- **generator_shape_agrees.**  The model's generator is the code's: `GetToken` (re-read from the AST on every run, `gen_tokenhash.go`) makes
    one read of the random source per call, straight into the 8-byte token it returns, and mentions nothing that outlives the call. -/
theorem generator_shape_agrees :
    CoapVerif.Generated.TokenHash.readsPerToken = 1 ∧ ∀ src g, (getToken src g).2.reads = g.reads + CoapVerif.Generated.TokenHash.readsPerToken := by
  refine ⟨by decide, ?_⟩
  intro src g
  simp [getToken, CoapVerif.Generated.TokenHash.readsPerToken]

/-- non-vacuity: a source whose k-th read is the number k; 40 draws are fresh, the 41st token is new -/
def countingSource : Source := fun k => [UInt8.ofNat (k / 256), UInt8.ofNat (k % 256), 0, 0, 0, 0, 0, 0]

example : (draw countingSource 3 {}) = [[0, 0, 0, 0, 0, 0, 0, 0], [0, 1, 0, 0, 0, 0, 0, 0], [0, 2, 0, 0, 0, 0, 0, 0]] := by decide
example : (draw countingSource 40 {}).Nodup ∧ (getToken countingSource (after 40 {})).1 ∉ draw countingSource 40 {} := by decide

/-- a source that starts over after two reads (what a generator amounts to that never re-reads its block): the third token is the first -/
example : ¬ (draw (fun k => [UInt8.ofNat (k % 2)]) 3 {}).Nodup := by decide

section Audit
#print axioms draw_mem
#print axioms fresh_token_never_in_use
#print axioms library_tokens_nodup
#print axioms library_requests_are_distinct
#print axioms answer_to_another_request_not_held
#print axioms generator_shape_agrees
end Audit

end CoapVerif.Props.C03Gen
