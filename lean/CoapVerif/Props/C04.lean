import CoapVerif.Go.Basic
import CoapVerif.Model.Blockwise
import CoapVerif.Spec.Blockwise
import CoapVerif.Lemmas.Blockwise
/-!
# C04 — Block-wise transfer delivers the exact body exactly once, or fails

Statement (properties.jsonl): for every body size, every combination of the two endpoints' maximum block sizes
(including BERT on stream transports), both directions (request upload and response download) and both exchange
styles (request/response and one-way write), a block-wise exchange that completes hands the receiving application
exactly the bytes the sending application supplied, exactly once and with the message's other options preserved.
Duplicated, stale, out-of-order or foreign-token blocks never corrupt, truncate or extend a body, and concurrent
transfers with different tokens never mix.  An exchange that cannot complete ends with an error or timeout — never
with a partial body presented as complete, and never by hanging.

Model: `Model/Blockwise.lean` (thresholds, the Block1 addend, the shape of the shortcuts and of the ETag restart are
regenerated from /repo: `Generated/BlockwiseXfer.lean`; the option codec and its constants are C19's).

How the statement is covered.
* Sender: `slice_covers`, `slice_available` — everything `createSendingMessage` can emit, for whatever block the peer
  asks for, is an aligned slice of the body with the message's options, `more` clear iff it ends the body.
* Receiver, for **every sequence of arrivals** (`Endpoint.run` over an arbitrary `List Arrival`: any messages, any
  order, any multiplicity, any times, sweeps in between — deliver / duplicate / drop / reorder / replay of the
  network are all such sequences): `reassembly_prefix` (invariant), `complete_eq`, `no_partial_as_complete`, `once`.
  The hypothesis on arrivals is `GoodMsg`: a data block is a slice of what was supplied under its token and ETag —
  which `slice_covers` provides for every block a sender of this model emits; `system_safe` closes the loop for
  two endpoints and the relay under every fault script.
* `tokens_independent`, `szx_negotiation_min`, `etag_change_restarts`, `expiry_finite` ("never by hanging": every
  waiting state has a finite deadline), `faultfree_progress_block1/2` (auxiliary: one round for a symbolic block
  index, equal non-BERT exponents; the induction over the rounds is run on instances only), and the two negative
  results of DESIGN §6: `oneway_block1_never_completes` (O1), `bert_first_block_stalls` (O2).

Scope of the registry.  `Reg` (token → ETag → what was supplied) is time-independent: during one run a token, together
with an ETag, stands for one body.  `GoodMsg R` therefore excludes, by hypothesis, a caller that re-uses a token for
another body while blocks of the earlier body can still arrive or are still held (aborted transfer, then the same token
again within the expiry).  That case is real (finding F10e: the pinned code appends the new body's later blocks to the
stale prefix); with docs/fixes/F10e.diff the first block of the new body restarts the reassembly and
`token_reuse_restarts` re-establishes the invariant at that moment for the registry of the new body.  What stays
excluded, because nothing on the wire distinguishes it without an ETag: blocks of the old body arriving after the new
first block, later blocks of the new body arriving before it.

Hypotheses that are assumptions about the environment: token ↔ table key injective (C03's `HashInj`), the ETag
discipline of RFC 7959 §2.4 (`Discipline`), tokens are not empty (the layer hands token-less blocks on unassembled).
-/
namespace CoapVerif.Props.C04
open CoapVerif CoapVerif.Model.Blockwise CoapVerif.Model.BlockOpt CoapVerif.Generated.BlockwiseXfer
open CoapVerif.Lemmas.Blockwise

/-! ## Sender -/

/-- **slice_covers.** Whatever block the peer asks for: what `createSendingMessage` emits for a cached message is an
    aligned slice of that message's body (offset NUM·size, at most one buffer long), it is flagged `more` exactly
    when it does not end the body, the exponent is the smaller of the two sides', and code, token, ETag and the
    other options are the message's. -/
theorem slice_covers {sm : Msg} {mx ms blk : Nat} {m : Msg} {more : Bool}
    (hms : mx < 7 ∨ 1024 ≤ ms) (h : createSending sm mx ms blk = some (m, more)) :
    ∃ v szx num, m.block (sendBT sm.code) = some v ∧ decodeBlock v = .ok (szx, num, more) ∧ szx ≤ mx ∧
      SliceAt sm.body (num * sizeN szx) m.body ∧ m.body.length ≤ bufLen szx ms ∧
      (more = false ↔ num * sizeN szx + m.body.length = sm.body.length) ∧
      m.code = sm.code ∧ m.tok = sm.tok ∧ m.etag = sm.etag ∧ m.other = sm.other :=
  createSending_slice hms h

/-- … and every aligned slice can be had: asking for block `n0` of a response that reaches that far succeeds.  (Since repair
    F39 a message WITHOUT body has no block at all — `bodyless_request_has_no_block` —, hence `0 < sm.body.length`.) -/
theorem slice_available {sm : Msg} {mx ms blk s0 n0 : Nat} {m0 : Bool}
    (hdec : decodeBlock blk = .ok (s0, n0, m0)) (hb2 : sendBT sm.code = .b2)
    (hoff : n0 * sizeN (getSzx s0 mx) ≤ sm.body.length) (hlen : sm.body.length < 4294967296) (hne : 0 < sm.body.length) :
    ∃ m more, createSending sm mx ms blk = some (m, more) := by
  have hs7 : getSzx s0 mx ≤ 7 := Nat.le_trans (getSzx_le_left _ _) (decode_szx_le hdec)
  have hn : n0 < 2 ^ 20 := by
    have hd := Props.C19.decode_eq_spec blk
    rw [hdec] at hd
    unfold Spec.BlockOpt.decode at hd
    by_cases hv : blk < 2 ^ 24
    · simp only [hv, if_true, Except.toOption] at hd
      injection hd with hd; injection hd with _ hd; injection hd with h2 _
      omega
    · simp [hv, Except.toOption] at hd
  unfold createSending createSendingWith
  simp only [hdec]
  unfold createSendingAt sendOffWith
  simp only [hb2]
  have e0 : (BT.b2 == BT.b1) = false := by decide
  simp only [e0, Bool.false_and, Bool.false_eq_true, if_false, Nat.add_zero]
  have e1 : ¬ (bufLen (getSzx s0 mx) ms > 0 ∧ n0 * sizeN (getSzx s0 mx) > sm.body.length) := by omega
  have e2 : ¬ sm.body.length ≥ 4294967296 := by omega
  rw [if_neg (bodyless_test_neg hne), if_neg e1, if_neg e2]
  rw [Nat.mul_div_cancel _ (sizeN_pos hs7)]
  rw [Props.C19.encode_total _ _ _ hs7 (by omega) (by omega)]
  exact ⟨_, _, rfl⟩

example : (createSending { code := 69, tok := 7, body := (List.range 40).map UInt8.ofNat } 0 64 16).map
    (fun p => (p.1.body, p.1.block2, p.1.size2, p.2)) = some ((List.range' 16 16).map UInt8.ofNat, some 24, some 40, true) := by decide

/-! ## Receiver: every sequence of arrivals -/

/-- the hypotheses below are satisfiable: an ETag-disciplined registry, an endpoint with empty caches, a middle and
    the final block of a 40-byte body -/
example : Discipline exR ∧ EpInv exR exEp ∧ GoodMsg exR (exBlk 1 true) ∧ GoodMsg exR (exBlk 2 false) := by
  refine ⟨by intro tok e s s' _ h2; simp [exR] at h2, by intro tok e he; simp [exEp, Cache.empty] at he, ?_, ?_⟩
  · intro bt hbt
    have h : dataBT (exBlk 1 true).code = some .b1 := by decide
    rw [h] at hbt
    have := (Option.some.inj hbt).symm
    subst this
    intro blk szx n mr hb hdec
    have hblk : blk = 24 := (Option.some.inj hb).symm
    subst hblk
    have hd : decodeBlock 24 = .ok (0, 1, true) := by decide
    rw [hd] at hdec
    injection hdec with hdec; injection hdec with e1 hdec; injection hdec with e2 e3
    subst e1 e2 e3
    exact ⟨⟨exBody, [(11, [99])], 2⟩, ⟨by simp [exR, exBlk], rfl, rfl, rfl⟩, ⟨by decide, ⟨exBody.drop 32, by decide⟩⟩, by intro h; cases h⟩
  · intro bt hbt
    have h : dataBT (exBlk 2 false).code = some .b1 := by decide
    rw [h] at hbt
    have := (Option.some.inj hbt).symm
    subst this
    intro blk szx n mr hb hdec
    have hblk : blk = 32 := (Option.some.inj hb).symm
    subst hblk
    have hd : decodeBlock 32 = .ok (0, 2, false) := by decide
    rw [hd] at hdec
    injection hdec with hdec; injection hdec with e1 hdec; injection hdec with e2 e3
    subst e1 e2 e3
    exact ⟨⟨exBody, [(11, [99])], 2⟩, ⟨by simp [exR, exBlk], rfl, rfl, rfl⟩, ⟨by decide, ⟨[], by decide⟩⟩, by intro _; decide⟩

/-- … and the conclusions are not empty: blocks 1, 0, 0 (duplicate), 1 (again), 2 (final), 2 (replay of the final
    block) make exactly one delivery, of exactly the 40 bytes, with the block options removed and the other options
    kept; the replayed final block delivers nothing. -/
example : ((Endpoint.run (fun _ => none) exEp
      [.msg 0 (exBlk 1 true), .msg 1 (exBlk 0 true), .msg 2 (exBlk 0 true), .msg 3 (exBlk 1 true),
       .msg 4 (exBlk 2 false), .msg 5 (exBlk 2 false)]).2.map (fun d => (d.body, d.block1, d.size1, d.other))) =
    [(exBody, none, none, [(11, [99])])] := by decide

/-- **reassembly_prefix.** For every sequence of arrivals whose data blocks are slices of what was supplied under
    their token and ETag — in any order, with any duplicates, gaps, stale copies and sweeps in between — the bytes
    held for a token are at all times a prefix of the body being sent under that token / ETag. -/
theorem reassembly_prefix {R : Reg} (hd : Discipline R) (app : App) (ep : Endpoint) (as : List Arrival)
    (hg : ∀ now r, Arrival.msg now r ∈ as → GoodMsg R r) (hinv : EpInv R ep) :
    EpInv R (Endpoint.run app ep as).1 :=
  (run_inv hd app as ep hg hinv).1

/-- **complete_eq.** Under the same hypotheses every message handed to the application is either an arrival that
    carries no data block of its direction, handed on as it is, or exactly what was supplied under its token and
    ETag: same body, same other options, same code. -/
theorem complete_eq {R : Reg} (hd : Discipline R) (app : App) (ep : Endpoint) (as : List Arrival)
    (hg : ∀ now r, Arrival.msg now r ∈ as → GoodMsg R r) (hinv : EpInv R ep) :
    ∀ d ∈ (Endpoint.run app ep as).2, (∃ now, Arrival.msg now d ∈ as ∧ NoData d) ∨ Complete R d.tok d :=
  (run_inv hd app as ep hg hinv).2

/-- **no_partial_as_complete.** A message that reaches the application with a data block option of its direction
    still on it (the single-block shortcut) or after reassembly never has a body shorter or longer than what was
    supplied: a partial body is never presented as complete. -/
theorem no_partial_as_complete {R : Reg} (hd : Discipline R) (app : App) (ep : Endpoint) (as : List Arrival)
    (hg : ∀ now r, Arrival.msg now r ∈ as → GoodMsg R r) (hinv : EpInv R ep)
    (d : Msg) (hdel : d ∈ (Endpoint.run app ep as).2) (hdata : ¬ NoData d) :
    ∃ s, R d.tok d.etag = some s ∧ d.body.length = s.body.length ∧ d.body = s.body := by
  rcases complete_eq hd app ep as hg hinv d hdel with ⟨_, _, hn⟩ | ⟨s, h1, h2, _⟩
  · exact absurd hn hdata
  · exact ⟨s, h1, by rw [h2], h2⟩

/-- **once.** For *every* sequence of arrivals (no hypothesis on their content): the number of messages handed to
    the application on behalf of a token, plus one if bytes are still held for it, never exceeds the number of
    arrivals of that token that can start a body (block number 0, or not a data block at all) plus one if bytes
    were held at the beginning.  Each reassembly is delivered at most once; a late duplicate or a replay of a final
    block delivers nothing.

    What this is *not*: "exactly once" under replay of a whole transfer.  If the network replays every block of a
    completed transfer in order (0, 1, 2, 0, 1, 2) the first block arrives twice and two deliveries are within the
    bound — and happen: the receiver has no way to tell a replayed transfer from a repeated one (no ETag, no memory of
    completed tokens; on datagram transports the message-ID de-duplication of C05 sits below this layer).  "At most
    once per arrival of a first block" is what the layer provides and what is proved; `once_if_first_block_arrives_once`
    is the reading under the discipline "a first block of a token arrives at most once". -/
theorem once (app : App) (tok : Nat) (htok : tok ≠ 0) (ep : Endpoint) (as : List Arrival) :
    deliveredFor app tok ep as + heldNe ((Endpoint.run app ep as).1.receiving tok) ≤
      heldNe (ep.receiving tok) + startsFor tok as :=
  run_once app tok htok as ep

example : deliveredFor (fun _ => none) 7 exEp [.msg 0 (exBlk 0 true), .msg 1 (exBlk 1 true), .msg 4 (exBlk 2 false), .msg 5 (exBlk 2 false)] = 1 ∧
    startsFor 7 [.msg 0 (exBlk 0 true), .msg 1 (exBlk 1 true), .msg 4 (exBlk 2 false), .msg 5 (exBlk 2 false)] = 1 := by decide

/-- in particular: from an empty cache, at most as many deliveries as first blocks arrived -/
theorem once_from_empty (app : App) (tok : Nat) (htok : tok ≠ 0) (ep : Endpoint) (as : List Arrival)
    (hempty : ep.receiving tok = none) : deliveredFor app tok ep as ≤ startsFor tok as := by
  have := once app tok htok ep as
  rw [hempty] at this
  simp [heldNe] at this
  omega

/-- under the discipline that the first block of a token arrives at most once (no replay of a whole transfer, no re-use
    of the token), at most one message is handed to the application on behalf of the token: exactly once or not at all -/
theorem once_if_first_block_arrives_once (app : App) (tok : Nat) (htok : tok ≠ 0) (ep : Endpoint) (as : List Arrival)
    (hempty : ep.receiving tok = none) (h1 : startsFor tok as ≤ 1) : deliveredFor app tok ep as ≤ 1 :=
  Nat.le_trans (once_from_empty app tok htok ep as hempty) h1

/-- **tokens_independent.** `Handle` calls for messages with different tokens commute: the same caches result and
    each call produces the same reply, deliveries and error report whichever comes first — concurrent transfers
    with different tokens never mix. -/
theorem tokens_independent (ep : Endpoint) (t1 t2 : Int) (r1 r2 : Msg) (app : App) (h : r1.tok ≠ r2.tok) :
    (handle (handle ep t1 r1 app).1 t2 r2 app).1 = (handle (handle ep t2 r2 app).1 t1 r1 app).1 ∧
    (handle (handle ep t1 r1 app).1 t2 r2 app).2 = (handle ep t2 r2 app).2 ∧
    (handle (handle ep t2 r2 app).1 t1 r1 app).2 = (handle ep t1 r1 app).2 :=
  handle_comm ep t1 t2 r1 r2 app h

/-- **szx_negotiation_min.** The exponent of every block a sender emits is the minimum of its own maximum and the
    one asked for; the exponent a receiver negotiates is the minimum of its own maximum and the block's; its answers
    carry exactly the exponent it was given. -/
theorem szx_negotiation_min :
    (∀ {sm : Msg} {mx ms blk s0 n0 : Nat} {m0 : Bool} {m : Msg} {more : Bool},
      decodeBlock blk = .ok (s0, n0, m0) → createSending sm mx ms blk = some (m, more) →
      ∃ v num, m.block (sendBT sm.code) = some v ∧ decodeBlock v = .ok (min s0 mx, num, more)) ∧
    (∀ {r : Msg} {bt : BT} {v s n : Nat} {m : Bool} (mx : Nat), r.block bt = some v → decodeBlock v = .ok (s, n, m) →
      fitSZX r bt mx = min mx s) ∧
    (∀ (r : Msg) (bt : BT) (mx : Nat), fitSZX r bt mx ≤ mx) ∧
    (∀ {bt : BT} {sent : Option Msg} {tok szx num held : Nat} {more : Bool} {m : Msg},
      blockReply bt sent tok szx num held more = some m → ∃ v n, m.block bt = some v ∧ decodeBlock v = .ok (szx, n, more)) :=
  ⟨createSending_szx, fitSZX_some, fitSZX_le, blockReply_szx⟩

/-- **etag_change_restarts.** A block whose ETag differs from the ETag of what is held discards the held bytes and
    takes over ETag, options and code of the new representation: afterwards exactly this block's payload is held
    if it is the first block, and nothing otherwise.  With an equal ETag what is held is kept (and extended iff the
    block starts where it ends) — unless the block is a first block and first blocks restart the transfer (F10e). -/
theorem etag_change_restarts {r c0 : Msg} {a b : Bytes} (hr : r.etag = some a) (hc : c0.etag = some b) (off : Nat) :
    (a ≠ b → (absorb r c0 off).1.etag = some a ∧ (absorb r c0 off).1.other = r.other ∧ (absorb r c0 off).1.code = r.code ∧
      (absorb r c0 off).1.body = (if off = 0 then r.body else [])) ∧
    (a = b → ¬ (block0Restarts = true ∧ off = 0) →
      (absorb r c0 off).1.body = if off = c0.body.length then c0.body ++ r.body else c0.body) :=
  ⟨fun hab => absorb_restart hr hc hab off, fun hab hnr => absorb_same (by rw [hr, hc, hab]) off hnr⟩

/-- **token_reuse_restarts** (F10e; holds once `block0Restarts` is regenerated as `true`, i.e. with docs/fixes/F10e.diff in the
    tree).  The registry `Reg` of the exactness theorems is time-independent: a token (with an ETag) stands for one body
    during the whole run.  A caller that re-uses a token for another body — typically after an aborted transfer, within
    the expiry of the entry — leaves that frame at the moment the new body's first block arrives.  This theorem is the
    bridge: whatever is held under the token at that moment (`c0` is arbitrary: a prefix of the abandoned body, with
    its options), the first block of the new body replaces it; afterwards exactly that block is held with the new
    body's options, code and ETag, so `reassembly_prefix` / `complete_eq` apply again with the registry in which the
    token stands for the new body.  **Excluded, because indistinguishable on the wire without an ETag:** blocks of the
    old body that arrive after the new first block, and later blocks of the new body that arrive before it. -/
theorem token_reuse_restarts {R : Reg} (hfix : block0Restarts = true) {tok : Nat} {r c0 : Msg} {s : Supplied}
    (htok : c0.tok = tok) (hr : Matches R tok r s) (hs : SliceAt s.body 0 r.body) :
    (absorb r c0 0).2 = true ∧ Matches R tok (absorb r c0 0).1 s ∧ (absorb r c0 0).1.body = r.body ∧
    (absorb r c0 0).1.body <+: s.body ∧ (r.body.length = s.body.length → (absorb r c0 0).1.body = s.body) :=
  absorb_first_block_ok hfix htok hr hs

/-- **expiry_finite** ("never by hanging"): every waiting state of the model has a finite deadline.  A cache entry
    is invisible to `Load` after its deadline and removed by the next sweep (a receiving entry takes the sending
    entry of its key along); a `Do` call whose context deadline has been reached returns.

    Clause 4 needs `p.deadline = some t`: a `Pending` without deadline never returns by time in the model, and neither
    does the code — `Do` with a context without deadline blocks in `doInternal` until the response arrives, the context
    is cancelled or the connection is closed (C09's subject); the block-wise layer adds no timer of its own to the call
    (its cache entries then live for `expiration` from their creation and the receive path stops answering, but the
    caller is not woken).  "Never by hanging" is therefore proved for callers that bound their calls, which is what the
    statement's "error or timeout" presupposes; the harness always sets a deadline and the judge's `hang` clause checks
    that every call has returned at the end. -/
theorem expiry_finite :
    (∀ (e : Entry) (now : Int), now > e.validUntil → live (some e) now = none) ∧
    (∀ (ep : Endpoint) (now : Int) (k : Nat) (e : Entry), ep.receiving k = some e → now > e.validUntil →
      (sweep ep now).receiving k = none ∧ (sweep ep now).sending k = none) ∧
    (∀ (ep : Endpoint) (now : Int) (k : Nat) (e : Entry), ep.sending k = some e → now > e.validUntil →
      (sweep ep now).sending k = none) ∧
    (∀ (w : World) (d : Int) (p : Pending) (t : Int), p ∈ w.pending → p.deadline = some t → t ≤ w.now + d →
      p ∉ (w.sleep d).1.pending ∧ Event.ret p.tok none ∈ (w.sleep d).2) := by
  refine ⟨live_expired, fun ep now k => (sweep_removes ep now k).1, fun ep now k => (sweep_removes ep now k).2, ?_⟩
  intro w d p t hp hdl hle
  constructor
  · intro hmem
    simp only [World.sleep, List.mem_filter] at hmem
    have := hmem.2
    simp only [hdl, decide_eq_true_eq] at this
    omega
  · simp only [World.sleep, List.mem_map, List.mem_filter]
    exact ⟨p, ⟨hp, by simp [hdl, hle]⟩, rfl⟩

/-! ## Two endpoints and the relay: every fault script -/

/-- **guard_held_across_handler** — the obligation the model's atomicity rests on.  `handleS` treats one `Handle` call on a
    token's reassembly entry as one atomic step *including* the call of the application handler (`next`).  In the code
    that is the critical section of the entry's binary semaphore (`messageGuard`): acquired in
    `getCachedReceivedMessage` before the cached message is touched, released only by the deferred close function of
    `processReceivedMessage`, i.e. after `next(w, cachedReceivedMessage)` has returned — no earlier release, no `go`
    statement in between.  The extractor reads exactly this shape from the AST (`guardReleasedOnlyAfterNext`) and fails
    closed on any other; with an earlier release a late block of the same token (since F10e: a block 0 restarts the
    transfer in place) could rewrite the body while the handler still reads it, which no theorem about the sequential
    model would notice.  The concurrent correspondence `TestC04Guard` exercises the same discipline on the real code. -/
theorem guard_held_across_handler : guardReleasedOnlyAfterNext = true := rfl

/-- **layer_per_connection** — what "`Endpoint` = one connection" rests on.  The caches of the layer are keyed by the token
    alone and tokens are scoped to a connection (RFC 7252 §5.3.1), so the model's endpoint — and with it every theorem
    here — describes one connection's layer.  That each accepted / dialled connection gets a layer of its own is read
    from the set-up code of the tcp, udp and dtls servers and clients (`createBlockWise` is a function literal returning
    `blockwise.New(…)`; any other shape fails the extractor) and exercised on a real `tcp.Server` with several peers that
    use one token (`TestC04TcpServer`). -/
theorem layer_per_connection : layerPerConnection = true := rfl

/-- **datagram_read_buffer_is_mtu** — what "an arrival is a message the peer's layer emitted" rests on for datagrams: the
    session reads into a buffer of a whole MTU, so a datagram longer than the maximum message size keeps its length and is
    refused by the connection (the exchange fails) instead of being cut to the limit by the socket and decoded as a shorter,
    well-formed block (`TestC04UdpDial` runs a real `udp.Dial` client against such datagrams). -/
theorem datagram_read_buffer_is_mtu : datagramReadBufferIsMTU = true := rfl

/-- **deadlines_are_finite** — what `expiry_finite` rests on: `Entry.validUntil` is an `Int`, the model has no "never".  In
    the code the cache treats the zero time as "never expires".  Read from the source: every deadline handed to
    `cache.NewElement` is the context's deadline or `time.Now().Add(b.expiration)` — also for an expiration of 0
    (`deadlinesAreNowPlusExpiration`; any other shape fails the extractor) — with ONE exception since repair F35: the entry
    `Do` makes for its request gets the context's deadline or, without one, the zero time, and is removed by `Do`'s
    deferred `Delete` when the call returns (`doEntryLivesAsLongAsTheCall`; modelled by `Model.Blockwise.never`).  The
    judge's `leak` clause checks the consequence on every history: long after every deadline, both sides swept and every
    call returned, no cache entry is held. -/
theorem deadlines_are_finite : deadlinesAreNowPlusExpiration = true ∧ doEntryLivesAsLongAsTheCall = true := ⟨rfl, rfl⟩

/-- **do_entry_lives_as_long_as_the_call** (repair F35).  The one entry without a time limit: the request `Do` registers
    when the caller's context has no deadline.  In the code its deadline is the zero time, which the cache reads as "never";
    the model's `Entry.validUntil` is an `Int`, so "never" is the sentinel `Model.Blockwise.never` = 2^62 ns (≈ 146 years).
    What is proved: such an entry is stored with exactly that sentinel, it is visible to `Load` at every time up to the
    sentinel (no sweep and no expiry drops it), and it ends with the call: `Do`'s deferred `Delete` (`doFinish`) empties the
    slot.  **Horizon:** for `now > never` the model would hide the entry while the code keeps it — the theorems about time
    (`expiry_finite`) are statements about the model at every `now`, but model and code agree on these entries only up to the
    sentinel; the driver's clock starts at 0 and a history advances it by seconds to hours (the generators' sleeps, `end` =
    +1 h), 14 orders of magnitude below it.  `expiry_finite` clauses 1–3 therefore say nothing useful about a `Do` entry
    without deadline (formally they expire it at 2^62): its end is clause 3 of this theorem, and clause 4 of `expiry_finite`
    for calls that do have a deadline. -/
theorem do_entry_lives_as_long_as_the_call :
    (∀ (cfg : Cfg) (snd : Option Entry) (now : Int) (r m : Msg), r.deadline = none →
      (doStartS cfg snd now r).2 = some m → (doStartS cfg snd now r).1 = some ⟨r, never⟩) ∧
    (∀ (r : Msg) (now : Int), now ≤ never → live (some ⟨r, never⟩) now = some ⟨r, never⟩) ∧
    (∀ (ep : Endpoint) (tok : Nat), (doFinish ep tok).sending tok = none) := by
  refine ⟨?_, fun r now h => live_fresh ⟨r, never⟩ now h, fun ep tok => by simp [doFinish, Cache.put]⟩
  intro cfg snd now r m hd hm
  unfold doStartS at hm ⊢
  simp only [hd] at hm ⊢
  split
  · rename_i h; simp [h] at hm
  split
  · rename_i _ h; simp [h] at hm
  rename_i h1 h2
  simp only [if_neg h1, if_neg h2] at hm
  unfold storeIfAbsent at hm ⊢
  cases hl : live snd now with
  | some e => simp [hl] at hm
  | none =>
    simp only [hl] at hm ⊢
    simp only [Bool.false_eq_true, if_false] at hm ⊢
    split
    · rfl
    · rename_i hf
      simp only [hf, if_false, Bool.false_eq_true] at hm
      split
      · rename_i hp; simp [hp] at hm
      · rename_i hp
        simp only [hp, if_false, Bool.false_eq_true] at hm
        split
        · rename_i hlen; simp [hlen] at hm
        · rename_i hlen
          simp only [hlen, if_false] at hm
          split
          · rename_i e he; simp [he] at hm
          · rfl

/-- **caches_own_their_messages** — what "an entry's message is the reassembly buffer of its token, and only of it" rests
    on: the model's entries hold values; in the code they hold pooled messages, and a message handed back to the pool while
    an entry (or a running `Handle` call) still refers to it is given out again as the buffer of another token.  No
    `onExpire` callback and no path of `getCachedReceivedMessage` releases a message, and the close list is extended by
    `appendToClose` (guards) only (`cachesOwnTheirMessages`, fail-closed); `TestC04Pool` runs the two places where goroutines
    meet — the same first block twice at the same moment, the sweep during an append — over a tracking LIFO pool. -/
theorem caches_own_their_messages : cachesOwnTheirMessages = true := rfl

/-- **system_safe.** A (client) and B (server) joined by the relay.  For every script of relay decisions — deliver,
    duplicate, drop, swap, replay of any message that ever was in flight —, calls of `Do` and one-way `WriteMessage`
    by A's application, sleeps and cache sweeps: every message either layer hands to its application is an arrival
    that carries no data block of its direction, handed on as it is, or exactly what the peer's application supplied
    under that token and ETag (body, other options, code).  One relay decision = one `Handle` call = one atomic step:
    that several goroutines working on one token are serialised this way — the handler included — is the guard
    discipline `guard_held_across_handler` (regenerated from the source) plus the concurrent correspondence
    `TestC04Guard`; calls on different tokens commute (`tokens_independent`).  The invariant (`WInv`) behind it: held bytes are
    prefixes, cached sending messages are whole supplied messages, everything that ever was on the wire is `GoodMsg`. -/
theorem system_safe {RA RB : Reg} (hdA : Discipline RA) (hdB : Discipline RB) (hreq : RegReq RB)
    (w : World) (hw : WInv RA RB w) (ops : List Op)
    (hops : ∀ r, (Op.doReq r ∈ ops ∨ Op.writeReq r ∈ ops) → ReqOK RB r) :
    WInv RA RB (World.run w ops).1 ∧
    ∀ s d, Event.deliver s d ∈ (World.run w ops).2 → NoData d ∨ Complete (regOf RA RB s) d.tok d :=
  ⟨(world_run_inv hdA hdB hreq ops w hw hops).1, fun _ _ h => (world_run_inv hdA hdB hreq ops w hw hops).2 _ h⟩

/-- the hypotheses are satisfiable: the instance `exWorld` (16-byte blocks, B answers the POST of token 7 with 40 bytes)
    satisfies the invariant, its registries the ETag discipline, the request is admissible … -/
example : WInv exRA exR exWorld ∧ Discipline exRA ∧ Discipline exR ∧ RegReq exR ∧ ReqOK exR exReq := by
  refine ⟨?_, by intro tok e s s' _ h2; simp [exRA] at h2, by intro tok e s s' _ h2; simp [exR] at h2, ?_, ?_⟩
  · exact {
      ia := by intro tok e he; simp [exWorld, Cache.empty] at he
      ib := by intro tok e he; simp [exWorld, Cache.empty] at he
      sa := by intro tok e he; simp [exWorld, Cache.empty] at he
      sb := by intro tok e he; simp [exWorld, Cache.empty] at he
      pk := by intro p hp; simp [exWorld] at hp
      ca := by unfold CfgOK; decide
      cb := by unfold CfgOK; decide
      app := by
        intro d x hx
        simp only [exWorld, exApp] at hx
        split at hx
        · rename_i hc
          injection hx with hx
          subst hx
          exact ⟨⟨by simp [exRA, hc.2], rfl, rfl⟩, trivial⟩
        · cases hx }
  · intro tok e s hs
    simp only [exR] at hs
    split at hs
    · injection hs with hs; subst hs; unfold ReqCode; decide
    · cases hs
  · exact ⟨⟨by simp [exR, exReq], rfl, rfl⟩, by unfold ReqCode; decide⟩

/-- … and the run is not empty: upload in three blocks, the first block of the response duplicated by the relay, two old
    messages replayed at the end.  B's application is handed the 40-byte request exactly once, A's the 40-byte
    response exactly once; what else reaches A's application are signals of the layer (4.08, 2.31) caused by the
    duplicates, handed on as they are. -/
example : exDeliveries (World.run exWorld
    ([.doReq exReq] ++ List.replicate 5 (.fault .deliver) ++ [.fault .dup] ++ List.replicate 12 (.fault .deliver) ++
     [.fault (.replay 0), .fault (.replay 4)] ++ List.replicate 4 (.fault .deliver))).2 =
    [(false, 2, 40, true), (true, 68, 40, true), (true, 136, 0, false), (true, 95, 0, false), (true, 95, 0, false)] := by decide

/-! ## Progress without faults (auxiliary: shows that the safety theorems are not vacuous; not part of the verdict) -/

/-- **faultfree_progress_block1** (request upload, equal non-BERT exponents).  One round of the transfer, for a symbolic
    block index `k`: (1) the receiver, holding exactly the first `k ≥ 1` blocks, appends block `k` and acknowledges it with
    2.31 — or, if the block ends the body, removes its entry and hands the complete body to the application;
    (2) the sender, on that acknowledgement, emits block `k+1`.  Chaining the two from block 0 completes a body of
    `n` blocks after `n` arrivals at the receiver (the instance below runs the whole loop). -/
theorem faultfree_progress_block1 (cfg : Cfg) (r : Msg) (hs : cfg.szx < 7) (hpp : isPostPut r.code = true) (htok : r.tok ≠ 0) :
    (∀ (ent : Entry) (now : Int) (app : App) (ms k : Nat), now ≤ ent.validUntil →
      ent.msg.body = r.body.take (k * sizeN cfg.szx) → k * sizeN cfg.szx ≤ r.body.length → ent.msg.etag = r.etag → k < 2 ^ 20 →
      0 < k →
      ((k + 1) * sizeN cfg.szx < r.body.length →
        handleS cfg ⟨none, some ent⟩ now (uploadBlock r cfg.szx ms k) app =
          (⟨none, some ⟨{ ent.msg with body := r.body.take ((k + 1) * sizeN cfg.szx) }, ent.validUntil⟩⟩,
           { reply := some (uploadAck r.tok cfg.szx k) })) ∧
      (r.body.length ≤ (k + 1) * sizeN cfg.szx →
        (handleS cfg ⟨none, some ent⟩ now (uploadBlock r cfg.szx ms k) app).1.rcv = none ∧
        (handleS cfg ⟨none, some ent⟩ now (uploadBlock r cfg.szx ms k) app).2.delivered =
          [{ ent.msg with body := r.body, block1 := none, size1 := none }])) ∧
    (∀ (exp now : Int) (rcv : Option Entry) (app : App) (k : Nat), now ≤ exp →
      (k + 1) * sizeN cfg.szx ≤ r.body.length → r.body.length < 4294967296 → k + 1 < 2 ^ 20 →
      handleS cfg ⟨some ⟨r, exp⟩, rcv⟩ now (uploadAck r.tok cfg.szx k) app =
        (⟨some ⟨r, exp⟩, rcv⟩, { reply := some (uploadBlock r cfg.szx cfg.maxSize (k + 1)) })) :=
  ⟨fun ent now app ms k h1 h2 h3 h4 h5 h6 => receiver_round cfg r ent now app ms k hs hpp htok h1 h2 h3 h4 h5 h6,
   fun exp now rcv app k h1 h2 h3 h4 => sender_round cfg r exp now rcv app k hs hpp htok h1 h2 h3 h4⟩

/-- **faultfree_progress_block2** (response download, equal non-BERT exponents).  One round for a symbolic block index
    `j`: (1) the responder, with the response cached — a response WITH a body: since repair F39 a cached message without
    body has no block, `bodyless_request_has_no_block` —, answers the request for block `j` with block `j` (and drops the
    cached response with the last block); (2) the requester, holding exactly the first `j ≥ 1` blocks, appends block `j`
    and asks for block `j+1` — or, if the block ends the body, removes its entry and hands the complete body on. -/
theorem faultfree_progress_block2 (cfg : Cfg) (resp req : Msg) (hs : cfg.szx < 7) (hrq : isRequest req.code = true)
    (hnopp : isPostPut resp.code = false) (hnr : isRequest resp.code = false) (hnsig : isSignal resp.code = false)
    (hncont : resp.code ≠ codeContinue) (hrc : resp.code > codeDELETE) (hb1 : resp.block1 = none)
    (htok : resp.tok ≠ 0) (hqtok : req.tok ≠ 0) :
    (∀ (exp now : Int) (rcv : Option Entry) (app : App) (j : Nat), now ≤ exp →
      j * sizeN cfg.szx ≤ resp.body.length → resp.body.length < 4294967296 → j < 2 ^ 20 → 0 < resp.body.length →
      handleS cfg ⟨some ⟨resp, exp⟩, rcv⟩ now (downloadReq req cfg.szx j) app =
        (if (j + 1) * sizeN cfg.szx < resp.body.length then ⟨some ⟨resp, exp⟩, rcv⟩ else ⟨none, rcv⟩,
         { reply := some (downloadBlock resp cfg.szx cfg.maxSize j) })) ∧
    (∀ (sexp : Int) (ent : Entry) (now : Int) (app : App) (ms j : Nat), now ≤ ent.validUntil → now ≤ sexp →
      ent.msg.body = resp.body.take (j * sizeN cfg.szx) → j * sizeN cfg.szx ≤ resp.body.length → ent.msg.etag = resp.etag →
      j + 1 < 2 ^ 20 → 0 < j →
      ((j + 1) * sizeN cfg.szx < resp.body.length →
        handleS cfg ⟨some ⟨req, sexp⟩, some ent⟩ now (downloadBlock resp cfg.szx ms j) app =
          (⟨some ⟨req, sexp⟩, some ⟨{ ent.msg with body := resp.body.take ((j + 1) * sizeN cfg.szx) }, ent.validUntil⟩⟩,
           { reply := some (downloadReq req cfg.szx (j + 1)) })) ∧
      (resp.body.length ≤ (j + 1) * sizeN cfg.szx →
        (handleS cfg ⟨some ⟨req, sexp⟩, some ent⟩ now (downloadBlock resp cfg.szx ms j) app).1.rcv = none ∧
        (handleS cfg ⟨some ⟨req, sexp⟩, some ent⟩ now (downloadBlock resp cfg.szx ms j) app).2.delivered =
          [{ ent.msg with body := resp.body, block2 := none, size2 := none }])) :=
  ⟨fun exp now rcv app j h1 h2 h3 h4 h5 => responder_round cfg resp req exp now rcv app j hs hrq hnopp hrc hqtok h1 h2 h3 h4 h5,
   fun sexp ent now app ms j h1 h2 h3 h4 h5 h6 h7 =>
     requester_round cfg resp req sexp ent now app ms j hs hrq hnopp hnr hnsig hncont hb1 htok h1 h2 h3 h4 h5 h6 h7⟩

/-- the whole loop on an instance: a 40-byte POST (three 16-byte blocks) answered with 40 bytes (three blocks) completes in
    exactly 2·3 + 2·3 − 2 = 10 fault-free deliveries — both applications are handed the exact body, and A's call
    returns; after 9 deliveries the response has not been handed on yet. -/
example : exDeliveries (World.run exWorld ([.doReq exReq] ++ List.replicate 10 (.fault .deliver))).2 =
      [(false, 2, 40, true), (true, 68, 40, true)] ∧
    exDeliveries (World.run exWorld ([.doReq exReq] ++ List.replicate 9 (.fault .deliver))).2 = [(false, 2, 40, true)] ∧
    (World.run exWorld ([.doReq exReq] ++ List.replicate 10 (.fault .deliver))).1.pending = [] := by decide

/-! ## Repair F39: a continuation that arrives for a pending request without body -/

/-- **bodyless_request_has_no_block** (repair F39, /repo d633604; holds once `refusesBodylessSending` is regenerated as
    `true`).  `Do` registers every request in the sending cache, also one without body (GET, DELETE, an empty POST/PUT), which
    it then sends as it is (1).  While such a call is pending, ANY message of the peer under its token that takes the
    continue-sending path of `Handle` — it does not "want to be received": a 2.31 Continue, or a request-coded message with a
    Block2 option; whatever block options, numbers and payload it carries — produces no block, no reply at all and no delivery
    to the application: `createSendingMessage` refuses a message without body (before the repair it dereferenced the missing
    body: a panic in the goroutine that handles the message), the `errors` callback runs, the receiving slot is untouched and
    the sending entry of the token is dropped (2) — as after every failed continuation.  With the entry gone a later
    block-wise response to the request is no longer paired (`processReceived`: "cannot request body without paired request",
    4.08) and the call ends by its context: an error outcome caused by the peer's own stray message, not a wrong delivery
    (see docs/notes/C04.md). -/
theorem bodyless_request_has_no_block :
    (∀ (cfg : Cfg) (snd : Option Entry) (now : Int) (r : Msg), cfg.szx ≤ 7 → r.tok ≠ 0 → r.body = [] → live snd now = none →
      doStartS cfg snd now r = (some ⟨r, match r.deadline with | some d => d | none => never⟩, some r)) ∧
    (∀ (cfg : Cfg) (e : Entry) (rcv : Option Entry) (now : Int) (r' : Msg) (app : App),
      e.msg.body = [] → now ≤ e.validUntil → r'.tok ≠ 0 → wantsToBeReceived r' = false →
      handleS cfg ⟨some e, rcv⟩ now r' app = (⟨none, rcv⟩, { err := true })) := by
  have hfix : refusesBodylessSending = true := rfl
  constructor
  · intro cfg snd now r hs7 htok hbody hfree
    unfold doStartS
    have h7 : ¬ cfg.szx > 7 := by omega
    have hle : doDirectIsLe = true := rfl
    simp only [if_neg h7, if_neg htok, storeIfAbsent, hfree, Bool.false_eq_true, if_false, hbody, List.length_nil, fits, hle, if_true,
      Nat.zero_le, decide_true]
    cases r.deadline <;> rfl
  · intro cfg e rcv now r' app hbody hlive htok hw
    have hlv : live (some e) now = some e := live_fresh _ _ hlive
    have hcont : continueSendingS cfg (some e) r' e.msg.code = none := by
      unfold continueSendingS
      cases r'.block (sendBT e.msg.code) with
      | none => rfl
      | some blk =>
        simp only []
        unfold createSending createSendingWith
        cases decodeBlock blk with
        | error _ => rfl
        | ok v =>
          obtain ⟨s0, n0, m0⟩ := v
          simp only []
          exact createSendingAt_bodyless hfix hbody _ _ _ _
    unfold handleS
    simp only [if_neg htok, hlv, hw, Bool.false_eq_true, if_false, hcont]

/-- the pending GET of token 33 and the three shapes of the corpus case `f39_…`: a 2.31 with Block2, a 2.31 with Block1, a
    request-coded message with Block2 — error callback, nothing on the wire, nothing handed on, the entry is gone -/
example : (∀ r' ∈ [({ code := 95, tok := 33, block2 := some 8 } : Msg), { code := 95, tok := 33, block1 := some 8 },
      { code := 1, tok := 33, block2 := some 16 }],
      wantsToBeReceived r' = true ∨
      handleS { szx := 0, maxSize := 80, expiration := 3000 } ⟨some ⟨{ code := 1, tok := 33, other := [(11, [99])] }, 20000⟩, none⟩ 5 r' (fun _ => none) =
        (⟨none, none⟩, { err := true })) := by decide

/-! ## The two observations of DESIGN §6, as negative results -/

/-- **oneway_block1_never_completes** (O1 / finding F10f).  As long as `startSendingMessage` asks `createSendingMessage`
    for the "already sent" addend too (`startSkipsSent`, regenerated: true on the pinned tree, false with
    docs/fixes/F10f.diff), the first message of a one-way POST/PUT — and every later one, which the continuation path
    cuts — has a block number of at least 1; and a receiver that is fed only blocks that are not first blocks, in any
    order, any number of times, never hands anything to its application for that token.  `WriteMessage` nevertheless
    returns success: the one-way style has no channel for "error or timeout" (see the judge's `oneway` clause). -/
theorem oneway_block1_never_completes :
    (startSkipsSent = true → ∀ {sm : Msg} {mx ms blk : Nat} {m : Msg} {more : Bool}, isPostPut sm.code = true → (mx < 7 ∨ 1024 ≤ ms) →
      createSendingFirst sm mx ms blk = some (m, more) → startOf m = 0) ∧
    (∀ {sm : Msg} {mx ms blk : Nat} {m : Msg} {more : Bool}, isPostPut sm.code = true → (mx < 7 ∨ 1024 ≤ ms) →
      createSending sm mx ms blk = some (m, more) → startOf m = 0) ∧
    (∀ (app : App) (tok : Nat), tok ≠ 0 → ∀ (ep : Endpoint) (as : List Arrival), ep.receiving tok = none →
      (∀ now r, Arrival.msg now r ∈ as → r.tok = tok → startOf r = 0) → deliveredFor app tok ep as = 0) :=
  ⟨fun h => createSendingFirst_block1_not_first h, createSending_block1_not_first, no_first_block_no_delivery⟩

/-- **bert_first_block_stalls** (O2).  With BERT on both sides a body of 1024 < length < buffer size goes out
    completely in the first block of `Do`, which is nevertheless flagged `more`; the block the peer's 2.31 then asks
    for starts behind the end of the body and `createSendingMessage` fails: the call ends by its context. -/
theorem bert_first_block_stalls (cfg : Cfg) (snd : Option Entry) (now : Int) (r : Msg)
    (hszx : cfg.szx = 7) (htok : r.tok ≠ 0) (hpp : isPostPut r.code = true) (hfree : live snd now = none)
    (hmax : cfg.maxSize < 4294967296) (h1 : 1024 < r.body.length) (h2 : r.body.length < bufLen 7 cfg.maxSize) :
    ∃ m, (doStartS cfg snd now r).2 = some m ∧ m.body = r.body ∧ m.block1 = some 15 ∧
      (∀ blk n0 m0, decodeBlock blk = .ok (7, n0, m0) → createSending r cfg.szx cfg.maxSize blk = none) :=
  bert_first_block_holds_everything cfg snd now r hszx htok hpp hfree hmax h1 h2

end CoapVerif.Props.C04

section Audit
open CoapVerif.Props.C04
#print axioms slice_covers
#print axioms slice_available
#print axioms reassembly_prefix
#print axioms complete_eq
#print axioms no_partial_as_complete
#print axioms once
#print axioms once_from_empty
#print axioms once_if_first_block_arrives_once
#print axioms tokens_independent
#print axioms szx_negotiation_min
#print axioms etag_change_restarts
#print axioms token_reuse_restarts
#print axioms expiry_finite
#print axioms guard_held_across_handler
#print axioms deadlines_are_finite
#print axioms do_entry_lives_as_long_as_the_call
#print axioms caches_own_their_messages
#print axioms layer_per_connection
#print axioms datagram_read_buffer_is_mtu
#print axioms system_safe
#print axioms faultfree_progress_block1
#print axioms faultfree_progress_block2
#print axioms bodyless_request_has_no_block
#print axioms oneway_block1_never_completes
#print axioms bert_first_block_stalls
end Audit
