import CoapVerif.Model.BlockwiseCancel
/-!
C04 — "Block-wise transfer delivers the exact body exactly once, or fails" (properties.jsonl C04: "… Duplicated, stale,
out-of-order or foreign-token blocks never corrupt, truncate or extend a body … An exchange that cannot complete ends with
an error or timeout").  Tenth seeded round: the operation `cancel` of the line protocol (`Model/BlockwiseCancel.lean`,
`World.cancel`: the application abandons a call that has no deadline) — what it changes and what it leaves.

The receiver-side theorems of Props/C04.lean (`once`, `complete_eq`, `no_partial_as_complete`, `tokens_independent`) are
stated over `Endpoint.run`, i.e. over ARBITRARY arrival sequences at one endpoint, and therefore hold unchanged for
histories that contain cancellations: `cancel_frame` shows that a cancellation does not touch any reassembly entry.
PARTIAL: the system-level statements of Props/C04.lean over `World.run` quantify over `Op`, which has no `cancel`
constructor; `cancel_eq_deadline_now` reduces a cancellation to the `sleep` operation for a single pending call, the
general case (several pending calls, a call without deadline: the reassembly entry then lives `cfg.expiration` instead of
until the deadline) is not restated for `World.run`.
-/
namespace CoapVerif.Model.Blockwise

/-- cancelling touches the caller's registration only: the peer, the network, the clock and every reassembly of A stay -/
theorem cancel_frame (w : World) (tok : Nat) :
    (w.cancel tok).1.b = w.b ∧ (w.cancel tok).1.queue = w.queue ∧ (w.cancel tok).1.hist = w.hist ∧
    (w.cancel tok).1.now = w.now ∧ (w.cancel tok).1.a.receiving = w.a.receiving ∧
    (∀ k, k ≠ tok → (w.cancel tok).1.a.sending k = w.a.sending k) := by
  unfold World.cancel
  split
  · refine ⟨rfl, rfl, rfl, rfl, rfl, ?_⟩
    intro k hk
    simp [doFinish, Cache.put, hk]
  · exact ⟨rfl, rfl, rfl, rfl, rfl, fun _ _ => rfl⟩

/-- … and it is what the arrival of the deadline does to a call that has one (`World.sleep` with no time passing), when
    that call is the only one pending: same registration removed, same event -/
theorem cancel_eq_deadline_now (w : World) (tok : Nat) (h : w.pending = [⟨tok, some w.now⟩]) :
    w.cancel tok = w.sleep 0 := by
  unfold World.cancel World.sleep
  simp [h]


/-- non-vacuity: a pending call without deadline is cancelled, its registration goes, the error is reported -/
example :
    let ep : Endpoint := { szx := 0, maxSize := 80, expiration := 3000 }
    let w : World := { a := ep, b := ep, appB := fun _ => none }
    let w1 := (w.startDo { code := 1, tok := 7 }).1
    (w1.a.sending 7).isSome = true ∧ w1.pending = [⟨7, none⟩] ∧
    ((w1.cancel 7).1.a.sending 7).isSome = false ∧ (w1.cancel 7).1.pending = [] ∧ (w1.cancel 7).2.length = 1 := by
  decide

section Audit
#print axioms cancel_frame
#print axioms cancel_eq_deadline_now
end Audit

end CoapVerif.Model.Blockwise
