import CoapVerif.Go.Basic
import CoapVerif.Model.Blockwise
import CoapVerif.Model.BlockwiseObserve
import CoapVerif.Model.BlockwiseObserveRun
import CoapVerif.Lemmas.Blockwise
import CoapVerif.Lemmas.BlockwiseObserve
import CoapVerif.Lemmas.BlockwiseConserv
import CoapVerif.Lemmas.BlockwiseConservSys
import CoapVerif.Props.C04
/-!
# C04, conservativity — what the driver executes is what the theorems of `Props/C04.lean` are about

`Driver/C04.lean` runs every history through the observe-aware model (`handleO` / `OWorld`, `Model/BlockwiseObserve.lean`,
`Model/BlockwiseObserveRun.lean`); the headline theorems of `Props/C04.lean` are about the plain model (`handle` / `World`,
`Model/Blockwise.lean`).  This module proves the link (`Lemmas/BlockwiseConserv.lean`, `Lemmas/BlockwiseConservSys.lean`):

* `handleO_eq_handle` — one `Handle` call, every state / time / application / message, with the EXACT side conditions;
  `table_changes_the_result` shows that the condition on the observation table cannot be dropped (the fallback of
  `getSentRequest` is real behaviour: a block-wise response whose request is only known to the observation table is
  accepted, the plain model refuses it);
* `runO_eq_run`, `oworld_run_eq_world_run` — every list of arrivals / every script of operations;
* the headline theorems restated for the O-system: `once_O`, `reassembly_prefix_O`, `complete_eq_O`,
  `no_partial_as_complete_O`, `system_safe_O`.

Where the Observe branch IS involved (observe responses, tokens with an entry in the observation table, fresh keys) the
statements of `Props/C04Observe.lean` apply instead.
-/
namespace CoapVerif.Props.C04Conserv
open CoapVerif CoapVerif.Model.Blockwise CoapVerif.Model.BlockOpt CoapVerif.Generated.BlockwiseXfer
open CoapVerif.Model.BlockwiseObserve CoapVerif.Lemmas.Blockwise CoapVerif.Lemmas.BlockwiseObserve
open CoapVerif.Lemmas.BlockwiseConserv CoapVerif.Lemmas.BlockwiseConservSys

/-- **handleO_eq_handle.**  For EVERY endpoint state, observation table, scripted fresh token, time, application and
    message: if (1) the message is not an observe response, (2) the application does not answer with an observe response
    (`AppPlain`; such a response, cut into blocks, is not stored by `startSendingMessage`), and (3) for the token of the
    message (`StepPlain`): the sending slot is occupied or the observation table has no entry for the token (`getSentRequest`
    falls back to the table exactly when the slot is empty), the paired request carries no Observe option (the follow-up
    requests get `Remove(Observe)`), and paired request and held reassembly message carry the token of their key (the
    `bytes.Equal` deletion and the slot `startSendingMessage` writes) — then `handleO` does exactly what `handle` does, on
    the same state type (the embedding is the identity), and draws no token. -/
theorem handleO_eq_handle (ep : Endpoint) (outside : Outside) (fresh : Nat) (now : Int) (r : Msg) (app : App)
    (hno : isObserveResponse r = false) (hp : StepPlain ep outside r.tok) (happ : AppPlain app) :
    handleO ep outside fresh now r app = ((handle ep now r app).1, (handle ep now r app).2, false) :=
  Lemmas.BlockwiseConserv.handleO_eq_handle ep outside fresh now r app hno hp happ

/-- the hypotheses are satisfiable (empty caches, empty table, the middle block of the 40-byte upload) … -/
example : isObserveResponse (exBlk 1 true) = false ∧ StepPlain exEp (fun _ => none) (exBlk 1 true).tok ∧ AppPlain (fun _ => none) :=
  ⟨by decide, ⟨fun _ => rfl, (by intro e he; cases he), (by intro e he; cases he)⟩, (by intro d x hx; cases hx)⟩

/-- … and the step is not trivial: the block is acknowledged with 2.31 -/
example : (handleO exEp (fun _ => none) 900 0 (exBlk 0 true) (fun _ => none)).2.1.reply.map (·.code) = some codeContinue := by decide

/-- **table_changes_the_result.**  The condition on the observation table is exact in this sense: with the sending slot of the
    token EMPTY and an entry for the token in the table, a block-wise response WITHOUT Observe option (first block, `more`)
    is paired with the table's request by the code (and by `handleO`: a follow-up GET under the same token goes out, the
    block is held) while the plain model refuses it with 4.08. -/
theorem table_changes_the_result :
    ∃ (ep : Endpoint) (outside : Outside) (r : Msg), isObserveResponse r = false ∧ ep.sending r.tok = none ∧
      (outside r.tok).isSome = true ∧
      (handleO ep outside 900 0 r (fun _ => none)).2.1.reply.map (·.code) = some codeGET ∧
      (handle ep 0 r (fun _ => none)).2.reply.map (·.code) = some codeRequestEntityIncomplete :=
  ⟨{ szx := 0, maxSize := 64, expiration := 1000 }, fun t => if t = 7 then some { code := 1, tok := 7, other := [(11, [99])] } else none,
   downloadBlock { code := 69, tok := 7, other := [(12, [42])], body := exBody } 0 64 0, by decide, rfl, by decide, by decide, by decide⟩

/-! ## runs of one endpoint -/

/-- **runO_eq_run.**  For every list of arrivals (any order, duplicates, gaps, sweeps, any scripted tokens) none of which is an
    observe response or carries a token that has an entry in the observation table, from a state on which the Observe branch
    never ran (`PlainEp`: cached messages carry the token of their key, no cached request / response has an Observe option),
    with an application that never answers with an Observe option: the observe-aware run IS the plain run — same final state,
    same deliveries — and the final state is again `PlainEp`. -/
theorem runO_eq_run (app : App) (outside : Outside) (happ : AppNoObs app) (as : List ArrivalO) (ep : Endpoint)
    (hp : PlainEp ep) (hq : ∀ a ∈ as, Quiet outside a) :
    runO app outside ep as = Endpoint.run app ep (as.map forget) ∧ PlainEp (runO app outside ep as).1 :=
  Lemmas.BlockwiseConserv.runO_eq_run app outside happ as ep hp hq

theorem plainEp_exEp : PlainEp exEp := ⟨(by intro k e he; cases he), (by intro k e he; cases he)⟩

example : PlainEp exEp ∧ AppNoObs (fun _ => none) ∧
    (∀ a ∈ [ArrivalO.msg 0 (exBlk 0 true) 900, .msg 1 (exBlk 1 true) 901, .sweep 2, .msg 4 (exBlk 2 false) 902], Quiet (fun _ => none) a) :=
  by
  refine ⟨plainEp_exEp, (by intro d x hx; cases hx), ?_⟩
  intro a ha
  simp only [List.mem_cons, List.mem_nil_iff, or_false] at ha
  rcases ha with h | h | h | h <;> subst h
  · exact ⟨by decide, rfl⟩
  · exact ⟨by decide, rfl⟩
  · trivial
  · exact ⟨by decide, rfl⟩

example : (runO (fun _ => none) (fun _ => none) exEp
    [.msg 0 (exBlk 0 true) 900, .msg 1 (exBlk 1 true) 901, .sweep 2, .msg 4 (exBlk 2 false) 902]).2.map (·.body) = [exBody] := by decide

theorem mem_forget {as : List ArrivalO} {now : Int} {r : Msg} (h : Arrival.msg now r ∈ as.map forget) :
    ∃ f, ArrivalO.msg now r f ∈ as := by
  rw [List.mem_map] at h
  obtain ⟨a, ha, he⟩ := h
  cases a with
  | msg n r' f =>
    simp only [forget] at he
    injection he with h1 h2
    subst h1 h2
    exact ⟨f, ha⟩
  | sweep n => simp [forget] at he

/-- number of messages the observe-aware run hands to the application while handling arrivals that carry token `tok` -/
def deliveredForO (app : App) (outside : Outside) (tok : Nat) : Endpoint → List ArrivalO → Nat
  | _, [] => 0
  | ep, a :: as =>
    (match a with
     | .msg _ r _ => if r.tok = tok then (stepO app outside ep a).2.length else 0
     | .sweep _ => 0) + deliveredForO app outside tok (stepO app outside ep a).1 as

theorem deliveredForO_eq (app : App) (outside : Outside) (happ : AppNoObs app) (tok : Nat) (as : List ArrivalO) :
    ∀ (ep : Endpoint), PlainEp ep → (∀ a ∈ as, Quiet outside a) →
      deliveredForO app outside tok ep as = deliveredFor app tok ep (as.map forget) := by
  induction as with
  | nil => intro ep _ _; rfl
  | cons a as ih =>
    intro ep hp hq
    have h1 := (Lemmas.BlockwiseConserv.runO_eq_run app outside happ [a] ep hp
      (by intro a' ha'; simp only [List.mem_singleton] at ha'; rw [ha']; exact hq a List.mem_cons_self))
    have hstep : stepO app outside ep a = ep.step app (forget a) := by
      have := h1.1
      simp only [runO, List.map, Endpoint.run, List.append_nil] at this
      exact this
    have hpl : PlainEp (stepO app outside ep a).1 := by
      have := h1.2
      simp only [runO] at this
      exact this
    have hrec := ih (stepO app outside ep a).1 hpl (fun a' ha' => hq a' (List.mem_cons_of_mem _ ha'))
    simp only [deliveredForO, deliveredFor, List.map]
    rw [hrec, hstep]
    cases a <;> rfl

/-- **once_O** — `once` for the observe-aware run: for every list of Observe-free arrivals (no hypothesis on their blocks), the
    number of messages handed to the application on behalf of a token, plus one if bytes are still held for it, never exceeds
    the number of its arrivals that can start a body plus one if bytes were held at the beginning. -/
theorem once_O (app : App) (outside : Outside) (happ : AppNoObs app) (tok : Nat) (htok : tok ≠ 0) (ep : Endpoint)
    (as : List ArrivalO) (hp : PlainEp ep) (hq : ∀ a ∈ as, Quiet outside a) :
    deliveredForO app outside tok ep as + heldNe ((runO app outside ep as).1.receiving tok) ≤
      heldNe (ep.receiving tok) + startsFor tok (as.map forget) := by
  rw [deliveredForO_eq app outside happ tok as ep hp hq, (runO_eq_run app outside happ as ep hp hq).1]
  exact Props.C04.once app tok htok ep (as.map forget)

example : deliveredForO (fun _ => none) (fun _ => none) 7 exEp
    [.msg 0 (exBlk 0 true) 900, .msg 1 (exBlk 1 true) 901, .msg 4 (exBlk 2 false) 902, .msg 5 (exBlk 2 false) 903] = 1 := by decide

/-- **reassembly_prefix_O** — the invariant of `reassembly_prefix` along the observe-aware run -/
theorem reassembly_prefix_O {R : Reg} (hd : Discipline R) (app : App) (outside : Outside) (happ : AppNoObs app) (ep : Endpoint)
    (as : List ArrivalO) (hg : ∀ now r f, ArrivalO.msg now r f ∈ as → GoodMsg R r) (hinv : EpInv R ep)
    (hp : PlainEp ep) (hq : ∀ a ∈ as, Quiet outside a) : EpInv R (runO app outside ep as).1 := by
  rw [(runO_eq_run app outside happ as ep hp hq).1]
  exact Props.C04.reassembly_prefix hd app ep (as.map forget)
    (fun now r h => by obtain ⟨f, hf⟩ := mem_forget h; exact hg now r f hf) hinv

/-- **complete_eq_O** — every message the observe-aware run hands to the application is an arrival without data block of its
    direction, handed on as it is, or exactly what was supplied under its token and ETag -/
theorem complete_eq_O {R : Reg} (hd : Discipline R) (app : App) (outside : Outside) (happ : AppNoObs app) (ep : Endpoint)
    (as : List ArrivalO) (hg : ∀ now r f, ArrivalO.msg now r f ∈ as → GoodMsg R r) (hinv : EpInv R ep)
    (hp : PlainEp ep) (hq : ∀ a ∈ as, Quiet outside a) :
    ∀ d ∈ (runO app outside ep as).2, (∃ now f, ArrivalO.msg now d f ∈ as ∧ NoData d) ∨ Complete R d.tok d := by
  rw [(runO_eq_run app outside happ as ep hp hq).1]
  intro d hdm
  rcases Props.C04.complete_eq hd app ep (as.map forget)
    (fun now r h => by obtain ⟨f, hf⟩ := mem_forget h; exact hg now r f hf) hinv d hdm with ⟨now, hm, hn⟩ | hc
  · obtain ⟨f, hf⟩ := mem_forget hm
    exact Or.inl ⟨now, f, hf, hn⟩
  · exact Or.inr hc

/-- **no_partial_as_complete_O** — a partial body is never presented as complete by the observe-aware run -/
theorem no_partial_as_complete_O {R : Reg} (hd : Discipline R) (app : App) (outside : Outside) (happ : AppNoObs app) (ep : Endpoint)
    (as : List ArrivalO) (hg : ∀ now r f, ArrivalO.msg now r f ∈ as → GoodMsg R r) (hinv : EpInv R ep)
    (hp : PlainEp ep) (hq : ∀ a ∈ as, Quiet outside a)
    (d : Msg) (hdel : d ∈ (runO app outside ep as).2) (hdata : ¬ NoData d) :
    ∃ s, R d.tok d.etag = some s ∧ d.body.length = s.body.length ∧ d.body = s.body := by
  rcases complete_eq_O hd app outside happ ep as hg hinv hp hq d hdel with ⟨_, _, _, hn⟩ | ⟨s, h1, h2, _⟩
  · exact absurd hn hdata
  · exact ⟨s, h1, by rw [h2], h2⟩

/-! ## two endpoints and the relay -/

/-- **oworld_run_eq_world_run.**  `T` is the set of tokens in use.  For every script of operations whose requests carry no
    Observe option and a token of `T` (`OpPlain T`), from a plain system (`PlainW T`: caches on which the branch never ran, B's
    application never answers with an Observe option, everything in flight or in the relay's history carries no Observe option
    and a token of `T`) whose observation tables have no entry for a token of `T` (`TablesSilent T`; for EMPTY tables `T` is
    everything: `NoTables.silent`): the observe-aware system does exactly what the plain system does — same worlds, same events,
    tables and token source untouched — and stays plain. -/
theorem oworld_run_eq_world_run {T : Nat → Prop} (o : OWorld) (ops : List Op) (ht : TablesSilent T o) (hp : PlainW T o.w)
    (hops : ∀ x ∈ ops, OpPlain T x) :
    OWorld.run o ops = ({ o with w := (World.run o.w ops).1 }, (World.run o.w ops).2) ∧ PlainW T (World.run o.w ops).1 :=
  run_eq ops o ht hp hops

/-- **system_safe_O** — `system_safe` for what the driver executes: the observe-aware system under every script of relay
    decisions (deliver, duplicate, drop, swap, replay), `Do` calls, one-way writes, sleeps and sweeps. -/
theorem system_safe_O {RA RB : Reg} {T : Nat → Prop} (hdA : Discipline RA) (hdB : Discipline RB) (hreq : RegReq RB)
    (o : OWorld) (hw : WInv RA RB o.w) (ops : List Op)
    (hops : ∀ r, (Op.doReq r ∈ ops ∨ Op.writeReq r ∈ ops) → ReqOK RB r)
    (ht : TablesSilent T o) (hp : PlainW T o.w) (hplain : ∀ x ∈ ops, OpPlain T x) :
    WInv RA RB (OWorld.run o ops).1.w ∧
    (∀ s d, Event.deliver s d ∈ (OWorld.run o ops).2 → NoData d ∨ Complete (regOf RA RB s) d.tok d) ∧
    TablesSilent T (OWorld.run o ops).1 ∧ PlainW T (OWorld.run o ops).1.w ∧ (OWorld.run o ops).1.drawn = o.drawn ∧
    (OWorld.run o ops).1.freshQ = o.freshQ := by
  obtain ⟨he, hpl⟩ := oworld_run_eq_world_run o ops ht hp hplain
  obtain ⟨s1, s2⟩ := Props.C04.system_safe hdA hdB hreq o.w hw ops hops
  rw [he]
  exact ⟨s1, s2, ht, hpl, rfl, rfl⟩

theorem appNoObs_exApp : AppNoObs exApp := by
  intro d x hx
  simp only [exApp] at hx
  split at hx
  · injection hx with hx; rw [← hx]; rfl
  · cases hx

theorem plainW_exWorld (T : Nat → Prop) : PlainW T exWorld :=
  ⟨⟨(by intro k e he; cases he), (by intro k e he; cases he)⟩, ⟨(by intro k e he; cases he), (by intro k e he; cases he)⟩,
   appNoObs_exApp, (by intro p hp; simp [exWorld] at hp)⟩

/-- the additional hypotheses are satisfiable on the instance of `system_safe`, with empty tables … -/
example : TablesSilent (fun _ => True) { w := exWorld } ∧ PlainW (fun _ => True) exWorld ∧ OpPlain (fun _ => True) (.doReq exReq) :=
  ⟨NoTables.silent ⟨fun _ => rfl, fun _ => rfl⟩, plainW_exWorld _, rfl, trivial⟩

/-- … and with an observation of token 99 registered at A while the traffic uses other tokens -/
example : TablesSilent (fun t => t ≠ 99) { w := exWorld, outA := fun t => if t = 99 then some { code := 1, tok := 99 } else none } ∧
    PlainW (fun t => t ≠ 99) exWorld ∧ OpPlain (fun t => t ≠ 99) (.doReq exReq) :=
  ⟨fun t ht => ⟨by simp [ht], rfl⟩, plainW_exWorld _, rfl, by decide⟩

/-- … and the observe-aware run is not empty: the same upload / download with a duplicate and two replays as in `Props/C04.lean` -/
example : exDeliveries (OWorld.run { w := exWorld }
    ([.doReq exReq] ++ List.replicate 5 (.fault .deliver) ++ [.fault .dup] ++ List.replicate 12 (.fault .deliver) ++
     [.fault (.replay 0), .fault (.replay 4)] ++ List.replicate 4 (.fault .deliver))).2 =
    [(false, 2, 40, true), (true, 68, 40, true), (true, 136, 0, false), (true, 95, 0, false), (true, 95, 0, false)] := by decide

end CoapVerif.Props.C04Conserv

section Audit
open CoapVerif.Props.C04Conserv
#print axioms handleO_eq_handle
#print axioms table_changes_the_result
#print axioms runO_eq_run
#print axioms plainEp_exEp
#print axioms mem_forget
#print axioms deliveredForO_eq
#print axioms once_O
#print axioms reassembly_prefix_O
#print axioms complete_eq_O
#print axioms no_partial_as_complete_O
#print axioms oworld_run_eq_world_run
#print axioms system_safe_O
#print axioms appNoObs_exApp
#print axioms plainW_exWorld
end Audit
