import CoapVerif.Model.BlockwiseGiveUp
/-!
C04 — "Block-wise transfer delivers the exact body exactly once, or fails" (properties.jsonl C04: "… a block-wise exchange
that completes hands the receiving application exactly the bytes the sending application supplied …").

Eleventh seeded round: what the atomic `doFinish` / `handleS` steps of `Model/Blockwise.lean` rest on at the END of a call.
When `Do` has returned, the request and its body belong to the application again (it retries with the same
`io.ReadSeeker`); a continuation of the abandoned upload that was being handled at that moment must not seek / read in
that body any more — otherwise the retry, an exchange that completes, sends bytes from wherever the stale access left the
position.  `Model/BlockwiseGiveUp.lean` is the two-thread model (continuation inside `LoadWithFunc`, `Do` ending with
`Delete`, the table's RW lock) whose shape is read from the regenerated `SyncShape` / `SyncCallSites` facts.

* `table_shape` — the four facts hold for the tree the files were regenerated from (fails when the callback of
  `LoadWithFunc` leaves the read-locked section, when `Delete` is not one write-locked section, when `Do` no longer ends with
  the deferred `Delete`, when `continueSendingMessage` builds its block outside the callback).
* `no_layer_access_after_do_returns` — for EVERY schedule of the two threads, with the regenerated shape, no access of the
  layer to the caller's body happens after `Do` has returned (invariant `Inv`: a reader inside its section excludes the
  writer; a continuation that found the entry and has not finished its callback keeps the caller in front of `Delete`).
* `stale_access_after_return_without_the_lock`, `stale_access_when_delete_is_not_exclusive` — the two ways the shape can
  be lost each have a schedule with such an access (the first: between two accesses of the retry itself — the run
  harness/c04 `TestC04GiveUp` drives on the real code and judges by the delivered body).
Scope: one continuation and one call; the callback's accesses are two (Seek, Read); the `getSentRequest` /
`getSendingMessageCode` callbacks read code / token / options of the request and are covered by the same shape facts only as
far as `continuationReadsInsideCallback`'s sibling entries of `SyncCallSites` go (C14 / C12 own those obligations).
-/
namespace CoapVerif.Model.BlockwiseGiveUp

theorem table_shape :
    cbUnderReadLock = true ∧ deleteUnderWriteLock = true ∧ doEndsWithDelete = true ∧ continuationReadsInsideCallback = true := by
  decide

def locked : Shape := { held := true, excl := true }

def Inv (s : St) : Bool :=
  (!(s.rlocked locked) || !s.wlocked) &&
  (!(s.cont == .c3) || s.caller == .d0) &&
  (!(s.cont == .c2 && s.found) || s.caller == .d0) &&
  !(s.cont == .c2u)

theorem step_inv (s : St) (t : Thread) (h : Inv s = true) :
    Inv (step locked s t).1 = true ∧ touchedAfterReturn (step locked s t).2 = false := by
  obtain ⟨c, f, d⟩ := s
  cases c <;> cases f <;> cases d <;> cases t <;> revert h <;> decide

theorem run_inv (ts : List Thread) : ∀ (s : St), Inv s = true →
    Inv (run locked s ts).1 = true ∧ touchedAfterReturn (run locked s ts).2 = false := by
  induction ts with
  | nil => intro s h; exact ⟨h, rfl⟩
  | cons t ts ih =>
    intro s h
    have h1 := step_inv s t h
    have h2 := ih (step locked s t).1 h1.1
    refine ⟨h2.1, ?_⟩
    simp only [run, touchedAfterReturn, List.any_append, Bool.or_eq_false_iff]
    exact ⟨h1.2, h2.2⟩

theorem codeShape_locked : codeShape = locked := by
  simp only [codeShape, locked, table_shape.1, table_shape.2.1]

theorem no_layer_access_after_do_returns (ts : List Thread) :
    touchedAfterReturn (run codeShape {} ts).2 = false := by
  rw [codeShape_locked]
  exact (run_inv ts {} (by decide)).2

open Thread in
theorem stale_access_after_return_without_the_lock :
    let ts := [cont, cont, cont, caller, caller, caller, caller, caller, cont, caller]
    touchedAfterReturn (run { held := false, excl := true } {} ts).2 = true ∧
    interleavedWithOwner (run { held := false, excl := true } {} ts).2 = true := by
  decide

open Thread in
theorem stale_access_when_delete_is_not_exclusive :
    touchedAfterReturn (run { held := true, excl := false } {} [cont, cont, cont, caller, caller, caller, caller, cont]).2 = true := by
  decide

-- non-vacuity: under the lock the continuation that found the entry finishes both accesses before `Do` can return
open Thread in
example : (run locked {} [cont, cont, cont, caller, caller, cont, cont, caller, caller, caller, caller, caller, caller]).2
    = [.layer false, .layer false, .owner, .owner] := by decide

section Audit
#print axioms table_shape
#print axioms step_inv
#print axioms run_inv
#print axioms codeShape_locked
#print axioms no_layer_access_after_do_returns
#print axioms stale_access_after_return_without_the_lock
#print axioms stale_access_when_delete_is_not_exclusive
end Audit
end CoapVerif.Model.BlockwiseGiveUp
