import CoapVerif.Go.Basic
import CoapVerif.Model.Blockwise
import CoapVerif.Model.BlockwiseObserve
import CoapVerif.Lemmas.Blockwise
import CoapVerif.Lemmas.BlockwiseObserve
/-!
# C04, continued — block-wise NOTIFICATIONS (the Observe branch of the layer, RFC 7959 §2.6)

Statement (properties.jsonl, C04): "… a block-wise exchange that completes hands the receiving application exactly the
bytes the sending application supplied, exactly once and with the message's other options preserved.  Duplicated, stale,
out-of-order or foreign-token blocks never corrupt, truncate or extend a body, and concurrent transfers with different
tokens never mix.  An exchange that cannot complete ends with an error or timeout — never with a partial body presented as
complete, and never by hanging."

Model: `Model/BlockwiseObserve.lean` on top of `Model/Blockwise.lean`: the first block of a notification (Observe option,
code ≥ 2.01, Block2 with `more`) makes the layer draw a NEW token — a parameter here, any value —, store a clone of the
observation's request under it in the sending cache and the reassembly entry under it in the receiving cache (the held
message keeps the ORIGINAL token), and fetch the rest with the request minus Observe under the new token; later blocks
arrive under the new token; on completion both entries of the new key go.  The server side stores nothing for an observe
response (`startSendingSO`).

Theorems: `notification_delivered_in_order` (a, with `run_later`: the induction over the rounds),
`nothing_before_last_block_partial` (b, partial), `notification_entries_end` (c), `unregistered_notification_refused` (d),
`notifications_do_not_mix_partial` (e, partial), `observe_response_not_stored` (sender side).
-/
namespace CoapVerif.Props.C04Observe
open CoapVerif CoapVerif.Model.Blockwise CoapVerif.Model.BlockOpt CoapVerif.Generated.BlockwiseXfer
open CoapVerif.Model.BlockwiseObserve CoapVerif.Lemmas.Blockwise CoapVerif.Lemmas.BlockwiseObserve

/-- blocks `j, j+1, …, j+k-1` of `R` (as the sender's `createSendingMessage` cuts them), block `i` arriving at time `t i`
    while `GetToken` would return `fr i` -/
def laterArrivals (R : Msg) (s ms : Nat) (t : Nat → Int) (fr : Nat → Nat) (j k : Nat) : List ArrivalO :=
  (List.range' j k).map (fun i => ArrivalO.msg (t i) (downloadBlock R s ms i) (fr i))

theorem put_sending (ep : Endpoint) (k : Nat) (sl : Slots) : (ep.put k sl).sending k = sl.snd := by
  simp [Endpoint.put, put_same]
theorem put_receiving (ep : Endpoint) (k : Nat) (sl : Slots) : (ep.put k sl).receiving k = sl.rcv := by
  simp [Endpoint.put, put_same]

/-- the rounds after the first block, by induction over the number of blocks still to come -/
theorem run_later (app : App) (outside : Outside) (R c : Msg) (vs : Int) (ms : Nat) (t : Nat → Int) (fr : Nat → Nat)
    (hrc : RespCode R.code) (hnobs : isObserveResponse R = false) (htok : R.tok ≠ 0) (hb1 : R.block1 = none)
    (happ : ∀ m, app m = none) :
    ∀ (k j : Nat) (ep : Endpoint) (ent : Entry), ep.szx < 7 → 0 < j → j + k + 1 < 2 ^ 20 →
      (j + k) * sizeN ep.szx < R.body.length → R.body.length ≤ (j + k + 1) * sizeN ep.szx →
      ep.sending R.tok = some ⟨c, vs⟩ → ep.receiving R.tok = some ent → (∀ i, t i ≤ ent.validUntil) →
      ent.msg.body = R.body.take (j * sizeN ep.szx) → ent.msg.etag = R.etag → ent.msg.tok ≠ R.tok →
      (runO app outside ep (laterArrivals R ep.szx ms t fr j (k + 1))).2 =
          [{ ent.msg with body := R.body, block2 := none, size2 := none }] ∧
        (runO app outside ep (laterArrivals R ep.szx ms t fr j (k + 1))).1.sending R.tok = none ∧
        (runO app outside ep (laterArrivals R ep.szx ms t fr j (k + 1))).1.receiving R.tok = none := by
  intro k
  induction k with
  | zero =>
    intro j ep ent hs hj0 hnum hlo hhi hsnd hrcv hlive hheld hetag horig
    have hstep := handleO_later_last ep outside (fr j) (t j) R c vs ent app ms j hs hrc hnobs htok hb1 hsnd hrcv (hlive j) hheld
      (by simp at hlo; omega) hetag (by omega) hj0 (by simpa using hhi) horig (happ _)
    simp only [laterArrivals, List.range', List.map, runO, stepO, hstep, List.append_nil]
    exact ⟨trivial, put_sending _ _ _, put_receiving _ _ _⟩
  | succ k ih =>
    intro j ep ent hs hj0 hnum hlo hhi hsnd hrcv hlive hheld hetag horig
    have hsz := sizeN_pos (by omega : ep.szx ≤ 7)
    have hmore : (j + 1) * sizeN ep.szx < R.body.length := by
      have : (j + 1) * sizeN ep.szx ≤ (j + (k + 1)) * sizeN ep.szx := Nat.mul_le_mul_right _ (by omega)
      omega
    have hjle : j * sizeN ep.szx ≤ R.body.length := by
      have : j * sizeN ep.szx ≤ (j + 1) * sizeN ep.szx := Nat.mul_le_mul_right _ (by omega)
      omega
    have hstep := handleO_later_more ep outside (fr j) (t j) R c vs ent app ms j hs hrc hnobs htok hb1 hsnd hrcv (hlive j) hheld
      hjle hetag (by omega) hj0 hmore
    have hrec := ih (j + 1)
      (ep.put R.tok ⟨some ⟨c, vs⟩, some ⟨{ ent.msg with body := R.body.take ((j + 1) * sizeN ep.szx) }, ent.validUntil⟩⟩)
      ⟨{ ent.msg with body := R.body.take ((j + 1) * sizeN ep.szx) }, ent.validUntil⟩ hs (by omega) (by omega)
      (by have : j + 1 + k = j + (k + 1) := by omega
          rw [this]; exact hlo)
      (by have : j + 1 + k + 1 = j + (k + 1) + 1 := by omega
          rw [this]; exact hhi)
      (put_sending _ _ _) (put_receiving _ _ _) hlive rfl hetag horig
    have hl : laterArrivals R ep.szx ms t fr j (k + 1 + 1) =
        ArrivalO.msg (t j) (downloadBlock R ep.szx ms j) (fr j) :: laterArrivals R ep.szx ms t fr (j + 1) (k + 1) := by
      simp [laterArrivals, List.range']
    rw [hl]
    simp only [runO, stepO, hstep, List.nil_append]
    exact hrec

/-- **(a) notification_delivered_in_order.**  For every notification `N` (any code ≥ 2.01 that is a response, any options —
    an Observe option among them —, any body of `n ≥ 2` blocks), every non-BERT block size of the receiver, every original
    token, every fresh token other than the original one under which nothing live is held: when the blocks arrive in order —
    block 0 as the sender's layer cuts it from `N` (the sender stores nothing: `observe_response_not_stored`), blocks
    1 … n−1 as it cuts them from the answer `R` to the follow-up GETs (same body and ETag, token = the fresh token, no
    Observe) — at any times within the transfer timeout, exactly ONE message is handed to the application: `N` itself —
    original token, all of `N`'s options with the Observe option, the exact body — without the block options; and nothing
    is left under the fresh key. -/
theorem notification_delivered_in_order (ep : Endpoint) (outside : Outside) (F : Nat) (N R req : Msg) (app : App)
    (ms n : Nat) (t : Nat → Int) (fr : Nat → Nat)
    (hs : ep.szx < 7) (hrcN : RespCode N.code) (hobs : isObserveResponse N = true) (htokN : N.tok ≠ 0) (hb1N : N.block1 = none)
    (hsent : getSentRequest ep outside N.tok = some req)
    (hfs : live (ep.sending F) (t 0) = none) (hfr : live (ep.receiving F) (t 0) = none)
    (hrcR : RespCode R.code) (hnobs : isObserveResponse R = false) (hb1R : R.block1 = none)
    (hRtok : R.tok = F) (hF0 : F ≠ 0) (hFT : N.tok ≠ F) (hbody : R.body = N.body) (hetag : R.etag = N.etag)
    (hn : 1 ≤ n) (hnum : n + 2 < 2 ^ 20) (hlo : n * sizeN ep.szx < N.body.length) (hhi : N.body.length ≤ (n + 1) * sizeN ep.szx)
    (htime : ∀ i, t i ≤ t 0 + ep.expiration) (happ : ∀ m, app m = none) :
    (runO app outside ep (ArrivalO.msg (t 0) (downloadBlock N ep.szx ms 0) F :: laterArrivals R ep.szx ms t fr 1 n)).2 =
        [{ N with block2 := none, size2 := none }] ∧
      (runO app outside ep (ArrivalO.msg (t 0) (downloadBlock N ep.szx ms 0) F :: laterArrivals R ep.szx ms t fr 1 n)).1.sending F = none ∧
      (runO app outside ep (ArrivalO.msg (t 0) (downloadBlock N ep.szx ms 0) F :: laterArrivals R ep.szx ms t fr 1 n)).1.receiving F = none := by
  have hsz := sizeN_pos (by omega : ep.szx ≤ 7)
  have hmore : sizeN ep.szx < N.body.length := by
    have : 1 * sizeN ep.szx ≤ n * sizeN ep.szx := Nat.mul_le_mul_right _ hn
    omega
  have hfirst := handleO_first ep outside F (t 0) N req app ms hs hrcN hobs htokN hb1N hmore hsent hfs hfr
  obtain ⟨k, hk⟩ : ∃ k, n = k + 1 := ⟨n - 1, by omega⟩
  subst hk
  subst hRtok
  have hrec := run_later app outside R (cloneFor req R.tok) (t 0 + ep.expiration) ms t fr hrcR hnobs hF0 hb1R happ k 1
    (fetching ep R.tok ⟨cloneFor req R.tok, t 0 + ep.expiration⟩ ⟨downloadBlock N ep.szx ms 0, t 0 + ep.expiration⟩)
    ⟨downloadBlock N ep.szx ms 0, t 0 + ep.expiration⟩ hs (by omega) (by omega)
    (by rw [hbody]; have : 1 + k = k + 1 := by omega
        rw [this]; exact hlo)
    (by rw [hbody]; have : 1 + k + 1 = k + 1 + 1 := by omega
        rw [this]; exact hhi)
    (put_sending _ _ _) (put_receiving _ _ _) htime
    (by show (downloadBlock N ep.szx ms 0).body = _
        rw [downloadBlock_zero_body N ms hs, hbody, Nat.one_mul]; rfl)
    hetag.symm hFT
  simp only [runO, stepO, hfirst, List.nil_append]
  have hd : ({ (downloadBlock N ep.szx ms 0) with body := R.body, block2 := none, size2 := none } : Msg) = { N with block2 := none, size2 := none } := by
    rw [hbody]; rfl
  rw [← hd]
  exact hrec

/-- the hypotheses of (a) are satisfiable and its conclusion is not empty: a 2.05 notification of 40 bytes (three 16-byte
    blocks) with Observe = 5 under token 7, the observation registered in the observation table, fresh token 900 — exactly
    one delivery, of the 40 bytes, under token 7, Observe option kept, block options gone; nothing is left under 900 -/
def obsN : Msg := { code := 69, tok := 7, other := [(6, [5]), (12, [42])], body := exBody }
def obsR : Msg := { code := 69, tok := 900, other := [(12, [42])], body := exBody }
def obsReq : Msg := { code := 1, tok := 7, other := [(6, []), (11, [99])] }
def obsOutside : Outside := fun t => if t = 7 then some obsReq else none
def obsEp : Endpoint := { szx := 0, maxSize := 64, expiration := 1000 }

def obsRun := runO (fun _ => none) obsOutside obsEp
  (ArrivalO.msg 0 (downloadBlock obsN 0 64 0) 900 :: laterArrivals obsR 0 64 (fun i => (i : Int)) (fun _ => 901) 1 2)

example : obsRun.2.map (·.tok) = [7] ∧ obsRun.2.map (·.other) = [[(6, [5]), (12, [42])]] ∧ obsRun.2.map (·.body) = [exBody] ∧
    obsRun.2.map (·.block2) = [none] ∧ obsRun.2.map (·.size2) = [none] ∧
    obsRun.1.sending 900 = none ∧ obsRun.1.receiving 900 = none := by decide

/-- … and the follow-up request the first block triggers is the observation's request without Observe, under the fresh token,
    for block 1 -/
example : (handleO obsEp obsOutside 900 0 (downloadBlock obsN 0 64 0) (fun _ => none)).2.1.reply.map (·.code) = some 1 ∧
    (handleO obsEp obsOutside 900 0 (downloadBlock obsN 0 64 0) (fun _ => none)).2.1.reply.map (·.tok) = some 900 ∧
    (handleO obsEp obsOutside 900 0 (downloadBlock obsN 0 64 0) (fun _ => none)).2.1.reply.map (·.other) = some [(11, [99])] ∧
    (handleO obsEp obsOutside 900 0 (downloadBlock obsN 0 64 0) (fun _ => none)).2.1.reply.map (·.block2) = some (some 24) := by decide

theorem put_slots_self (ep : Endpoint) (k : Nat) : ep.put k ⟨ep.sending k, ep.receiving k⟩ = ep := by
  unfold Endpoint.put
  simp only [put_self]

/-- **(d) unregistered_notification_refused.**  A block-wise message of the response direction (a notification among them)
    for whose token no request is known — neither in the sending cache nor in the observation table — is refused: 4.08 and
    the error callback, nothing is handed to the application, the caches are untouched and no token is drawn. -/
theorem unregistered_notification_refused (ep : Endpoint) (outside : Outside) (fresh : Nat) (now : Int) (r : Msg) (app : App)
    (blk : Nat) (hs7 : ep.szx ≤ 7) (hrc : RespCode r.code) (htok : r.tok ≠ 0) (hb : r.block2 = some blk)
    (hnone : getSentRequest ep outside r.tok = none) :
    handleO ep outside fresh now r app = (ep, { reply := some (entityIncomplete r.tok), err := true }, false) := by
  have hsn : ep.sending r.tok = none := by
    unfold getSentRequest at hnone
    cases h : ep.sending r.tok with
    | none => rfl
    | some e => rw [h] at hnone; cases hnone
  have hgd := hrc.not_getdelete
  have hb' : r.block .b2 = some blk := hb
  have hpr : ∀ mx, processReceived ep.toCfg ⟨none, ep.receiving r.tok⟩ now none r mx app .b2 =
      { sl := ⟨none, ep.receiving r.tok⟩, w := none, failed := true } := by
    intro mx
    unfold processReceived
    simp only [if_neg htok, if_neg hgd, hb']
    cases decodeBlock blk with
    | error e => rfl
    | ok v => simp
  have hpro : ∀ mx, processReceivedO ep outside fresh now none r mx app .b2 = { ep := ep, w := none, failed := true } := by
    intro mx
    unfold processReceivedO
    simp only [hnone, hpr mx, writeBack, List.any_nil, Bool.and_false, Bool.false_eq_true, if_false, hsn]
    have := put_slots_self ep r.tok
    rw [hsn] at this
    rw [this]
  unfold handleO
  simp only [if_neg htok, hsn, live]
  rw [handleReceivedO_b2 _ _ _ _ _ _ hs7 hrc, hpro]
  simp [finishReceivedO]

example : (handleO obsEp (fun _ => none) 900 0 (downloadBlock obsN 0 64 0) (fun _ => none)).2.1 =
    { reply := some (entityIncomplete 7), err := true } := by decide

/-- **(c) notification_entries_end.**  The entries a block-wise notification makes under the fresh token do not outlive the
    transfer.  Completion: `notification_delivered_in_order` (both slots of the fresh key are empty after the last block).
    Abandoned (a follow-up or a block is lost): the first block stores both entries with the deadline `now + expiration`
    (1); the later blocks keep that deadline (`handleO_later_more`); from then on, for whatever is held under the key —
    (2) `Load` hides both entries once the deadline has passed and (3) the next sweep removes the reassembly entry and,
    with it, the clone of the request (whatever its own deadline); (4) a clone that is left alone (the reassembly entry was
    dropped by an error) goes with the first sweep after its own deadline. -/
theorem notification_entries_end :
    (∀ (ep : Endpoint) (outside : Outside) (F : Nat) (now : Int) (N req : Msg) (app : App) (ms : Nat),
      ep.szx < 7 → RespCode N.code → isObserveResponse N = true → N.tok ≠ 0 → N.block1 = none →
      sizeN ep.szx < N.body.length → getSentRequest ep outside N.tok = some req →
      live (ep.sending F) now = none → live (ep.receiving F) now = none →
      (handleO ep outside F now (downloadBlock N ep.szx ms 0) app).1.sending F = some ⟨cloneFor req F, now + ep.expiration⟩ ∧
      (handleO ep outside F now (downloadBlock N ep.szx ms 0) app).1.receiving F = some ⟨downloadBlock N ep.szx ms 0, now + ep.expiration⟩) ∧
    (∀ (e : Entry) (t : Int), t > e.validUntil → live (some e) t = none) ∧
    (∀ (ep : Endpoint) (t : Int) (F : Nat) (e : Entry), ep.receiving F = some e → t > e.validUntil →
      (sweep ep t).receiving F = none ∧ (sweep ep t).sending F = none) ∧
    (∀ (ep : Endpoint) (t : Int) (F : Nat) (e : Entry), ep.sending F = some e → t > e.validUntil → (sweep ep t).sending F = none) := by
  refine ⟨?_, live_expired, fun ep t F => (sweep_removes ep t F).1, fun ep t F => (sweep_removes ep t F).2⟩
  intro ep outside F now N req app ms hs hrc hobs htok hb1 hmore hsent hfs hfr
  rw [handleO_first ep outside F now N req app ms hs hrc hobs htok hb1 hmore hsent hfs hfr]
  exact ⟨put_sending _ _ _, put_receiving _ _ _⟩

example : (sweep (handleO obsEp obsOutside 900 0 (downloadBlock obsN 0 64 0) (fun _ => none)).1 1001).sending 900 = none ∧
    (sweep (handleO obsEp obsOutside 900 0 (downloadBlock obsN 0 64 0) (fun _ => none)).1 1001).receiving 900 = none ∧
    ((handleO obsEp obsOutside 900 0 (downloadBlock obsN 0 64 0) (fun _ => none)).1.receiving 900).isSome = true := by decide

theorem put_slots_other (ep : Endpoint) {k k' : Nat} (sl : Slots) (h : k' ≠ k) :
    (ep.put k sl).sending k' = ep.sending k' ∧ (ep.put k sl).receiving k' = ep.receiving k' := by
  simp [Endpoint.put, Cache.put, h]

/-- **(b) nothing_before_last_block_partial.**  Proved: in every state in which the blocks `0 … j−1` of a notification are
    held under the fresh key (`j = 0`: nothing live is held and the first block arrives), the arrival of block `j` hands
    NOTHING to the application unless it is the last block — the first block and every later non-final block only extend
    what is held (`handleO_first`, `handleO_later_more`); with `notification_delivered_in_order` and
    `run_later`: in an in-order arrival exactly the last block delivers, and what it delivers is the whole body.
    **Missing** (hence `_partial`): the statement for ARBITRARY arrivals at the fresh key (duplicates, gaps, stale and foreign
    blocks), i.e. the lift of `reassembly_prefix` / `no_partial_as_complete` of `Props/C04.lean`.  Those are proved for
    `processReceived` — which the observe branch calls unchanged on the slots of the fresh key — under the invariant
    `HeldOK`, which says that the held message carries the token of its key; under the fresh key it carries the ORIGINAL
    token, and the notification's first block carries an Observe option that the later blocks do not (`Matches` wants equal
    options on every block).  What is needed is a lemma that `processReceived` never looks at the token or the other options of
    the held message; it is not proved here.  The correspondence (exhaustive single and double faults, random faults on
    block-wise notifications, judged by `exact` / `once`) covers that part on the implementation. -/
theorem nothing_before_last_block_partial :
    (∀ (ep : Endpoint) (outside : Outside) (F : Nat) (now : Int) (N req : Msg) (app : App) (ms : Nat),
      ep.szx < 7 → RespCode N.code → isObserveResponse N = true → N.tok ≠ 0 → N.block1 = none →
      sizeN ep.szx < N.body.length → getSentRequest ep outside N.tok = some req →
      live (ep.sending F) now = none → live (ep.receiving F) now = none →
      (handleO ep outside F now (downloadBlock N ep.szx ms 0) app).2.1.delivered = []) ∧
    (∀ (ep : Endpoint) (outside : Outside) (fr : Nat) (now : Int) (R c : Msg) (vs : Int) (ent : Entry) (app : App) (ms j : Nat),
      ep.szx < 7 → RespCode R.code → isObserveResponse R = false → R.tok ≠ 0 → R.block1 = none →
      ep.sending R.tok = some ⟨c, vs⟩ → ep.receiving R.tok = some ent → now ≤ ent.validUntil →
      ent.msg.body = R.body.take (j * sizeN ep.szx) → j * sizeN ep.szx ≤ R.body.length → ent.msg.etag = R.etag →
      j + 1 < 2 ^ 20 → 0 < j → (j + 1) * sizeN ep.szx < R.body.length →
      (handleO ep outside fr now (downloadBlock R ep.szx ms j) app).2.1.delivered = [] ∧
      ((handleO ep outside fr now (downloadBlock R ep.szx ms j) app).1.receiving R.tok).map (·.msg.body) =
        some (R.body.take ((j + 1) * sizeN ep.szx))) := by
  constructor
  · intro ep outside F now N req app ms hs hrc hobs htok hb1 hmore hsent hfs hfr
    rw [handleO_first ep outside F now N req app ms hs hrc hobs htok hb1 hmore hsent hfs hfr]
  · intro ep outside fr now R c vs ent app ms j hs hrc hnobs htok hb1 hsnd hrcv hlive hheld hj hetag hnum hj0 hmore
    rw [handleO_later_more ep outside fr now R c vs ent app ms j hs hrc hnobs htok hb1 hsnd hrcv hlive hheld hj hetag hnum hj0 hmore]
    exact ⟨rfl, by rw [put_receiving]; rfl⟩

/-- **(e) notifications_do_not_mix_partial.**  Two block-wise notifications of ONE observation (same original token) are
    fetched under two different fresh tokens `F ≠ F'`.  Proved — the frame property of every step of one transfer, in ANY
    state of the endpoint: the first block of a notification fetched under `F` and every later block that arrives under `F`
    (final or not) leave the two cache slots of every other key `F'`, the configuration and the observation table's answer
    unchanged; and what such a step does and delivers is determined by the slots of `F` (and, for the first block, by the
    request found for the original token) alone — `handleO_first`, `handleO_later_more`, `handleO_later_last` have no other
    hypotheses.  So whatever position the steps of the other transfer take, the hypotheses of the next step of this transfer
    still hold and it does exactly what it would do alone: the body delivered under `F` is assembled from blocks that arrived
    for `F` only.  **Missing** (hence `_partial`): the induction over an arbitrary interleaving of the two arrival
    sequences that packages these frame steps into one statement about `runO` (deliveries = one `N`, one `N'`, nothing
    else).  The instance below runs a lock-step interleaving; the correspondence runs swapped ones. -/
theorem notifications_do_not_mix_partial :
    (∀ (ep : Endpoint) (outside : Outside) (F F' : Nat) (now : Int) (N req : Msg) (app : App) (ms : Nat),
      ep.szx < 7 → RespCode N.code → isObserveResponse N = true → N.tok ≠ 0 → N.block1 = none →
      sizeN ep.szx < N.body.length → getSentRequest ep outside N.tok = some req →
      live (ep.sending F) now = none → live (ep.receiving F) now = none → F' ≠ F →
      (handleO ep outside F now (downloadBlock N ep.szx ms 0) app).1.sending F' = ep.sending F' ∧
      (handleO ep outside F now (downloadBlock N ep.szx ms 0) app).1.receiving F' = ep.receiving F' ∧
      (handleO ep outside F now (downloadBlock N ep.szx ms 0) app).1.toCfg = ep.toCfg) ∧
    (∀ (ep : Endpoint) (outside : Outside) (fr F' : Nat) (now : Int) (R c : Msg) (vs : Int) (ent : Entry) (app : App) (ms j : Nat),
      ep.szx < 7 → RespCode R.code → isObserveResponse R = false → R.tok ≠ 0 → R.block1 = none →
      ep.sending R.tok = some ⟨c, vs⟩ → ep.receiving R.tok = some ent → now ≤ ent.validUntil →
      ent.msg.body = R.body.take (j * sizeN ep.szx) → j * sizeN ep.szx ≤ R.body.length → ent.msg.etag = R.etag →
      j + 1 < 2 ^ 20 → 0 < j → ent.msg.tok ≠ R.tok → (∀ m, app m = none) → F' ≠ R.tok →
      (handleO ep outside fr now (downloadBlock R ep.szx ms j) app).1.sending F' = ep.sending F' ∧
      (handleO ep outside fr now (downloadBlock R ep.szx ms j) app).1.receiving F' = ep.receiving F' ∧
      (handleO ep outside fr now (downloadBlock R ep.szx ms j) app).1.toCfg = ep.toCfg) := by
  constructor
  · intro ep outside F F' now N req app ms hs hrc hobs htok hb1 hmore hsent hfs hfr hne
    rw [handleO_first ep outside F now N req app ms hs hrc hobs htok hb1 hmore hsent hfs hfr]
    exact ⟨(put_slots_other ep _ hne).1, (put_slots_other ep _ hne).2, rfl⟩
  · intro ep outside fr F' now R c vs ent app ms j hs hrc hnobs htok hb1 hsnd hrcv hlive hheld hj hetag hnum hj0 horig happ hne
    by_cases hmore : (j + 1) * sizeN ep.szx < R.body.length
    · rw [handleO_later_more ep outside fr now R c vs ent app ms j hs hrc hnobs htok hb1 hsnd hrcv hlive hheld hj hetag hnum hj0 hmore]
      exact ⟨(put_slots_other ep _ hne).1, (put_slots_other ep _ hne).2, rfl⟩
    · rw [handleO_later_last ep outside fr now R c vs ent app ms j hs hrc hnobs htok hb1 hsnd hrcv hlive hheld hj hetag hnum hj0
        (by omega) horig (happ _)]
      exact ⟨(put_slots_other ep _ hne).1, (put_slots_other ep _ hne).2, rfl⟩

/-- two notifications of the observation of token 7 (bodies `exBody` and `exRespBody`, Observe 5 and 6), fetched under 900 and
    901 in lock step (N1.0, N2.0, R1.1, R2.1, R1.2, R2.2): two deliveries, each with its own body and Observe value -/
def obsN2 : Msg := { code := 69, tok := 7, other := [(6, [6]), (12, [42])], body := exRespBody }
def obsR2 : Msg := { code := 69, tok := 901, other := [(12, [42])], body := exRespBody }
def obsRun2 := runO (fun _ => none) obsOutside obsEp
  [.msg 0 (downloadBlock obsN 0 64 0) 900, .msg 1 (downloadBlock obsN2 0 64 0) 901,
   .msg 2 (downloadBlock obsR 0 64 1) 0, .msg 3 (downloadBlock obsR2 0 64 1) 0,
   .msg 4 (downloadBlock obsR 0 64 2) 0, .msg 5 (downloadBlock obsR2 0 64 2) 0]

example : obsRun2.2.map (·.body) = [exBody, exRespBody] ∧ obsRun2.2.map (·.other) = [[(6, [5]), (12, [42])], [(6, [6]), (12, [42])]] ∧
    obsRun2.2.map (·.tok) = [7, 7] ∧ obsRun2.1.sending 900 = none ∧ obsRun2.1.receiving 901 = none := by decide

/-- **observe_response_not_stored** (sender side, RFC 7959 §2.6).  A one-way write of an observe response — whatever its
    length — leaves the sender's caches exactly as they were: if it is cut into blocks, only the first block goes out and
    nothing is kept for the continuation (the receiver fetches the rest with GETs under a new token, which the application
    answers from its current resource). -/
theorem observe_response_not_stored (ep : Endpoint) (now : Int) (N : Msg) (hms : ep.szx < 7 ∨ 1024 ≤ ep.maxSize)
    (hobs : isObserveResponse N = true) : (writeMessageO ep now N).1 = ep := by
  have key : ∀ blk x, startSendingSO ep.toCfg (ep.sending N.tok) now (some N) ep.szx blk = .ok x → x.1 = ep.sending N.tok := by
    intro blk x hx
    unfold startSendingSO at hx
    simp only [] at hx
    split at hx
    · injection hx with hx; rw [← hx]
    · cases hc : createSendingFirst N ep.szx ep.toCfg.maxSize blk with
      | none => rw [hc] at hx; cases hx
      | some p =>
        obtain ⟨sm, more⟩ := p
        obtain ⟨_, _, _, _, _, _, _, _, _, hcode, _, _, hother⟩ := createSendingWith_slice (skip := startSkipsSent) hms hc
        have hobs' : isObserveResponse sm = true := by
          unfold isObserveResponse hasObserve at hobs ⊢
          rw [hcode, hother]; exact hobs
        rw [hc] at hx
        simp only [hobs', if_true] at hx
        injection hx with hx; rw [← hx]
  unfold writeMessageO
  split
  · rfl
  · rename_i blk _
    split
    · rfl
    · rename_i snd w heq
      have := key blk (snd, w) heq
      simp only at this
      rw [this]
      simp only [put_self]

example : (writeMessageO obsEp 0 obsN).1.sending 7 = none ∧ (writeMessageO obsEp 0 obsN).2 = some (downloadBlock obsN 0 64 0) := by decide

end CoapVerif.Props.C04Observe

section Audit
open CoapVerif.Props.C04Observe
#print axioms run_later
#print axioms notification_delivered_in_order
#print axioms unregistered_notification_refused
#print axioms notification_entries_end
#print axioms put_sending
#print axioms put_receiving
#print axioms put_slots_self
#print axioms observe_response_not_stored
#print axioms put_slots_other
#print axioms nothing_before_last_block_partial
#print axioms notifications_do_not_mix_partial
end Audit
