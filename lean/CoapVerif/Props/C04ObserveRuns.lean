import CoapVerif.Go.Basic
import CoapVerif.Model.Blockwise
import CoapVerif.Model.BlockwiseObserve
import CoapVerif.Lemmas.Blockwise
import CoapVerif.Lemmas.BlockwiseObserve
import CoapVerif.Lemmas.BlockwiseConserv
import CoapVerif.Lemmas.BlockwiseFrame
/-!
# C04, block-wise notifications under ARBITRARY arrivals (closes the two `…_partial` theorems of `Props/C04Observe.lean`)

Statement (properties.jsonl, C04): "… Duplicated, stale, out-of-order or foreign-token blocks never corrupt, truncate or extend a
body, and concurrent transfers with different tokens never mix.  An exchange that cannot complete ends with an error or timeout —
never with a partial body presented as complete …"

`Props/C04Observe.lean` proves (b) `nothing_before_last_block_partial` and (e) `notifications_do_not_mix_partial` per step / for
in-order arrivals.  Here they are proved for every `List ArrivalO` (`Lemmas/BlockwiseFrame.lean`):

* the FRAME of one `Handle` call of the observe-aware model (`handleO_frame`, `handleO_congr`): it is ONE `put` under the token
  of the message or under the scripted fresh token, and depends on the endpoint only through the configuration and the slots of
  these two keys (and `getSentRequest` of the message's token);
* `notifications_do_not_mix` (e): every interleaving of two fetches under distinct fresh tokens;
* `runO_body_exact`, `nothing_before_last_block` (b): the lift of `reassembly_prefix` / `no_partial_as_complete` to the fresh key —
  the invariant is keyed by the CACHE KEY and speaks about ETag and bytes only (`HeldB`, `GoodDataB`), because under the fresh
  key the held message carries the ORIGINAL token and the first block carries options the later blocks do not;
  `processReceivedMessage` never looks at either (`processReceived_invB`).

Standing hypotheses of this module (both are kept along runs and both are needed in substance): the receiving application
answers the messages handed to it without a body (`AppBodyless`; A's application in the system is `fun _ => none`) — a completed
notification is handed on under the ORIGINAL token, and a block-wise answer to it would be stored in the sending slot of that
token, which the first blocks of other fetches read —, and a legal block-size exponent (`szx ≤ 7`).
-/
namespace CoapVerif.Props.C04ObserveRuns
open CoapVerif CoapVerif.Model.Blockwise CoapVerif.Model.BlockOpt CoapVerif.Generated.BlockwiseXfer
open CoapVerif.Model.BlockwiseObserve CoapVerif.Lemmas.Blockwise CoapVerif.Lemmas.BlockwiseObserve
open CoapVerif.Lemmas.BlockwiseFrame

/-- **handleO_frame.**  One `Handle` call of the observe-aware model leaves the configuration and both cache slots of every key
    other than the message's token and the scripted fresh token unchanged; a message that is not an observe response leaves
    every key other than its own token unchanged, whatever the fresh token. -/
theorem handleO_frame (ep : Endpoint) (outside : Outside) (fresh : Nat) (now : Int) (r : Msg) (app : App)
    (hs7 : ep.szx ≤ 7) (happ : AppBodyless app) :
    (handleO ep outside fresh now r app).1.toCfg = ep.toCfg ∧
    (∀ k, k ≠ r.tok → k ≠ fresh → (handleO ep outside fresh now r app).1.slots k = ep.slots k) ∧
    (isObserveResponse r = false → ∀ k, k ≠ r.tok → (handleO ep outside fresh now r app).1.slots k = ep.slots k) :=
  Lemmas.BlockwiseFrame.handleO_frame ep outside fresh now r app hs7 happ

example : ((handleO xEp xOutside 900 0 (downloadBlock xN 0 64 0) (fun _ => none)).1.slots 900).rcv.isSome = true ∧
    (handleO xEp xOutside 900 0 (downloadBlock xN 0 64 0) (fun _ => none)).1.slots 901 = xEp.slots 901 := by decide

/-- **handleO_congr.**  … and what it does is determined by the configuration and the slots of these two keys: on two endpoints
    that agree on them the call produces the same reply, deliveries, error report and `drew`, and the results agree on every
    key the endpoints agreed on. -/
theorem handleO_congr (ep ep' : Endpoint) (outside : Outside) (fresh : Nat) (now : Int) (r : Msg) (app : App)
    (hs7 : ep.szx ≤ 7) (happ : AppBodyless app) (hc : ep.toCfg = ep'.toCfg) (hR : ep.slots r.tok = ep'.slots r.tok)
    (hF : ep.slots fresh = ep'.slots fresh) :
    (handleO ep outside fresh now r app).2 = (handleO ep' outside fresh now r app).2 ∧
    ∀ k, ep.slots k = ep'.slots k →
      (handleO ep outside fresh now r app).1.slots k = (handleO ep' outside fresh now r app).1.slots k :=
  Lemmas.BlockwiseFrame.handleO_congr ep ep' outside fresh now r app hs7 happ hc hR hF

/-- **(e) notifications_do_not_mix.**  Two notifications of the observation with token `T` (known to the observation table) are
    fetched under distinct fresh tokens `F ≠ G`, both different from `T`.  For EVERY interleaving `as` of arrivals of the two
    fetches — first blocks (observe responses for `T` that take the observe branch, scripted token `F` resp. `G`), any messages
    with token `F` resp. `G` that are not observe responses (any order, any number of times, anything missing), sweeps anywhere
    (they belong to both) — from EVERY state: what is handed to the application while `F`'s arrivals are handled (`runSel`) is
    exactly what the run over `F`'s arrivals ALONE hands on, the slots of `F` end up the same, and likewise for `G`.
    (`runSel_filter` is the general form: any number of other fetches and exchanges on other tokens in between.) -/
theorem notifications_do_not_mix (app : App) (outside : Outside) (T F G : Nat) (hFG : F ≠ G) (hFT : F ≠ T) (hGT : G ≠ T)
    (hout : (outside T).isSome = true) (happ : AppBodyless app) (ep : Endpoint) (hs7 : ep.szx ≤ 7) (as : List ArrivalO)
    (hall : ∀ x ∈ as, mine T F x = true ∨ mine T G x = true) :
    (runSel (mine T F) app outside ep as = (runO app outside ep (as.filter (mine T F))).2 ∧
     (runO app outside ep as).1.slots F = (runO app outside ep (as.filter (mine T F))).1.slots F) ∧
    (runSel (mine T G) app outside ep as = (runO app outside ep (as.filter (mine T G))).2 ∧
     (runO app outside ep as).1.slots G = (runO app outside ep (as.filter (mine T G))).1.slots G) :=
  Lemmas.BlockwiseFrame.notifications_do_not_mix app outside T F G hFG hFT hGT hout happ ep hs7 as hall

/-- the general form: arrivals of `F`'s fetch among arbitrary `Foreign` ones -/
theorem notifications_do_not_mix_general (app : App) (outside : Outside) (T F : Nat) (happ : AppBodyless app) (as : List ArrivalO)
    (a b : Endpoint) (hs7 : a.szx ≤ 7) (hab : Agree T F a b) (hall : ∀ x ∈ as, mine T F x = true ∨ Foreign outside T F x) :
    runSel (mine T F) app outside a as = (runO app outside b (as.filter (mine T F))).2 ∧
    Agree T F (runO app outside a as).1 (runO app outside b (as.filter (mine T F))).1 :=
  runSel_filter app outside T F happ as a b hs7 hab hall

/-- non-vacuity: two notifications of the observation of token 7 fetched under 900 and 901 in lock step with a sweep in between
    satisfy the hypotheses; each projection delivers its own body -/
example : (∀ x ∈ xAs, mine 7 900 x = true ∨ mine 7 901 x = true) ∧ (xOutside 7).isSome = true ∧
    (runSel (mine 7 900) (fun _ => none) xOutside xEp xAs).map (·.body) = [exBody] ∧
    (runSel (mine 7 901) (fun _ => none) xOutside xEp xAs).map (·.body) = [exRespBody] ∧
    (runO (fun _ => none) xOutside xEp (xAs.filter (mine 7 900))).2.map (·.body) = [exBody] := by decide

/-- **runO_body_exact** — (b) in its general form.  From any state whose receiving cache satisfies `EpInvB` (what is held under a
    key is a prefix of the body registered under THAT KEY and the held ETag; empty caches in particular), for EVERY list of
    arrivals (any order, duplicates, losses, any tokens in between, any scripted fresh tokens, sweeps) whose data blocks are
    aligned slices of what is registered for the cache key they are filed under (`GoodArrB`: the message's token, or the
    scripted fresh token for an observe response): every message handed to the application is one of the arrived messages
    handed on unassembled, or carries exactly the complete body registered under the key it was reassembled under and its
    ETag — never a part of a body, never a mixture; and the invariant holds at the end. -/
theorem runO_body_exact {R : Reg} (hd : Discipline R) (app : App) (outside : Outside) (happ : AppBodyless app) (as : List ArrivalO)
    (ep : Endpoint) (hs7 : ep.szx ≤ 7) (hinv : EpInvB R ep) (hall : ∀ a ∈ as, GoodArrB R a) :
    EpInvB R (runO app outside ep as).1 ∧
    ∀ d ∈ (runO app outside ep as).2,
      ∃ now r fr, ArrivalO.msg now r fr ∈ as ∧ ((d = r ∧ PassThrough r) ∨ CompleteB R r.tok d ∨ CompleteB R fr d) :=
  Lemmas.BlockwiseFrame.runO_body_exact hd app outside happ as ep hs7 hinv hall

/-- **(b) nothing_before_last_block** (arbitrary arrivals).  A notification `N` is fetched under the fresh key `F`.  For EVERY list
    of arrivals whose data blocks — where they are reassembled at all — are filed under `F` and are aligned slices of `N`'s body
    with `N`'s ETag (nothing else is registered; messages without block option, signals, GET / DELETE are free), from any state
    satisfying the invariant: every message handed to the application is an arrived message handed on as it is, or carries
    `N`'s ETag and exactly `N`'s complete body.  What the delivered message's OPTIONS are is not claimed here: in order they are
    `N`'s (`notification_delivered_in_order`); after a restart by a stray block 0 or an ETag change under `F` they are those of
    the GET answer (docs/notes/C04.md, observations of round 10). -/
theorem nothing_before_last_block (F : Nat) (N : Msg) (app : App) (outside : Outside) (happ : AppBodyless app) (as : List ArrivalO)
    (ep : Endpoint) (hs7 : ep.szx ≤ 7) (hinv : EpInvB (regOne F N) ep) (hall : ∀ a ∈ as, GoodArrB (regOne F N) a) :
    ∀ d ∈ (runO app outside ep as).2,
      (∃ now r fr, ArrivalO.msg now r fr ∈ as ∧ d = r ∧ PassThrough r) ∨ (d.etag = N.etag ∧ d.body = N.body) :=
  Lemmas.BlockwiseFrame.nothing_before_last_block F N app outside happ as ep hs7 hinv hall

/-- non-vacuity: first block, block 1, a duplicate of block 1, a sweep, block 2 — the hypotheses hold and the body IS delivered -/
example : EpInvB (regOne 900 xN) xEp ∧ (runO (fun _ => none) xOutside xEp xAsF).2.map (·.body) = [exBody] ∧
    GoodArrB (regOne 900 xN) (.msg 1 (downloadBlock xR 0 64 1) 0) :=
  ⟨epInvB_empty _ _ (fun _ => rfl), by decide,
   fun _ => goodDataB_downloadBlock _ _ xR _ 0 64 1 (by decide) (by decide) (by decide) rfl rfl, fun h => absurd h (by decide)⟩

end CoapVerif.Props.C04ObserveRuns

section Audit
open CoapVerif.Props.C04ObserveRuns
#print axioms handleO_frame
#print axioms handleO_congr
#print axioms notifications_do_not_mix
#print axioms notifications_do_not_mix_general
#print axioms runO_body_exact
#print axioms nothing_before_last_block
end Audit
