import CoapVerif.Go.Basic
import CoapVerif.Model.Blockwise
import CoapVerif.Lemmas.Blockwise
import CoapVerif.Lemmas.BlockwiseObserve
import CoapVerif.Lemmas.BlockwiseProgress
/-!
# C04, progress of `Do` over ALL rounds (auxiliary: shows that the safety theorems are not vacuous; not part of the verdict)

`Props/C04.lean` has one fault-free round for a symbolic block index (`faultfree_progress_block1/2`) and runs the whole loop on an
instance.  Here the loop is ONE theorem by induction over the rounds (`Lemmas/BlockwiseProgress.lean`): `Do` through
`World.run` with only `deliver` decisions, any body length, equal non-BERT exponents — Block1 upload (`upload_progress`), Block2
download (`download_progress`) and a block-wise request answered block-wise (`do_progress`).  The state between two rounds is
the invariant of the induction (`Mid`, `Mid2`: the one message in flight, what A keeps for its call, what B holds); the first and
the last round are proved at `handleS` level (`receiver_first`, `receiver_last`, `requester_first`, `requester_last`,
`responder_first`, `receiver_last_long`), the relay bookkeeping in `deliver_A`, `deliver_B`, `deliver_A_done`.

Not covered (exact): a body of exactly ONE block that is still sent block-wise (`len = size`; `upload_progress` asks for an answer
shorter than a block, `do_progress` for one of at least two blocks); a short POST/PUT/FETCH answered block-wise (`download_progress`
handles the GET/DELETE branch of `handleReceivedMessage`); BERT and unequal exponents; deliveries at different times (the
scripts contain no `sleep`); a response carrying a deadline or block options of its own.
-/
namespace CoapVerif.Props.C04Progress
open CoapVerif CoapVerif.Model.Blockwise CoapVerif.Model.BlockOpt CoapVerif.Generated.BlockwiseXfer
open CoapVerif.Lemmas.Blockwise CoapVerif.Lemmas.BlockwiseObserve CoapVerif.Lemmas.BlockwiseProgress

/-- **upload_progress** (Block1, `Do` through the two-endpoint system, fault-free, ANY body length).  A world with nothing in flight,
    equal non-BERT exponents, A's slots and both of B's slots for the token free; a POST/PUT `r` (non-zero token, no Block1 / Size1
    option, deadline not yet reached or none) whose body needs `n ≥ 2` blocks (`n ≤ 2^20`, below 4 GiB); B's application answers the
    completed request with a response shorter than one block, or not at all.  Then `Do(r)` followed by exactly `2n − 1` fault-free
    deliveries hands B's application exactly one message — `r` as the wire carries it, complete body, no block options —, hands A's
    application nothing, raises no error and returns no call; afterwards the only message in flight is B's answer (none if there
    is none), B holds nothing under the token and A still keeps `r` for its call (`Done`). -/
theorem upload_progress (w : World) (r : Msg) (n : Nat)
    (hszx : w.a.szx = w.b.szx) (hs : w.b.szx < 7) (hpp : isPostPut r.code = true) (htok : r.tok ≠ 0)
    (hexp : w.now ≤ doExpire r) (hlen : r.body.length < 4294967296) (hb1 : r.block1 = none) (hs1 : r.size1 = none)
    (hn : 2 ≤ n) (hnum : n ≤ 2 ^ 20) (hlo : (n - 1) * sizeN w.b.szx < r.body.length) (hhi : r.body.length ≤ n * sizeN w.b.szx)
    (hq : w.queue = []) (hpe : w.pending = []) (hfa : w.a.sending r.tok = none) (hra : w.a.receiving r.tok = none)
    (hfb : w.b.sending r.tok = none) (hrb : w.b.receiving r.tok = none)
    (hexpA : 0 ≤ w.a.expiration) (hexpB : 0 ≤ w.b.expiration)
    (happ : ∀ x, w.appB (onWire r) = some x → x.body.length < sizeN w.b.szx) :
    Done (World.run w (Op.doReq r :: List.replicate (2 * n - 1) (Op.fault .deliver))).1 w.appB r ∧
    delivs (World.run w (Op.doReq r :: List.replicate (2 * n - 1) (Op.fault .deliver))).2 = [(.B, onWire r)] ∧
    troubles (World.run w (Op.doReq r :: List.replicate (2 * n - 1) (Op.fault .deliver))).2 = 0 :=
  Lemmas.BlockwiseProgress.upload_progress w r n hszx hs hpp htok hexp hlen hb1 hs1 hn hnum hlo hhi hq hpe hfa hra hfb hrb hexpA hexpB happ

/-- non-vacuity (evaluated): a 40-byte POST in three 16-byte blocks answered with three bytes — 5 deliveries, one hand-over to B's
    application, the answer in flight; with one delivery less nothing has been handed on -/
example :
    delivs (World.run exW (Op.doReq exReq :: List.replicate (2 * 3 - 1) (Op.fault .deliver))).2 = [(.B, onWire exReq)] ∧
    troubles (World.run exW (Op.doReq exReq :: List.replicate (2 * 3 - 1) (Op.fault .deliver))).2 = 0 ∧
    (World.run exW (Op.doReq exReq :: List.replicate (2 * 3 - 1) (Op.fault .deliver))).1.queue = respQueue exShortApp exReq ∧
    delivs (World.run exW (Op.doReq exReq :: List.replicate (2 * 3 - 2) (Op.fault .deliver))).2 = [] := by decide

/-- **download_progress** (Block2, `Do` through the two-endpoint system, fault-free, ANY body length).  A GET / DELETE `req` that fits
    one block; B's application answers it with a response `x` (a response code, no block options, no deadline) whose body needs
    `n ≥ 2` blocks.  Then `Do(req)` followed by exactly `2n` fault-free deliveries hands B's application the request once and A's
    application the response once — exactly `x` under the request's token, complete body —, the call returns it, no error is raised,
    nothing is left in flight and nothing under the token in A's caches or in B's sending cache (`Done2`). -/
theorem download_progress (w : World) (req x : Msg) (n : Nat)
    (hszx : w.a.szx = w.b.szx) (hs : w.b.szx < 7) (hq : req.code = codeGET ∨ req.code = codeDELETE) (htok : req.tok ≠ 0)
    (hb2 : req.block2 = none) (hfit : req.body.length ≤ sizeN w.b.szx) (hexp : w.now ≤ doExpire req)
    (happ : w.appB (onWire req) = some x) (hrc : RespCode x.code) (hxb1 : x.block1 = none) (hxb2 : x.block2 = none)
    (hxs2 : x.size2 = none) (hdl : x.deadline = none) (hlen : x.body.length < 4294967296)
    (hn : 2 ≤ n) (hnum : n < 2 ^ 20) (hlo : (n - 1) * sizeN w.b.szx < x.body.length) (hhi : x.body.length ≤ n * sizeN w.b.szx)
    (hqu : w.queue = []) (hpe : w.pending = [])
    (hfa : w.a.sending req.tok = none) (hra : w.a.receiving req.tok = none) (hfb : w.b.sending req.tok = none)
    (hexpA : 0 ≤ w.a.expiration) (hexpB : 0 ≤ w.b.expiration) :
    Done2 (World.run w (Op.doReq req :: List.replicate (2 * n) (Op.fault .deliver))).1 req.tok ∧
    delivs (World.run w (Op.doReq req :: List.replicate (2 * n) (Op.fault .deliver))).2 =
      [(.B, onWire req), (.A, { x with tok := req.tok })] ∧
    rets (World.run w (Op.doReq req :: List.replicate (2 * n) (Op.fault .deliver))).2 = [(req.tok, some { x with tok := req.tok })] ∧
    errs (World.run w (Op.doReq req :: List.replicate (2 * n) (Op.fault .deliver))).2 = 0 :=
  Lemmas.BlockwiseProgress.download_progress w req x n hszx hs hq htok hb2 hfit hexp happ hrc hxb1 hxb2 hxs2 hdl hlen hn hnum hlo hhi
    hqu hpe hfa hra hfb hexpA hexpB

/-- non-vacuity (evaluated): a GET answered with 40 bytes in three blocks — 6 deliveries; after 5 the response has not been handed on -/
example :
    delivs (World.run exW2 (Op.doReq exGet :: List.replicate (2 * 3) (Op.fault .deliver))).2 =
      [(.B, onWire exGet), (.A, { exGetResp with tok := 7 })] ∧
    delivs (World.run exW2 (Op.doReq exGet :: List.replicate (2 * 3 - 1) (Op.fault .deliver))).2 = [(.B, onWire exGet)] := by decide

/-- **do_progress** (a block-wise request answered block-wise).  A POST/PUT `r` of `n1 ≥ 2` blocks whose answer `x` needs `n2 ≥ 2`
    blocks: `Do(r)` followed by exactly `2·n1 + 2·n2 − 2` fault-free deliveries hands B's application the complete request once and
    A's application the complete response once, the call returns it, no error, nothing left (`Done2`). -/
theorem do_progress (w : World) (r x : Msg) (n1 n2 : Nat)
    (hszx : w.a.szx = w.b.szx) (hs : w.b.szx < 7) (hpp : isPostPut r.code = true) (htok : r.tok ≠ 0)
    (hexp : w.now ≤ doExpire r) (hlenr : r.body.length < 4294967296) (hb1 : r.block1 = none) (hs1 : r.size1 = none)
    (hn1 : 2 ≤ n1) (hnum1 : n1 ≤ 2 ^ 20) (hlo1 : (n1 - 1) * sizeN w.b.szx < r.body.length) (hhi1 : r.body.length ≤ n1 * sizeN w.b.szx)
    (happ : w.appB (onWire r) = some x) (hrc : RespCode x.code) (hxb1 : x.block1 = none) (hxb2 : x.block2 = none)
    (hxs2 : x.size2 = none) (hdl : x.deadline = none) (hlenx : x.body.length < 4294967296)
    (hn2 : 2 ≤ n2) (hnum2 : n2 < 2 ^ 20) (hlo2 : (n2 - 1) * sizeN w.b.szx < x.body.length) (hhi2 : x.body.length ≤ n2 * sizeN w.b.szx)
    (hq : w.queue = []) (hpe : w.pending = []) (hfa : w.a.sending r.tok = none) (hra : w.a.receiving r.tok = none)
    (hfb : w.b.sending r.tok = none) (hrb : w.b.receiving r.tok = none)
    (hexpA : 0 ≤ w.a.expiration) (hexpB : 0 ≤ w.b.expiration) :
    Done2 (World.run w (Op.doReq r :: List.replicate (2 * n1 + 2 * n2 - 2) (Op.fault .deliver))).1 r.tok ∧
    delivs (World.run w (Op.doReq r :: List.replicate (2 * n1 + 2 * n2 - 2) (Op.fault .deliver))).2 =
      [(.B, onWire r), (.A, { x with tok := r.tok })] ∧
    rets (World.run w (Op.doReq r :: List.replicate (2 * n1 + 2 * n2 - 2) (Op.fault .deliver))).2 =
      [(r.tok, some { x with tok := r.tok })] ∧
    errs (World.run w (Op.doReq r :: List.replicate (2 * n1 + 2 * n2 - 2) (Op.fault .deliver))).2 = 0 :=
  Lemmas.BlockwiseProgress.do_progress w r x n1 n2 hszx hs hpp htok hexp hlenr hb1 hs1 hn1 hnum1 hlo1 hhi1 happ hrc hxb1 hxb2 hxs2 hdl
    hlenx hn2 hnum2 hlo2 hhi2 hq hpe hfa hra hfb hrb hexpA hexpB

/-- non-vacuity: the hypotheses hold for the instance of `Props/C04.lean` (40-byte POST, three blocks, answered with 40 bytes, three
    blocks): `2·3 + 2·3 − 2 = 10` deliveries -/
example : Done2 (World.run exWorld (Op.doReq exReq :: List.replicate (2 * 3 + 2 * 3 - 2) (Op.fault .deliver))).1 7 ∧
    delivs (World.run exWorld (Op.doReq exReq :: List.replicate (2 * 3 + 2 * 3 - 2) (Op.fault .deliver))).2 =
      [(.B, onWire exReq), (.A, { code := 68, tok := 7, other := [(12, [42])], body := exRespBody })] ∧
    rets (World.run exWorld (Op.doReq exReq :: List.replicate (2 * 3 + 2 * 3 - 2) (Op.fault .deliver))).2 =
      [(7, some { code := 68, tok := 7, other := [(12, [42])], body := exRespBody })] ∧
    errs (World.run exWorld (Op.doReq exReq :: List.replicate (2 * 3 + 2 * 3 - 2) (Op.fault .deliver))).2 = 0 :=
  do_progress exWorld exReq { code := 68, tok := 7, other := [(12, [42])], body := exRespBody } 3 3
    (by decide) (by decide) (by decide) (by decide) (by decide) (by decide) (by decide) (by decide)
    (by decide) (by decide) (by decide) (by decide)
    (by decide) ⟨by decide, by decide, by decide, by decide⟩ (by decide) (by decide) (by decide) (by decide) (by decide)
    (by decide) (by decide) (by decide) (by decide)
    rfl rfl rfl rfl rfl rfl (by decide) (by decide)

end CoapVerif.Props.C04Progress

section Audit
open CoapVerif.Props.C04Progress
#print axioms upload_progress
#print axioms download_progress
#print axioms do_progress
end Audit
