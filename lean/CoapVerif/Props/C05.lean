import CoapVerif.Go.Basic
import CoapVerif.Model.Dedup
import CoapVerif.Spec.Dedup
import CoapVerif.Lemmas.Dedup
import CoapVerif.Model.DedupLock
import CoapVerif.Lemmas.DedupLock
/-!
# C05 — datagram duplicates never re-execute a handler (MID de-duplication)

Statement (properties.jsonl): on datagram transports, a confirmable request — or a non-confirmable
request for which a reply was produced — that arrives again with the same message ID from the same
peer before the exchange lifetime (247 s) has elapsed is not handed to the application handler a second
time, even when the copies are processed concurrently.  Each duplicate is instead answered with a reply
of the same code, token, options and payload as the first one (a bare acknowledgement if that is what
the first copy got), matched to the duplicate's message ID.  Once the lifetime has elapsed the ID is
treated as fresh again.

The theorems are about `Model.Dedup.run`: every list of events (arrivals of any type / message ID /
token / handler behaviour / handler duration, sleeps of any length, housekeeping ticks at any time,
application-level separate responses), from any initial value of the endpoint's own message-ID counter.
One arrival is one atomic step there.  That the check–handle–store section of `handleReq` may be treated as
atomic per message ID is the subject of the last section: a two-goroutine interleaving model of that section
(`Model/DedupLock.lean`), whose lock/unlock statements are present iff the regenerated shape fact
`handleReqLockedPerMID` says so, and for which every schedule runs the handler once
(`concurrent_copies_handled_once`).  The store key, the lookup key, the lifetime and whether an empty / reset
reply is cached are regenerated from /repo as well; were the reply stored under its own message ID again (F9),
or the 0.00 / Reset reply left out of the cache again (F28), `store_key_is_request_mid` resp.
`empty_reply_is_cached` and everything below them would stop checking.

There is **no exception for any handler behaviour**: a confirmable request answered with code 0.00 (or Reset)
is in scope like every other confirmable request (`inScope` = the handler ran ∧ (confirmable ∨ a reply was
written)).  "A reply was produced" for a non-confirmable request means: through the response writer.

A trace lists arrivals most recent first: in `post ++ o :: pre`, `pre` are the arrivals before `o`.
-/
namespace CoapVerif.Props.C05
open CoapVerif CoapVerif.Spec.Dedup CoapVerif.Model.Dedup CoapVerif.Lemmas.Dedup

/-! ## regenerated facts the proofs rest on -/

/-- `ExchangeLifetime` in the source is the 247 s of RFC 7252 §4.8.2. -/
theorem lifetime_is_rfc : params.lifetime = lifetimeNs := by decide

/-- `processResponse` stores the reply under the message ID of the *request* (not F9's reply MID). -/
theorem store_key_is_request_mid : params.storeKeyIsRequestMID = true := rfl

/-- `processResponse` caches an empty (0.00) / reset reply like any other (F28 fix). -/
theorem empty_reply_is_cached : params.emptyReplyCached = true := rfl

/-- `checkResponseCache` looks duplicates up under the request's message ID. -/
theorem lookup_key_is_request_mid : Generated.Dedup.lookupKeyIsRequestMID = true := rfl

/-- `handleReq` holds the per-message-ID mutex around check – handle – store (atomicity premise). -/
theorem handleReq_atomic_per_mid : Generated.Dedup.handleReqLockedPerMID = true := rfl

/-- The connections the servers create themselves are the connections the theorems are about: `dtls/server.createConn`
    and `udp/server.getOrCreateConn` build them with `udp/client`'s default response cache (no replacement cache is
    handed in), and the datagram server finds a peer's existing connection (concrete local address) before the
    wildcard-keyed one that `Server.NewConn` makes, under a local address that is taken anew for every datagram (a
    multicast datagram is not keyed under the destination of whatever unicast datagram came before it) — so a peer's
    datagrams keep reaching the connection that holds its replies.  (The behaviour itself is checked on real servers by the harness levels `dtlssrv` and `udpsrv`.) -/
theorem server_made_connections_keep_the_cache :
    Generated.Dedup.dtlsServerConnDefaultCache = true ∧ Generated.Dedup.udpServerConnDefaultCache = true ∧
    Generated.Dedup.udpPeerLookupConcreteFirst = true ∧ Generated.Dedup.udpLocalAddrCopiedPerDatagram = true := by decide

/-! ## the invariant holds on every reachable state -/

theorem trace_ok (msgID : Nat) (evs : List Ev) : TraceOk lifetimeNs (run msgID evs).trace := by
  have h := inv_runFrom store_key_is_request_mid empty_reply_is_cached evs (init msgID) (inv_init _ _)
  have := h.t
  rw [lifetime_is_rfc] at this
  exact this

theorem traceOk_split {L : Nat} : ∀ (post : List Obs) (o : Obs) (pre : List Obs),
    TraceOk L (post ++ o :: pre) → DupOk L o pre ∧ FreshOk L o pre
  | [], _, _, h => ⟨h.1, h.2.1⟩
  | _ :: post, o, pre, h => traceOk_split post o pre h.2.2

/-! ## the property -/

/-- A request whose message ID was already handled — by a confirmable copy, or by a non-confirmable one
    that got a reply — and whose reply was produced less than (or exactly) a lifetime ago is **not** handed
    to the handler again; whatever happened in between (other traffic, ticks, own messages). -/
theorem dup_not_rehandled (msgID : Nat) (evs : List Ev) (post pre : List Obs) (o p : Obs)
    (ht : (run msgID evs).trace = post ++ o :: pre) (hp : p ∈ pre) (hmid : p.mid = o.mid)
    (hs : inScope p = true) (hlt : o.t < doneAt p + lifetimeNs) : o.ran = [] := by
  have h := trace_ok msgID evs
  rw [ht] at h
  exact ((traceOk_split post o pre h).1 p hp hmid hs (Nat.le_of_lt hlt)).1

/-- … and it is answered by exactly one datagram: the first reply (piggybacked response, or the bare
    acknowledgement if that is what the first copy got) with the same code, token, options and payload,
    carrying the duplicate's message ID; an acknowledgement if the duplicate is confirmable. -/
theorem dup_reply_equal (msgID : Nat) (evs : List Ev) (post pre : List Obs) (o p : Obs)
    (ht : (run msgID evs).trace = post ++ o :: pre) (hp : p ∈ pre) (hmid : p.mid = o.mid)
    (hs : inScope p = true) (hlt : o.t < doneAt p + lifetimeNs) :
    ∃ r d, reply p = some r ∧ o.sent = [d] ∧ sameContent d r = true ∧ d.mid = o.mid ∧
      (o.typ = .con → d.typ = .ack) := by
  have h := trace_ok msgID evs
  rw [ht] at h
  obtain ⟨_, r, hr, hsent⟩ := (traceOk_split post o pre h).1 p hp hmid hs (Nat.le_of_lt hlt)
  refine ⟨r, _, hr, hsent, ?_, rfl, ?_⟩
  · simp [sameContent]
  · intro hc; simp [hc, dupType]

/-- Once more than a lifetime has passed since every earlier handler execution for this message ID, the
    ID is fresh: the handler runs (exactly once) — with or without housekeeping ticks in between. -/
theorem fresh_after_lifetime (msgID : Nat) (evs : List Ev) (post pre : List Obs) (o : Obs)
    (ht : (run msgID evs).trace = post ++ o :: pre)
    (hall : ∀ p ∈ pre, p.mid = o.mid → p.ran ≠ [] → doneAt p + lifetimeNs < o.t) : ∃ n, o.ran = [n] := by
  have h := trace_ok msgID evs
  rw [ht] at h
  exact (traceOk_split post o pre h).2 hall

/-- A request with a message ID that no earlier request carried is always handed to the handler —
    whatever the endpoint's own counter is and whichever own message IDs its earlier replies, separate
    responses and nested messages used (the cache is keyed by request IDs only). -/
theorem own_mid_no_crosstalk (msgID : Nat) (evs : List Ev) (post pre : List Obs) (o : Obs)
    (ht : (run msgID evs).trace = post ++ o :: pre) (hnew : ∀ p ∈ pre, p.mid ≠ o.mid) : ∃ n, o.ran = [n] :=
  fresh_after_lifetime msgID evs post pre o ht (fun p hp hm => (hnew p hp hm).elim)

/-! ## the executable judge accepts every model history -/

theorem check_ok {o : Obs} {pre : List Obs} (hd : DupOk lifetimeNs o pre) (hf : FreshOk lifetimeNs o pre) :
    check o pre = .ok := by
  unfold check
  cases hfind : pre.find? (covers o) with
  | some p =>
    have hp := List.mem_of_find?_eq_some hfind
    have hc := List.find?_some hfind
    simp only [covers, Bool.and_eq_true, beq_iff_eq, decide_eq_true_eq] at hc
    obtain ⟨hran, r, hr, hsent⟩ := hd p hp hc.1.1 hc.1.2 (Nat.le_of_lt hc.2)
    simp only [hran, hr, hsent]
    cases ho : o.typ <;> simp [sameContent, dupType]
  | none =>
    simp only
    by_cases hall : pre.all (clearOf o) = true
    · simp only [hall, if_true]
      have : ∀ p ∈ pre, p.mid = o.mid → p.ran ≠ [] → doneAt p + lifetimeNs < o.t := by
        intro p hp hm hr
        have := List.all_eq_true.mp hall p hp
        simp only [clearOf, Bool.or_eq_true, Bool.not_eq_true', Bool.and_eq_false_iff, beq_eq_false_iff_ne,
          decide_eq_true_eq] at this
        cases this with
        | inl h1 =>
          cases h1 with
          | inl h2 => exact (h2 hm).elim
          | inr h2 =>
            simp at h2
            exact (hr h2).elim
        | inr h1 => exact h1
      obtain ⟨n, hn⟩ := hf this
      simp [hn]
    · simp [hall]

theorem judgeRev_ok : ∀ (tr : List Obs), TraceOk lifetimeNs tr → judgeRev tr = .ok
  | [], _ => rfl
  | o :: pre, h => by
    unfold judgeRev
    rw [judgeRev_ok pre h.2.2]
    exact check_ok h.1 h.2.1

/-- The specification's judge (the one that is run on the implementation's observed histories) accepts
    every history of the model. -/
theorem run_conforms (msgID : Nat) (evs : List Ev) : judge (run msgID evs).trace.reverse = .ok := by
  unfold judge
  rw [List.reverse_reverse]
  exact judgeRev_ok _ (trace_ok msgID evs)

/-! ## copies processed concurrently: the per-message-ID lock section under every interleaving -/

open CoapVerif.Model.DedupLock in
/-- Two goroutines process two copies of one request at the same time, one statement at a time, under **any**
    schedule: the handler has run at most once at every moment, and not at all if an earlier copy had already
    been answered (`cached0`). -/
theorem concurrent_copies_handled_once (cached0 : Bool) (sched : List Bool) :
    (Model.DedupLock.run cached0 sched).runs ≤ 1 ∧ (cached0 = true → (Model.DedupLock.run cached0 sched).runs = 0) := by
  have h := Lemmas.DedupLock.inv_exec cached0 sched (init cached0) (Lemmas.DedupLock.inv_init cached0)
  have hl : Generated.Dedup.handleReqLockedPerMID = true := rfl
  unfold Model.DedupLock.run
  rw [hl]
  generalize exec true (init cached0) sched = s at h
  obtain ⟨pa, pb, lock, cached, runs⟩ := s
  obtain ⟨hg, hr⟩ := h
  simp only [Lemmas.DedupLock.runsOf] at hr
  simp only [Lemmas.DedupLock.good] at hg
  subst hr
  revert hg
  cases cached0 <;> cases pa <;> cases pb <;> cases cached <;> cases lock <;> (try rename_i b; cases b) <;> decide

open CoapVerif.Model.DedupLock in
/-- … and once both goroutines are through, exactly one of the two copies was handed to the handler (none if the
    request had been answered before); the other one was answered from the cache. -/
theorem concurrent_copies_final (cached0 : Bool) (sched : List Bool)
    (hd : (Model.DedupLock.run cached0 sched).pa = Model.DedupLock.PC.done ∧ (Model.DedupLock.run cached0 sched).pb = Model.DedupLock.PC.done) :
    (Model.DedupLock.run cached0 sched).runs = (if cached0 then 0 else 1) ∧ (Model.DedupLock.run cached0 sched).cached = true := by
  have h := Lemmas.DedupLock.inv_exec cached0 sched (init cached0) (Lemmas.DedupLock.inv_init cached0)
  have hl : Generated.Dedup.handleReqLockedPerMID = true := rfl
  unfold Model.DedupLock.run at hd ⊢
  rw [hl] at hd ⊢
  generalize exec true (init cached0) sched = s at h hd
  obtain ⟨pa, pb, lock, cached, runs⟩ := s
  obtain ⟨hg, hr⟩ := h
  obtain ⟨h1, h2⟩ := hd
  simp only at h1 h2
  subst h1 h2
  simp only [Lemmas.DedupLock.runsOf] at hr
  simp only [Lemmas.DedupLock.good] at hg
  subst hr
  revert hg
  cases cached0 <;> cases cached <;> cases lock <;> (try rename_i b; cases b) <;> decide

/-- a schedule in which both goroutines finish: A takes the lock, B waits, A handles and stores, B hits the cache -/
example : Model.DedupLock.run false [false, true, false, true, false, false, false, true, true, true, true] =
    ⟨Model.DedupLock.PC.done, Model.DedupLock.PC.done, none, true, 1⟩ := by decide

/-! ## non-vacuity: concrete histories -/

/-- F28: a confirmable request answered with code 0.00, duplicated within the lifetime: handler once, same empty ACK -/
example : ((run 7 [.recv .con 9 [1] .empty 0, .sleep 1000, .recv .con 9 [1] .empty 0]).trace.map
    (fun o => (o.ran, o.sent.map (fun d => (d.typ, d.code, d.mid))))) =
    [([], [(.ack, 0, 9)]), ([1], [(.ack, 0, 9)])] := by decide


/-- a duplicated NON request that got a reply (own MID 32770): handler once, second copy answered from the cache -/
example : ((run (initMsgID 0 32767) [.recv .non 5 [1] .pbe 0, .sleep 1000, .recv .non 5 [1] .pbe 0]).trace.map
    (fun o => (o.ran, o.sent.map (fun d => (d.typ, d.code, d.mid))))) =
    [([], [(.non, 132, 5)]), ([1], [(.con, 132, 32770)])] := by decide

/-- a request whose message ID equals the own MID used for an earlier reply is handled, not answered from the cache -/
example : ((run (initMsgID 0 32767) [.recv .non 5 [1] .pbe 0, .recv .con 32770 [2] .pbe 0]).trace.map
    (fun o => (o.mid, o.ran))) = [(32770, [2]), (5, [1])] := by decide

/-- lifetime boundary: at 247 s the copy is still a duplicate, 1 ns later (even without a tick) it is fresh -/
example : ((run 7 [.recv .con 9 [1] .none 0, .sleep 247000000000, .recv .con 9 [1] .none 0, .sleep 1,
    .recv .con 9 [1] .none 0]).trace.map (fun o => (o.t, o.ran))) =
    [(247000000001, [2]), (247000000000, []), (0, [1])] := by decide

/-- the hypotheses of `dup_not_rehandled` are satisfiable: the first arrival is in scope -/
example : inScope ⟨0, 0, .con, 9, [1], .none, [1], [⟨.ack, 0, 9, [], [], []⟩]⟩ = true := by decide

end CoapVerif.Props.C05

section Audit
open CoapVerif.Props.C05
#print axioms lifetime_is_rfc
#print axioms store_key_is_request_mid
#print axioms empty_reply_is_cached
#print axioms lookup_key_is_request_mid
#print axioms handleReq_atomic_per_mid
#print axioms server_made_connections_keep_the_cache
#print axioms trace_ok
#print axioms traceOk_split
#print axioms dup_not_rehandled
#print axioms dup_reply_equal
#print axioms fresh_after_lifetime
#print axioms own_mid_no_crosstalk
#print axioms check_ok
#print axioms judgeRev_ok
#print axioms run_conforms
#print axioms concurrent_copies_handled_once
#print axioms concurrent_copies_final
end Audit
