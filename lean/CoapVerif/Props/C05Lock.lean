import CoapVerif.Model.DedupLockNCfg
import CoapVerif.Lemmas.DedupLockNInv
import CoapVerif.Lemmas.DedupLockNProj
import CoapVerif.Lemmas.DedupLockNTwo
/-!
# C05 — "… even when the copies are processed concurrently": n goroutines over the modelled `MutexMap`

Statement (properties.jsonl, C05): on datagram transports, a confirmable request — or a non-confirmable request for which a
reply was produced — that arrives again with the same message ID from the same peer before the exchange lifetime (247 s) has
elapsed is not handed to the application handler a second time, **even when the copies are processed concurrently**.  Each
duplicate is instead answered with a reply of the same code, token, options and payload as the first one.  Once the lifetime
has elapsed the ID is treated as fresh again.

`Model/DedupLockN.lean` is the interleaving model of `handleReq`'s section over `udp/client/mutexmap.go` (entries created and
reference-counted under the map lock, removed when the count drops to zero): any number of goroutines, any message IDs,
copies arriving and cache entries expiring at any point of the schedule.  The theorems hold for **every** schedule
(`List Ev`), hence every number of goroutines, every arrival pattern and every wake-up order; they are proved from an
invariant (`Lemmas/DedupLockN*.lean`), not by enumerating schedules.  `Model.DedupLockN.run` is the program with the shape
regenerated from /repo (`handleReqLockedPerMID`, `copyWaitsAfterHandover`); the theorems below are proved for both values of
`tryFirst` (TryLock-then-Lock, and plain Lock) and need `useLock = true`; without the lock `nolock_two_executions_n` is the
counter-example.

A reply is a value: the index of the goroutine that ran the handler.  `s.runs k` lists the executions for message ID `k`,
`s.exps k` counts how often the cached reply of `k` expired, `c0 k` is what the cache held for `k` at the start.
-/
namespace CoapVerif.Props.C05Lock
open CoapVerif CoapVerif.Model.DedupLockN CoapVerif.Lemmas.DedupLockN

/-- `udp/client/mutexmap.go` has the shape the model's `TryLock` / `Lock` / `Unlock` statements follow (regenerated, the
    recogniser fails closed) -/
theorem mutexmap_is_refcounted : Generated.Dedup.mutexMapRefCounted = true := rfl

/-- the regenerated program shape has the lock: `handleReq` takes it around check – handle – store, and it is that `MutexMap` -/
theorem cfg_locked : cfg.useLock = true := rfl

theorem run_inv (c0 : Nat → Option Nat) (sched : List Ev) : Inv c0 (run c0 sched) :=
  inv_exec c0 cfg cfg_locked sched _ (inv_init c0)

/-! ## the modelled `MutexMap`: mutual exclusion per message ID, no interference between message IDs -/

/-- Two copies of one message ID are never inside the lock section together — a consequence of the reference count
    (the entry a goroutine waits for / holds is the one in the map), not an assumption. -/
theorem mutex_per_mid (c0 : Nat → Option Nat) (sched : List Ev) (i j : Nat) (g g' : G)
    (hi : (run c0 sched).gs[i]? = some g) (hj : (run c0 sched).gs[j]? = some g') (hk : g'.key = g.key)
    (hc : inCS g.pc = true) (hc' : inCS g'.pc = true) : j = i :=
  mutex (run_inv c0 sched) hi hj hk hc hc'

/-- Copies of different message IDs never wait for each other: a goroutine that cannot move waits for an entry whose mutex is
    held by a goroutine with **the same** message ID, and that goroutine can move. -/
theorem blocked_only_by_same_mid (c0 : Nat → Option Nat) (sched : List Ev) (i : Nat) (g : G)
    (hi : (run c0 sched).gs[i]? = some g) (hl : live g = true) (hb : runnable (run c0 sched) g = false) :
    ∃ (j : Nat) (h : G), (run c0 sched).gs[j]? = some h ∧ h.key = g.key ∧ j ≠ i ∧ runnable (run c0 sched) h = true := by
  have hI := run_inv c0 sched
  generalize run c0 sched = s at *
  obtain ⟨k, pc⟩ := g
  cases pc <;> simp [live, runnable] at hl hb
  rename_i e
  have hm := hI.wait i _ e hi rfl
  cases hh : (s.heap k e).held with
  | none => simp [hh] at hb
  | some j =>
    obtain ⟨h, hj, hk, hor⟩ := hI.held k e j hh
    refine ⟨j, h, hj, hk, ?_, ?_⟩
    · rintro rfl
      rw [hi] at hj; cases hj
      rcases hor with ⟨hc, _⟩ | ⟨v, hv⟩
      · simp [inCS] at hc
      · cases hv
    · rcases hor with ⟨hc, _⟩ | ⟨v, hv⟩
      · cases hq : h.pc <;> simp_all [inCS, runnable]
      · simp [runnable, hv]

/-- (d) No deadlock: in every reachable state in which some copy is not through, some goroutine can execute a statement
    (the mutex of an entry is always released by its holder's remaining program); and `Unlock` never panics. -/
theorem no_deadlock (c0 : Nat → Option Nat) (sched : List Ev) (i : Nat) (g : G)
    (hi : (run c0 sched).gs[i]? = some g) (hl : live g = true) :
    ∃ (j : Nat) (h : G), (run c0 sched).gs[j]? = some h ∧ runnable (run c0 sched) h = true := by
  cases hb : runnable (run c0 sched) g
  · obtain ⟨j, h, hj, _, _, hr⟩ := blocked_only_by_same_mid c0 sched i g hi hl hb
    exact ⟨j, h, hj, hr⟩
  · exact ⟨i, g, hi, hb⟩

theorem unlock_never_panics (c0 : Nat → Option Nat) (sched : List Ev) (i : Nat) (g : G)
    (hi : (run c0 sched).gs[i]? = some g) : g.pc ≠ .panicked :=
  (run_inv c0 sched).noPanic i g hi

/-- A goroutine that can move does move: its statement changes its program counter. -/
theorem runnable_moves (c : Cfg) (s : State) (i : Nat) (g : G) (hi : s.gs[i]? = some g) (hr : runnable s g = true) :
    (step c s (.step i)).gs[i]? ≠ some g := by
  obtain ⟨hlt, _⟩ := List.getElem?_eq_some_iff.mp hi
  obtain ⟨k, pc⟩ := g
  simp only [step, hi]
  cases pc <;> simp [runnable] at hr <;> simp only [stepG, lockRef, unlockRef]
  all_goals (repeat' split)
  all_goals simp_all [setPc, setEntry, newEntry]

/-! ## (a) the handler runs at most once per message ID and cache lifetime -/

/-- For every schedule — any number of concurrent copies, arriving whenever — the number of handler executions for a message
    ID is at most one per cache lifetime: one plus the number of expiries, counting what the cache held at the start. -/
theorem handler_once_per_mid_n (c0 : Nat → Option Nat) (sched : List Ev) (k : Nat) :
    ((run c0 sched).runs k).length + (c0 k).toList.length ≤ 1 + (run c0 sched).exps k := by
  have := (run_inv c0 sched).phi1 k
  simpa [srcs] using this

/-- Without an expiry in between: at most one execution, none if the request had been answered before. -/
theorem handler_once_without_expiry (c0 : Nat → Option Nat) (sched : List Ev) (k : Nat) (he : (run c0 sched).exps k = 0) :
    ((run c0 sched).runs k).length ≤ 1 ∧ ((c0 k).isSome → (run c0 sched).runs k = []) := by
  have := handler_once_per_mid_n c0 sched k
  rw [he] at this
  constructor
  · omega
  · intro hs
    cases hc : c0 k with
    | none => simp [hc] at hs
    | some v =>
      simp [hc] at this
      exact this

/-! ## (b) every copy that completes gets the reply of the one execution -/

/-- The reply a completed copy sent is the reply of an execution for its message ID (or what the cache held at the start) — -/
theorem completed_reply_is_an_execution (c0 : Nat → Option Nat) (sched : List Ev) (i k v : Nat)
    (hi : (run c0 sched).gs[i]? = some ⟨k, .done v⟩) : v ∈ (run c0 sched).runs k ∨ c0 k = some v := by
  have := (run_inv c0 sched).vals i _ v hi rfl
  simpa [srcs] using this

/-- — and without an expiry in between there was **exactly one** execution (if some copy completed), whose reply every
    completed copy got. -/
theorem completed_copies_exactly_one_execution (c0 : Nat → Option Nat) (sched : List Ev) (i k v : Nat)
    (he : (run c0 sched).exps k = 0) (h0 : c0 k = none) (hi : (run c0 sched).gs[i]? = some ⟨k, .done v⟩) :
    (run c0 sched).runs k = [v] := by
  have h1 := handler_once_per_mid_n c0 sched k
  rcases completed_reply_is_an_execution c0 sched i k v hi with hm | hm
  · rw [he, h0] at h1
    cases hr : (run c0 sched).runs k with
    | nil => rw [hr] at hm; cases hm
    | cons a r =>
      rw [hr] at hm h1
      cases r with
      | nil => simp at hm; rw [hm]
      | cons b r' => simp at h1
  · rw [h0] at hm; cases hm

theorem completed_copies_same_reply (c0 : Nat → Option Nat) (sched : List Ev) (i j k v v' : Nat)
    (he : (run c0 sched).exps k = 0) (hi : (run c0 sched).gs[i]? = some ⟨k, .done v⟩)
    (hj : (run c0 sched).gs[j]? = some ⟨k, .done v'⟩) : v = v' := by
  cases h0 : c0 k with
  | none =>
    have a := completed_copies_exactly_one_execution c0 sched i k v he h0 hi
    have b := completed_copies_exactly_one_execution c0 sched j k v' he h0 hj
    rw [a] at b
    cases b; rfl
  | some w =>
    have hr := (handler_once_without_expiry c0 sched k he).2 (by simp [h0])
    rcases completed_reply_is_an_execution c0 sched i k v hi with hm | hm
    · rw [hr] at hm; cases hm
    · rcases completed_reply_is_an_execution c0 sched j k v' hj with hm' | hm'
      · rw [hr] at hm'; cases hm'
      · rw [hm] at hm'; cases hm'; rfl

/-! ## (e) different message IDs are independent -/

/-- The projection of any run (any number of message IDs) to one message ID `k` — its goroutines, its map entry, its cache
    entry, its executions; the goroutines of other message IDs reduced to slots that never move — **is a run of the system in
    which only copies of `k` exist**: the same program on the schedule in which arrivals of other message IDs are empty slots
    and their expiries nothing.  (Holds for both shapes of the program, with and without the lock.) -/
theorem different_mids_independent (c : Cfg) (c0 : Nat → Option Nat) (k : Nat) (sched : List Ev) :
    restrict k (exec c (init c0) sched) = exec c (init (rk k c0 none)) (sched.map (projEv k)) := by
  rw [restrict_exec, restrict_init]

/-- … and in that schedule nothing of another message ID is left. -/
theorem projected_schedule_has_one_mid (k : Nat) (ev : Ev) :
    (∀ k', projEv k ev = .arrive k' → k' = k) ∧ (∀ k', projEv k ev = .expire k' → k' = k) := by
  cases ev with
  | arrive k2 => by_cases h : k2 = k <;> simp [projEv, h]
  | expire k2 => by_cases h : k2 = k <;> simp [projEv, h]
  | step i => simp [projEv]
  | pad => simp [projEv]
  | nop => simp [projEv]

/-- two message IDs interleaved; seen from 8, goroutine 0 (a copy of 7) is a slot and 8's own copy is where it is -/
example : (restrict 8 (run (fun _ => none) [.arrive 7, .arrive 8, .step 0, .step 1, .step 0, .step 1])).gs =
    [⟨0, .gone⟩, ⟨8, .miss⟩] := by decide

/-! ## the two-goroutine model of `Props.C05.concurrent_copies_handled_once` is the n = 2 case -/

/-- Two copies of one message ID `k` arrive and are then scheduled in any way (`bs`: `false` = goroutine 0, `true` =
    goroutine 1): the coarse view of the resulting state — program counters with the `MutexMap` statements folded into
    "idle" / "done", who is in the section, is a reply cached, how often did the handler run — **is a state of
    `Model.DedupLock.run`** for some schedule of that model: every statement of the n-goroutine model is either invisible there
    (`TryLock` failing, queueing up, the second half of `Unlock`) or one statement of the two-goroutine model. -/
theorem two_copies_refine_DedupLock (c0 : Nat → Option Nat) (k : Nat) (bs : List Bool) :
    ∃ sched, abs2 k (run c0 ([.arrive k, .arrive k] ++ bs.map stepOf)) = Model.DedupLock.run (c0 k).isSome sched := by
  obtain ⟨hi, ht⟩ := two_init c0 cfg k
  have hI : Inv c0 (exec cfg (init c0) [.arrive k, .arrive k]) := inv_exec c0 cfg cfg_locked _ _ (inv_init c0)
  obtain ⟨sched, h⟩ := two_refines c0 cfg cfg_locked k (c0 k).isSome bs _ [] hI ht hi
  refine ⟨sched, ?_⟩
  have hl : Generated.Dedup.handleReqLockedPerMID = true := rfl
  unfold Model.DedupLock.run
  rw [hl, ← h]
  simp [run, exec]

/-- 0 takes the lock, 1 queues up; 0 handles, stores, unlocks; 1 hits the cache: seen coarsely, both through, one execution -/
example : abs2 7 (run (fun _ => none) ([.arrive 7, .arrive 7] ++ [false, true, true, false, false, false, false, false, true, true, true, true].map stepOf)) =
    ⟨.done, .done, none, true, 1⟩ := by decide

/-! ## (c) without the lock two executions are possible (n = 2 suffices) -/

/-- The program without the per-message-ID lock (either shape of `tryFirst`): both copies see the miss, both run the handler;
    no expiry involved. -/
theorem nolock_two_executions_n (tf : Bool) :
    ∃ sched, ((exec ⟨false, tf⟩ (init (fun _ => none)) sched).runs 7).length = 2 ∧
      (exec ⟨false, tf⟩ (init (fun _ => none)) sched).exps 7 = 0 :=
  ⟨[.arrive 7, .arrive 7, .step 0, .step 0, .step 1, .step 1, .step 0, .step 1], by cases tf <;> decide⟩

/-! ## expiry: the bound of (a) is tight, a copy after the lifetime is legitimately fresh (`Props.C05.fresh_after_lifetime`) -/

/-- One copy runs through, the cached reply expires, a second copy with the same message ID arrives: the handler runs for it
    — two executions, one expiry. -/
example : ((run (fun _ => none) ([.arrive 7] ++ List.replicate 6 (.step 0) ++ [.expire 7, .arrive 7] ++ List.replicate 6 (.step 1))).runs 7,
    (run (fun _ => none) ([.arrive 7] ++ List.replicate 6 (.step 0) ++ [.expire 7, .arrive 7] ++ List.replicate 6 (.step 1))).exps 7) =
    ([1, 0], 1) := by decide

/-! ## non-vacuity -/

/-- three copies; 0 takes the lock (TryLock), 1 and 2 queue up behind it (TryLock fails, Lock), 0 runs the handler and
    stores, the scheduler wakes 2 before 1: everybody is through, one execution, everybody sent reply 0 -/
example : let s := run (fun _ => none) [.arrive 7, .arrive 7, .arrive 7, .step 0, .step 1, .step 2, .step 1, .step 2,
      .step 0, .step 0, .step 1, .step 0, .step 0, .step 0, .step 2, .step 2, .step 2, .step 2, .step 1, .step 1, .step 1, .step 1]
    (s.gs, s.runs 7, s.ma 7) = ([⟨7, .done 0⟩, ⟨7, .done 0⟩, ⟨7, .done 0⟩], [0], none) := by decide

/-- a blocked goroutine (hypotheses of `blocked_only_by_same_mid`): 1 waits for the entry 0 holds -/
example : let s := run (fun _ => none) [.arrive 7, .arrive 7, .step 0, .step 1, .step 1]
    (s.gs, runnable s ⟨7, .waiting 0⟩, live ⟨7, .waiting 0⟩) = ([⟨7, .locked⟩, ⟨7, .waiting 0⟩], false, true) := by decide

/-- two message IDs at the same time: both lock sections are occupied -/
example : (run (fun _ => none) [.arrive 7, .arrive 8, .step 0, .step 1]).gs = [⟨7, .locked⟩, ⟨8, .locked⟩] := by decide

/-- a request that had been answered before (`c0 7 = some 99`): the copy is answered from the cache, no execution -/
example : let s := run (fun k => if k = 7 then some 99 else none) ([.arrive 7] ++ List.replicate 4 (.step 0))
    (s.gs, s.runs 7) = ([⟨7, .done 99⟩], []) := by decide

end CoapVerif.Props.C05Lock

section Audit
open CoapVerif.Props.C05Lock
#print axioms mutexmap_is_refcounted
#print axioms cfg_locked
#print axioms run_inv
#print axioms mutex_per_mid
#print axioms blocked_only_by_same_mid
#print axioms no_deadlock
#print axioms unlock_never_panics
#print axioms runnable_moves
#print axioms handler_once_per_mid_n
#print axioms handler_once_without_expiry
#print axioms completed_reply_is_an_execution
#print axioms completed_copies_exactly_one_execution
#print axioms completed_copies_same_reply
#print axioms nolock_two_executions_n
#print axioms different_mids_independent
#print axioms projected_schedule_has_one_mid
#print axioms two_copies_refine_DedupLock
end Audit
