import CoapVerif.Spec.DedupOpts
import CoapVerif.Model.DedupRecode
import CoapVerif.Model.Dedup
/-!
C05: "… Each duplicate is instead answered with a reply of the same code, token, **options** and payload as the first one …"

The history model (`Model/Dedup.lean`) keeps the reply itself in the response cache; the code keeps its encoding and decodes
it again for every duplicate, with the option table `CoapOptionDefs` (`Model/DedupRecode.lean`: `served`).  This file proves
that the difference cannot be seen on a reply whose options are legal by their RFCs (`Spec/DedupOpts.lean`):

* `table_admits_rfc_lengths` — every entry of the regenerated table admits every length its RFC allows (and an entry for a
  number no RFC assigns admits every length): the obligation the table has to meet, decided on the regenerated table;
* `admitted_survives` / `recode_legal` — for **any** table that meets it and any legal reply, `recode defs d = d`;
* `served_reply_is_first_reply` — what `processResponse` puts into the cache for a handler whose options are legal comes out
  of the cache unchanged, so `dup_reply_equal` of Props/C05.lean (stated on the model that caches the reply itself) is the
  statement about the code for such replies.

Not covered (stated, not proved): replies with an option of an *illegal* length for a number the table knows (e.g. an ETag of
9 bytes) — the first copy gets the option, the duplicates do not, on the unchanged code; see docs/notes/C05.md, "Eleventh
seeded round".  The round trip of everything but the table-driven skip is C01's theorem, taken as given here.
-/
namespace CoapVerif.Props.C05Opts
open CoapVerif CoapVerif.Spec.Dedup CoapVerif.Spec.DedupOpts CoapVerif.Model.DedupRecode CoapVerif.Model.Dedup

/-- A table entry admits what the RFC allows for its number (every length, if no RFC assigns the number). -/
def entryAdmits (e : Nat × Nat × Nat × Nat) : Bool :=
  e.2.2.2 != 0 &&
  match rfcLen.find? (fun r => r.1 == e.1) with
  | some r => e.2.1 ≤ r.2.1 && r.2.2 ≤ e.2.2.1
  | none => e.2.1 == 0 && maxWireLen ≤ e.2.2.1

def admits (defs : List (Nat × Nat × Nat × Nat)) : Bool := defs.all entryAdmits

/-- T: the table the decoder on the cache path uses today. -/
theorem table_admits_rfc_lengths : admits Generated.OptionDefs.coapOptionDefs = true := by decide

theorem admitted_survives (defs : List (Nat × Nat × Nat × Nat)) (h : admits defs = true) (o : Nat × List UInt8)
    (ho : legalOpt o = true) : survives defs o = true := by
  unfold survives
  split
  · rename_i e he
    have hmem : e ∈ defs := List.mem_of_find?_eq_some he
    have hid : (e.1 == o.1) = true := by simpa using List.find?_some he
    have hid' : e.1 = o.1 := by simpa using hid
    have ha : entryAdmits e = true := by
      unfold admits at h
      rw [List.all_eq_true] at h
      exact h e hmem
    unfold entryAdmits at ha
    unfold legalOpt at ho
    rw [← hid'] at ho
    simp only [Bool.and_eq_true] at ha
    obtain ⟨hf, hr⟩ := ha
    split at hr
    · rename_i r hr'
      rw [hr'] at ho
      simp only [Bool.and_eq_true, decide_eq_true_eq] at hr ho
      simp only [Bool.and_eq_true, decide_eq_true_eq, hf, true_and]
      omega
    · rename_i hr'
      rw [hr'] at ho
      simp only [Bool.and_eq_true, decide_eq_true_eq, beq_iff_eq] at hr ho
      simp only [Bool.and_eq_true, decide_eq_true_eq, hf, true_and]
      omega
  · rfl

/-- For any table that admits the RFC lengths, a legal reply comes out of the cache as it went in. -/
theorem recode_legal (defs : List (Nat × Nat × Nat × Nat)) (h : admits defs = true) (d : Dgram)
    (hd : legalReply d = true) : recode defs d = d := by
  unfold recode
  have : d.opts.filter (survives defs) = d.opts := by
    rw [List.filter_eq_self]
    intro o ho
    unfold legalReply at hd
    rw [List.all_eq_true] at hd
    exact admitted_survives defs h o (hd o ho)
  rw [this]

theorem served_legal (d : Dgram) (hd : legalReply d = true) : served d = d :=
  recode_legal _ table_admits_rfc_lengths d hd

/-- `processResponse` puts the handler's options (or none: the bare acknowledgement) into the reply. -/
theorem respond_opts (ec : Bool) (typ : RType) (mid : Nat) (tok : List UInt8) (w : Option Wr) (m : Nat) (r : Dgram) (c : Bool)
    (h : (respond ec typ mid tok w m).2 = some (r, c)) : r.opts = (w.map (·.opts)).getD [] := by
  unfold respond at h
  cases w with
  | none => cases typ <;> simp at h; rw [← h.1]; rfl
  | some w =>
    cases typ <;> simp only [] at h <;> split at h <;> simp at h <;> (rw [← h.1]; rfl)

/-- The reply `processResponse` caches for a handler whose options are legal is served to every duplicate unchanged. -/
theorem served_reply_is_first_reply (ec : Bool) (typ : RType) (mid : Nat) (tok : List UInt8) (w : Option Wr) (m : Nat)
    (r : Dgram) (c : Bool) (hw : ∀ w', w = some w' → w'.opts.all legalOpt = true)
    (h : (respond ec typ mid tok w m).2 = some (r, c)) : served r = r := by
  apply served_legal
  unfold legalReply
  rw [respond_opts ec typ mid tok w m r c h]
  cases w with
  | none => rfl
  | some w' => exact hw w' rfl

theorem all_insertOpt (p : Nat × List UInt8 → Bool) (o : Nat × List UInt8) (l : List (Nat × List UInt8)) :
    (insertOpt o l).all p = (p o && l.all p) := by
  induction l with
  | nil => simp [insertOpt]
  | cons q r ih =>
    unfold insertOpt
    split
    · simp only [List.all_cons, ih]
      cases p q <;> cases p o <;> simp
    · simp only [List.all_cons]

/-- The harness behaviour `ov-<id>-<len>` with a length that is legal for the number: the reply is legal, whatever number and
    length, so every duplicate gets it unchanged. -/
theorem ov_reply_served_unchanged (id len n : Nat) (ec : Bool) (typ : RType) (mid : Nat) (tok : List UInt8) (m : Nat)
    (r : Dgram) (c : Bool) (hl : legalOpt (id, seqBytes len 0x21) = true)
    (h : (respond ec typ mid tok (handlerWr (.ov id len) n) m).2 = some (r, c)) : served r = r := by
  apply served_reply_is_first_reply ec typ mid tok _ m r c _ h
  intro w' hw
  simp only [handlerWr, Option.some.injEq] at hw
  rw [← hw]
  simp only [all_insertOpt, hl, Bool.true_and]
  decide

/-! Non-vacuity: the 4.01-style freshness challenge (Echo, 16 bytes) and the longest Proxy-Uri are legal and survive today's
table; with the two RFC 9175 rows transposed (Echo 1–8, Request-Tag 0–40) the table does not admit the RFC lengths and the
Echo option is gone from the reply a duplicate gets. -/
example : legalReply ⟨.ack, 69, 77, [0xbe], insertOpt (252, seqBytes 16 0x21) [(12, [])], [0x31]⟩ = true := by decide
example : served ⟨.ack, 69, 77, [0xbe], insertOpt (252, seqBytes 16 0x21) [(12, [])], [0x31]⟩
    = ⟨.ack, 69, 77, [0xbe], [(12, []), (252, seqBytes 16 0x21)], [0x31]⟩ := by decide
example : admits [(4, 1, 8, 2), (252, 1, 40, 2), (292, 0, 8, 2)] = true := by decide
example : admits [(4, 1, 8, 2), (252, 1, 8, 2), (292, 0, 40, 2)] = false := by decide
example : (recode [(4, 1, 8, 2), (252, 1, 8, 2), (292, 0, 40, 2)]
    ⟨.ack, 69, 77, [0xbe], [(12, []), (252, seqBytes 16 0x21)], [0x31]⟩).opts = [(12, [])] := by decide
/-- An illegal length for a number the table knows is dropped today (ETag, 9 bytes): outside the hypothesis of `served_legal`. -/
example : legalOpt (4, seqBytes 9 0x21) = false ∧
    (served ⟨.ack, 69, 77, [0xbe], [(4, seqBytes 9 0x21), (12, [])], [0x31]⟩).opts = [(12, [])] := by decide

section Audit
#print axioms table_admits_rfc_lengths
#print axioms admitted_survives
#print axioms recode_legal
#print axioms served_legal
#print axioms respond_opts
#print axioms served_reply_is_first_reply
#print axioms all_insertOpt
#print axioms ov_reply_served_unchanged
end Audit

end CoapVerif.Props.C05Opts
