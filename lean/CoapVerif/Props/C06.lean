import CoapVerif.Go.Basic
import CoapVerif.Model.Retransmit
import CoapVerif.Lemmas.Retransmit
/-!
# C06 — confirmable requests are retransmitted correctly and boundedly

Statement (properties.jsonl): a confirmable request issued through the client API is transmitted once
and then re-sent only while it is unacknowledged: at most MAX_RETRANSMIT further copies, the k-th copy
no earlier than k × ACK_TIMEOUT after the first, every copy byte-identical, and no copy after an
acknowledgement, a reset, the caller's cancellation or the return of the call.  If any one copy reaches
the peer and the matching acknowledgement/response gets back before the attempts are exhausted, the
request call succeeds with that response; exhaustion of the attempts or a reset never produces a
successful response.

The theorems are about `Model.Retransmit.run P evs` for **every** parameter triple
`P = (ACK_TIMEOUT, MAX_RETRANSMIT, NSTART)` and **every** list of events: calls being made (with or
without deadline), time passing, housekeeping ticks with any caller-chosen `now` (so every tick timing
and, losses being the absence of events, every loss pattern), messages carrying a pending message ID
coming back (acknowledgement, reset, piggybacked response), separate responses (which wake the writer of a
still pending request, F21), cancellations /
deadlines, edits of the caller's request.  The log lists entries most recent first: in
`pre ++ x :: post`, `post` is what happened before `x`.

The comparison of the exhaustion test (`retransmit >= maxRetransmit`) and the addend of the
retransmission test (`retransmit + 1`) are regenerated from the AST; the proofs in `Lemmas/Retransmit`
(`lt_of_not_exhausted`, `spacing_of_due`) reduce with these generated values and stop checking if the code
changes them.  The theorems about the *full* window of the last copy (defect F30) live in `Props/C06Window.lean`:
they need the regenerated `exhaustionWaitsLastTimeout`, and on a tree without that conjunct only they stop checking.
-/
namespace CoapVerif.Props.C06
open CoapVerif CoapVerif.Model.Retransmit CoapVerif.Lemmas.Retransmit CoapVerif.Generated.Retransmit

/-! ## regenerated shape facts the model follows -/

theorem shape_agrees :
    expiredWhenGE = true ∧ deadlineStrict = true ∧ retransmitAddend = 1 ∧ expiryBeforeRetransmit = true ∧
    recvRemovesByMID = true ∧ storesClone = true ∧ deferredRemovalByMID = true ∧ responseWakesWriter = true ∧
    dropsInPassOfLastCopy = false := by decide

/-- The parameters `P` of the theorems are the parameters the user configured: `options.WithTransmission` writes
    NSTART, ACK_TIMEOUT and MAX_RETRANSMIT verbatim (also the value 0) into the client / server configuration, and
    `dtls/server.createConn` / `udp/server.getOrCreateConn` copy all three into the configuration of the connections
    they create.  (The behaviour itself is checked by the harness levels `opt` and `dtlssrv`.) -/
theorem configured_parameters_reach_the_connection :
    transmissionOptCopiesVerbatim = true ∧ dtlsServerConnTakesTransmission = true ∧
    udpServerConnTakesTransmission = true := by decide

/-! ## bounded, spaced, identical copies -/

/-- At most `1 + MAX_RETRANSMIT` transmissions of any request, whatever happens. -/
theorem copies_bounded (P : Params) (evs : List Ev) (id : Nat) :
    txCount (run P evs).log id ≤ 1 + P.maxRetransmit := by
  have := (inv_run P evs).bound id
  omega

/-- The label `k` carried by a transmission entry is the number of earlier transmissions of the same request:
    the entry really is the k-th copy. -/
theorem copy_is_kth (P : Params) (evs : List Ev) (pre post : List Entry) (id k t m : Nat)
    (h : (run P evs).log = pre ++ .tx id k t m :: post) : k = txCount post id := by
  have := (inv_run P evs).lab
  rw [h] at this
  exact lab_split pre id k t m post this

/-- The k-th copy (k ≥ 1) is made at a housekeeping time strictly later than `k × ACK_TIMEOUT` after the first. -/
theorem copy_spacing (P : Params) (evs : List Ev) (id k t m : Nat)
    (h : Entry.tx id k t m ∈ (run P evs).log) (hk : 1 ≤ k) :
    ∃ t0 m0, Entry.tx id 0 t0 m0 ∈ (run P evs).log ∧ t0 + k * P.ackTimeout < t :=
  ((inv_run P evs).sp id k t m h).2.2 hk

/-- No copy carries a label above `MAX_RETRANSMIT`. -/
theorem copy_index_bounded (P : Params) (evs : List Ev) (id k t m : Nat)
    (h : Entry.tx id k t m ∈ (run P evs).log) : k ≤ P.maxRetransmit :=
  ((inv_run P evs).sp id k t m h).1

/-! The code has **two sources** for the bytes of a request: the first datagram is written from the caller's own
`*pool.Message` (`session.WriteMessage(req)`, after the NSTART wait), every retransmission from the private clone
that `prepareWriteMessage` took when the call was made (before the wait).  The model keeps them apart
(`Call.req`, edited by the event `mut`, and `Call.msg`).  The message handed to `Do` belongs to the call until
`Do` returns — `pool.Message` is not safe for concurrent use, an edit during the call is a data race — so
"the caller does not touch the message while the call runs" is a precondition of the API; the only edits that
matter are those made while the request is still queued for its NSTART slot (ghost flag `touched`). -/

/-- All retransmissions (copies 1, 2, …) of a request carry the same bytes — the clone — **whatever** the caller
    does to its message, at any time. -/
theorem retransmissions_identical (P : Params) (evs : List Ev) (id k t m k' t' m' : Nat)
    (h : Entry.tx id k t m ∈ (run P evs).log) (h' : Entry.tx id k' t' m' ∈ (run P evs).log)
    (hk : 1 ≤ k) (hk' : 1 ≤ k') : m = m' := by
  have hi := inv_run P evs
  obtain ⟨c, hc, h1, h2, _⟩ := (hi.sp id k t m h).2.1
  obtain ⟨c', hc', h1', h2', _⟩ := (hi.sp id k' t' m' h').2.1
  have := eq_of_id_eq hi.ids hc hc' (by rw [h1, h1'])
  rw [← h2 hk, ← h2' hk', this]

/-- Every copy of a request, the first transmission included, carries the same bytes, **provided the caller did not
    edit its message while the request was queued for an NSTART slot** (`touched = false`).  Edits made after the
    first transmission do not matter (they do not set the flag). -/
theorem copies_identical (P : Params) (evs : List Ev) (id k t m k' t' m' : Nat)
    (h : Entry.tx id k t m ∈ (run P evs).log) (h' : Entry.tx id k' t' m' ∈ (run P evs).log)
    (huntouched : ∀ c ∈ (run P evs).calls, c.id = id → c.touched = false) : m = m' := by
  have hi := inv_run P evs
  obtain ⟨c, hc, h1, h2, h3⟩ := (hi.sp id k t m h).2.1
  obtain ⟨c', hc', h1', h2', h3'⟩ := (hi.sp id k' t' m' h').2.1
  have hcc := eq_of_id_eq hi.ids hc hc' (by rw [h1, h1'])
  subst hcc
  have ht := huntouched c hc h1
  have e1 : c.msg = m := by
    rcases Nat.eq_zero_or_pos k with hk | hk
    · exact h3 hk ht
    · exact h2 hk
  have e2 : c.msg = m' := by
    rcases Nat.eq_zero_or_pos k' with hk | hk
    · exact h3' hk ht
    · exact h2' hk
  rw [← e1, ← e2]

/-- The flag is raised by an edit of that request's message only: if the caller never edits the message of request
    `id` during the run, all copies of `id` are identical. -/
theorem copies_identical_if_not_edited (P : Params) (evs : List Ev) (id k t m k' t' m' : Nat)
    (h : Entry.tx id k t m ∈ (run P evs).log) (h' : Entry.tx id k' t' m' ∈ (run P evs).log)
    (hno : ∀ x, Ev.mut id x ∉ evs) : m = m' := by
  refine copies_identical P evs id k t m k' t' m' h h' (fun c hc hid => ?_)
  cases ht : c.touched with
  | false => rfl
  | true =>
    exfalso
    rcases touched_runFrom evs init c hc ht with ⟨c0, h0, _⟩ | ⟨x, hx⟩
    · cases h0
    · rw [hid] at hx; exact hno x hx

/-! ## silence after a stop -/

/-- No transmission of a request is more recent than a stop of that request: a message carrying its ID that woke
    the writer (acknowledgement, reset, piggybacked response), the end of the caller's context, or the return of
    the call. -/
theorem silent_after_stop (P : Params) (evs : List Ev) (pre post : List Entry) (x : Entry) (id : Nat)
    (h : (run P evs).log = pre ++ x :: post) (hx : StopOf id x) : txCount pre id = 0 := by
  have := (inv_run P evs).qt
  rw [h] at this
  exact quiet_split pre x post id this hx

/-- An acknowledgement / reset / piggybacked response for a pending request is recorded as a stop (so
    `silent_after_stop` applies to it), in every reachable state. -/
theorem ack_is_stop (P : Params) (evs : List Ev) (id : Nat) (k : Kind)
    (hp : isPending (run P evs).pend id = true) : ∃ t, Entry.stop id t ∈ (run P (evs ++ [.recvMid id k])).log := by
  have hi := inv_run P evs
  obtain ⟨c, hf, hc, hph⟩ := pending_call hi hp
  have hid := (findCall_some hf).2
  obtain ⟨⟨t, ht⟩, _, _⟩ := acked_effect hi c hc hph
  refine ⟨t, ?_⟩
  simp only [run, runFrom, List.foldl_append, List.foldl_cons, List.foldl_nil, step, recvMid]
  have hp' : isPending (List.foldl (step P) init evs).pend id = true := hp
  have hf' : findCall (List.foldl (step P) init evs).calls id = some c := hf
  simp only [hp', if_true, hf']
  rw [hid] at ht
  cases k with
  | ack => exact ht
  | rst => exact ht
  | pig tag => exact log_deliver ht

/-- The end of the caller's context makes a call that has not returned return at once with the context's error —
    a `ret` entry, to which `silent_after_stop` applies. -/
theorem cancel_returns (P : Params) (evs : List Ev) (id : Nat) (why : Why) (c : Call)
    (hf : findCall (run P evs).calls id = some c) (hph : c.phase ≠ .done) :
    Entry.ret id why.res (run P evs).now ∈ (run P (evs ++ [.cancel id why])).log := by
  simp only [run, runFrom, List.foldl_append, List.foldl_cons, List.foldl_nil, step, cancel]
  have hf' : findCall (List.foldl (step P) init evs).calls id = some c := hf
  simp only [hf']
  cases h : c.phase with
  | done => exact (hph h).elim
  | waitSem => exact List.mem_cons_of_mem _ List.mem_cons_self
  | waitResp => exact List.mem_cons_of_mem _ List.mem_cons_self
  | waitAck => exact log_admitNext (List.mem_cons_of_mem _ List.mem_cons_self)

/-- After a stop entry the request is never pending again (nothing is left that could be retransmitted). -/
theorem stopped_not_pending (P : Params) (evs : List Ev) (id t : Nat) (h : Entry.stop id t ∈ (run P evs).log) :
    isPending (run P evs).pend id = false := by
  have hi := inv_run P evs
  cases hp : isPending (run P evs).pend id with
  | false => rfl
  | true =>
    exfalso
    obtain ⟨c, hf, hc, hph⟩ := pending_call hi hp
    obtain ⟨c', hc', h1, h2⟩ := hi.sw id t h
    have := eq_of_id_eq hi.ids hc' hc (by rw [h1, (findCall_some hf).2])
    subst this
    rcases h2 with h2 | h2 <;> rw [hph] at h2 <;> cases h2

/-! ## success exactly when the response really came back -/

/-- A piggybacked response arriving while the request is still pending (attempts not exhausted, not cancelled)
    makes the call return successfully at once — with that response, or with the response that had already
    arrived for its token. -/
theorem ack_in_time_succeeds (P : Params) (evs : List Ev) (id tag : Nat)
    (hp : isPending (run P evs).pend id = true) :
    ∃ tag', Entry.ret id (.ok tag') (run P evs).now ∈ (run P (evs ++ [.recvMid id (.pig tag)])).log := by
  have hi := inv_run P evs
  obtain ⟨c, hf, hc, hph⟩ := pending_call hi hp
  have hid := (findCall_some hf).2
  obtain ⟨_, hnone, hsome⟩ := acked_effect hi c hc hph
  simp only [run, runFrom, List.foldl_append, List.foldl_cons, List.foldl_nil, step, recvMid]
  have hp' : isPending (List.foldl (step P) init evs).pend id = true := hp
  have hf' : findCall (List.foldl (step P) init evs).calls id = some c := hf
  simp only [hp', if_true, hf']
  cases hb : c.buf with
  | some tag' =>
    refine ⟨tag', log_deliver ?_⟩
    rw [← hid]; exact hsome tag' hb
  | none =>
    obtain ⟨c', hc', h1, h2⟩ := hnone hb
    have hinv := inv_acked hi c hc hph
    have := deliver_waitResp hinv hc' h2 tag
    rw [h1, hid] at this
    refine ⟨tag, ?_⟩
    rw [now_acked] at this
    exact this

/-- The acknowledgement got lost but the response (matched by token) gets back while the request is still pending
    (attempts not exhausted, not cancelled) and nothing has reached the call's token handler before: the response is
    an implicit acknowledgement (RFC 7252 §5.2.2) — the call returns it at once … (F21; needs `responseWakesWriter`) -/
theorem response_in_time_succeeds (P : Params) (evs : List Ev) (id tag : Nat) (c : Call)
    (hp : isPending (run P evs).pend id = true) (hf : findCall (run P evs).calls id = some c) (hb : c.buf = none) :
    Entry.ret id (.ok tag) (run P evs).now ∈ (run P (evs ++ [.resp id tag])).log := by
  have := (deliver_pending (inv_run P evs) (tag := tag) hp hf hb).1
  simpa [run, runFrom, List.foldl_append, step] using this

/-- … and it counts as a stop: `silent_after_stop` forbids any later copy. -/
theorem response_is_stop (P : Params) (evs : List Ev) (id tag : Nat) (c : Call)
    (hp : isPending (run P evs).pend id = true) (hf : findCall (run P evs).calls id = some c) (hb : c.buf = none) :
    ∃ t, Entry.stop id t ∈ (run P (evs ++ [.resp id tag])).log := by
  have := (deliver_pending (inv_run P evs) (tag := tag) hp hf hb).2
  simpa [run, runFrom, List.foldl_append, step] using this

/-- **The last copy has a window too.**  A housekeeping pass that puts a copy of a request on the wire — any copy,
    the MAX_RETRANSMIT-th included — leaves the request pending: the exchange is not over when the last copy is
    sent (RFC 7252 §4.2: the sender still waits for the acknowledgement of its last retransmission).  Hence
    `ack_in_time_succeeds` and `response_in_time_succeeds` apply right after that pass: an acknowledgement,
    piggybacked response or separate response arriving before the next housekeeping pass completes the call.
    (Needs `dropsInPassOfLastCopy = false`, regenerated from `checkMidHandlerContainer`.) -/
theorem last_copy_still_pending (P : Params) (evs : List Ev) (ahead id : Nat)
    (hc : txCount (run P evs).log id < txCount (run P (evs ++ [.tick ahead])).log id) :
    isPending (run P (evs ++ [.tick ahead])).pend id = true := by
  have h := tick_copy_still_pending (inv_run P evs) ahead id
    (by simpa [run, runFrom, List.foldl_append, step] using hc)
  simpa [run, runFrom, List.foldl_append, step] using h

/-- … spelled out for the piggybacked answer to the copy just sent. -/
theorem answer_to_last_copy_succeeds (P : Params) (evs : List Ev) (ahead id tag : Nat)
    (hc : txCount (run P evs).log id < txCount (run P (evs ++ [.tick ahead])).log id) :
    ∃ tag', Entry.ret id (.ok tag') (run P (evs ++ [.tick ahead])).now ∈
      (run P ((evs ++ [.tick ahead]) ++ [.recvMid id (.pig tag)])).log :=
  ack_in_time_succeeds P (evs ++ [.tick ahead]) id tag (last_copy_still_pending P evs ahead id hc)

/-- Empty acknowledgement first, separate response later: once the writer has been woken (stop entry) and the
    call has not returned (it is not marked done: not cancelled, no deadline, no earlier response), a response
    with its token makes it return successfully with that response. -/
theorem ack_then_response_succeeds (P : Params) (evs : List Ev) (id tag t : Nat)
    (hs : Entry.stop id t ∈ (run P evs).log)
    (hlive : ∃ c ∈ (run P evs).calls, c.id = id ∧ c.phase ≠ .done) :
    Entry.ret id (.ok tag) (run P evs).now ∈ (run P (evs ++ [.resp id tag])).log := by
  have hi := inv_run P evs
  obtain ⟨c, hc, h1, h2⟩ := hi.sw id t hs
  obtain ⟨c', hc', h1', h2'⟩ := hlive
  have := eq_of_id_eq hi.ids hc hc' (by rw [h1, h1'])
  subst this
  have hph : c.phase = .waitResp := by
    rcases h2 with h2 | h2
    · exact h2
    · exact (h2' h2).elim
  have := deliver_waitResp hi hc hph tag
  rw [h1] at this
  simpa [run, runFrom, List.foldl_append, step] using this

/-- … and an empty acknowledgement for a pending request leaves the call waiting for its response (or returns
    the response that was already there). -/
theorem ack_wakes_writer (P : Params) (evs : List Ev) (id : Nat) (hp : isPending (run P evs).pend id = true) :
    (∃ c ∈ (run P (evs ++ [.recvMid id .ack])).calls, c.id = id ∧ c.phase = .waitResp) ∨
    (∃ tag, Entry.ret id (.ok tag) (run P evs).now ∈ (run P (evs ++ [.recvMid id .ack])).log) := by
  have hi := inv_run P evs
  obtain ⟨c, hf, hc, hph⟩ := pending_call hi hp
  have hid := (findCall_some hf).2
  obtain ⟨_, hnone, hsome⟩ := acked_effect hi c hc hph
  simp only [run, runFrom, List.foldl_append, List.foldl_cons, List.foldl_nil, step, recvMid]
  have hp' : isPending (List.foldl (step P) init evs).pend id = true := hp
  have hf' : findCall (List.foldl (step P) init evs).calls id = some c := hf
  simp only [hp', if_true, hf']
  cases hb : c.buf with
  | some tag => exact Or.inr ⟨tag, by rw [← hid]; exact hsome tag hb⟩
  | none =>
    obtain ⟨c', hc', h1, h2⟩ := hnone hb
    exact Or.inl ⟨c', hc', by rw [h1, hid], h2⟩

/-- A successful return always carries a response that really came back for that request's token: neither
    exhaustion of the attempts, nor a reset, nor anything else produces success on its own. -/
theorem exhaustion_or_reset_no_success (P : Params) (evs : List Ev) (id tag t : Nat)
    (h : Entry.ret id (.ok tag) t ∈ (run P evs).log) :
    Ev.resp id tag ∈ evs ∨ Ev.recvMid id (.pig tag) ∈ evs := by
  have hg := (inv_run P evs).src1 id tag t h
  rcases got_runFrom evs init hg with h1 | h1
  · cases h1
  · exact h1

/-- A call returns at most once it is marked done, and a returned call is never pending again. -/
theorem returned_not_pending (P : Params) (evs : List Ev) (id t : Nat) (r : Res)
    (h : Entry.ret id r t ∈ (run P evs).log) : isPending (run P evs).pend id = false := by
  have hi := inv_run P evs
  cases hp : isPending (run P evs).pend id with
  | false => rfl
  | true =>
    exfalso
    obtain ⟨c, hf, hc, hph⟩ := pending_call hi hp
    obtain ⟨c', hc', h1, h2⟩ := hi.rt id r t h
    have := eq_of_id_eq hi.ids hc' hc (by rw [h1, (findCall_some hf).2])
    subst this
    rw [hph] at h2; cases h2

/-! ## NSTART -/

/-- Never more than NSTART calls hold an outstanding-interaction slot, and every request that can still be
    retransmitted belongs to such a call. -/
theorem nstart_respected (P : Params) (evs : List Ev) :
    inflight (run P evs).calls ≤ P.nstart ∧
    ∀ e ∈ (run P evs).pend, ∃ c ∈ (run P evs).calls, c.id = e.id ∧ c.phase = .waitAck := by
  have hi := inv_run P evs
  refine ⟨hi.ns, fun e he => ?_⟩
  obtain ⟨c, hc, h1, h2, _⟩ := hi.pa e he
  exact ⟨c, hc, h1, h2⟩

/-! ## non-vacuity: concrete histories (ACK_TIMEOUT 10, MAX_RETRANSMIT 2, NSTART 1) -/

def P0 : Params := ⟨10, 2, 1⟩

/-- all copies lost: 1 + 2 transmissions at 0, 11, 21; the next tick drops the entry; a late ACK changes nothing;
    the call ends by its context -/
example : (run P0 [.send 0 7 none, .advance 10, .tick 0, .advance 1, .tick 0, .advance 10, .tick 0, .advance 10, .tick 0,
    .advance 10, .tick 0, .recvMid 0 .ack, .cancel 0 .ctx]).log.reverse =
    [.tx 0 0 0 7, .tx 0 1 11 7, .tx 0 2 21 7, .ret 0 .ctx 41, .stop 0 41] := by decide

/-- second request queued behind NSTART = 1; the first is answered piggybacked after one retransmission, the
    second is then sent; the caller's edit of request 0 does not show in the retransmission -/
example : (run P0 [.send 0 7 none, .send 1 8 none, .mut 0 9, .advance 11, .tick 0, .recvMid 0 (.pig 5)]).log.reverse =
    [.tx 0 0 0 7, .tx 0 1 11 7, .stop 0 11, .tx 1 0 11 8, .got 0 5, .ret 0 (.ok 5) 11] := by decide

/-- precondition breached: the caller edits request 1 while it is queued behind NSTART = 1 — the first datagram
    carries the edited message (9), the retransmission the clone (8); an edit after the first transmission
    (request 0) has no effect -/
example : (run P0 [.send 0 7 none, .send 1 8 none, .mut 1 9, .mut 0 6, .recvMid 0 .ack, .advance 11, .tick 0]).log.reverse =
    [.tx 0 0 0 7, .stop 0 0, .tx 1 0 0 9, .tx 1 1 11 8] := by decide

/-- all copies but the last are lost; the piggybacked answer to the LAST copy (MAX_RETRANSMIT = 2, sent at 21) arrives
    before the next housekeeping pass: the call returns it -/
example : (run P0 [.send 0 7 none, .advance 11, .tick 0, .advance 10, .tick 0, .advance 5, .recvMid 0 (.pig 3)]).log.reverse =
    [.tx 0 0 0 7, .tx 0 1 11 7, .tx 0 2 21 7, .stop 0 26, .got 0 3, .ret 0 (.ok 3) 26] := by decide

/-- reset: the writer is woken, nothing more is sent, the call does not succeed until a real response arrives -/
example : (run P0 [.send 0 7 none, .recvMid 0 .rst, .advance 50, .tick 0, .resp 0 3]).log.reverse =
    [.tx 0 0 0 7, .stop 0 0, .got 0 3, .ret 0 (.ok 3) 50] := by decide

/-- F21: the ACK is lost, the separate response arrives after one retransmission: the writer is woken, the call
    returns the response, nothing more is sent -/
example : (run P0 [.send 0 7 none, .advance 11, .tick 0, .resp 0 4, .advance 10, .tick 0, .advance 10, .tick 0]).log.reverse =
    [.tx 0 0 0 7, .tx 0 1 11 7, .got 0 4, .ret 0 (.ok 4) 11, .stop 0 11] := by decide

/-- the hypothesis of `ack_in_time_succeeds` is satisfiable -/
example : isPending (run P0 [.send 0 7 none, .advance 11, .tick 0]).pend 0 = true := by decide

end CoapVerif.Props.C06

section Audit
open CoapVerif.Props.C06
#print axioms shape_agrees
#print axioms configured_parameters_reach_the_connection
#print axioms copies_bounded
#print axioms copy_is_kth
#print axioms copy_spacing
#print axioms copy_index_bounded
#print axioms retransmissions_identical
#print axioms copies_identical
#print axioms copies_identical_if_not_edited
#print axioms silent_after_stop
#print axioms ack_is_stop
#print axioms cancel_returns
#print axioms stopped_not_pending
#print axioms ack_in_time_succeeds
#print axioms response_in_time_succeeds
#print axioms response_is_stop
#print axioms last_copy_still_pending
#print axioms answer_to_last_copy_succeeds
#print axioms ack_then_response_succeeds
#print axioms ack_wakes_writer
#print axioms exhaustion_or_reset_no_success
#print axioms returned_not_pending
#print axioms nstart_respected
end Audit
