import CoapVerif.Spec.Retransmit
import CoapVerif.Spec.RetransmitBusy
import CoapVerif.Props.C06Judge
/-!
# C06 — histories in which the application keeps the connection busy (eleventh seeded round, C06-W)

Statement (properties.jsonl): … If any one copy reaches the peer and the matching acknowledgement/response gets back before
the attempts are exhausted, the request call succeeds with that response; exhaustion of the attempts or a reset never
produces a successful response.

`Spec.RetransmitBusy.busyJudge` judges histories with `hold` / `release` (a handler of the application that does not return
while the peer keeps sending: more than ReceivedMessageQueueSize messages in front of the application).  Proved here:

* `busy_judge_plain` — on a history without holds it IS `Spec.Retransmit.judge` (every step, every state);
* `model_history_accepted_busy` — hence it accepts every history of the model (`Props/C06Judge.model_history_accepted`);
* `release_owes_the_response`, `release_owes_the_separate_response` — the clause the new situation is about, for every
  configuration and every state of the judge: a piggybacked / separate response that arrived during the hold for a live
  request whose attempts are not exhausted when the application lets go, and a release step that shows no return of that
  request, is rejected (never `.ok`); the hypotheses are met by the first example of the last section.

Not proved (`…_partial` in spirit): the model (`Model.RetransmitKinds`) has no `hold`; histories with holds are judged on the
real code only (`drv_c06 model` prints `n/a`), as for the other judged-only entrances (`sendf`, `wreq`, `obs`).  What is
missing is a model of the loop over the received messages (queue of 16, `TryToReplaceLoop`) and the simulation for it.
-/
namespace CoapVerif.Props.C06Busy
open CoapVerif.Spec.Retransmit
open CoapVerif.Spec.RetransmitBusy

theorem stepB_plain (c : Cfg) (b : BState) (hb : b.held = false) (st : Step) :
    stepB c b (lift st) = ({ b with j := (stepJ c b.j st).1 }, (stepJ c b.j st).2) := by
  simp [stepB, lift, hb]

theorem judgeFromB_plain (c : Cfg) (h : List Step) : ∀ (b : BState), b.held = false →
    judgeFromB c b (h.map lift) = judgeFrom c b.j h := by
  induction h with
  | nil => intro b _; simp [judgeFromB, judgeFrom]
  | cons st rest ih =>
    intro b hb
    simp only [List.map_cons, judgeFromB, judgeFrom, stepB_plain c b hb st]
    cases hv : (stepJ c b.j st).2 <;> simp only [] <;>
      first
        | (have e : stepJ c b.j st = ((stepJ c b.j st).1, Verdict.ok) := by rw [← hv]
           rw [e]; simp only []; exact ih _ hb)
        | (generalize hx : stepJ c b.j st = x at hv ⊢; obtain ⟨x1, x2⟩ := x; simp only at hv; subst hv; rfl)

/-- A history without holds is judged exactly as by the judge of `Spec.Retransmit`. -/
theorem busy_judge_plain (c : Cfg) (h : List Step) : busyJudge c (h.map lift) = judge c h :=
  judgeFromB_plain c h {} rfl

/-- … so the judge with holds accepts every history of the model, for every parameter triple and every list of events. -/
theorem model_history_accepted_busy (P : CoapVerif.Model.Retransmit.Params) (evs : List CoapVerif.Model.RetransmitKinds.XEv) :
    busyJudge (CoapVerif.Model.RetransmitHistory.cfgOf P) ((CoapVerif.Model.RetransmitHistory.history P evs).map lift) = .ok := by
  rw [busy_judge_plain]; exact CoapVerif.Props.C06Judge.model_history_accepted P evs

/-! ## the clause the new situation is about

"If … the matching acknowledgement/response gets back before the attempts are exhausted, the request call succeeds with that
response" — with the application in the way: the response arrived during the hold; when the application lets go the request
is live (not cancelled, not returned, deadline not passed) and its attempts are not exhausted.  Then a release step that
does not show the return of that request is never accepted — for every configuration, every state of the judge, whatever
else the step shows. -/

theorem not_shown (rets : List Ret) (d : Nat × Res × Bool) (hno : ∀ x ∈ rets, x.id ≠ d.1) :
    shown rets d = false := by
  simp only [shown, List.any_eq_false, Bool.and_eq_true, beq_iff_eq, not_and]
  intro x hx h; exact absurd h (hno x hx)

/-- A waiting message that makes a success of request `id` due, and a release step without a return of `id`: rejected. -/
theorem release_owes (c : Cfg) (s : JState) (e : Ev) (id : Nat)
    (hd : ((applyEv c s e).2.map (·.1)) = some id)
    (txs : List Tx) (rets : List Ret) (hno : ∀ x ∈ rets, x.id ≠ id) :
    (stepRelease c s [e] txs rets).2 ≠ .ok := by
  unfold stepRelease
  simp only [settle]
  generalize applyEv c s e = a at hd
  obtain ⟨s1, due⟩ := a
  cases due with
  | none => simp at hd
  | some d =>
    simp only [Option.map_some, Option.some.injEq] at hd
    simp only [Option.toList, List.append_nil]
    generalize foldV (checkTx c) s1 txs = a
    obtain ⟨s2, v⟩ := a
    cases v <;> simp only [] <;> try (intro hx; cases hx)
    generalize foldV checkRet s2 rets = b
    obtain ⟨s3, v⟩ := b
    cases v <;> simp only [] <;> try (intro hx; cases hx)
    have hns : shown rets d = false := not_shown rets d (by rw [hd]; exact hno)
    simp only [List.find?, hns, Bool.not_false]
    cases d.2.2 <;> simp

theorem pig_in_time_is_due (c : Cfg) (s : JState) (id tag : Nat) (r : Rec)
    (hr : getRec s id = some r) (hc : r.count ≠ 0) (hk : r.kind = .req) (hs : r.stopped = false) (hi : r.inTime = false)
    (hne : notExhausted c s.now r = true) (hl : live s.now r = true) :
    ((applyEv c s (.recvMid id (.pig tag))).2.map (·.1)) = some id := by
  cases hh : (r.resps ++ [tag]) with
  | nil => simp at hh
  | cons h t => simp [applyEv, hr, hc, hk, hs, hi, hne, hl, acknowledges, hh]

theorem resp_in_time_is_due (c : Cfg) (s : JState) (id tag : Nat) (con : Bool) (r : Rec)
    (hr : getRec s id = some r) (hc : r.count ≠ 0) (hk : r.kind = .req) (hs : r.stopped = false) (hi : r.inTime = false)
    (hne : notExhausted c s.now r = true) (hl : live s.now r = true) :
    ((applyEv c s (.resp id con tag)).2.map (·.1)) = some id := by
  cases hh : (r.resps ++ [tag]) with
  | nil => simp at hh
  | cons h t => simp [applyEv, hr, hc, hk, hs, hi, hne, hl, hh]

/-- **A piggybacked response that arrived while the application held the endpoint is owed when it lets go.** -/
theorem release_owes_the_response (c : Cfg) (s : JState) (id tag : Nat) (r : Rec)
    (hr : getRec s id = some r) (hc : r.count ≠ 0) (hk : r.kind = .req) (hs : r.stopped = false) (hi : r.inTime = false)
    (hne : notExhausted c s.now r = true) (hl : live s.now r = true)
    (txs : List Tx) (rets : List Ret) (hno : ∀ x ∈ rets, x.id ≠ id) :
    (stepRelease c s [.recvMid id (.pig tag)] txs rets).2 ≠ .ok :=
  release_owes c s _ id (pig_in_time_is_due c s id tag r hr hc hk hs hi hne hl) txs rets hno

/-- … and so is a separate response (confirmable or not), the implicit acknowledgement of RFC 7252 §5.2.2. -/
theorem release_owes_the_separate_response (c : Cfg) (s : JState) (id tag : Nat) (con : Bool) (r : Rec)
    (hr : getRec s id = some r) (hc : r.count ≠ 0) (hk : r.kind = .req) (hs : r.stopped = false) (hi : r.inTime = false)
    (hne : notExhausted c s.now r = true) (hl : live s.now r = true)
    (txs : List Tx) (rets : List Ret) (hno : ∀ x ∈ rets, x.id ≠ id) :
    (stepRelease c s [.resp id con tag] txs rets).2 ≠ .ok :=
  release_owes c s _ id (resp_in_time_is_due c s id tag con r hr hc hk hs hi hne hl) txs rets hno

/-! ## the situation of C06-W, concretely (non-vacuity)

ACK_TIMEOUT 1000, MAX_RETRANSMIT 2, NSTART 1: a request, the application holds the endpoint, the piggybacked response
arrives, the application lets go. -/
def cfgEx : Cfg := ⟨1000, 2, 1⟩

/-- what the unchanged code shows with a full queue AND a blocked reader (the response is taken up at the release) -/
example : busyJudge cfgEx
    [⟨.ev (.send 0 none), [⟨0, 0, true⟩], []⟩, ⟨.hold, [], []⟩, ⟨.ev (.recvMid 0 (.pig 7)), [], []⟩,
     ⟨.release, [], [⟨0, .ok 7, 0⟩]⟩] = .ok := by decide

/-- … and with a reader that got through (the waiting call takes the reading over: the response is returned during the hold) -/
example : busyJudge cfgEx
    [⟨.ev (.send 0 none), [⟨0, 0, true⟩], []⟩, ⟨.hold, [], []⟩, ⟨.ev (.recvMid 0 (.pig 7)), [], [⟨0, .ok 7, 0⟩]⟩,
     ⟨.release, [], []⟩] = .ok := by decide

/-- the response was acknowledged and thrown away: nothing at the release — rejected -/
example : busyJudge cfgEx
    [⟨.ev (.send 0 none), [⟨0, 0, true⟩], []⟩, ⟨.hold, [], []⟩, ⟨.ev (.recvMid 0 (.pig 7)), [], []⟩,
     ⟨.release, [], []⟩] = .noSuccess := by decide

/-- a copy that still goes out during the hold (the response waits before a blocked reader) is no `copyAfterStop` -/
example : busyJudge cfgEx
    [⟨.ev (.send 0 none), [⟨0, 0, true⟩], []⟩, ⟨.hold, [], []⟩, ⟨.ev (.recvMid 0 (.pig 7)), [], []⟩,
     ⟨.ev (.sleep 1001), [], []⟩, ⟨.ev (.tick 0), [⟨0, 1001, true⟩], []⟩,
     ⟨.release, [], [⟨0, .ok 7, 1001⟩]⟩, ⟨.ev (.sleep 1001), [], []⟩, ⟨.ev (.tick 0), [], []⟩] = .ok := by decide

/-- … but a copy after the release is -/
example : busyJudge cfgEx
    [⟨.ev (.send 0 none), [⟨0, 0, true⟩], []⟩, ⟨.hold, [], []⟩, ⟨.ev (.recvMid 0 .ack), [], []⟩,
     ⟨.release, [], []⟩, ⟨.ev (.sleep 1001), [], []⟩, ⟨.ev (.tick 0), [⟨0, 1001, true⟩], []⟩] = .copyAfterStop := by decide

/-- a success during the hold without any response having arrived stays spurious -/
example : busyJudge cfgEx
    [⟨.ev (.send 0 none), [⟨0, 0, true⟩], []⟩, ⟨.hold, [], []⟩, ⟨.ev (.recvMid 0 .ack), [], [⟨0, .ok 7, 0⟩]⟩] = .spuriousSuccess := by decide

end CoapVerif.Props.C06Busy

section Audit
open CoapVerif.Props.C06Busy
#print axioms stepB_plain
#print axioms judgeFromB_plain
#print axioms busy_judge_plain
#print axioms model_history_accepted_busy
#print axioms not_shown
#print axioms release_owes
#print axioms pig_in_time_is_due
#print axioms resp_in_time_is_due
#print axioms release_owes_the_response
#print axioms release_owes_the_separate_response
end Audit
