import CoapVerif.Go.Basic
import CoapVerif.Model.Retransmit
import CoapVerif.Model.RetransmitKinds
import CoapVerif.Model.RetransmitHistory
import CoapVerif.Spec.Retransmit
import CoapVerif.Lemmas.Retransmit
import CoapVerif.Lemmas.RetransmitJudge
/-!
# C06 — the specification's judge accepts every history of the model

Statement (properties.jsonl): a confirmable request issued through the client API is transmitted once and then re-sent
only while it is unacknowledged: at most MAX_RETRANSMIT further copies, the k-th copy no earlier than k × ACK_TIMEOUT after
the first, every copy byte-identical, and no copy after an acknowledgement, a reset, the caller's cancellation or the return
of the call.  If any one copy reaches the peer and the matching acknowledgement/response gets back before the attempts are
exhausted, the request call succeeds with that response; exhaustion of the attempts or a reset never produces a successful
response.

`Spec.Retransmit.judge` is these words as an executable check of an observed history; the check runs it on what the real
code does.  This file proves that it accepts **every** history of the model — `Model.RetransmitKinds`, i.e. the request
machinery of `Model.Retransmit` (about which Props/C06.lean and Props/C06Window.lean speak) together with the confirmable
messages that are not requests of `Conn.Do`: `Conn.Ping` / `AsyncPing` and `Conn.WriteMessage` of a confirmable response or
notification (own pending entry, no NSTART slot).  For every parameter triple (ACK_TIMEOUT, MAX_RETRANSMIT, NSTART) — no
well-formedness condition is needed, 0 included — and every list of events: calls of the three kinds with or without
deadline, time passing, housekeeping passes with any clock, acknowledgements / resets / piggybacked and separate responses
at any point (early, late, duplicate, for unknown IDs), cancellations and deadlines firing, edits of the caller's message.

So "the judge found nothing on N histories of the implementation that the model reproduces" is backed by "the judge finds
nothing on any history of the model": every clause of the judge (`Verdict`) is a theorem about the model.

The proof (Lemmas/RetransmitJudge.lean) is a simulation: the judge's record of a message ID is tied to the model's call,
pending entry and transmission count of that ID (`RelReq`, `RelX`, invariant `R`); each event keeps the tie and makes the
judge's step return `ok` (`step_*`).  It reduces with the regenerated shape facts of `Generated/Retransmit.lean`
(`judge_tie_shape` below) and stops checking if the code changes them.
-/
namespace CoapVerif.Props.C06Judge
open CoapVerif CoapVerif.Model.Retransmit CoapVerif.Model.RetransmitKinds CoapVerif.Model.RetransmitHistory
open CoapVerif.Lemmas.Retransmit CoapVerif.Lemmas.RetransmitJudge CoapVerif.Generated.Retransmit
open CoapVerif.Spec.Retransmit (judge judgeFrom stepJ Verdict Step JState getRec)

/-- The regenerated facts about `midElement.IsExpired` / `Retransmit`, `checkMidHandlerContainer` and the token handler of
    `doInternal` that the simulation reduces with. -/
theorem judge_tie_shape :
    expiredWhenGE = true ∧ exhaustionWaitsLastTimeout = true ∧ lastCopyAddend = 1 ∧ retransmitAddend = 1 ∧
    dropsInPassOfLastCopy = false ∧ responseWakesWriter = true := by decide

/-- Nothing has happened yet: the tie holds trivially. -/
theorem tie_init (P : Params) : R P Model.RetransmitKinds.init {} where
  inv := inv_init P
  now := rfl
  nd := by simp
  xpid := by simp [Model.RetransmitKinds.init]
  xown := by intro e he; cases he
  rel := by
    intro id
    simp [RelId, RelO, getRec, Model.RetransmitKinds.init, Model.Retransmit.init, findCall, findX]

/-- **One event.**  Whatever the event, the judge accepts the step the model emits, and the tie holds afterwards. -/
theorem step_accepted {P : Params} {s : XState} {js : JState} (h : R P s js) (e : XEv) : StepOk P s js e := by
  cases e with
  | send id msg dl => exact step_send h id msg dl
  | ping id dl => exact step_ping h id dl
  | wcon id dl => exact step_wcon h id dl
  | advance d => exact step_advance h d
  | tick a => exact step_tick h a
  | «mut» id msg => exact step_mut h id msg
  | cancel id why =>
    by_cases hx : isX s id = true
    · exact step_xcancel h id why hx
    · exact step_cancel_base h id why (by simpa using hx)
  | resp id tag =>
    by_cases hsk : (isX s id || queued s.base id) = true
    · exact step_resp_skipped h id tag hsk
    · simp only [Bool.or_eq_true, not_or, Bool.not_eq_true] at hsk
      exact step_resp_base h id tag hsk.1 hsk.2
  | recvMid id k =>
    by_cases hx : isX s id = true
    · exact step_xrecv h id k hx
    · have hx' : isX s id = false := by simpa using hx
      cases hp : findP s.base.pend id with
      | some e0 =>
        cases k with
        | ack => exact step_recv_pending h id .ack hx' (by intro tag hk; cases hk) hp
        | rst => exact step_recv_pending h id .rst hx' (by intro tag hk; cases hk) hp
        | pig tag =>
          have hq : queued s.base id = false := by
            cases hqq : queued s.base id with
            | false => rfl
            | true =>
              obtain ⟨hm, hid⟩ := findP_some hp
              have := (h.inv.cnt e0 hm).1
              rw [hid, (queued_iff _ _).mp hqq] at this
              omega
          exact step_pig_pending h id tag hx' hq hp
      | none =>
        cases k with
        | ack => exact step_recv_idle h id .ack hx' (by intro tag hk; cases hk) hp
        | rst => exact step_recv_idle h id .rst hx' (by intro tag hk; cases hk) hp
        | pig tag =>
          cases hqq : queued s.base id with
          | true => exact step_pig_skipped h id tag hx' hqq
          | false => exact step_pig_idle h id tag hx' hqq hp

/-- From any tied pair of states, the rest of the history is accepted. -/
theorem history_accepted_from {P : Params} : ∀ (evs : List XEv) (s : XState) (js : JState), R P s js →
    judgeFrom (cfgOf P) js (historyFrom P s evs) = .ok
  | [], _, _, _ => rfl
  | e :: r, s, js, h => by
    obtain ⟨js', hstep, hR⟩ := step_accepted h e
    simp only [historyFrom, judgeFrom, hstep]
    exact history_accepted_from r _ js' hR

/-- **The judge accepts every history of the model**: for every parameter triple and every list of events. -/
theorem model_history_accepted (P : Params) (evs : List XEv) : judge (cfgOf P) (history P evs) = .ok :=
  history_accepted_from evs _ _ (tie_init P)

/-- … in particular for the parameters the extractor reads from `DefaultConfig`. -/
theorem model_history_accepted_defaults (evs : List XEv) :
    judge (cfgOf ⟨defaultAckTimeoutNs, defaultMaxRetransmit, defaultNStart⟩)
      (history ⟨defaultAckTimeoutNs, defaultMaxRetransmit, defaultNStart⟩ evs) = .ok :=
  model_history_accepted _ evs

/-! ## clause by clause

The judge reports the first clause that fails; acceptance says that none does.  Spelled out, one statement per clause of
`Spec.Retransmit.Verdict`, for every history of the model (requests, pings and confirmable non-request writes alike). -/

/-- at most `1 + MAX_RETRANSMIT` transmissions of any exchange -/
theorem never_too_many (P : Params) (evs : List XEv) : judge (cfgOf P) (history P evs) ≠ .tooMany := by
  rw [model_history_accepted]; decide
/-- the k-th copy not earlier than `k × ACK_TIMEOUT` after the first -/
theorem never_too_early (P : Params) (evs : List XEv) : judge (cfgOf P) (history P evs) ≠ .tooEarly := by
  rw [model_history_accepted]; decide
/-- every copy byte-identical to the first (unless the caller edited a queued request: precondition of the API) -/
theorem never_not_identical (P : Params) (evs : List XEv) : judge (cfgOf P) (history P evs) ≠ .notIdentical := by
  rw [model_history_accepted]; decide
/-- no copy after an acknowledgement, a reset, a response, the caller's cancellation or the return of the call -/
theorem never_copy_after_stop (P : Params) (evs : List XEv) : judge (cfgOf P) (history P evs) ≠ .copyAfterStop := by
  rw [model_history_accepted]; decide
/-- every transmission and every return belongs to a call that was made -/
theorem never_unknown_request (P : Params) (evs : List XEv) : judge (cfgOf P) (history P evs) ≠ .unknownRequest := by
  rw [model_history_accepted]; decide
/-- a call returns at most once -/
theorem never_double_return (P : Params) (evs : List XEv) : judge (cfgOf P) (history P evs) ≠ .doubleReturn := by
  rw [model_history_accepted]; decide
/-- a successful return carries a response (a completion: an acknowledgement) that really came back: neither exhaustion nor
    a reset produces success -/
theorem never_spurious_success (P : Params) (evs : List XEv) : judge (cfgOf P) (history P evs) ≠ .spuriousSuccess := by
  rw [model_history_accepted]; decide
/-- the matching acknowledgement / response that gets back before the attempts are exhausted completes the call in that
    step (unless the caller gave up first) … -/
theorem never_no_success (P : Params) (evs : List XEv) : judge (cfgOf P) (history P evs) ≠ .noSuccess := by
  rw [model_history_accepted]; decide
/-- … also in the window of the last copy, whatever housekeeping passes ran in it (F30) -/
theorem never_no_success_last_window (P : Params) (evs : List XEv) : judge (cfgOf P) (history P evs) ≠ .lastWindow := by
  rw [model_history_accepted]; decide
/-- never more than NSTART requests outstanding (pings and non-request writes take no slot) -/
theorem never_nstart_exceeded (P : Params) (evs : List XEv) : judge (cfgOf P) (history P evs) ≠ .nstart := by
  rw [model_history_accepted]; decide

/-! ## the request machinery inside the extended model is the model of Props/C06.lean

Every state the extended model reaches has, as its `base`, a state `Model.Retransmit.run P evs'` for some list of events
of the request machinery: all theorems of Props/C06.lean and Props/C06Window.lean hold of it. -/

theorem base_step (P : Params) (s : XState) (e : XEv) :
    (Model.RetransmitKinds.step P s e).1.base = s.base ∨ ∃ e', (Model.RetransmitKinds.step P s e).1.base = Model.Retransmit.step P s.base e' := by
  cases e with
  | send id msg dl =>
    by_cases hk : known s id = true
    · left; simp [Model.RetransmitKinds.step, hk]
    · right; exact ⟨.send id msg (dl.map (· + s.base.now)), by simp [Model.RetransmitKinds.step, hk, liftBase, Model.Retransmit.step]⟩
  | ping id dl => left; simp only [Model.RetransmitKinds.step, xsend]; split <;> rfl
  | wcon id dl => left; simp only [Model.RetransmitKinds.step, xsend]; split <;> rfl
  | advance d => right; exact ⟨.advance d, rfl⟩
  | tick a => right; exact ⟨.tick a, rfl⟩
  | «mut» id msg => right; exact ⟨.mut id msg, rfl⟩
  | cancel id why =>
    by_cases hx : isX s id = true
    · left
      simp only [Model.RetransmitKinds.step, hx, if_true, xcancel]
      split
      · split <;> rfl
      · rfl
    · right; exact ⟨.cancel id why, by simp [Model.RetransmitKinds.step, hx, liftBase, Model.Retransmit.step]⟩
  | resp id tag =>
    by_cases hsk : (isX s id || queued s.base id) = true
    · left; simp [Model.RetransmitKinds.step, hsk]
    · right; exact ⟨.resp id tag, by simp [Model.RetransmitKinds.step, hsk, liftBase, Model.Retransmit.step]⟩
  | recvMid id k =>
    by_cases hx : isX s id = true
    · left
      simp only [Model.RetransmitKinds.step, hx, if_true, xrecv]
      split <;> rfl
    · cases k with
      | ack => right; exact ⟨.recvMid id .ack, by simp [Model.RetransmitKinds.step, hx, liftBase, Model.Retransmit.step]⟩
      | rst => right; exact ⟨.recvMid id .rst, by simp [Model.RetransmitKinds.step, hx, liftBase, Model.Retransmit.step]⟩
      | pig tag =>
        by_cases hq : queued s.base id = true
        · left; simp [Model.RetransmitKinds.step, hx, hq]
        · right; exact ⟨.recvMid id (.pig tag), by simp [Model.RetransmitKinds.step, hx, hq, liftBase, Model.Retransmit.step]⟩

theorem base_reachable (P : Params) : ∀ (evs : List XEv) (s : XState), (∃ bevs, s.base = Model.Retransmit.run P bevs) →
    ∃ bevs, (Model.RetransmitKinds.runFrom P s evs).1.base = Model.Retransmit.run P bevs
  | [], s, h => h
  | e :: r, s, ⟨bevs, hb⟩ => by
    simp only [Model.RetransmitKinds.runFrom]
    apply base_reachable P r
    rcases base_step P s e with h | ⟨e', h⟩
    · exact ⟨bevs, by rw [h, hb]⟩
    · refine ⟨bevs ++ [e'], ?_⟩
      rw [h, hb]
      simp [Model.Retransmit.run, Model.Retransmit.runFrom, List.foldl_append]

/-- The requests of any run of the extended model are a run of `Model.Retransmit`. -/
theorem base_is_a_run (P : Params) (evs : List XEv) :
    ∃ bevs, (Model.RetransmitKinds.runFrom P Model.RetransmitKinds.init evs).1.base = Model.Retransmit.run P bevs :=
  base_reachable P evs _ ⟨[], rfl⟩

/-! ## non-vacuity (ACK_TIMEOUT 10, MAX_RETRANSMIT 2, NSTART 1) -/

def P0 : Params := ⟨10, 2, 1⟩

open CoapVerif.Spec.Retransmit in
/-- the histories are not trivial: a request holds the only slot and is retransmitted; a ping and a confirmable
    notification go out beside it without a slot and are retransmitted in the same pass; the pong (Reset) completes the ping,
    an acknowledgement the write, a piggybacked response the request (transmissions and returns of each step) -/
example : (history P0 [.send 0 7 none, .ping 1 none, .wcon 2 (some 100), .advance 11, .tick 0, .recvMid 1 .rst,
      .recvMid 2 .ack, .recvMid 0 (.pig 5)]).map (fun st => (st.txs, st.rets)) =
    [([⟨0, 0, true⟩], []), ([⟨1, 0, true⟩], []), ([⟨2, 0, true⟩], []), ([], []),
     ([⟨0, 11, true⟩, ⟨1, 11, true⟩, ⟨2, 11, true⟩], []),
     ([], [⟨1, .acked, 11⟩]), ([], [⟨2, .acked, 11⟩]), ([], [⟨0, .ok 5, 11⟩])] := by decide

open CoapVerif.Spec.Retransmit in
/-- … and the judge is not trivially satisfied: the same kind of observations with one copy of the ping too many, a copy of
    the write after its acknowledgement, a pong that does not complete the ping, a completion out of nothing, or a copy that
    comes too early are rejected -/
example : judge (cfgOf P0) [⟨.ping 1 none, [⟨1, 0, true⟩], []⟩, ⟨.sleep 11, [], []⟩, ⟨.tick 0, [⟨1, 11, true⟩], []⟩,
      ⟨.sleep 10, [], []⟩, ⟨.tick 0, [⟨1, 21, true⟩], []⟩, ⟨.sleep 10, [], []⟩, ⟨.tick 0, [⟨1, 31, true⟩], []⟩] = .tooMany ∧
    judge (cfgOf P0) [⟨.wcon 2 none, [⟨2, 0, true⟩], []⟩, ⟨.recvMid 2 .ack, [], [⟨2, .acked, 0⟩]⟩, ⟨.sleep 11, [], []⟩,
      ⟨.tick 0, [⟨2, 11, true⟩], []⟩] = .copyAfterStop ∧
    judge (cfgOf P0) [⟨.ping 1 none, [⟨1, 0, true⟩], []⟩, ⟨.recvMid 1 .rst, [], []⟩] = .noSuccess ∧
    judge (cfgOf P0) [⟨.ping 1 none, [⟨1, 0, true⟩], []⟩, ⟨.sleep 5, [], [⟨1, .acked, 5⟩]⟩] = .spuriousSuccess ∧
    judge (cfgOf P0) [⟨.send 0 none, [⟨0, 0, true⟩], []⟩, ⟨.sleep 9, [], []⟩, ⟨.tick 0, [⟨0, 9, true⟩], []⟩] = .tooEarly := by
  decide

end CoapVerif.Props.C06Judge

section Audit
open CoapVerif.Props.C06Judge
#print axioms judge_tie_shape
#print axioms tie_init
#print axioms step_accepted
#print axioms history_accepted_from
#print axioms model_history_accepted
#print axioms model_history_accepted_defaults
#print axioms never_too_many
#print axioms never_too_early
#print axioms never_not_identical
#print axioms never_copy_after_stop
#print axioms never_unknown_request
#print axioms never_double_return
#print axioms never_spurious_success
#print axioms never_no_success
#print axioms never_no_success_last_window
#print axioms never_nstart_exceeded
#print axioms base_step
#print axioms base_reachable
#print axioms base_is_a_run
end Audit
