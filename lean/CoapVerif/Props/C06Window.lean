import CoapVerif.Go.Basic
import CoapVerif.Model.Retransmit
import CoapVerif.Lemmas.Retransmit
import CoapVerif.Lemmas.RetransmitWindow
import CoapVerif.Props.C06
/-!
# C06 — the window of the last copy (defect F30)

Property text: "If any one copy reaches the peer and the matching acknowledgement/response gets back **before the attempts
are exhausted**, the request call succeeds with that response", over "all housekeeping-tick timings relative to
ACK_TIMEOUT".  RFC 7252 §4.2: after its last retransmission the sender still waits for the acknowledgement until the
retransmission timer of that transmission would have expired — the attempts are exhausted at
`start + (MAX_RETRANSMIT+1)·ACK_TIMEOUT`, not at the last send and not at whatever housekeeping pass runs next.

These theorems need `midElement.IsExpired` to report exhaustion only after the last copy's own timeout
(`exhaustionWaitsLastTimeout`, `lastCopyAddend`, regenerated from the AST); before fix F30 the first pass after the last
copy ended the exchange and they do not hold.
-/
namespace CoapVerif.Props.C06
open CoapVerif CoapVerif.Model.Retransmit CoapVerif.Lemmas.Retransmit CoapVerif.Generated.Retransmit

/-- `IsExpired` has the conjunct `now.After(start + ackTimeout·(retransmit + 1))`. -/
theorem window_shape : exhaustionWaitsLastTimeout = true ∧ lastCopyAddend = 1 := by decide

/-- **The full window (F30).**  A request stays pending through any housekeeping passes (and any passage of time)
    as long as every pass runs with a `now` not later than `start + (MAX_RETRANSMIT+1)·ACK_TIMEOUT` — the instant the
    next copy would have been due — and not later than the call's deadline; however many of its copies are out. -/
theorem pending_within_window (P : Params) (evs passes : List Ev) (e : Pend) (he : e ∈ (run P evs).pend)
    (hdl : ∀ d, e.deadline = some d → e.start + (P.maxRetransmit + 1) * P.ackTimeout ≤ d)
    (hp : PassesWithin (e.start + (P.maxRetransmit + 1) * P.ackTimeout) (run P evs).now passes) :
    isPending (run P (evs ++ passes)).pend e.id = true := by
  obtain ⟨e', he', h1, _, _⟩ := pending_through_passes passes (run P evs) (inv_run P evs) e he hdl hp
  have : run P (evs ++ passes) = runFrom P (run P evs) passes := by simp [run, runFrom, List.foldl_append]
  rw [this]
  exact isPending_iff.mpr ⟨e', he', h1⟩

/-- Hence an answer that arrives before exhaustion is reported — whatever passes ran since the last copy — completes
    the call: piggybacked response … -/
theorem answer_within_window_succeeds (P : Params) (evs passes : List Ev) (e : Pend) (tag : Nat)
    (he : e ∈ (run P evs).pend)
    (hdl : ∀ d, e.deadline = some d → e.start + (P.maxRetransmit + 1) * P.ackTimeout ≤ d)
    (hp : PassesWithin (e.start + (P.maxRetransmit + 1) * P.ackTimeout) (run P evs).now passes) :
    ∃ tag', Entry.ret e.id (.ok tag') (run P (evs ++ passes)).now ∈
      (run P ((evs ++ passes) ++ [.recvMid e.id (.pig tag)])).log :=
  ack_in_time_succeeds P (evs ++ passes) e.id tag (pending_within_window P evs passes e he hdl hp)

/-- … or empty acknowledgement (the writer is woken; `ack_then_response_succeeds` does the rest). -/
theorem ack_within_window_wakes (P : Params) (evs passes : List Ev) (e : Pend)
    (he : e ∈ (run P evs).pend)
    (hdl : ∀ d, e.deadline = some d → e.start + (P.maxRetransmit + 1) * P.ackTimeout ≤ d)
    (hp : PassesWithin (e.start + (P.maxRetransmit + 1) * P.ackTimeout) (run P evs).now passes) :
    ∃ t, Entry.stop e.id t ∈ (run P ((evs ++ passes) ++ [.recvMid e.id .ack])).log :=
  ack_is_stop P (evs ++ passes) e.id .ack (pending_within_window P evs passes e he hdl hp)

/-! ## non-vacuity (ACK_TIMEOUT 10, MAX_RETRANSMIT 2, NSTART 1) -/

/-- F30: a housekeeping pass runs between the last copy (sent at 21) and the instant the next copy would have been due
    (30): the entry stays; the answer at 29 completes the call; without an answer the pass at 31 reports exhaustion -/
example : (run P0 [.send 0 7 none, .advance 11, .tick 0, .advance 10, .tick 0, .advance 1, .tick 0, .advance 7, .tick 0,
    .recvMid 0 (.pig 3)]).log.reverse =
    [.tx 0 0 0 7, .tx 0 1 11 7, .tx 0 2 21 7, .stop 0 29, .got 0 3, .ret 0 (.ok 3) 29] := by decide
example : isPending (run P0 [.send 0 7 none, .advance 11, .tick 0, .advance 10, .tick 0, .advance 9, .tick 0]).pend 0 = true ∧
    isPending (run P0 [.send 0 7 none, .advance 11, .tick 0, .advance 10, .tick 0, .advance 10, .tick 0]).pend 0 = false := by
  decide

end CoapVerif.Props.C06

section Audit
open CoapVerif.Props.C06
#print axioms window_shape
#print axioms pending_within_window
#print axioms answer_within_window_succeeds
#print axioms ack_within_window_wakes
end Audit
