import CoapVerif.Go.Basic
import CoapVerif.Model.Framing
import CoapVerif.Lemmas.Framing
import CoapVerif.Spec.Framing
import CoapVerif.Lemmas.FramingSpec
/-!
# C07 — Stream framing is independent of how bytes are segmented

Statement (properties.jsonl): for every sequence of messages and every way the byte stream is cut into
reads (single bytes, cuts inside headers, several messages in one read), a stream-transport connection
delivers exactly the sent messages, each once, complete and in order.  A frame whose declared length
exceeds the configured maximum message size is never delivered, nor is anything that follows it: the
connection is closed with an error as soon as the offending header is seen, without waiting for or
buffering the oversized body.

Model: `Model/Framing.lean` (`decodeHeader`, `proc` = processBuffer, `feed` = one Read, `run`).
All theorems hold for every byte string, every chunking (arbitrary `List Bytes`) and every limit.
-/
namespace CoapVerif.Props.C07
open CoapVerif CoapVerif.Model.Framing CoapVerif.Lemmas.Framing

/-- A closed session ignores all further input. -/
theorem foldl_feed_closed (max : Nat) (s : St) (cs : List Bytes) (h : s.closed = true) :
    cs.foldl (feed max) s = s := by
  induction cs with
  | nil => rfl
  | cons c cs ih => simp [List.foldl_cons, feed, h, ih]

/-- Feeding chunk after chunk reaches the state of one parse over all bytes — exactly while the connection
    stays open, and with the same deliveries when it gets closed. -/
theorem foldl_feed_proc (max : Nat) (cs : List Bytes) (buf : Bytes) (out : List Msg) :
    let l := cs.foldl (feed max) (proc max buf out)
    let r := proc max (buf ++ cs.flatten) out
    (r.closed = false → l = r) ∧ (r.closed = true → l.closed = true ∧ l.out = r.out) := by
  induction cs generalizing buf out with
  | nil => simp
  | cons c cs ih =>
    simp only [List.foldl_cons, List.flatten_cons]
    cases hc : (proc max buf out).closed
    · -- first pass left the connection open: the next read continues from the combined buffer
      have e : feed max (proc max buf out) c = proc max (buf ++ c) out := by
        simp only [feed, hc]; exact proc_append max buf out c hc
      rw [e, ← List.append_assoc]
      exact ih (buf ++ c) out
    · -- first pass closed it: nothing changes any more, and the one-shot parse closes with the same deliveries
      have e : feed max (proc max buf out) c = proc max buf out := by simp [feed, hc]
      rw [e, foldl_feed_closed max _ cs hc]
      have := proc_closed_append max buf out (c ++ cs.flatten) hc
      constructor
      · intro h; rw [this.1] at h; cases h
      · intro _; exact ⟨hc, this.2.symm⟩

theorem init_eq_proc (max : Nat) : init = proc max [] [] := by
  rw [proc_short (by rfl)]; rfl

/-- **Segmentation independence**: for every way of cutting the byte stream into reads, deliveries and the
    open/closed outcome are those of a single read of the whole stream. -/
theorem run_chunk_independent (max : Nat) (cs : List Bytes) :
    (run max cs).obs = (run max [cs.flatten]).obs := by
  have h := foldl_feed_proc max cs [] []
  simp only [List.nil_append] at h
  have e1 : run max cs = cs.foldl (feed max) (proc max [] []) := by rw [run, init_eq_proc max]
  have e2 : run max [cs.flatten] = proc max cs.flatten [] := by
    simp [run, feed, init]
  rw [e1, e2]
  cases hc : (proc max cs.flatten []).closed
  · rw [h.1 hc]
  · have := h.2 hc
    simp only [St.obs, this.1, this.2, hc]

/-- Two segmentations of the same stream are indistinguishable. -/
theorem run_same_stream (max : Nat) (cs ds : List Bytes) (h : cs.flatten = ds.flatten) :
    (run max cs).obs = (run max ds).obs := by
  rw [run_chunk_independent max cs, run_chunk_independent max ds, h]

/-- A frame the connection accepts: complete header, declared length = its length ≤ limit, body decodes. -/
def WellFramed (max : Nat) (f : Bytes) : Prop :=
  ∃ h m, decodeHeader f = .ok h ∧ h.msgLen = f.length ∧ f.length ≤ max ∧ decodeFrame f = some m

/-- Parsing a buffer that starts with well-framed frames delivers them in order and continues after them. -/
theorem proc_frames (max : Nat) (fs : List Bytes) (tail : Bytes) (out : List Msg)
    (hf : ∀ f ∈ fs, WellFramed max f) :
    proc max (fs.flatten ++ tail) out = proc max tail (out ++ fs.filterMap decodeFrame) := by
  induction fs generalizing out with
  | nil => simp
  | cons f fs ih =>
    obtain ⟨h, m, hh, hl, hm, hd⟩ := hf f (by simp)
    simp only [List.flatten_cons, List.append_assoc]
    rw [proc_ok (decodeHeader_append_ok (fs.flatten ++ tail) hh)]
    have n1 : ¬ h.msgLen > max := by omega
    have n2 : ¬ (f ++ (fs.flatten ++ tail)).length < h.msgLen := by simp [List.length_append]; omega
    simp only [n1, n2, ↓reduceIte]
    rw [hl, List.take_left, hd, List.drop_left]
    dsimp only
    rw [ih (out ++ [m]) (fun g hg => hf g (by simp [hg]))]
    simp [List.filterMap_cons, hd]

/-- **Exactly the sent messages, each once, complete, in order** — for every segmentation. -/
theorem run_delivers_sent (max : Nat) (fs : List Bytes) (cs : List Bytes)
    (hf : ∀ f ∈ fs, WellFramed max f) (hc : cs.flatten = fs.flatten) :
    (run max cs).obs = (fs.filterMap decodeFrame, false) ∧ (fs.filterMap decodeFrame).length = fs.length := by
  constructor
  · rw [run_chunk_independent, hc]
    have e2 : run max [fs.flatten] = proc max fs.flatten [] := by simp [run, feed, init]
    have := proc_frames max fs [] [] hf
    simp only [List.append_nil, List.nil_append] at this
    rw [e2, this, proc_short (by rfl)]
    rfl
  · clear hc
    induction fs with
    | nil => rfl
    | cons f fs ih =>
      obtain ⟨h, m, _, _, _, hd⟩ := hf f (by simp)
      rw [List.filterMap_cons, hd]
      simp only [List.length_cons]
      rw [ih (fun g hg => hf g (by simp [hg]))]

/-- A header that is complete and declares more than the limit (or more than 32 bits can hold). -/
def Oversize (max : Nat) (hdr : Bytes) : Prop :=
  decodeHeader hdr = .invalid ∨ ∃ h, decodeHeader hdr = .ok h ∧ h.msgLen > max

/-- **Oversize closes**: after any well-framed frames, as soon as an oversize header is in the buffer the
    connection is closed, exactly the earlier frames were delivered, and nothing that follows (`rest`: the
    body, later frames, anything) is ever delivered — for every segmentation, including `rest = []`
    (no body byte has arrived). -/
theorem oversize_closes (max : Nat) (fs : List Bytes) (hdr rest : Bytes) (cs : List Bytes)
    (hf : ∀ f ∈ fs, WellFramed max f) (ho : Oversize max hdr)
    (hc : cs.flatten = fs.flatten ++ (hdr ++ rest)) :
    (run max cs).obs = (fs.filterMap decodeFrame, true) := by
  rw [run_chunk_independent, hc]
  have e2 : run max [fs.flatten ++ (hdr ++ rest)] = proc max (fs.flatten ++ (hdr ++ rest)) [] := by
    simp [run, feed, init]
  rw [e2, proc_frames max fs (hdr ++ rest) [] hf]
  rcases ho with hi | ⟨h, hh, hgt⟩
  · rw [proc_invalid (decodeHeader_append_invalid rest hi)]; rfl
  · rw [proc_ok (decodeHeader_append_ok rest hh)]; simp [hgt, St.obs]

/-- While only part of a header is present nothing is delivered and the connection stays open (short read). -/
theorem short_waits (max : Nat) (buf : Bytes) (out : List Msg) (h : decodeHeader buf = .short) :
    proc max buf out = ⟨buf, out, false⟩ := proc_short h

/-- **The code-following model meets the RFC-level specification** (`Spec/Framing.lean`, written from RFC 8323 §3.2 /
    RFC 7252 §3.1 without reference to the code, and the judge of the correspondence runs): for every byte stream, every
    segmentation and every limit, the messages delivered are exactly the frames the specification finds in the
    stream before the first offending one, the connection is open whenever the specification says it is open
    (in particular nothing is closed without an offending frame), and it is closed whenever the specification
    says the offending header / malformed frame is completely received (`mustClose`; for an oversize length
    field whose header is still incomplete the specification allows either). -/
theorem run_meets_spec (max : Nat) (cs : List Bytes) :
    (run max cs).out = (Spec.Framing.expected max cs.flatten).1.map Lemmas.FramingSpec.conv ∧
    ((Spec.Framing.expected max cs.flatten).2 = .open_ → (run max cs).closed = false) ∧
    ((Spec.Framing.expected max cs.flatten).2 = .mustClose → (run max cs).closed = true) := by
  have hobs := run_chunk_independent max cs
  have e2 : run max [cs.flatten] = proc max cs.flatten [] := by simp [run, feed, init]
  rw [e2] at hobs
  simp only [St.obs, Prod.mk.injEq] at hobs
  rw [hobs.1, hobs.2]
  exact Lemmas.FramingSpec.proc_eq_split max cs.flatten [] [] (cs.flatten.length + 1) rfl (by omega)

/-! Non-vacuity: a GET with token `a1` and Uri-Path "x" (frame `21 01 a1 b1 78`), a CSM `00 e1`,
    cut inside the header, against limit 1152; and an oversize header `e0 ff ff 01` (declares 65804+4 bytes). -/
theorem ex_frame : decodeFrame [0x21, 0x01, 0xa1, 0xb1, 0x78] = some ⟨1, [0xa1], []⟩ := by
  have h : decodeHeader [0x21, 0x01, 0xa1, 0xb1, 0x78] = .ok ⟨3, 5, 1, 1⟩ := by decide
  simp [decodeFrame, h, walkOpts, parseExt, Generated.TcpFraming.extError, Generated.TcpFraming.extByteCode,
    Generated.TcpFraming.extWordCode]
example : WellFramed 1152 [0x21, 0x01, 0xa1, 0xb1, 0x78] :=
  ⟨⟨3, 5, 1, 1⟩, ⟨1, [0xa1], []⟩, by decide, by decide, by decide, ex_frame⟩
example : (run 1152 [[0x21], [0x01, 0xa1], [0xb1, 0x78]]).obs = ([⟨1, [0xa1], []⟩], false) := by
  rw [run_delivers_sent 1152 [[0x21, 0x01, 0xa1, 0xb1, 0x78]] _
    (by intro f hf; simp at hf; subst hf; exact ⟨⟨3, 5, 1, 1⟩, ⟨1, [0xa1], []⟩, by decide, by decide, by decide, ex_frame⟩)
    (by rfl) |>.1]
  simp [ex_frame]
/-! Non-vacuity of `run_meets_spec`: the specification finds the GET and the CSM in a stream; an oversize header that is
    complete must close; one whose code byte is still missing may (the model closes there too, see `oversize_closes`). -/
example : Spec.Framing.expected 1152 [0x21, 0x01, 0xa1, 0xb1, 0x78, 0x00, 0xe1]
    = ([⟨1, [0xa1], []⟩, ⟨0xe1, [], []⟩], .open_) := by decide
example : Spec.Framing.expected 1152 [0x21, 0x01, 0xa1, 0xb1, 0x78, 0xe0, 0xff, 0xff, 0x01]
    = ([⟨1, [0xa1], []⟩], .mustClose) := by decide
example : Spec.Framing.expected 1152 [0x21, 0x01, 0xa1, 0xb1, 0x78, 0xe0, 0xff, 0xff]
    = ([⟨1, [0xa1], []⟩], .mayClose) := by decide
example : Oversize 1152 [0xe0, 0xff, 0xff, 0x01] := Or.inr ⟨⟨4, 65808, 1, 0⟩, by decide, by decide⟩
example : Oversize 4294967295 [0xf0, 0xff, 0xfe, 0xfe, 0xf3, 0x01] := Or.inl (by decide)

end CoapVerif.Props.C07

section Audit
open CoapVerif.Props.C07
#print axioms foldl_feed_closed
#print axioms foldl_feed_proc
#print axioms init_eq_proc
#print axioms run_chunk_independent
#print axioms run_same_stream
#print axioms proc_frames
#print axioms run_delivers_sent
#print axioms oversize_closes
#print axioms short_waits
#print axioms run_meets_spec
#print axioms ex_frame
end Audit
