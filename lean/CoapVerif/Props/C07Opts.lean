import CoapVerif.Go.Basic
import CoapVerif.Model.FramingOpts
import CoapVerif.Lemmas.FramingOpts
import CoapVerif.Spec.FramingOpts
import CoapVerif.Lemmas.FramingSpec
import CoapVerif.Props.C07
/-!
# C07 — "... delivers exactly the sent messages, each once, **complete** and in order": the options

Statement (properties.jsonl): for every sequence of messages and every way the byte stream is cut into reads (single
bytes, cuts inside headers, several messages in one read), a stream-transport connection delivers exactly the sent
messages, each once, complete and in order.  [...]

`Props/C07.lean` proves it for code, token and payload.  Here the delivered message carries its option list
(`Model/FramingOpts.lean`: `walkOptsO` = what `Options.Unmarshal` appends, `keeps` = `Option.Unmarshal` does not skip,
`defsFor` = the table `DecodeWithHeader` selects, `procO`/`runO`), and the clause the judge runs
(`Spec/FramingOpts.lean: due` — every option whose number no RFC defines or whose length the defining RFC allows must
be handed over) is proved of the model:

* `runO_chunk_independent`, `runO_same_stream` — segmentation independence including the options;
* `runO_erase` — forgetting the options `runO` is `run`, so every theorem of `Props/C07.lean` speaks about `runO`;
* `table_admits_rfc_lengths` (over the regenerated `CoapOptionDefs`) and `due_kept` — an option that is due is never
  skipped by `Option.Unmarshal` for an ordinary code;
* `walkOptsO_due` — the due options the model delivers for an option area are exactly the due options the RFC 7252 §3.1
  walk of the specification finds in it, in order, for every byte string.

Full statement (kept visible): `(runO max cs).out.map dueView = (Spec.FramingOpts.expectedO max cs.flatten).1.map dueView`
for the ordinary codes.  Proved here: the per-option-area part (`runO_due_options_meet_spec_partial` = `walkOptsO_due`)
together with the results above; **missing**: the lifting through the frame header (that `frame.drop h.len` is the area `Spec.FramingOpts.parseFrameO` walks — the
computation inside `Lemmas.FramingSpec.decodeFrame_eq`, not exported) and through `proc_eq_split`.  The check runs the
model and the specification's judge on every generated stream, so a disagreement there shows as a correspondence /
judge failure.
-/
namespace CoapVerif.Props.C07Opts
open CoapVerif CoapVerif.Model.Framing CoapVerif.Model.FramingOpts CoapVerif.Lemmas.Framing CoapVerif.Lemmas.FramingOpts
open CoapVerif.Spec.Framing (optHead)
open CoapVerif.Lemmas.FramingSpec (optHead_eq)

theorem foldl_feedO_closed (max : Nat) (s : StO) (cs : List Bytes) (h : s.closed = true) :
    cs.foldl (feedO max) s = s := by
  induction cs with
  | nil => rfl
  | cons c cs ih => simp [List.foldl_cons, feedO, h, ih]

theorem foldl_feedO_procO (max : Nat) (cs : List Bytes) (buf : Bytes) (out : List MsgO) :
    let l := cs.foldl (feedO max) (procO max buf out)
    let r := procO max (buf ++ cs.flatten) out
    (r.closed = false → l = r) ∧ (r.closed = true → l.closed = true ∧ l.out = r.out) := by
  induction cs generalizing buf out with
  | nil => simp
  | cons c cs ih =>
    simp only [List.foldl_cons, List.flatten_cons]
    cases hc : (procO max buf out).closed
    · have e : feedO max (procO max buf out) c = procO max (buf ++ c) out := by
        simp only [feedO, hc]; exact procO_append max buf out c hc
      rw [e, ← List.append_assoc]
      exact ih (buf ++ c) out
    · have e : feedO max (procO max buf out) c = procO max buf out := by simp [feedO, hc]
      rw [e, foldl_feedO_closed max _ cs hc]
      have := procO_closed_append max buf out (c ++ cs.flatten) hc
      constructor
      · intro h; rw [this.1] at h; cases h
      · intro _; exact ⟨hc, this.2.symm⟩

theorem initO_eq_procO (max : Nat) : initO = procO max [] [] := by
  rw [procO_short (by rfl)]; rfl

/-- **Segmentation independence, options included**: for every way of cutting the byte stream into reads, the messages
    delivered — code, token, option list, payload — and the open/closed outcome are those of a single read. -/
theorem runO_chunk_independent (max : Nat) (cs : List Bytes) :
    (runO max cs).obs = (runO max [cs.flatten]).obs := by
  have h := foldl_feedO_procO max cs [] []
  simp only [List.nil_append] at h
  have e1 : runO max cs = cs.foldl (feedO max) (procO max [] []) := by rw [runO, initO_eq_procO max]
  have e2 : runO max [cs.flatten] = procO max cs.flatten [] := by
    simp [runO, feedO, initO]
  rw [e1, e2]
  cases hc : (procO max cs.flatten []).closed
  · rw [h.1 hc]
  · have := h.2 hc
    simp only [StO.obs, this.1, this.2, hc]

theorem runO_same_stream (max : Nat) (cs ds : List Bytes) (h : cs.flatten = ds.flatten) :
    (runO max cs).obs = (runO max ds).obs := by
  rw [runO_chunk_independent max cs, runO_chunk_independent max ds, h]

theorem feedO_erase (max : Nat) (s : StO) (c : Bytes) : (feedO max s c).erase = feed max s.erase c := by
  unfold feedO feed
  cases hc : s.closed
  · simp only [StO.erase, hc, Bool.false_eq_true, ↓reduceIte]
    exact procO_erase max (s.buf ++ c) s.out
  · simp [StO.erase, hc]

/-- Forgetting the options, the run with options is the run of `Props/C07.lean`: `run_delivers_sent`,
    `oversize_closes`, `run_meets_spec` all speak about the messages `runO` delivers. -/
theorem runO_erase (max : Nat) (cs : List Bytes) : (runO max cs).erase = run max cs := by
  unfold runO run
  have : ∀ (s : StO), (cs.foldl (feedO max) s).erase = cs.foldl (feed max) s.erase := by
    induction cs with
    | nil => intro s; rfl
    | cons c cs ih => intro s; simp only [List.foldl_cons]; rw [ih, feedO_erase]
  rw [this]; rfl

/-! ## An option that is due is not skipped -/

/-- every entry of the library's table for ordinary codes has a known format and a length range that contains the
    range of the RFC that defines the number -/
def tableAdmits (defs : Defs) : Bool :=
  defs.all (fun e =>
    e.2.2.2 ≠ Generated.OptionDefs.fmtUnknown &&
    match Spec.FramingOpts.rfcRange e.1 with
    | some (lo, hi) => e.2.1 ≤ lo && hi ≤ e.2.2.1 && hi < 4294967296
    | none => false)

theorem table_admits_rfc_lengths : tableAdmits Generated.OptionDefs.coapOptionDefs = true := by decide

theorem lookup_mem {defs : Defs} {id lo hi fmt : Nat} (h : lookup defs id = some (lo, hi, fmt)) :
    (id, lo, hi, fmt) ∈ defs := by
  induction defs with
  | nil => simp [lookup] at h
  | cons e r ih =>
    obtain ⟨k, a, b, c⟩ := e
    unfold lookup at h
    by_cases hk : k = id
    · simp only [hk, ↓reduceIte, Option.some.injEq, Prod.mk.injEq] at h
      obtain ⟨rfl, rfl, rfl⟩ := h
      simp [hk]
    · simp only [hk, ↓reduceIte] at h
      exact List.mem_cons_of_mem _ (ih h)

/-- **Complete**: `Option.Unmarshal` keeps every option that is due, whenever the table admits the RFC lengths. -/
theorem due_kept_of (defs : Defs) (ht : tableAdmits defs = true) (id : Nat) (v : Bytes)
    (hd : Spec.FramingOpts.due (id, v) = true) : keeps defs id v.length = true := by
  unfold Spec.FramingOpts.due at hd
  simp only [Bool.and_eq_true, decide_eq_true_eq] at hd
  obtain ⟨h0, hr⟩ := hd
  unfold keeps
  simp only [Bool.and_eq_true, decide_eq_true_eq]
  refine ⟨h0, ?_⟩
  cases hl : lookup defs id with
  | none => rfl
  | some e =>
    obtain ⟨lo, hi, fmt⟩ := e
    have hm := lookup_mem hl
    unfold tableAdmits at ht
    rw [List.all_eq_true] at ht
    have := ht _ hm
    simp only [Bool.and_eq_true, decide_eq_true_eq] at this
    obtain ⟨hf, hrange⟩ := this
    cases hrr : Spec.FramingOpts.rfcRange id with
    | none => simp [hrr] at hrange
    | some p =>
      obtain ⟨lo', hi'⟩ := p
      simp only [hrr, Bool.and_eq_true, decide_eq_true_eq] at hrange hr
      have hmod : v.length % 4294967296 = v.length := Nat.mod_eq_of_lt (by omega)
      simp only [hmod, Bool.and_eq_true, decide_eq_true_eq]
      exact ⟨⟨hf, by omega⟩, by omega⟩

theorem due_kept (id : Nat) (v : Bytes) (hd : Spec.FramingOpts.due (id, v) = true) :
    keeps Generated.OptionDefs.coapOptionDefs id v.length = true :=
  due_kept_of _ table_admits_rfc_lengths id v hd

/-! ## The due options of an option area: model = specification -/

/-- For a table that keeps every due option: the due options `Options.Unmarshal` appends for an option area are, in
    order, the due options the RFC 7252 §3.1 walk finds in it — for every byte string (a rejected area included). -/
theorem walkOptsO_due_of (defs : Defs) (hk : ∀ id (v : Model.Framing.Bytes), Spec.FramingOpts.due (id, v) = true → keeps defs id v.length = true)
    (prev : Nat) (bs : Model.Framing.Bytes) :
    ∀ fuel, bs.length < fuel →
      (walkOptsO defs prev bs).filter Spec.FramingOpts.due = (Spec.FramingOpts.optsOf fuel prev bs).filter Spec.FramingOpts.due := by
  fun_induction walkOptsO defs prev bs with
  | case1 prev =>
    intro fuel hf
    cases fuel with
    | zero => simp at hf
    | succ f => simp [Spec.FramingOpts.optsOf]
  | case2 prev t =>
    intro fuel hf
    cases fuel with
    | zero => simp at hf
    | succ f => simp [Spec.FramingOpts.optsOf]
  | case3 prev b t hb d l h15 =>
    intro fuel hf
    cases fuel with
    | zero => simp at hf
    | succ f =>
      have h15' : b.toNat / 16 = 15 ∨ b.toNat % 16 = 15 := h15
      have : optHead (b :: t) = none := by
        unfold optHead
        simp only [h15', if_true]
      simp [Spec.FramingOpts.optsOf, hb, this]
  | case4 prev b t hb d l h15 hd =>
    intro fuel hf
    cases fuel with
    | zero => simp at hf
    | succ f =>
      have h15' : ¬ (b.toNat / 16 = 15 ∨ b.toNat % 16 = 15) := h15
      have := optHead_eq b t h15'
      have hd' : parseExt (b.toNat / 16) t = _ := hd
      rw [hd'] at this
      simp [Spec.FramingOpts.optsOf, hb, this]
  | case5 prev b t hb d l h15 delta t1 hd hl =>
    intro fuel hf
    cases fuel with
    | zero => simp at hf
    | succ f =>
      have h15' : ¬ (b.toNat / 16 = 15 ∨ b.toNat % 16 = 15) := h15
      have := optHead_eq b t h15'
      have hd' : parseExt (b.toNat / 16) t = _ := hd
      rw [hd'] at this
      have hl' : parseExt (b.toNat % 16) t1 = _ := hl
      simp only [hl'] at this
      simp [Spec.FramingOpts.optsOf, hb, this]
  | case6 prev b t hb d l h15 delta t1 hd len t2 hl hlen =>
    intro fuel hf
    cases fuel with
    | zero => simp at hf
    | succ f =>
      have h15' : ¬ (b.toNat / 16 = 15 ∨ b.toNat % 16 = 15) := h15
      have := optHead_eq b t h15'
      have hd' : parseExt (b.toNat / 16) t = _ := hd
      rw [hd'] at this
      have hl' : parseExt (b.toNat % 16) t1 = _ := hl
      simp only [hl'] at this
      simp [Spec.FramingOpts.optsOf, hb, this, hlen]
  | case7 prev b t hb d l h15 delta t1 hd len t2 hl hlen hov =>
    intro fuel hf
    cases fuel with
    | zero => simp at hf
    | succ f =>
      have h15' : ¬ (b.toNat / 16 = 15 ∨ b.toNat % 16 = 15) := h15
      have := optHead_eq b t h15'
      have hd' : parseExt (b.toNat / 16) t = _ := hd
      rw [hd'] at this
      have hl' : parseExt (b.toNat % 16) t1 = _ := hl
      simp only [hl'] at this
      simp [Spec.FramingOpts.optsOf, hb, this, hlen, hov]
  | case8 prev b t hb d l h15 delta t1 hd len t2 hl hlen hov rest hkeep ih =>
    intro fuel hf
    cases fuel with
    | zero => simp at hf
    | succ f =>
      have h15' : ¬ (b.toNat / 16 = 15 ∨ b.toNat % 16 = 15) := h15
      have := optHead_eq b t h15'
      have hd' : parseExt (b.toNat / 16) t = _ := hd
      rw [hd'] at this
      have hl' : parseExt (b.toNat % 16) t1 = _ := hl
      simp only [hl'] at this
      have h1 := parseExt_len hd
      have h2 := parseExt_len hl
      have hfl : (t2.drop len).length < f := by
        simp only [List.length_drop, List.length_cons] at hf ⊢; omega
      have htl : (t2.take len).length = len := by simp [List.length_take]; omega
      simp only [Spec.FramingOpts.optsOf, hb, if_false, this, hlen, hov]
      rw [List.filter_cons, List.filter_cons]
      rw [ih f hfl]
  | case9 prev b t hb d l h15 delta t1 hd len t2 hl hlen hov rest hkeep ih =>
    intro fuel hf
    cases fuel with
    | zero => simp at hf
    | succ f =>
      have h15' : ¬ (b.toNat / 16 = 15 ∨ b.toNat % 16 = 15) := h15
      have := optHead_eq b t h15'
      have hd' : parseExt (b.toNat / 16) t = _ := hd
      rw [hd'] at this
      have hl' : parseExt (b.toNat % 16) t1 = _ := hl
      simp only [hl'] at this
      have h1 := parseExt_len hd
      have h2 := parseExt_len hl
      have hfl : (t2.drop len).length < f := by
        simp only [List.length_drop, List.length_cons] at hf ⊢; omega
      have htl : (t2.take len).length = len := by simp [List.length_take]; omega
      simp only [Spec.FramingOpts.optsOf, hb, if_false, this, hlen, hov]
      rw [List.filter_cons]
      have hnd : Spec.FramingOpts.due (prev + delta, t2.take len) = false := by
        cases hdue : Spec.FramingOpts.due (prev + delta, t2.take len) with
        | false => rfl
        | true => have := hk _ _ hdue; rw [htl] at this; exact absurd this hkeep
      simp only [hnd, Bool.false_eq_true, if_false]
      exact ih f hfl

/-- **Complete** (option areas of ordinary codes, the regenerated `CoapOptionDefs`). -/
theorem walkOptsO_due (prev : Nat) (bs : Model.Framing.Bytes) :
    (walkOptsO Generated.OptionDefs.coapOptionDefs prev bs).filter Spec.FramingOpts.due
      = (Spec.FramingOpts.optsOf (bs.length + 1) prev bs).filter Spec.FramingOpts.due :=
  walkOptsO_due_of _ due_kept prev bs _ (Nat.lt_succ_self _)

/-- The part of the full statement (header comment) that is proved: per option area. -/
theorem runO_due_options_meet_spec_partial (prev : Nat) (bs : Model.Framing.Bytes) :
    (walkOptsO (defsFor 1) prev bs).filter Spec.FramingOpts.due
      = (Spec.FramingOpts.optsOf (bs.length + 1) prev bs).filter Spec.FramingOpts.due :=
  walkOptsO_due prev bs

/-! Non-vacuity: a GET, token `a1`, Uri-Path "x", Hop-Limit 7 (RFC 8768, number 16: even, not in the library's table),
    frame `41 01 a1 b1 78 51 07`; cut inside the header and inside the option. -/
theorem ex_area : walkOptsO Generated.OptionDefs.coapOptionDefs 0 [0xb1, 0x78, 0x51, 0x07] = [(11, [0x78]), (16, [0x07])] := by
  simp [walkOptsO, parseExt, keeps, lookup, Generated.OptionDefs.coapOptionDefs, Generated.OptionDefs.fmtUnknown,
    Generated.TcpFraming.extError, Generated.TcpFraming.extByteCode, Generated.TcpFraming.extWordCode]
example : Spec.FramingOpts.expectedO 1152 [0x41, 0x01, 0xa1, 0xb1, 0x78, 0x51, 0x07]
    = ([⟨1, [0xa1], [(11, [0x78]), (16, [0x07])], []⟩], .open_) := by decide
example : Spec.FramingOpts.due (16, [0x07]) = true ∧ Spec.FramingOpts.due (16, [7, 7]) = false
    ∧ Spec.FramingOpts.due (65000, []) = true ∧ Spec.FramingOpts.due (12, [1, 2, 3]) = false := by decide
example : keeps Generated.OptionDefs.coapOptionDefs 16 1 = true ∧ keeps Generated.OptionDefs.coapOptionDefs 12 3 = false := by decide
example : (runO 1152 [[0x41], [0x01, 0xa1, 0xb1], [0x78, 0x51], [0x07]]).obs
    = (runO 1152 [[0x41, 0x01, 0xa1, 0xb1, 0x78, 0x51, 0x07]]).obs := runO_same_stream _ _ _ rfl

end CoapVerif.Props.C07Opts

section Audit
open CoapVerif.Props.C07Opts
#print axioms foldl_feedO_closed
#print axioms foldl_feedO_procO
#print axioms initO_eq_procO
#print axioms runO_chunk_independent
#print axioms runO_same_stream
#print axioms feedO_erase
#print axioms runO_erase
#print axioms table_admits_rfc_lengths
#print axioms lookup_mem
#print axioms due_kept_of
#print axioms due_kept
#print axioms walkOptsO_due_of
#print axioms walkOptsO_due
#print axioms runO_due_options_meet_spec_partial
#print axioms ex_area
#print axioms CoapVerif.Lemmas.FramingOpts.procO_append
#print axioms CoapVerif.Lemmas.FramingOpts.procO_closed_append
#print axioms CoapVerif.Lemmas.FramingOpts.procO_erase
#print axioms CoapVerif.Model.FramingOpts.decodeFrameO_erase
end Audit
