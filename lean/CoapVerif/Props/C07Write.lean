import CoapVerif.Props.C07
import CoapVerif.Model.WritePath
import CoapVerif.Generated.TcpFraming
/-!
# C07, writing direction — concurrent writers cannot damage the stream

"… a stream-transport connection delivers exactly the sent messages, each once, complete and in order": the receiving half
is `Props/C07.lean`.  This file is the sending half.  Several goroutines write on one connection; `Session.WriteMessage`
hands each marshalled frame to `Conn.WriteWithContext` in ONE call (`Generated.TcpFraming.writeMessageSingleWrite`, read
from the AST of tcp/client/session.go on every run), and that call holds the write lock until the frame is out.  For every
number of writers, every queue of frames per writer and every schedule:

* `run_writer_order`     what a writer has written so far, followed by what it still has to write, is its queue;
* `drained_written_all`  once everything is written, the frames of each writer appear in the stream in its order;
* `stream_delivered`     a receiver that reads the stream in any segmentation delivers exactly the frames' messages, in
                         stream order, and stays open.
* `split_write_interleaves`  negative: if a frame is handed to the transport in two pieces (two lock acquisitions), there is
                         a schedule of two writers whose stream is not the messages that were written.
-/
namespace CoapVerif.Props.C07Write
open CoapVerif CoapVerif.Model.WritePath

/-- the source fact the model rests on -/
theorem frame_is_one_write : Generated.TcpFraming.writeMessageSingleWrite = true := by decide

def Inv (q0 : List (List Bytes)) (s : St) : Prop :=
  ∀ i, writtenBy s i ++ (s.queues[i]?.getD []) = q0[i]?.getD []

theorem inv_init (q0 : List (List Bytes)) : Inv q0 { queues := q0 } := by
  intro i; simp [writtenBy]

theorem step_inv (q0 : List (List Bytes)) (s : St) (j : Nat) (h : Inv q0 s) : Inv q0 (step s j) := by
  unfold step
  cases hq : s.queues[j]? with
  | none => simpa using h
  | some l =>
    cases l with
    | nil => simpa using h
    | cons f rest =>
      intro i
      have hi := h i
      have hjlt : j < s.queues.length := by
        rcases List.getElem?_eq_some_iff.mp hq with ⟨hlt, _⟩; exact hlt
      by_cases hij : i = j
      · subst hij
        simp only [writtenBy, List.filter_append, List.map_append] at hi ⊢
        rw [hq] at hi
        simp only [List.getElem?_set_self hjlt]
        simpa [List.append_assoc] using hi
      · have hne : j ≠ i := fun e => hij e.symm
        simp only [writtenBy, List.filter_append, List.map_append] at hi ⊢
        rw [List.getElem?_set_ne hne]
        have : (j == i) = false := by simpa using hne
        simpa [this] using hi

theorem run_inv (q0 : List (List Bytes)) (sched : List Nat) (s : St) (h : Inv q0 s) : Inv q0 (sched.foldl step s) := by
  induction sched generalizing s with
  | nil => simpa
  | cons j js ih => exact ih _ (step_inv q0 s j h)

/-- **run_writer_order.** Whatever the schedule: the frames a writer has put on the wire so far, followed by the ones it
    still holds, are its queue — nothing lost, nothing duplicated, nothing reordered, nothing taken from another writer. -/
theorem run_writer_order (q : List (List Bytes)) (sched : List Nat) (i : Nat) :
    writtenBy (run q sched) i ++ ((run q sched).queues[i]?.getD []) = q[i]?.getD [] :=
  run_inv q sched _ (inv_init q) i

/-- **drained_written_all.** When every writer is done, each writer's frames stand in the stream in the order it wrote them. -/
theorem drained_written_all (q : List (List Bytes)) (sched : List Nat) (i : Nat) (hd : drained (run q sched) = true) :
    writtenBy (run q sched) i = q[i]?.getD [] := by
  have h := run_writer_order q sched i
  have he : (run q sched).queues[i]?.getD [] = [] := by
    cases hq : (run q sched).queues[i]? with
    | none => rfl
    | some l =>
      have hm : l ∈ (run q sched).queues := List.mem_of_getElem? hq
      have := (List.all_eq_true.mp hd) l hm
      simpa using this
  rw [he, List.append_nil] at h
  exact h

/-- every frame of the stream is a frame of the writer it is attributed to -/
theorem out_mem (q : List (List Bytes)) (sched : List Nat) (i : Nat) (f : Bytes) (h : (i, f) ∈ (run q sched).out) :
    f ∈ q[i]?.getD [] := by
  rw [← run_writer_order q sched i]
  apply List.mem_append_left
  simp only [writtenBy, List.mem_map, List.mem_filter]
  exact ⟨(i, f), ⟨h, by simp⟩, rfl⟩

/-- **stream_delivered.** Frames the receiver accepts (well framed under its limit), any number of writers, any schedule, any
    segmentation of the resulting stream into reads: the receiver delivers exactly the written frames' messages, one per
    frame, in stream order, and the connection stays open. -/
theorem stream_delivered (max : Nat) (q : List (List Bytes)) (sched : List Nat) (cs : List Bytes)
    (hq : ∀ l ∈ q, ∀ f ∈ l, Props.C07.WellFramed max f) (hc : cs.flatten = stream (run q sched)) :
    (Model.Framing.run max cs).obs = (((run q sched).out.map (·.2)).filterMap Model.Framing.decodeFrame, false) ∧
    (((run q sched).out.map (·.2)).filterMap Model.Framing.decodeFrame).length = (run q sched).out.length := by
  have hf : ∀ f ∈ (run q sched).out.map (·.2), Props.C07.WellFramed max f := by
    intro f hf
    rcases List.mem_map.mp hf with ⟨⟨i, g⟩, hm, rfl⟩
    have hmem := out_mem q sched i g hm
    cases hqi : q[i]? with
    | none => simp [hqi] at hmem
    | some l =>
      rw [hqi] at hmem
      exact hq l (List.mem_of_getElem? hqi) g hmem
  have h := Props.C07.run_delivers_sent max ((run q sched).out.map (·.2)) cs hf (by simpa [stream] using hc)
  rw [List.length_map] at h
  exact h

/-! ### Negative: a frame handed over in pieces -/

/-- two GETs (tokens a1, a2); the first goes out as `21 01` and `a1 b1 78` with the second writer's frame in between -/
def splitStream : Bytes := [0x21, 0x01] ++ [0x21, 0x01, 0xa2, 0xb1, 0x78] ++ [0xa1, 0xb1, 0x78]

/-- **split_write_interleaves.** The receiver of that stream gets one message with token `21`, neither of the two written. -/
theorem split_write_interleaves :
    (Model.Framing.run 1152 [splitStream]).out = [⟨1, [0x21], []⟩] := by
  have h := (Props.C07.run_meets_spec 1152 [splitStream]).1
  have e : Spec.Framing.expected 1152 [splitStream].flatten = ([⟨1, [0x21], []⟩], .open_) := by decide
  rw [h, e]
  rfl

/-! Non-vacuity: two writers, three frames, an interleaving schedule with a useless step. -/
example : (run [[[1], [2]], [[3]]] [0, 1, 1, 0]).out = [(0, [1]), (1, [3]), (0, [2])] := by decide
example : drained (run [[[1], [2]], [[3]]] [0, 1, 1, 0]) = true := by decide
example : writtenBy (run [[[1], [2]], [[3]]] [0, 1, 1, 0]) 0 = [[1], [2]] := by decide

end CoapVerif.Props.C07Write

section Audit
open CoapVerif.Props.C07Write
#print axioms frame_is_one_write
#print axioms inv_init
#print axioms step_inv
#print axioms run_inv
#print axioms run_writer_order
#print axioms drained_written_all
#print axioms out_mem
#print axioms stream_delivered
#print axioms split_write_interleaves
end Audit
