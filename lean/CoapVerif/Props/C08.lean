import CoapVerif.Go.Basic
import CoapVerif.Model.Observe
import CoapVerif.Spec.Observe
import CoapVerif.Lemmas.Observe
/-!
# C08 — Observers only ever see a resource move forward in time

Statement (properties.jsonl): for every arrival order of notifications on an observation — reordered,
duplicated, or with the 24-bit sequence number wrapping — the application callback is invoked for a
notification only if it is fresher than the last one delivered according to RFC 7641 §3.4 (or more than
128 s have passed).  Each registration receives notifications for its own token only, registration
succeeds only on a 2.05/2.03 answer, and once cancellation has returned (or registration has failed) no
notification arriving later reaches the callback.

Model: `Model/Observe.lean` (window shifts, timeout, accepted codes regenerated from /repo).  The history
theorems quantify over arbitrary event lists (registrations, arrivals in any order with any sequence
numbers and times, completion/abort of registrations, cancellations), i.e. over every interleaving at the
granularity of `Handler.Handle` / `LoadOrStore` / `LoadAndDelete` calls.
-/
namespace CoapVerif.Props.C08
open CoapVerif CoapVerif.Model.Observe CoapVerif.Generated.Observe CoapVerif.Lemmas.Observe
open CoapVerif.Spec.Observe (judgeSilentF Obs fresh judgeFresh judgeSilent judgeOwnToken)

theorem validSeq_iff (old new : Nat) (last now : Int) :
    validSeq old new (some last) now = true ↔
      (old < new ∧ new - old < 2 ^ 23) ∨ (old > new ∧ old - new > 2 ^ 23) ∨ now - last > 128000000000 := by
  have h : validSeq old new (some last) now =
      ((decide (old < new) && decide (new - old < 2 ^ 23)) || (decide (old > new) && decide (old - new > 2 ^ 23))
        || decide (now - last > 128000000000)) := rfl
  rw [h]; simp [or_assoc]

theorem fresh_iff (v1 v2 : Nat) (t1 t2 : Int) :
    fresh v1 v2 t1 t2 = true ↔
      (v1 < v2 ∧ v2 - v1 < 2 ^ 23) ∨ (v1 > v2 ∧ v1 - v2 > 2 ^ 23) ∨ t2 > t1 + 128 * 1000000000 := by
  have h : fresh v1 v2 t1 t2 =
      ((decide (v1 < v2) && decide (v2 - v1 < 2 ^ 23)) || (decide (v1 > v2) && decide (v1 - v2 > 2 ^ 23))
        || decide (t2 > t1 + 128 * 1000000000)) := rfl
  rw [h]; simp [or_assoc]

/-- The freshness predicate of the code is the RFC 7641 §3.4 condition, for all values and times. -/
theorem validSeq_eq_rfc (old new : Nat) (last now : Int) :
    validSeq old new (some last) now = fresh old new last now := by
  rw [Bool.eq_iff_iff, validSeq_iff, fresh_iff]
  have e : (now - last > 128000000000) ↔ (now > last + 128 * 1000000000) := by omega
  rw [e]

/-- With true (unbounded) resource versions `L` (last delivered) and `N` (incoming) less than 2^23 apart, carried
    modulo 2^24, and no more than 128 s between them: the notification is accepted iff it is really newer —
    also across the wrap of the 24-bit counter. -/
theorem monotone_versions (L N : Nat) (t now : Int) (h1 : N < L + 2 ^ 23) (h2 : L < N + 2 ^ 23)
    (ht : now - t ≤ 128 * 1000000000) :
    validSeq (L % 2 ^ 24) (N % 2 ^ 24) (some t) now = decide (L < N) := by
  rw [Bool.eq_iff_iff, validSeq_iff, decide_eq_true_eq]
  constructor
  · intro h; omega
  · intro h; omega

/-- A duplicate of the last delivered notification (same sequence number) within 128 s is not delivered. -/
theorem no_dup_within_window (v : Nat) (t now : Int) (ht : now - t ≤ 128 * 1000000000) :
    validSeq v v (some t) now = false := by
  rw [Bool.eq_false_iff]
  intro h
  rw [validSeq_iff] at h
  omega

/-- What `id`'s table entry remembers is the last notification (with a sequence number) delivered to `id`. -/
def Tracks (s : State) (prev : Option (Nat × Int)) (id : Nat) : Prop :=
  (∀ e ∈ s.table, e.id = id →
      match prev with
      | none => e.st.last = none
      | some (v, t) => e.st.seq = v ∧ e.st.last = some t) ∧
  (s.nextId ≤ id → prev = none)

theorem tracks_remove {s : State} {prev : Option (Nat × Int)} {id : Nat} (h : Tracks s prev id) (tok : Nat)
    (sg : List Sig) : Tracks { s with table := remove s.table tok, sigs := sg } prev id :=
  ⟨fun e he hid => h.1 e (mem_remove.mp he).1 hid, h.2⟩

theorem tracks_update_other {s : State} {prev : Option (Nat × Int)} {id tok : Nat} {e : Entry}
    (hinv : Inv s) (h : Tracks s prev id) (hmem : e ∈ s.table) (htok : e.tok = tok) (hne : e.id ≠ id)
    (st : ObsState) (sg : List Sig) : Tracks { s with table := update s.table tok st, sigs := sg } prev id := by
  refine ⟨?_, h.2⟩
  intro e' he' hid'
  obtain ⟨a, ha, rfl⟩ := mem_update.mp he'
  by_cases c : a.tok == tok
  · have : a = e := hinv.tokInj a ha e hmem (by simp at c; omega)
    subst this; simp [c] at hid'; exact absurd hid' hne
  · simp only [c, if_false, Bool.false_eq_true] at hid' ⊢
    exact h.1 a ha hid'

theorem tracks_update_keep {s : State} {prev : Option (Nat × Int)} {id tok : Nat} {e : Entry}
    (hinv : Inv s) (h : Tracks s prev id) (hmem : e ∈ s.table) (htok : e.tok = tok)
    (st : ObsState) (hseq : st.seq = e.st.seq) (hlast : st.last = e.st.last) (sg : List Sig) :
    Tracks { s with table := update s.table tok st, sigs := sg } prev id := by
  refine ⟨?_, h.2⟩
  intro e' he' hid'
  obtain ⟨a, ha, rfl⟩ := mem_update.mp he'
  by_cases c : a.tok == tok
  · have : a = e := hinv.tokInj a ha e hmem (by simp at c; omega)
    subst this
    simp only [c, if_true] at hid' ⊢
    have := h.1 a ha hid'
    cases prev with
    | none => simpa [hlast] using this
    | some p => simpa [hseq, hlast] using this
  · simp only [c, if_false, Bool.false_eq_true] at hid' ⊢
    exact h.1 a ha hid'

theorem tracks_update_new {s : State} {prev : Option (Nat × Int)} {id tok : Nat} {e : Entry}
    (hinv : Inv s) (hmem : e ∈ s.table) (htok : e.tok = tok) (hid : e.id = id)
    (v : Nat) (now : Int) (w : Bool) (sg : List Sig) :
    Tracks { s with table := update s.table tok ⟨v, some now, w⟩, sigs := sg } (some (v, now)) id := by
  constructor
  · intro e' he' hid'
    obtain ⟨a, ha, rfl⟩ := mem_update.mp he'
    by_cases c : a.tok == tok
    · simp [c]
    · simp only [c, if_false, Bool.false_eq_true] at hid' ⊢
      have : a = e := hinv.idInj a ha e hmem (by omega)
      subst this
      simp at c; omega
  · intro h
    have := hinv.idLt e hmem
    simp only at h
    omega

theorem judgeFresh_skip (id : Nat) (prev : Option (Nat × Int)) (a b : List Obs)
    (h : ∀ o ∈ a, ∀ tok s t tag, o ≠ .cb id tok s t tag) :
    judgeFresh id prev (a ++ b) = judgeFresh id prev b := by
  induction a with
  | nil => rfl
  | cons o a ih =>
    have ih' := ih (fun o ho => h o (by simp [ho]))
    cases o with
    | cb i tok s t tag =>
      have : i ≠ id := by
        intro hi; subst hi; exact h _ (by simp) tok s t tag rfl
      simp [judgeFresh, this, ih']
    | _ => simp [judgeFresh, ih']

/-- **delivered_fresh**: for every history, everything delivered to a callback is fresh with respect to what
    was delivered to it before. -/
theorem run_fresh (id : Nat) (evs : List Ev) : ∀ (s : State) (prev : Option (Nat × Int)),
    Inv s → Tracks s prev id → judgeFresh id prev (run s evs).2 = true := by
  induction evs with
  | nil => intro s prev _ _; rfl
  | cons ev evs ih =>
    intro s prev hinv htr
    have hinv' := step_inv s ev hinv
    simp only [run]
    cases ev with
    | reg tok =>
      simp only [step]
      cases hl : lookup s.table tok with
      | some e =>
        simp only []
        rw [judgeFresh_skip id prev _ _ (by intro o ho; simp at ho; subst ho; intros; simp)]
        apply ih _ prev (by simpa [step, hl] using hinv')
        exact ⟨htr.1, fun h => htr.2 (by simp at h; omega)⟩
      | none =>
        simp only []
        rw [judgeFresh_skip id prev _ _ (by intro o ho; simp at ho; subst ho; intros; simp)]
        apply ih _ prev (by simpa [step, hl] using hinv')
        constructor
        · intro e he hid
          simp only [List.mem_append, List.mem_singleton] at he
          rcases he with he | he
          · exact htr.1 e he hid
          · subst he
            simp only at hid
            have := htr.2 (by omega)
            subst this; rfl
        · intro h; exact htr.2 (by simp at h; omega)
    | arrive tok code seq now tag =>
      simp only [step]
      cases hl : lookup s.table tok with
      | none =>
        simp only []
        rw [judgeFresh_skip id prev _ _ (by intro o ho; simp at ho; subst ho; intros; simp)]
        exact ih _ prev hinv htr
      | some e =>
        obtain ⟨hmem, htok⟩ := lookup_some hl
        simp only []
        have hinv2 : ∀ (st : ObsState) (sg : List Sig), Inv { s with table := (update s.table tok st), sigs := sg } :=
          fun st sg => inv_update hinv tok st sg
        by_cases hid : e.id = id
        · -- a message for the observation under scrutiny
          have hprev := htr.1 e hmem hid
          cases seq with
          | none =>
            simp only [wantBeNotified, hid, if_true, List.singleton_append, judgeFresh]
            exact ih _ prev (hinv2 _ _) (tracks_update_keep hinv htr hmem htok ⟨e.st.seq, e.st.last, false⟩ rfl rfl _)
          | some v =>
            simp only [wantBeNotified]
            cases hv : validSeq e.st.seq v e.st.last now with
            | true =>
              simp only [if_true, hid, List.singleton_append, judgeFresh]
              have hnew := tracks_update_new (prev := prev) hinv hmem htok hid v now false
                (if e.st.waiting then s.sigs ++ [⟨e.id, code, (some v).isNone⟩] else s.sigs)
              cases prev with
              | none =>
                simp only []
                exact ih _ _ (hinv2 _ _) hnew
              | some p =>
                obtain ⟨v1, t1⟩ := p
                simp only at hprev
                simp only []
                rw [← validSeq_eq_rfc, ← hprev.1, ← hprev.2, hv, Bool.true_and]
                exact ih _ _ (hinv2 _ _) hnew
            | false =>
              simp only [Bool.false_eq_true, if_false, List.nil_append]
              exact ih _ prev (hinv2 _ _) (tracks_update_keep hinv htr hmem htok ⟨e.st.seq, e.st.last, false⟩ rfl rfl _)
        · -- a message for another observation: `id`'s entry and stream are unaffected
          have key : ∀ (w : Bool) (st : ObsState),
              judgeFresh id prev ((if w = true then [Obs.cb e.id tok seq now tag] else []) ++
                (run { s with table := update s.table tok st,
                              sigs := if e.st.waiting then s.sigs ++ [⟨e.id, code, seq.isNone⟩] else s.sigs } evs).2) = true := by
            intro w st
            rw [judgeFresh_skip id prev _ _ (by
              intro o ho tok' s' t' tag' heq
              cases w <;> simp at ho
              rw [ho] at heq; injection heq with h1; exact hid h1)]
            exact ih _ prev (hinv2 _ _) (tracks_update_other hinv htr hmem htok hid _ _)
          exact key _ _
    | regDone tok rid =>
      simp only [step]
      cases hf : s.sigs.find? (fun g => g.id == rid) with
      | none =>
        simp only []
        rw [List.nil_append]
        exact ih _ prev hinv htr
      | some g =>
        simp only []
        have nocb : ∀ (l : List Obs), (∀ o ∈ l, (∃ i, o = .regErr i) ∨ (∃ i, o = .regOk i) ∨ (∃ i, o = .cancelled i)) →
            ∀ o ∈ l, ∀ tok' s' t' tag', o ≠ .cb id tok' s' t' tag' := by
          intro l hl o ho tok' s' t' tag' heq
          rcases hl o ho with ⟨i, h⟩ | ⟨i, h⟩ | ⟨i, h⟩ <;> rw [h] at heq <;> cases heq
        have gone : ∀ o ∈ (match lookup s.table tok with | some e => [Obs.cancelled e.id] | none => []),
            ∃ i, o = Obs.cancelled i := by
          intro o ho
          split at ho
          · simp at ho; exact ⟨_, ho⟩
          · simp at ho
        split
        · rw [judgeFresh_skip id prev _ _ (nocb _ (by
            intro o ho
            simp only [List.mem_cons] at ho
            rcases ho with ho | ho
            · exact Or.inl ⟨_, ho⟩
            · exact Or.inr (Or.inr (gone o ho))))]
          exact ih _ prev (inv_remove hinv tok _) (tracks_remove htr tok _)
        · split
          · rw [judgeFresh_skip id prev _ _ (nocb _ (by
              intro o ho
              simp only [List.mem_cons] at ho
              rcases ho with ho | ho
              · exact Or.inr (Or.inl ⟨_, ho⟩)
              · exact Or.inr (Or.inr (gone o ho))))]
            exact ih _ prev (inv_remove hinv tok _) (tracks_remove htr tok _)
          · rw [judgeFresh_skip id prev _ _ (nocb _ (by
              intro o ho; simp at ho; exact Or.inr (Or.inl ⟨_, ho⟩)))]
            exact ih _ prev ⟨hinv.tokInj, hinv.idInj, hinv.idLt⟩ htr
    | regAbort tok rid =>
      simp only [step]
      cases hl : lookup s.table tok with
      | none =>
        simp only []
        rw [judgeFresh_skip id prev _ _ (by intro o ho; simp at ho; subst ho; intros; simp)]
        exact ih _ prev hinv htr
      | some e =>
        simp only []
        rw [judgeFresh_skip id prev _ _ (by
          intro o ho; simp at ho; rcases ho with ho | ho <;> subst ho <;> intros <;> simp)]
        exact ih _ prev (inv_remove hinv tok _) (tracks_remove htr tok _)
    | cancel tok rid =>
      simp only [step]
      cases hl : lookup s.table tok with
      | none =>
        simp only []
        rw [List.nil_append]
        exact ih _ prev hinv htr
      | some e =>
        simp only []
        rw [judgeFresh_skip id prev _ _ (by intro o ho; simp at ho; subst ho; intros; simp)]
        exact ih _ prev (inv_remove hinv tok _) (tracks_remove htr tok _)

/-- **delivered_fresh** from the initial state: every registration's callback stream is fresh, for every history. -/
theorem delivered_fresh (id : Nat) (evs : List Ev) : judgeFresh id none (run {} evs).2 = true :=
  run_fresh id evs {} none inv_init ⟨by simp, fun _ => rfl⟩

/-! ### Silence after cancellation / failed registration -/

/-- `gone` is only ever set once `id` has left the table for good (identities are never reused). -/
def GoneOK (s : State) (gone : Bool) (id : Nat) : Prop :=
  gone = true → (∀ e ∈ s.table, e.id ≠ id) ∧ id < s.nextId

theorem goneOK_remove {s : State} {gone : Bool} {id : Nat} (h : GoneOK s gone id) (tok : Nat) (sg : List Sig) :
    GoneOK { s with table := remove s.table tok, sigs := sg } gone id :=
  fun hg => ⟨fun e he => (h hg).1 e (mem_remove.mp he).1, (h hg).2⟩

/-- Removing the entry stored under `tok` makes the removed identity `gone`-safe. -/
theorem goneOK_after_remove {s : State} {gone : Bool} {id tok : Nat} {e : Entry} (hinv : Inv s)
    (h : GoneOK s gone id) (hmem : e ∈ s.table) (htok : e.tok = tok) (sg : List Sig) :
    GoneOK { s with table := remove s.table tok, sigs := sg } (gone || e.id == id) id := by
  intro hg
  by_cases c : e.id = id
  · constructor
    · intro e' he' hid'
      obtain ⟨hm, hne⟩ := mem_remove.mp he'
      have : e' = e := hinv.idInj e' hm e hmem (by omega)
      subst this; exact hne htok
    · have := hinv.idLt e hmem; simp only; omega
  · have hg' : gone = true := by simpa [c] using hg
    exact goneOK_remove h tok sg hg'

theorem run_silent (id : Nat) (evs : List Ev) : ∀ (s : State) (gone : Bool),
    Inv s → GoneOK s gone id → judgeSilent id gone (run s evs).2 = true := by
  induction evs with
  | nil => intro s gone _ _; rfl
  | cons ev evs ih =>
    intro s gone hinv hg
    simp only [run]
    cases ev with
    | reg tok =>
      simp only [step]
      cases hl : lookup s.table tok with
      | some e =>
        simp only [List.singleton_append, judgeSilent]
        exact ih _ gone ⟨hinv.tokInj, hinv.idInj, fun e he => Nat.lt_succ_of_lt (hinv.idLt e he)⟩
          (fun h => ⟨(hg h).1, Nat.lt_succ_of_lt (hg h).2⟩)
      | none =>
        simp only [List.singleton_append, judgeSilent]
        have hinv' : Inv (step s (.reg tok)).1 := step_inv s _ hinv
        simp only [step, hl] at hinv'
        apply ih _ gone hinv'
        intro h
        refine ⟨?_, Nat.lt_succ_of_lt (hg h).2⟩
        intro e he
        simp only [List.mem_append, List.mem_singleton] at he
        rcases he with he | he
        · exact (hg h).1 e he
        · subst he; have := (hg h).2; simp only; omega
    | arrive tok code seq now tag =>
      simp only [step]
      cases hl : lookup s.table tok with
      | none =>
        simp only [List.singleton_append, judgeSilent]
        exact ih _ gone hinv hg
      | some e =>
        obtain ⟨hmem, htok⟩ := lookup_some hl
        simp only []
        have hg2 : ∀ (st : ObsState) (sg : List Sig), GoneOK { s with table := update s.table tok st, sigs := sg } gone id := by
          intro st sg h
          refine ⟨?_, (hg h).2⟩
          intro e' he'
          obtain ⟨a, ha, rfl⟩ := mem_update.mp he'
          have := (hg h).1 a ha
          by_cases c : a.tok == tok <;> simpa [c] using this
        split
        · simp only [List.singleton_append, judgeSilent]
          have : (!(gone && e.id == id)) = true := by
            cases hgb : gone with
            | false => simp
            | true => have := (hg hgb).1 e hmem; simp [this]
          rw [this, Bool.true_and]
          exact ih _ gone (inv_update hinv tok _ _) (hg2 _ _)
        · simp only [List.nil_append]
          exact ih _ gone (inv_update hinv tok _ _) (hg2 _ _)
    | regDone tok rid =>
      simp only [step]
      cases hf : s.sigs.find? (fun g => g.id == rid) with
      | none => simp only [List.nil_append]; exact ih _ gone hinv hg
      | some g =>
        simp only []
        cases hl : lookup s.table tok with
        | none =>
          simp only []
          split
          · simp only [List.singleton_append, judgeSilent]
            exact ih _ gone (inv_remove hinv tok _) (goneOK_remove hg tok _)
          · split
            · simp only [List.singleton_append, judgeSilent]
              exact ih _ gone (inv_remove hinv tok _) (goneOK_remove hg tok _)
            · simp only [List.singleton_append, judgeSilent]
              exact ih _ gone ⟨hinv.tokInj, hinv.idInj, hinv.idLt⟩ hg
        | some e =>
          obtain ⟨hmem, htok⟩ := lookup_some hl
          simp only []
          split
          · simp only [List.cons_append, List.nil_append, judgeSilent]
            exact ih _ _ (inv_remove hinv tok _) (goneOK_after_remove hinv hg hmem htok _)
          · split
            · simp only [List.cons_append, List.nil_append, judgeSilent]
              exact ih _ _ (inv_remove hinv tok _) (goneOK_after_remove hinv hg hmem htok _)
            · simp only [List.singleton_append, judgeSilent]
              exact ih _ gone ⟨hinv.tokInj, hinv.idInj, hinv.idLt⟩ hg
    | regAbort tok rid =>
      simp only [step]
      cases hl : lookup s.table tok with
      | none => simp only [List.singleton_append, judgeSilent]; exact ih _ gone hinv hg
      | some e =>
        obtain ⟨hmem, htok⟩ := lookup_some hl
        simp only [List.cons_append, List.nil_append, judgeSilent]
        exact ih _ _ (inv_remove hinv tok _) (goneOK_after_remove hinv hg hmem htok _)
    | cancel tok rid =>
      simp only [step]
      cases hl : lookup s.table tok with
      | none => simp only [List.nil_append]; exact ih _ gone hinv hg
      | some e =>
        obtain ⟨hmem, htok⟩ := lookup_some hl
        simp only [List.singleton_append, judgeSilent]
        exact ih _ _ (inv_remove hinv tok _) (goneOK_after_remove hinv hg hmem htok _)

/-- **silent_after_cancel**: in every history, once registration `id` was cleaned up (cancel returned, registration
    failed, observation not supported) its callback is never invoked again, whatever arrives later. -/
theorem silent_after_cancel (id : Nat) (evs : List Ev) : judgeSilent id false (run {} evs).2 = true :=
  run_silent id evs {} false inv_init (fun h => by cases h)

/-! ### Silence after a failed registration (histories in which every call refers to its own token) -/

/-- the calls of a history are consistent when `regDone` / `regAbort` / `cancel` name the token their registration
    was entered with (`toks` = tokens of the `reg` calls so far; the k-th `reg` call gets identity k).  The real API
    cannot produce anything else: these are the continuations of one `NewObservation` call / the `Cancel` method of the
    object it returned. -/
def consistent : List Nat → List Ev → Bool
  | _, [] => true
  | toks, .reg tok :: r => consistent (toks ++ [tok]) r
  | toks, .arrive _ _ _ _ _ :: r => consistent toks r
  | toks, .regDone tok id :: r => (toks[id]? == some tok) && consistent toks r
  | toks, .regAbort tok id :: r => (toks[id]? == some tok) && consistent toks r
  | toks, .cancel tok id :: r => (toks[id]? == some tok) && consistent toks r

/-- every table entry sits under the token its identity registered with -/
def TokOK (s : State) (toks : List Nat) : Prop :=
  toks.length = s.nextId ∧ ∀ e ∈ s.table, toks[e.id]? = some e.tok

theorem tokOK_remove {s : State} {toks : List Nat} (h : TokOK s toks) (tok : Nat) (sg : List Sig) :
    TokOK { s with table := remove s.table tok, sigs := sg } toks :=
  ⟨h.1, fun e he => h.2 e (mem_remove.mp he).1⟩

theorem tokOK_update {s : State} {toks : List Nat} (h : TokOK s toks) (tok : Nat) (st : ObsState) (sg : List Sig) :
    TokOK { s with table := update s.table tok st, sigs := sg } toks := by
  refine ⟨h.1, fun e' he' => ?_⟩
  obtain ⟨a, ha, rfl⟩ := mem_update.mp he'
  have := h.2 a ha
  by_cases c : a.tok == tok <;> simpa [c] using this

theorem goneOK_or {s : State} {g1 g2 : Bool} {id : Nat} (h1 : GoneOK s g1 id) (h2 : GoneOK s g2 id) (g : Bool)
    (hg : g = true → g1 = true ∨ g2 = true) : GoneOK s g id := by
  intro h
  rcases hg h with h' | h'
  · exact h1 h'
  · exact h2 h'

/-- the failing call's own entry (if it still has one) sits under `tok`, so removing `tok` makes `rid` gone-safe -/
theorem goneOK_fail {s : State} {toks : List Nat} {gone : Bool} {id rid tok : Nat} (ht : TokOK s toks)
    (hc : toks[rid]? = some tok) (h : GoneOK s gone id) (sg : List Sig) :
    GoneOK { s with table := remove s.table tok, sigs := sg } (gone || rid == id) id := by
  intro hg
  by_cases c : rid = id
  · subst c
    constructor
    · intro e he hid
      obtain ⟨hm, hne⟩ := mem_remove.mp he
      have := ht.2 e hm
      rw [hid, hc] at this
      exact hne (Option.some.inj this).symm
    · have hlt : rid < toks.length := by
        rcases Nat.lt_or_ge rid toks.length with h' | h'
        · exact h'
        · rw [List.getElem?_eq_none h'] at hc; cases hc
      simp only; rw [← ht.1]; exact hlt
  · have hg' : gone = true := by simpa [c] using hg
    exact goneOK_remove h tok sg hg'

/-- the same when nothing is stored under `tok` (the state does not change) -/
theorem goneOK_fail_none {s : State} {toks : List Nat} {gone : Bool} {id rid tok : Nat} (ht : TokOK s toks)
    (hc : toks[rid]? = some tok) (hl : lookup s.table tok = none) (h : GoneOK s gone id) :
    GoneOK s (gone || rid == id) id := by
  intro hg
  by_cases c : rid = id
  · subst c
    constructor
    · intro e he hid
      have := ht.2 e he
      rw [hid, hc] at this
      exact lookup_none hl e he (Option.some.inj this).symm
    · have hlt : rid < toks.length := by
        rcases Nat.lt_or_ge rid toks.length with h' | h'
        · exact h'
        · rw [List.getElem?_eq_none h'] at hc; cases hc
      rw [← ht.1]; exact hlt
  · have hg' : gone = true := by simpa [c] using hg
    exact h hg'

theorem run_silentF (id : Nat) (evs : List Ev) : ∀ (s : State) (toks : List Nat) (gone : Bool),
    Inv s → TokOK s toks → consistent toks evs = true → GoneOK s gone id →
    judgeSilentF id gone (run s evs).2 = true := by
  induction evs with
  | nil => intro s toks gone _ _ _ _; rfl
  | cons ev evs ih =>
    intro s toks gone hinv ht hcons hg
    simp only [run]
    cases ev with
    | reg tok =>
      simp only [consistent] at hcons
      simp only [step]
      cases hl : lookup s.table tok with
      | some e =>
        simp only [List.singleton_append, judgeSilentF]
        refine ih _ (toks ++ [tok]) _ ⟨hinv.tokInj, hinv.idInj, fun e he => Nat.lt_succ_of_lt (hinv.idLt e he)⟩ ?_ hcons ?_
        · refine ⟨by simp [ht.1], fun e he => ?_⟩
          have hlt : e.id < toks.length := by rw [ht.1]; exact hinv.idLt e he
          rw [List.getElem?_append_left hlt]; exact ht.2 e he
        · intro h
          by_cases c : s.nextId = id
          · subst c
            exact ⟨fun e he hid => by have := hinv.idLt e he; omega, Nat.lt_succ_self _⟩
          · have hg' : gone = true := by simpa [c] using h
            exact ⟨(hg hg').1, Nat.lt_succ_of_lt (hg hg').2⟩
      | none =>
        simp only [List.singleton_append, judgeSilentF]
        have hinv' : Inv (step s (.reg tok)).1 := step_inv s _ hinv
        simp only [step, hl] at hinv'
        refine ih _ (toks ++ [tok]) gone hinv' ?_ hcons ?_
        · refine ⟨by simp [ht.1], fun e he => ?_⟩
          simp only [List.mem_append, List.mem_singleton] at he
          rcases he with he | he
          · have hlt : e.id < toks.length := by rw [ht.1]; exact hinv.idLt e he
            rw [List.getElem?_append_left hlt]; exact ht.2 e he
          · subst he
            simp only
            rw [← ht.1]
            simp
        · intro h
          refine ⟨?_, Nat.lt_succ_of_lt (hg h).2⟩
          intro e he
          simp only [List.mem_append, List.mem_singleton] at he
          rcases he with he | he
          · exact (hg h).1 e he
          · subst he; have := (hg h).2; simp only; omega
    | arrive tok code seq now tag =>
      simp only [consistent] at hcons
      simp only [step]
      cases hl : lookup s.table tok with
      | none =>
        simp only [List.singleton_append, judgeSilentF]
        exact ih _ toks gone hinv ht hcons hg
      | some e =>
        obtain ⟨hmem, htok⟩ := lookup_some hl
        simp only []
        have hg2 : ∀ (st : ObsState) (sg : List Sig), GoneOK { s with table := update s.table tok st, sigs := sg } gone id := by
          intro st sg h
          refine ⟨?_, (hg h).2⟩
          intro e' he'
          obtain ⟨a, ha, rfl⟩ := mem_update.mp he'
          have := (hg h).1 a ha
          by_cases c : a.tok == tok <;> simpa [c] using this
        split
        · simp only [List.singleton_append, judgeSilentF]
          have : (!(gone && e.id == id)) = true := by
            cases hgb : gone with
            | false => simp
            | true => have := (hg hgb).1 e hmem; simp [this]
          rw [this, Bool.true_and]
          exact ih _ toks gone (inv_update hinv tok _ _) (tokOK_update ht tok _ _) hcons (hg2 _ _)
        · simp only [List.nil_append]
          exact ih _ toks gone (inv_update hinv tok _ _) (tokOK_update ht tok _ _) hcons (hg2 _ _)
    | regDone tok rid =>
      simp only [consistent, Bool.and_eq_true, beq_iff_eq] at hcons
      obtain ⟨hc, hcons⟩ := hcons
      simp only [step]
      cases hf : s.sigs.find? (fun g => g.id == rid) with
      | none => simp only [List.nil_append]; exact ih _ toks gone hinv ht hcons hg
      | some g =>
        simp only []
        cases hl : lookup s.table tok with
        | none =>
          simp only []
          split
          · simp only [List.singleton_append, judgeSilentF]
            exact ih _ toks _ (inv_remove hinv tok _) (tokOK_remove ht tok _) hcons (goneOK_fail ht hc hg _)
          · split
            · simp only [List.singleton_append, judgeSilentF]
              exact ih _ toks gone (inv_remove hinv tok _) (tokOK_remove ht tok _) hcons (goneOK_remove hg tok _)
            · simp only [List.singleton_append, judgeSilentF]
              exact ih _ toks gone ⟨hinv.tokInj, hinv.idInj, hinv.idLt⟩ ⟨ht.1, ht.2⟩ hcons hg
        | some e =>
          obtain ⟨hmem, htok⟩ := lookup_some hl
          simp only []
          split
          · simp only [List.cons_append, List.nil_append, judgeSilentF]
            refine ih _ toks _ (inv_remove hinv tok _) (tokOK_remove ht tok _) hcons ?_
            refine goneOK_or (goneOK_fail ht hc hg _) (goneOK_after_remove hinv hg hmem htok _) _ ?_
            intro h
            simp only [Bool.or_eq_true] at h ⊢
            rcases h with (h | h) | h
            · exact Or.inl (Or.inl h)
            · exact Or.inl (Or.inr h)
            · exact Or.inr (Or.inr h)
          · split
            · simp only [List.cons_append, List.nil_append, judgeSilentF]
              exact ih _ toks _ (inv_remove hinv tok _) (tokOK_remove ht tok _) hcons (goneOK_after_remove hinv hg hmem htok _)
            · simp only [List.singleton_append, judgeSilentF]
              exact ih _ toks gone ⟨hinv.tokInj, hinv.idInj, hinv.idLt⟩ ⟨ht.1, ht.2⟩ hcons hg
    | regAbort tok rid =>
      simp only [consistent, Bool.and_eq_true, beq_iff_eq] at hcons
      obtain ⟨hc, hcons⟩ := hcons
      simp only [step]
      cases hl : lookup s.table tok with
      | none =>
        simp only [List.singleton_append, judgeSilentF]
        exact ih _ toks _ hinv ht hcons (goneOK_fail_none ht hc hl hg)
      | some e =>
        obtain ⟨hmem, htok⟩ := lookup_some hl
        simp only [List.cons_append, List.nil_append, judgeSilentF]
        refine ih _ toks _ (inv_remove hinv tok _) (tokOK_remove ht tok _) hcons ?_
        refine goneOK_or (goneOK_fail ht hc hg _) (goneOK_after_remove hinv hg hmem htok _) _ ?_
        intro h
        simp only [Bool.or_eq_true] at h ⊢
        rcases h with (h | h) | h
        · exact Or.inl (Or.inl h)
        · exact Or.inl (Or.inr h)
        · exact Or.inr (Or.inr h)
    | cancel tok rid =>
      simp only [consistent, Bool.and_eq_true, beq_iff_eq] at hcons
      obtain ⟨_, hcons⟩ := hcons
      simp only [step]
      cases hl : lookup s.table tok with
      | none => simp only [List.nil_append]; exact ih _ toks gone hinv ht hcons hg
      | some e =>
        obtain ⟨hmem, htok⟩ := lookup_some hl
        simp only [List.singleton_append, judgeSilentF]
        exact ih _ toks _ (inv_remove hinv tok _) (tokOK_remove ht tok _) hcons (goneOK_after_remove hinv hg hmem htok _)

/-- **silent_after_failure**: in every history whose calls refer to their own tokens, once the registration call of
    `id` reported an error — token in use, refused by the peer (code other than 2.05/2.03), context ended or
    connection closed while waiting — or its clean-up took effect, its callback is never invoked again. -/
theorem silent_after_failure (id : Nat) (evs : List Ev) (h : consistent [] evs = true) :
    judgeSilentF id false (run {} evs).2 = true :=
  run_silentF id evs {} [] false inv_init ⟨rfl, by simp⟩ h (fun h => by cases h)

/-- why the consistency hypothesis is needed: a `regDone` that names a foreign token reports the failure of
    registration 0 but cleans up under the wrong key, and the callback of 0 is invoked afterwards (the model's
    `cleanUp` is by token, like the code's; the real API never pairs a call with a foreign token). -/
example : judgeSilentF 0 false (run {} [.reg 7, .arrive 7 132 (some 5) 0 1, .regDone 9 0, .arrive 7 69 (some 6) 1 2]).2 = false := by
  decide
example : consistent [] [.reg 7, .arrive 7 132 (some 5) 0 1, .regDone 9 0, .arrive 7 69 (some 6) 1 2] = false := by decide
/-- the consistent version of that history: registration 0 is refused with 4.04 and stays silent -/
example : (run {} [.reg 7, .arrive 7 132 (some 5) 0 1, .regDone 7 0, .arrive 7 69 (some 6) 1 2]).2
    = [.registered 0 7, .cb 0 7 (some 5) 0 1, .regErr 0, .cancelled 0, .toDefault 7 2] := by decide

/-! ### Own token only -/

theorem run_own_token (evs : List Ev) : ∀ (s : State) (regs : List (Nat × Nat)),
    (∀ e ∈ s.table, (e.id, e.tok) ∈ regs) → judgeOwnToken regs (run s evs).2 = true := by
  induction evs with
  | nil => intro s regs _; rfl
  | cons ev evs ih =>
    intro s regs hr
    simp only [run]
    cases ev with
    | reg tok =>
      simp only [step]
      cases hl : lookup s.table tok with
      | some e => simp only [List.singleton_append, judgeOwnToken]; exact ih _ regs hr
      | none =>
        simp only [List.singleton_append, judgeOwnToken]
        apply ih
        intro e he
        simp only [List.mem_append, List.mem_singleton] at he
        rcases he with he | he
        · exact List.mem_cons_of_mem _ (hr e he)
        · subst he; simp
    | arrive tok code seq now tag =>
      simp only [step]
      cases hl : lookup s.table tok with
      | none => simp only [List.singleton_append, judgeOwnToken]; exact ih _ regs hr
      | some e =>
        obtain ⟨hmem, htok⟩ := lookup_some hl
        simp only []
        have hr2 : ∀ (st : ObsState), ∀ e' ∈ update s.table tok st, (e'.id, e'.tok) ∈ regs := by
          intro st e' he'
          obtain ⟨a, ha, rfl⟩ := mem_update.mp he'
          have := hr a ha
          by_cases c : a.tok == tok <;> simpa [c] using this
        split
        · simp only [List.singleton_append, judgeOwnToken]
          have : regs.contains (e.id, tok) = true := by
            have := hr e hmem; rw [htok] at this; simpa using this
          rw [this, Bool.true_and]
          exact ih _ regs (hr2 _)
        · simp only [List.nil_append]; exact ih _ regs (hr2 _)
    | regDone tok rid =>
      simp only [step]
      cases hf : s.sigs.find? (fun g => g.id == rid) with
      | none => simp only [List.nil_append]; exact ih _ regs hr
      | some g =>
        simp only []
        have hrm : ∀ e ∈ remove s.table tok, (e.id, e.tok) ∈ regs := fun e he => hr e (mem_remove.mp he).1
        cases hl : lookup s.table tok with
        | none =>
          simp only []
          split
          · simp only [List.singleton_append, judgeOwnToken]; exact ih _ regs hrm
          · split
            · simp only [List.singleton_append, judgeOwnToken]; exact ih _ regs hrm
            · simp only [List.singleton_append, judgeOwnToken]; exact ih _ regs hr
        | some e =>
          simp only []
          split
          · simp only [List.cons_append, List.nil_append, judgeOwnToken]; exact ih _ regs hrm
          · split
            · simp only [List.cons_append, List.nil_append, judgeOwnToken]; exact ih _ regs hrm
            · simp only [List.singleton_append, judgeOwnToken]; exact ih _ regs hr
    | regAbort tok rid =>
      simp only [step]
      cases hl : lookup s.table tok with
      | none => simp only [List.singleton_append, judgeOwnToken]; exact ih _ regs hr
      | some e =>
        simp only [List.cons_append, List.nil_append, judgeOwnToken]
        exact ih _ regs (fun e he => hr e (mem_remove.mp he).1)
    | cancel tok rid =>
      simp only [step]
      cases hl : lookup s.table tok with
      | none => simp only [List.nil_append]; exact ih _ regs hr
      | some e =>
        simp only [List.singleton_append, judgeOwnToken]
        exact ih _ regs (fun e he => hr e (mem_remove.mp he).1)

/-- **own_token_only**: in every history a callback is only ever invoked with messages that carry the token its
    registration was entered with. -/
theorem own_token_only (evs : List Ev) : judgeOwnToken [] (run {} evs).2 = true :=
  run_own_token evs {} [] (by simp)

/-! ### Registration outcome -/

/-- **register_only_205_203**: the registration call reports success iff the first response carried 2.05 or 2.03. -/
theorem register_only_205_203 (s : State) (tok id : Nat) (g : Sig)
    (h : s.sigs.find? (fun x => x.id == id) = some g) :
    (Obs.regOk id ∈ (step s (.regDone tok id)).2) ↔ (g.code = 69 ∨ g.code = 67) := by
  simp only [step, h]
  have hc : okCodes.contains g.code = true ↔ (g.code = 69 ∨ g.code = 67) := by
    simp only [okCodes, List.contains, List.elem]
    by_cases a : g.code = 69
    · simp [a]
    · by_cases b : g.code = 67
      · simp [b]
      · have ea : (g.code == 69) = false := by simp [a]
        have eb : (g.code == 67) = false := by simp [b]
        simp [ea, eb, a, b]
  by_cases c : okCodes.contains g.code = true
  · simp only [c, Bool.not_true, Bool.false_eq_true, if_false]
    have := hc.mp c
    split <;> simp [this]
  · have c' : okCodes.contains g.code = false := by simpa using c
    have hn : ¬ (g.code = 69 ∨ g.code = 67) := fun x => c (hc.mpr x)
    simp only [c', Bool.not_false, if_true]
    constructor
    · intro hm
      simp only [List.mem_cons] at hm
      rcases hm with hm | hm
      · cases hm
      · split at hm <;> simp at hm
    · intro x; exact absurd x hn

/-- The signal a registration waits for is produced by the first message handled for it, and only by that one. -/
theorem first_response_decides (s : State) (tok code : Nat) (seq : Option Nat) (now : Int) (tag : Nat) (e : Entry)
    (h : lookup s.table tok = some e) :
    (step s (.arrive tok code seq now tag)).1.sigs =
      (if e.st.waiting then s.sigs ++ [⟨e.id, code, seq.isNone⟩] else s.sigs) := by
  simp [step, h]

/-! Non-vacuity: one observation (token 5) is registered and confirmed by its first notification (seq 10); seq 12 one
    second later is delivered; the late seq 11 and the repeated seq 12 are withheld; a second registration with the same
    token is refused and leaves the first alone; after `Cancel` a further notification goes to the default handler.
    The three judges accept this history (they are what `delivered_fresh`, `silent_after_cancel`, `own_token_only`
    establish for every history). -/
example : (run {} [.reg 5, .arrive 5 69 (some 10) 0 1, .regDone 5 0, .arrive 5 69 (some 12) 1000000000 2,
      .arrive 5 69 (some 11) 2000000000 3, .arrive 5 69 (some 12) 3000000000 4, .reg 5, .cancel 5 0,
      .arrive 5 69 (some 13) 4000000000 5]).2
    = [.registered 0 5, .cb 0 5 (some 10) 0 1, .regOk 0, .cb 0 5 (some 12) 1000000000 2, .regErr 1, .cancelled 0,
       .toDefault 5 5] := by decide

end CoapVerif.Props.C08

section Audit
open CoapVerif.Props.C08
#print axioms validSeq_iff
#print axioms fresh_iff
#print axioms validSeq_eq_rfc
#print axioms monotone_versions
#print axioms no_dup_within_window
#print axioms judgeFresh_skip
#print axioms run_fresh
#print axioms delivered_fresh
#print axioms run_silent
#print axioms silent_after_cancel
#print axioms tokOK_remove
#print axioms tokOK_update
#print axioms goneOK_or
#print axioms goneOK_fail
#print axioms goneOK_fail_none
#print axioms run_silentF
#print axioms silent_after_failure
#print axioms run_own_token
#print axioms own_token_only
#print axioms register_only_205_203
#print axioms first_response_decides
#print axioms tracks_remove
#print axioms tracks_update_other
#print axioms tracks_update_keep
#print axioms tracks_update_new
#print axioms goneOK_remove
#print axioms goneOK_after_remove
end Audit
