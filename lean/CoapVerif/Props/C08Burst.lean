import CoapVerif.Props.C08
/-!
# C08 — any number of simultaneous observations, cancelled down one by one

Statement (properties.jsonl, quantifier): "... any number of simultaneous observations, cancel at every point of the
stream"; clause: "once cancellation has returned (or registration has failed) no notification arriving later reaches
the callback".

`silent_after_cancel` / `silent_after_failure` (Props/C08) already hold for every history, whatever the number of
registrations.  What this file adds is the *table* side of it, the part the real code delegates to its container
(`pkg/sync.Map.LoadAndDelete` behind `pullOutObservation`): in the model a removal takes out exactly the entry under
its token and nothing else, for a table of ANY size and with ANY past (no high-water mark, no threshold):

* `step_frame` / `run_frame` — an event on one token never changes which registration sits under another token;
* `cancel_clears`, `abort_clears` — after the clean-up of `tok` nothing is stored under `tok`;
* `burst_cancel_down` — register any list of tokens (any number, duplicates allowed: they are refused), then cancel any
  list of them in any order: a token is still observed iff it was registered and not cancelled;
* `cancelled_goes_to_default` / `kept_reaches_its_callback` — the observable side: the next message for a cancelled
  token of the burst is handed to the default handler, the next one for a token that was kept reaches a callback.

The correspondence between this table and the real one is what the burst histories of `checks/c08.py` (`burst_cases`:
64 … 257 observations at the same time on one connection, taken down in order / in reverse / shuffled, to nothing, one, an
eighth, a quarter ± 1, a half; failing and aborted registrations in between; a second wave) test on the real connections.
-/
namespace CoapVerif.Props.C08Burst
open CoapVerif CoapVerif.Model.Observe
open CoapVerif.Spec.Observe (Obs)

/-- the token an event is about -/
def evTok : Ev → Nat
  | .reg tok => tok
  | .arrive tok _ _ _ _ => tok
  | .regDone tok _ => tok
  | .regAbort tok _ => tok
  | .cancel tok _ => tok

/-- which registration (identity) is stored under a token -/
def holder (t : List Entry) (tok : Nat) : Option Nat := (lookup t tok).map (·.id)

theorem lookup_remove_self (t : List Entry) (tok : Nat) : lookup (remove t tok) tok = none := by
  simp only [lookup, remove, List.find?_eq_none, List.mem_filter]
  intro x h
  simpa using h.2

theorem lookup_remove_other (t : List Entry) {tok tok' : Nat} (h : tok' ≠ tok) :
    lookup (remove t tok) tok' = lookup t tok' := by
  induction t with
  | nil => rfl
  | cons e r ih =>
    simp only [lookup, remove] at ih ⊢
    rw [List.filter_cons]
    split
    · simp only [List.find?_cons, ih]
    · rename_i h1
      have h2 : (e.tok == tok') = false := by
        simp only [bne_iff_ne, ne_eq, Decidable.not_not] at h1
        simp only [beq_eq_false_iff_ne, ne_eq, h1]
        exact fun h3 => h h3.symm
      simp only [List.find?_cons, h2, ih]

theorem upd_tok (e : Entry) (tok : Nat) (st : ObsState) :
    (if e.tok == tok then { e with st := st } else e).tok = e.tok := by split <;> rfl

theorem upd_id (e : Entry) (tok : Nat) (st : ObsState) :
    (if e.tok == tok then { e with st := st } else e).id = e.id := by split <;> rfl

theorem holder_update_other (t : List Entry) {tok tok' : Nat} (st : ObsState) :
    holder (update t tok st) tok' = holder t tok' := by
  induction t with
  | nil => rfl
  | cons e r ih =>
    simp only [holder, lookup, update, List.map_cons, List.find?_cons, upd_tok] at ih ⊢
    cases h2 : (e.tok == tok') with
    | true => simp only [Option.map_some, upd_id]
    | false => exact ih

theorem lookup_append_other (t : List Entry) {tok tok' : Nat} (h : tok' ≠ tok) (id : Nat) (st : ObsState) :
    lookup (t ++ [⟨tok, id, st⟩]) tok' = lookup t tok' := by
  have h2 : (tok == tok') = false := by
    simp only [beq_eq_false_iff_ne, ne_eq]; exact fun h3 => h h3.symm
  induction t with
  | nil => simp only [lookup, List.nil_append, List.find?_cons, h2, List.find?_nil]
  | cons e r ih =>
    simp only [lookup, List.cons_append, List.find?_cons] at ih ⊢
    rw [ih]

/-- **Frame**: an event about one token leaves the registration stored under every other token in place - for a table of
    any size.  (A removal that disturbed, or spared, an entry depending on how full the table is or was cannot refine this
    step.) -/
theorem step_frame (s : State) (ev : Ev) (tok' : Nat) (h : tok' ≠ evTok ev) :
    holder (step s ev).1.table tok' = holder s.table tok' := by
  cases ev with
  | reg tok =>
    simp only [evTok] at h
    simp only [step]
    cases lookup s.table tok with
    | some e => rfl
    | none => simp only [holder, lookup_append_other s.table h]
  | arrive tok code seq now tag =>
    simp only [evTok] at h
    simp only [step]
    cases lookup s.table tok with
    | none => rfl
    | some e => exact holder_update_other s.table _
  | regDone tok id =>
    simp only [evTok] at h
    simp only [step]
    cases s.sigs.find? (fun g => g.id == id) with
    | none => rfl
    | some g =>
      simp only []
      split
      · simp only [holder, lookup_remove_other s.table h]
      · split
        · simp only [holder, lookup_remove_other s.table h]
        · rfl
  | regAbort tok id =>
    simp only [evTok] at h
    simp only [step]
    cases lookup s.table tok with
    | none => rfl
    | some e => simp only [holder, lookup_remove_other s.table h]
  | cancel tok id =>
    simp only [evTok] at h
    simp only [step]
    cases lookup s.table tok with
    | none => rfl
    | some e => simp only [holder, lookup_remove_other s.table h]

theorem run_cons (s : State) (e : Ev) (es : List Ev) :
    run s (e :: es) = ((run (step s e).1 es).1, (step s e).2 ++ (run (step s e).1 es).2) := rfl

theorem run_append_state (a b : List Ev) : ∀ s : State, (run s (a ++ b)).1 = (run (run s a).1 b).1 := by
  induction a with
  | nil => intro s; rfl
  | cons e r ih => intro s; simp only [List.cons_append, run_cons]; exact ih _

/-- the frame over whole histories: whatever happens to other tokens - any number of them, registered, notified, failing,
    cancelled - the registration under `tok'` stays where it is -/
theorem run_frame (evs : List Ev) (tok' : Nat) (h : ∀ ev ∈ evs, tok' ≠ evTok ev) :
    ∀ s : State, holder (run s evs).1.table tok' = holder s.table tok' := by
  induction evs with
  | nil => intro s; rfl
  | cons e r ih =>
    intro s
    rw [run_cons]
    simp only []
    rw [ih (fun ev hev => h ev (List.mem_cons_of_mem _ hev)), step_frame s e tok' (h e (List.mem_cons_self ..))]

/-- after `Observation.Cancel`'s clean-up nothing is stored under the token -/
theorem cancel_clears (s : State) (tok id : Nat) : lookup (step s (.cancel tok id)).1.table tok = none := by
  simp only [step]
  cases h : lookup s.table tok with
  | none => exact h
  | some e => exact lookup_remove_self s.table tok

/-- the same for a registration call that leaves by its context / the connection's end -/
theorem abort_clears (s : State) (tok id : Nat) : lookup (step s (.regAbort tok id)).1.table tok = none := by
  simp only [step]
  cases h : lookup s.table tok with
  | none => exact h
  | some e => exact lookup_remove_self s.table tok

theorem holder_isSome (t : List Entry) (tok : Nat) : (holder t tok).isSome = (lookup t tok).isSome := by
  simp [holder]

/-- registering a list of tokens (any number; a token registered twice is refused the second time and the first entry
    stays): afterwards a token is observed iff it is in the list or was observed before -/
theorem regs_observed (toks : List Nat) (tok : Nat) : ∀ s : State,
    (lookup (run s (toks.map Ev.reg)).1.table tok).isSome = (toks.contains tok || (lookup s.table tok).isSome) := by
  induction toks with
  | nil => intro s; simp [run]
  | cons a r ih =>
    intro s
    simp only [List.map_cons, run_cons]
    rw [ih]
    by_cases h : tok = a
    · subst h
      have : (lookup (step s (.reg tok)).1.table tok).isSome = true := by
        simp only [step]
        cases h2 : lookup s.table tok with
        | some e => simp [h2]
        | none =>
          simp only [lookup] at h2 ⊢
          simp [List.find?_append, h2]
      simp [this]
    · have h1 := step_frame s (.reg a) tok (by simpa [evTok] using h)
      have h2 : (lookup (step s (.reg a)).1.table tok).isSome = (lookup s.table tok).isSome := by
        rw [← holder_isSome, h1, holder_isSome]
      have h3 : (a == tok) = false := by
        simp only [beq_eq_false_iff_ne, ne_eq]; exact fun h4 => h h4.symm
      have h4 : decide (tok = a) = false := by simp [h]
      simp [h2, h4]

/-- cancelling a list of observations (token, handle) in any order: a token is cleared iff it is among them -/
theorem cancels_clear (cs : List (Nat × Nat)) (tok : Nat) : ∀ s : State,
    (lookup (run s (cs.map fun c => Ev.cancel c.1 c.2)).1.table tok).isSome
      = (!(cs.any fun c => c.1 == tok) && (lookup s.table tok).isSome) := by
  induction cs with
  | nil => intro s; simp [run]
  | cons a r ih =>
    intro s
    simp only [List.map_cons, run_cons]
    rw [ih]
    by_cases h : a.1 = tok
    · subst h
      simp [cancel_clears]
    · have h1 := step_frame s (.cancel a.1 a.2) tok (by simpa [evTok] using fun h4 : tok = a.1 => h h4.symm)
      have h2 : (lookup (step s (.cancel a.1 a.2)).1.table tok).isSome = (lookup s.table tok).isSome := by
        rw [← holder_isSome, h1, holder_isSome]
      have h5 : (a.1 == tok) = false := by simp [h]
      simp [List.any_cons, h2, h5]

/-- **Burst**: register any number of tokens on a fresh connection, then cancel any list of observations one by one, in any
    order: exactly the tokens registered and not cancelled are still observed.  No size, no high-water mark, no order
    enters the right-hand side. -/
theorem burst_cancel_down (toks : List Nat) (cs : List (Nat × Nat)) (tok : Nat) :
    (lookup (run {} (toks.map Ev.reg ++ cs.map fun c => Ev.cancel c.1 c.2)).1.table tok).isSome
      = (toks.contains tok && !(cs.any fun c => c.1 == tok)) := by
  rw [run_append_state, cancels_clear, regs_observed]
  have : lookup ({} : State).table tok = none := rfl
  simp [this, Bool.and_comm]

/-- observable side, cancelled token: the next message that arrives for it is handed to the default handler - no callback -/
theorem cancelled_goes_to_default (toks : List Nat) (cs : List (Nat × Nat)) (tok code : Nat) (seq : Option Nat) (now : Int)
    (tag : Nat) (h : (cs.any fun c => c.1 == tok) = true) :
    (step (run {} (toks.map Ev.reg ++ cs.map fun c => Ev.cancel c.1 c.2)).1 (.arrive tok code seq now tag)).2
      = [.toDefault tok tag] := by
  have h1 := burst_cancel_down toks cs tok
  rw [h] at h1
  simp only [Bool.not_true, Bool.and_false] at h1
  have h2 : lookup (run {} (toks.map Ev.reg ++ cs.map fun c => Ev.cancel c.1 c.2)).1.table tok = none := by
    cases h3 : lookup (run {} (toks.map Ev.reg ++ cs.map fun c => Ev.cancel c.1 c.2)).1.table tok with
    | none => rfl
    | some e => rw [h3] at h1; simp at h1
  simp only [step, h2]

/-- observable side, kept token: a message for it is not handed to the default handler (it is the business of the
    registration stored under the token: callback or, if stale, nothing) -/
theorem kept_reaches_its_callback (toks : List Nat) (cs : List (Nat × Nat)) (tok code : Nat) (seq : Option Nat) (now : Int)
    (tag : Nat) (hin : toks.contains tok = true) (h : (cs.any fun c => c.1 == tok) = false) :
    ∃ e, lookup (run {} (toks.map Ev.reg ++ cs.map fun c => Ev.cancel c.1 c.2)).1.table tok = some e ∧
      ((step (run {} (toks.map Ev.reg ++ cs.map fun c => Ev.cancel c.1 c.2)).1 (.arrive tok code seq now tag)).2
          = [.cb e.id tok seq now tag] ∨
       (step (run {} (toks.map Ev.reg ++ cs.map fun c => Ev.cancel c.1 c.2)).1 (.arrive tok code seq now tag)).2 = []) := by
  have h1 := burst_cancel_down toks cs tok
  rw [h, hin] at h1
  cases h3 : lookup (run {} (toks.map Ev.reg ++ cs.map fun c => Ev.cancel c.1 c.2)).1.table tok with
  | none => rw [h3] at h1; simp at h1
  | some e =>
    refine ⟨e, rfl, ?_⟩
    simp only [step, h3]
    split
    · left; rfl
    · right; rfl

/-! non-vacuity: 80 observations at once, the first 60 cancelled: the 60th (token 159) is gone, the 61st (token 160) stays;
    its next notification reaches callback 60 -/
def burst80 : List Ev :=
  (List.range 80).map (fun k => Ev.reg (100 + k)) ++ (List.range 60).map (fun k => Ev.cancel (100 + k) k)

set_option maxRecDepth 100000 in
example : (lookup (run {} burst80).1.table 159).isSome = false := by decide
set_option maxRecDepth 100000 in
example : (lookup (run {} burst80).1.table 160).map (·.id) = some 60 := by decide
set_option maxRecDepth 100000 in
example : (run {} burst80).1.table.length = 20 := by decide
set_option maxRecDepth 100000 in
example : (step (run {} burst80).1 (.arrive 159 69 (some 6) 1000 65)).2 = [.toDefault 159 65] := by decide
set_option maxRecDepth 100000 in
example : (step (run {} burst80).1 (.arrive 160 69 (some 6) 1000 65)).2 = [.cb 60 160 (some 6) 1000 65] := by decide

section Audit
#print axioms lookup_remove_self
#print axioms lookup_remove_other
#print axioms upd_tok
#print axioms upd_id
#print axioms holder_update_other
#print axioms lookup_append_other
#print axioms step_frame
#print axioms run_cons
#print axioms run_append_state
#print axioms run_frame
#print axioms cancel_clears
#print axioms abort_clears
#print axioms holder_isSome
#print axioms regs_observed
#print axioms cancels_clear
#print axioms burst_cancel_down
#print axioms cancelled_goes_to_default
#print axioms kept_reaches_its_callback
end Audit

end CoapVerif.Props.C08Burst
