import CoapVerif.Props.C08
import CoapVerif.Model.ObserveReuse
/-!
# C08 — second use of the request message of a registration

Statement (properties.jsonl, last clause): "… and once cancellation has returned (or registration has failed) no
notification arriving later reaches the callback."

`Props/C08.silent_after_failure` proves it for table-level histories whose `regDone` / `regAbort` / `cancel` events name
the token of their registration (`consistent`).  Here the hypothesis is discharged for the application-level machine of
`Model/ObserveReuse.lean`, in which a handle works with the token VALUE stored at registration and the application may
write any other token into its request message at any time (`reuse id tok`: the second use of the message object):

* `arun_eq_run_lowered` — an application-level history produces exactly the observations of its table-level history;
  `reuse` events vanish from it (they change the caller's message and nothing else);
* `lowered_consistent` — that table-level history is consistent, whatever was written into the messages;
* `silent_after_cancel_whatever_reuse` — hence for EVERY application-level history, once `regErr id` / `cancelled id` was
  output no `cb id` follows; `cancel_takes_effect_whatever_reuse` — after any history, `cancel id` leaves no entry of
  identity `id` in the table (invariant `arun_tokOK`: every entry sits under the token its identity registered with);
* the same lift for freshness and own-token (`delivered_fresh_whatever_reuse`, `own_token_whatever_reuse`).

Negative shape (`alias_*` examples): in the machine in which the observation object shares the token bytes of the caller's
message (`astepAlias`), `reg 7 … reuse 0 9, cancel 0` looks under 9, removes nothing, and the next notification on 7
reaches the callback of registration 0 although its Cancel has returned.  Which of the two machines the code is, is tied by
the harness (`reuse` lines, `checks/c08.py`): the seeded change that makes `pool.Message.Token()` return the internal slice
turns the code into `astepAlias` and is reported with a concrete history.
-/
namespace CoapVerif.Props.C08Reuse
open CoapVerif CoapVerif.Model.Observe CoapVerif.Props.C08 CoapVerif.Lemmas.Observe
open CoapVerif.Spec.Observe (judgeSilentF Obs judgeFresh judgeOwnToken)

theorem bookkeeping_base (s : AState) (e : AEv) : (bookkeeping s e).base = s.base := by
  cases e <;> rfl

theorem bookkeeping_stored (s : AState) (e : AEv) :
    (bookkeeping s e).stored = (match e with | .reg tok => s.stored ++ [tok] | _ => s.stored) := by
  cases e <;> rfl

theorem run_cons (s : State) (e : Ev) (es : List Ev) :
    (run s (e :: es)).2 = (step s e).2 ++ (run (step s e).1 es).2 := by
  simp only [run]

/-- an application-level history produces exactly the observations of its table-level history -/
theorem arun_eq_run_lowered (evs : List AEv) : ∀ s : AState,
    (arun s evs).2 = (run s.base (lowerAll s.stored evs)).2 := by
  induction evs with
  | nil => intro s; rfl
  | cons e es ih =>
    intro s
    simp only [arun, lowerAll]
    cases h : lower s.stored e with
    | none =>
      have h1 : astep s e = (bookkeeping s e, []) := by simp only [astep, h]
      rw [h1, ih]
      simp only [bookkeeping_base, bookkeeping_stored, List.nil_append]
      cases e <;> rfl
    | some ev =>
      have h1 : astep s e = (bookkeeping { s with base := (step s.base ev).1 } e, (step s.base ev).2) := by
        simp only [astep, h]
      rw [h1, ih, run_cons]
      simp only [bookkeeping_base, bookkeeping_stored]
      cases e <;> rfl

/-- the table-level history of an application-level history names, in every continuation of a registration, the token that
    registration was entered with - whatever the application wrote into its messages -/
theorem lowered_consistent (evs : List AEv) : ∀ toks : List Nat, consistent toks (lowerAll toks evs) = true := by
  induction evs with
  | nil => intro toks; rfl
  | cons e es ih =>
    intro toks
    cases e with
    | reg tok => simp only [lowerAll, lower, consistent]; exact ih _
    | arrive tok code seq now tag => simp only [lowerAll, lower, consistent]; exact ih _
    | reuse id tok => simp only [lowerAll, lower]; exact ih _
    | regDone id =>
      cases h : toks[id]? with
      | none => simp only [lowerAll, lower, h, Option.map]; exact ih _
      | some t => simp only [lowerAll, lower, h, Option.map, consistent, beq_self_eq_true, Bool.true_and]; exact ih _
    | regAbort id =>
      cases h : toks[id]? with
      | none => simp only [lowerAll, lower, h, Option.map]; exact ih _
      | some t => simp only [lowerAll, lower, h, Option.map, consistent, beq_self_eq_true, Bool.true_and]; exact ih _
    | cancel id =>
      cases h : toks[id]? with
      | none => simp only [lowerAll, lower, h, Option.map]; exact ih _
      | some t => simp only [lowerAll, lower, h, Option.map, consistent, beq_self_eq_true, Bool.true_and]; exact ih _

/-- **Silence after cancellation / failed registration, whatever the application does to its request messages.**
    For every application-level history - registrations, arrivals in any order, completions, aborts, cancellations and
    second uses of request messages at any point - once registration `id` reported an error or its clean-up took effect, its
    callback is never invoked again. -/
theorem silent_after_cancel_whatever_reuse (id : Nat) (evs : List AEv) :
    judgeSilentF id false (arun {} evs).2 = true := by
  rw [arun_eq_run_lowered]
  exact silent_after_failure id _ (lowered_consistent evs [])

theorem delivered_fresh_whatever_reuse (id : Nat) (evs : List AEv) : judgeFresh id none (arun {} evs).2 = true := by
  rw [arun_eq_run_lowered]; exact delivered_fresh id _

theorem own_token_whatever_reuse (evs : List AEv) : judgeOwnToken [] (arun {} evs).2 = true := by
  rw [arun_eq_run_lowered]; exact own_token_only _

/-! ### Cancel removes the registration's own entry -/

/-- after `cancel id` the table holds no entry of identity `id` (in a state in which every entry sits under the token its
    identity registered with - `arun_tokOK`: every reachable state) -/
theorem cancel_removes_own_entry (s : AState) (id : Nat) (h : TokOK s.base s.stored) :
    ∀ e ∈ (astep s (.cancel id)).1.base.table, e.id ≠ id := by
  intro e he hid
  cases hs : s.stored[id]? with
  | none =>
    have h1 : (astep s (.cancel id)).1 = s := by simp [astep, lower, hs, bookkeeping]
    rw [h1] at he
    have := h.2 e he
    rw [hid, hs] at this
    cases this
  | some t =>
    have hmem : e ∈ s.base.table ∧ e.tok ≠ t := by
      cases hl : lookup s.base.table t with
      | none =>
        have h1 : (astep s (.cancel id)).1.base = s.base := by simp [astep, lower, hs, bookkeeping, step, hl]
        rw [h1] at he
        exact ⟨he, lookup_none hl e he⟩
      | some e0 =>
        have h1 : (astep s (.cancel id)).1.base.table = remove s.base.table t := by simp [astep, lower, hs, bookkeeping, step, hl]
        rw [h1] at he
        exact mem_remove.mp he
    have := h.2 e hmem.1
    rw [hid, hs] at this
    exact hmem.2 (Option.some.inj this).symm

theorem step_tokOK {s : State} {toks : List Nat} (h : TokOK s toks) (ev : Ev) :
    TokOK (step s ev).1 (match ev with | .reg tok => toks ++ [tok] | _ => toks) := by
  cases ev with
  | reg tok =>
    simp only [step]
    cases hl : lookup s.table tok with
    | some e0 =>
      refine ⟨by simp [h.1], fun e he => ?_⟩
      have := h.2 e he
      have hlt : e.id < toks.length := by
        rcases Nat.lt_or_ge e.id toks.length with c | c
        · exact c
        · rw [List.getElem?_eq_none c] at this; cases this
      rw [List.getElem?_append_left hlt]; exact this
    | none =>
      refine ⟨by simp [h.1], fun e he => ?_⟩
      simp only [List.mem_append, List.mem_singleton] at he
      rcases he with he | rfl
      · have := h.2 e he
        have hlt : e.id < toks.length := by
          rcases Nat.lt_or_ge e.id toks.length with c | c
          · exact c
          · rw [List.getElem?_eq_none c] at this; cases this
        rw [List.getElem?_append_left hlt]; exact this
      · simp [← h.1]
  | arrive tok code seq now tag =>
    simp only [step]
    cases hl : lookup s.table tok with
    | none => exact h
    | some e0 => exact tokOK_update h tok _ _
  | regDone tok id =>
    simp only [step]
    cases hf : s.sigs.find? (fun g => g.id == id) with
    | none => exact h
    | some g =>
      simp only
      split
      · exact tokOK_remove h tok _
      · split
        · exact tokOK_remove h tok _
        · exact ⟨h.1, h.2⟩
  | regAbort tok id =>
    simp only [step]
    cases hl : lookup s.table tok with
    | none => exact h
    | some e0 => exact tokOK_remove h tok s.sigs
  | cancel tok id =>
    simp only [step]
    cases hl : lookup s.table tok with
    | none => exact h
    | some e0 => exact tokOK_remove h tok s.sigs

theorem astep_tokOK (s : AState) (e : AEv) (h : TokOK s.base s.stored) :
    TokOK (astep s e).1.base (astep s e).1.stored := by
  cases e with
  | reg tok => simpa [astep, lower, bookkeeping] using step_tokOK h (.reg tok)
  | arrive tok code seq now tag => simpa [astep, lower, bookkeeping] using step_tokOK h (.arrive tok code seq now tag)
  | reuse id tok => simpa [astep, lower, bookkeeping] using h
  | regDone id =>
    cases hs : s.stored[id]? with
    | none => simpa [astep, lower, hs, bookkeeping] using h
    | some t => simpa [astep, lower, hs, bookkeeping] using step_tokOK h (.regDone t id)
  | regAbort id =>
    cases hs : s.stored[id]? with
    | none => simpa [astep, lower, hs, bookkeeping] using h
    | some t => simpa [astep, lower, hs, bookkeeping] using step_tokOK h (.regAbort t id)
  | cancel id =>
    cases hs : s.stored[id]? with
    | none => simpa [astep, lower, hs, bookkeeping] using h
    | some t => simpa [astep, lower, hs, bookkeeping] using step_tokOK h (.cancel t id)

/-- every reachable state of the application-level machine keeps every entry under the token its identity registered with -/
theorem arun_tokOK (evs : List AEv) : ∀ s : AState, TokOK s.base s.stored →
    TokOK (arun s evs).1.base (arun s evs).1.stored := by
  induction evs with
  | nil => intro s h; exact h
  | cons e es ih => intro s h; simp only [arun]; exact ih _ (astep_tokOK s e h)

/-- **Cancellation removes the registration's own entry, whatever the caller did to its message.**  After any
    application-level history, `cancel id` leaves no entry of identity `id` in the table. -/
theorem cancel_takes_effect_whatever_reuse (evs : List AEv) (id : Nat) :
    ∀ e ∈ (astep (arun {} evs).1 (.cancel id)).1.base.table, e.id ≠ id :=
  cancel_removes_own_entry _ id (arun_tokOK evs {} ⟨rfl, by simp⟩)

/-! ### non-vacuity and the negative shape -/

/-- register on 7, first notification, the request message is used again with token 9 (twice), cancel: the clean-up takes
    effect (`cancelled 0`) and the next notification on 7 goes to the default handler -/
example : (arun {} [.reg 7, .arrive 7 69 (some 5) 0 1, .regDone 0, .reuse 0 9, .reuse 0 8, .cancel 0, .arrive 7 69 (some 6) 1 2]).2
    = [.registered 0 7, .cb 0 7 (some 5) 0 1, .regOk 0, .cancelled 0, .toDefault 7 2] := by decide

/-- the aliasing machine on the same history: Cancel looks under 8, nothing is removed, the notification reaches callback 0 -/
example : (arunAlias {} [.reg 7, .arrive 7 69 (some 5) 0 1, .regDone 0, .reuse 0 9, .reuse 0 8, .cancel 0, .arrive 7 69 (some 6) 1 2]).2
    = [.registered 0 7, .cb 0 7 (some 5) 0 1, .regOk 0, .cb 0 7 (some 6) 1 2] := by decide

/-- … and when the other token belongs to a live observation, that one is removed instead -/
example : (arunAlias {} [.reg 8, .arrive 8 69 (some 1) 0 1, .regDone 0, .reg 7, .arrive 7 69 (some 5) 1 2, .regDone 1, .reuse 1 8,
      .cancel 1, .arrive 8 69 (some 2) 2 3, .arrive 7 69 (some 6) 3 4]).2
    = [.registered 0 8, .cb 0 8 (some 1) 0 1, .regOk 0, .registered 1 7, .cb 1 7 (some 5) 1 2, .regOk 1, .cancelled 0,
       .toDefault 8 3, .cb 1 7 (some 6) 3 4] := by decide

example : (arun {} [.reg 8, .arrive 8 69 (some 1) 0 1, .regDone 0, .reg 7, .arrive 7 69 (some 5) 1 2, .regDone 1, .reuse 1 8,
      .cancel 1, .arrive 8 69 (some 2) 2 3, .arrive 7 69 (some 6) 3 4]).2
    = [.registered 0 8, .cb 0 8 (some 1) 0 1, .regOk 0, .registered 1 7, .cb 1 7 (some 5) 1 2, .regOk 1, .cancelled 1,
       .cb 0 8 (some 2) 2 3, .toDefault 7 4] := by decide

/-- the entry is there before the cancellation and gone after it (the aliasing machine keeps it) -/
example : ((arun {} [.reg 7, .arrive 7 69 (some 5) 0 1, .regDone 0, .reuse 0 9]).1.base.table.map (·.id),
           (astep (arun {} [.reg 7, .arrive 7 69 (some 5) 0 1, .regDone 0, .reuse 0 9]).1 (.cancel 0)).1.base.table.map (·.id),
           (astepAlias (arunAlias {} [.reg 7, .arrive 7 69 (some 5) 0 1, .regDone 0, .reuse 0 9]).1 (.cancel 0)).1.base.table.map (·.id))
    = ([0], [], [0]) := by decide

end CoapVerif.Props.C08Reuse

section Audit
open CoapVerif.Props.C08Reuse
#print axioms bookkeeping_base
#print axioms bookkeeping_stored
#print axioms run_cons
#print axioms arun_eq_run_lowered
#print axioms lowered_consistent
#print axioms silent_after_cancel_whatever_reuse
#print axioms delivered_fresh_whatever_reuse
#print axioms own_token_whatever_reuse
#print axioms cancel_removes_own_entry
#print axioms step_tokOK
#print axioms astep_tokOK
#print axioms arun_tokOK
#print axioms cancel_takes_effect_whatever_reuse
end Audit
