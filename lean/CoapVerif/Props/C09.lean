import CoapVerif.Go.Basic
import CoapVerif.Model.Lifecycle
/-!
# C09 — Blocking calls always end on cancellation or close; close is clean   (**partial**)

Statement (properties.jsonl): every blocking client operation (request, observe registration and cancellation, ping,
one-way write, discovery) returns within a bounded delay once its context is cancelled or expires or the connection is
closed by either side, whatever the peer does — silence, garbage, a half-open stream, an acknowledgement without a
response.  Closing a connection or stopping a server is idempotent and safe while operations are in flight: it completes
the connection's done signal and runs every registered on-close callback exactly once.

What is proved:
* `waits_cover_ctx_and_conn` — over the blocking points read from the AST of /repo on every run
  (`Generated/BlockingWaits.lean`): every `select` of a client operation listens to the request context **and** the
  connection context (or does not block); blocking points of the receive path listen to the connection context; slot
  waits (limiter, per-endpoint queue, NSTART) listen to the request context.
* `returns_after_cancel` — a program all of whose waits listen to the signal that has fired returns within as many steps
  as it has waits left, for **every** behaviour of the peer (adversarial result schedule); `slot_chain_drains` — waiters
  behind a slot return after the finite chain of covered holders.
* `close_idempotent`, `socket_closed_at_most_once`, `onclose_at_most_once`, `done_at_most_once`,
  `onclose_exactly_once_at_completion` — for every interleaving of any number of `Close()` callers, the reader and
  `AddOnClose` calls.

* `close_never_waits_for_writer`, `close_unblocks_stalled_write`, `locked_close_deadlocks` — a frame write blocked in
  the transport (peer stopped reading): `Close` does not take the lock the writer holds (fact read from the source), so
  it returns and the writer is released; would it take the lock, no schedule ever ends either of them.
  (That the blocked write ignores the request context is finding F26, `Findings/C09.lean`.)

Not modelled (hence partial): OS-level blocking in socket reads, DTLS handshakes and TLS; the bound on real time.
-/
namespace CoapVerif.Props.C09
open CoapVerif CoapVerif.Model.Lifecycle CoapVerif.Generated.BlockingWaits

/-- **waits_cover_ctx_and_conn**: decided over the complete list extracted from the current source. -/
theorem waits_cover_ctx_and_conn : ∀ w ∈ waits, waitOK w = true := by decide

/-- a covered wait fires as soon as the signal it listens to is set, whatever the peer does -/
theorem covered_fires (w : Wait) (sg : Signals) (r : Bool) (hc : covered w = true)
    (hs : sg.reqCancelled = true ∨ sg.connClosed = true) : fires w sg r = true := by
  simp only [covered, Bool.or_eq_true, Bool.and_eq_true] at hc
  simp only [fires, Bool.or_eq_true, Bool.and_eq_true]
  rcases hc with h | ⟨h1, h2⟩
  · exact Or.inl (Or.inl (Or.inl h))
  · rcases hs with hs | hs
    · exact Or.inl (Or.inl (Or.inr ⟨h1, hs⟩))
    · exact Or.inl (Or.inr ⟨h2, hs⟩)

/-- **returns_after_cancel**: once the request context is cancelled or the connection is closed, an operation whose
    remaining blocking points are all covered has returned after at most as many steps as it has blocking points left —
    for every behaviour of the peer (`adv` is the adversary's schedule of results, of any length ≥ the number of waits). -/
theorem returns_after_cancel (prog : List Wait) (sg : Signals) (adv : List Bool)
    (hc : ∀ w ∈ prog, covered w = true) (hs : sg.reqCancelled = true ∨ sg.connClosed = true)
    (hlen : prog.length ≤ adv.length) : runProg sg prog adv = [] := by
  induction prog generalizing adv with
  | nil => cases adv <;> rfl
  | cons w ws ih =>
    cases adv with
    | nil => simp at hlen
    | cons r rs =>
      have hf := covered_fires w sg r (hc w (by simp)) hs
      simp only [runProg, hf, if_true]
      exact ih rs (fun x hx => hc x (by simp [hx])) (by simpa using hlen)

/-- receive-path waits end when the connection closes -/
theorem receive_wait_fires (w : Wait) (sg : Signals) (r : Bool) (hc : w.cases.contains "connctx" = true)
    (hs : sg.connClosed = true) : fires w sg r = true := by
  simp only [fires, Bool.or_eq_true, Bool.and_eq_true]
  exact Or.inl (Or.inr ⟨hc, hs⟩)

/-- **slot_chain_drains**: operations queued behind a slot run one after the other; after the signal, the whole queue has
    returned after the sum of their remaining blocking points. -/
theorem slot_chain_drains (queue : List (List Wait)) (sg : Signals) (adv : List Bool)
    (hc : ∀ p ∈ queue, ∀ w ∈ p, covered w = true) (hs : sg.reqCancelled = true ∨ sg.connClosed = true)
    (hlen : queue.flatten.length ≤ adv.length) : runProg sg queue.flatten adv = [] :=
  returns_after_cancel queue.flatten sg adv
    (fun w hw => by
      obtain ⟨p, hp, hwp⟩ := List.mem_flatten.mp hw
      exact hc p hp w hwp) hs hlen

theorem qrun_nil (sg : Signals) (rs : List Bool) : qrun sg [] rs = [] := by
  induction rs with
  | nil => rfl
  | cons r rs ih => simpa [qrun, qstep] using ih

/-- **slot_queue_drains**: requests parked behind a slot do not listen to the connection themselves, yet after the
    connection is closed (or the contexts are cancelled) the whole FIFO has returned within `qcost` steps, whatever the
    peer does: the holder's covered waits fire, it releases, the next one acquires and its covered waits fire, and so on.
    This is the release chain the slot waits of `waits_cover_ctx_and_conn` rely on. -/
theorem slot_queue_drains (sg : Signals) (hs : sg.reqCancelled = true ∨ sg.connClosed = true) (rs : List Bool) :
    ∀ (q : List (List Wait)), (∀ p ∈ q, ∀ w ∈ p, covered w = true) → qcost q ≤ rs.length → qrun sg q rs = [] := by
  induction rs with
  | nil =>
    intro q _ hlen
    cases q with
    | nil => rfl
    | cons p rest => simp [qcost] at hlen
  | cons r rs ih =>
    intro q hc hlen
    cases q with
    | nil => exact qrun_nil sg _
    | cons p rest =>
      cases p with
      | nil =>
        simp only [qrun, List.foldl_cons, qstep]
        apply ih rest (fun p hp => hc p (List.mem_cons_of_mem _ hp))
        simp only [qcost, List.map_cons, List.sum_cons, List.length_nil, List.length_cons] at hlen ⊢
        omega
      | cons w ws =>
        have hf := covered_fires w sg r (hc (w :: ws) (List.mem_cons_self) w (List.mem_cons_self)) hs
        simp only [qrun, List.foldl_cons, qstep, hf, if_true]
        apply ih (ws :: rest)
        · intro p hp x hx
          rcases List.mem_cons.mp hp with rfl | hp
          · exact hc (w :: p) (List.mem_cons_self) x (List.mem_cons_of_mem _ hx)
          · exact hc p (List.mem_cons_of_mem _ hp) x hx
        · simp only [qcost, List.map_cons, List.sum_cons, List.length_cons] at hlen ⊢
          omega

/-- without the signal a parked request can wait for ever behind a holder whose peer stays silent (why the chain needs
    the holder's waits to be covered): one holder waiting for a result, adversary never delivers -/
example : qrun ⟨false, false⟩ [[⟨"f", "g", "select", ["connctx", "reqctx", "result"]⟩], []] (List.replicate 50 false)
    = [[⟨"f", "g", "select", ["connctx", "reqctx", "result"]⟩], []] := by decide
example : qrun ⟨false, true⟩ [[⟨"f", "g", "select", ["connctx", "reqctx", "result"]⟩], []] [false, false, false] = [] := by decide

/-! ### close protocol -/

/-- Invariant of every reachable session state. -/
structure Inv (s : Sess) : Prop where
  sock : s.socketClosed ≤ 1 ∧ (s.socketClosed = 1 ↔ s.casFlag = true)
  done : s.doneClosed ≤ 1 ∧ (s.doneClosed = 1 ↔ s.readerPc = 4)
  pc : s.readerPc ≤ 4
  popped : s.readerPc < 2 → s.popped = [] ∧ s.ran = []
  afterRun : s.readerPc ≥ 3 → s.popped = []

theorem inv_init : Inv {} := ⟨by simp, by simp, by simp, by simp, by simp⟩

theorem doClose_fields (s : Sess) : (doClose s).doneClosed = s.doneClosed ∧ (doClose s).popped = s.popped ∧
    (doClose s).ran = s.ran ∧ (doClose s).readerPc = s.readerPc ∧ (doClose s).onClose = s.onClose := by
  unfold doClose; split <;> simp

theorem doClose_inv {s : Sess} (h : Inv s) : Inv (doClose s) := by
  obtain ⟨e1, e2, e3, e4, e5⟩ := doClose_fields s
  refine ⟨?_, by rw [e1, e4]; exact h.done, by rw [e4]; exact h.pc, by rw [e4, e2, e3]; exact h.popped,
    by rw [e4, e2]; exact h.afterRun⟩
  unfold doClose
  by_cases hc : s.casFlag = true
  · have := h.sock
    simpa [hc] using this
  · have hc' : s.casFlag = false := by simpa using hc
    have h0 : s.socketClosed = 0 := by
      rcases Nat.lt_or_ge s.socketClosed 1 with hl | hl
      · omega
      · have h1 : s.socketClosed = 1 := by have := h.sock.1; omega
        have := (h.sock.2).mp h1
        simp [hc'] at this
    simp [hc', h0]

theorem step_inv (s : Sess) (st : Step) (h : Inv s) : Inv (step s st) := by
  cases st with
  | close => exact doClose_inv h
  | readerSeesClose =>
    simp only [step]
    split
    · rename_i hc
      have hi := doClose_inv h
      obtain ⟨e1, e2, e3, e4, e5⟩ := doClose_fields s
      have hp := h.popped (by omega)
      refine ⟨hi.sock, ?_, by simp, ?_, by simp⟩
      · simp only [e1]
        refine ⟨h.done.1, ?_⟩
        constructor
        · intro h1; have := h.done.2.mp h1; omega
        · intro h1; simp at h1
      · intro _; simp only [e2, e3]; exact hp
    · exact h
  | pop =>
    simp only [step]
    split
    · rename_i hc
      have hp := h.popped (by omega)
      refine ⟨h.sock, ?_, by simp, by simp, by simp⟩
      refine ⟨h.done.1, ?_⟩
      constructor
      · intro h1; have := h.done.2.mp h1; omega
      · intro h1; simp at h1
    · exact h
  | runOne =>
    simp only [step]
    split
    · rename_i hc
      split
      · rename_i hnil
        refine ⟨h.sock, ?_, by simp, by simp, by simpa using hnil⟩
        refine ⟨h.done.1, ?_⟩
        constructor
        · intro h1; have := h.done.2.mp h1; omega
        · intro h1; simp at h1
      · exact ⟨h.sock, h.done, h.pc, by simp [hc], by simp [hc]⟩
    · exact h
  | closeDone =>
    simp only [step]
    split
    · rename_i hc
      have h0 : s.doneClosed = 0 := by
        rcases Nat.lt_or_ge s.doneClosed 1 with hl | hl
        · omega
        · have h1 : s.doneClosed = 1 := by have := h.done.1; omega
          have := h.done.2.mp h1; omega
      exact ⟨h.sock, by simp [h0], by simp, by simp, fun _ => h.afterRun (by omega)⟩
    · exact h
  | addOnClose f =>
    exact ⟨h.sock, h.done, h.pc, h.popped, h.afterRun⟩

theorem run_inv (sched : List Step) : ∀ s, Inv s → Inv (run s sched) := by
  induction sched with
  | nil => intro s h; exact h
  | cons st r ih => intro s h; exact ih _ (step_inv s st h)

/-- **socket_closed_at_most_once / done_at_most_once**: for every interleaving of any number of `Close()` calls, the reader
    and `AddOnClose` calls, the socket is closed at most once and the done signal is completed at most once (a second
    `close(done)` would panic). -/
theorem socket_and_done_at_most_once (sched : List Step) :
    (run {} sched).socketClosed ≤ 1 ∧ (run {} sched).doneClosed ≤ 1 :=
  ⟨(run_inv sched {} inv_init).sock.1, (run_inv sched {} inv_init).done.1⟩

/-- **close_idempotent**: a further `Close()` on a closed session changes nothing. -/
theorem close_idempotent (s : Sess) (h : s.cancelled = true ∧ s.casFlag = true) : step s .close = s := by
  obtain ⟨c, sc, cf, oc, po, ra, dc, pc⟩ := s
  simp only at h
  simp [step, doClose, h.1, h.2]

/-- callbacks never run twice: everything in `ran`, `popped` and `onClose` stays duplicate free as long as registrations are -/
def AllCbs (s : Sess) : List Nat := s.ran ++ s.popped ++ s.onClose

/-- the callbacks registered along a schedule, in order -/
def registered : List Step → List Nat
  | [] => []
  | .addOnClose f :: r => f :: registered r
  | _ :: r => registered r

theorem step_allcbs (s : Sess) (st : Step) (hi : Inv s) : AllCbs (step s st) = AllCbs s ++ registered [st] := by
  cases st with
  | close =>
    obtain ⟨_, e2, e3, _, e5⟩ := doClose_fields s
    simp [AllCbs, step, registered, e2, e3, e5]
  | readerSeesClose =>
    simp only [step]
    split
    · obtain ⟨_, e2, e3, _, e5⟩ := doClose_fields s
      simp [AllCbs, registered, e2, e3, e5]
    · simp [registered]
  | pop =>
    simp only [step]
    split
    · rename_i hc
      have := (hi.popped (by omega)).1
      simp [AllCbs, registered, this]
    · simp [registered]
  | runOne =>
    simp only [step]
    split
    · split
      · simp [AllCbs, registered]
      · rename_i f r hp; simp [AllCbs, registered, hp, List.append_assoc]
    · simp [registered]
  | closeDone =>
    simp only [step]
    split <;> simp [AllCbs, registered]
  | addOnClose f => simp [AllCbs, step, registered, List.append_assoc]

theorem registered_cons (st : Step) (r : List Step) : registered (st :: r) = registered [st] ++ registered r := by
  cases st <;> simp [registered]

theorem run_allcbs (sched : List Step) : ∀ s, Inv s → AllCbs (run s sched) = AllCbs s ++ registered sched := by
  induction sched with
  | nil => intro s _; simp [run, registered]
  | cons st r ih =>
    intro s hi
    have := ih (step s st) (step_inv s st hi)
    simp only [run, List.foldl_cons] at this ⊢
    rw [this, step_allcbs s st hi, registered_cons st r, List.append_assoc]

/-- **onclose_at_most_once**: in every interleaving each registered callback has run at most once (what has run is a
    sub-multiset of what was registered: `ran ++ popped ++ onClose` is exactly the registration list). -/
theorem onclose_at_most_once (sched : List Step) : AllCbs (run {} sched) = registered sched := by
  have := run_allcbs sched {} inv_init
  simpa [AllCbs] using this

/-- **onclose_exactly_once_at_completion**: when the reader has finished its shutdown (done signal completed), every callback
    registered before the shutdown took the list has run exactly once, in registration order, and nothing is left to run. -/
theorem onclose_exactly_once_at_completion (sched : List Step) (h : (run {} sched).doneClosed = 1) :
    (run {} sched).popped = [] ∧ (run {} sched).ran ++ (run {} sched).onClose = registered sched := by
  have inv := run_inv sched {} inv_init
  have hpc : (run {} sched).readerPc = 4 := inv.done.2.mp h
  have hp := inv.afterRun (by omega)
  refine ⟨hp, ?_⟩
  have := onclose_at_most_once sched
  simpa [AllCbs, hp] using this

/-! #### the done signal completes -/

theorem run_append' (s : Sess) (a b : List Step) : run s (a ++ b) = run (run s a) b := by
  simp [run, List.foldl_append]

/-- running the popped callbacks one by one, then noticing the list is empty -/
theorem run_runOnes (l : List Nat) : ∀ (s : Sess), s.readerPc = 2 → s.popped = l →
    run s (List.replicate (l.length + 1) .runOne) = { s with popped := [], ran := s.ran ++ l, readerPc := 3 } := by
  induction l with
  | nil =>
    intro s hpc hp
    obtain ⟨c, sc, cf, oc, po, ra, dc, pc⟩ := s
    simp only at hpc hp
    subst hpc hp
    simp [run, step]
  | cons f r ih =>
    intro s hpc hp
    obtain ⟨c, sc, cf, oc, po, ra, dc, pc⟩ := s
    simp only at hpc hp
    subst hpc hp
    have hrep : List.replicate ((f :: r).length + 1) Step.runOne = .runOne :: List.replicate (r.length + 1) .runOne := by
      simp [List.replicate_succ]
    rw [hrep]
    have hstep : step ⟨c, sc, cf, oc, f :: r, ra, dc, 2⟩ .runOne = ⟨c, sc, cf, oc, r, ra ++ [f], dc, 2⟩ := by simp [step]
    have := ih ⟨c, sc, cf, oc, r, ra ++ [f], dc, 2⟩ rfl rfl
    simp only [run] at this
    simp only [run, List.foldl_cons, hstep]
    rw [this]
    simp [List.append_assoc]

/-- the reader's part of the shutdown, for `k` registered callbacks -/
def readerSched (k : Nat) : List Step := [.readerSeesClose, .pop] ++ List.replicate (k + 1) .runOne ++ [.closeDone]

/-- **done_completes**: once `Close()` was called (context cancelled / socket closed), the reader's shutdown — it sees its
    read fail, takes the callback list, runs each callback, completes the done signal — ends with the done signal
    completed exactly once and every callback that was registered by then run exactly once, in order; no step of it can
    block (each is enabled when its turn comes). -/
theorem done_completes (s : Sess) (hi : Inv s) (hpc : s.readerPc = 0) (hc : s.cancelled = true ∨ s.casFlag = true) :
    (run s (readerSched s.onClose.length)).doneClosed = s.doneClosed + 1 ∧
    (run s (readerSched s.onClose.length)).ran = s.onClose ∧
    (run s (readerSched s.onClose.length)).onClose = [] ∧
    (run s (readerSched s.onClose.length)).readerPc = 4 := by
  have hpr := hi.popped (by omega)
  obtain ⟨e1, e2, e3, e4, e5⟩ := doClose_fields s
  have h1 : run s [.readerSeesClose, .pop] =
      { doClose s with popped := s.onClose, onClose := [], readerPc := 2 } := by
    simp only [run, List.foldl_cons, List.foldl_nil, step, hpc, true_and]
    have : (s.cancelled = true ∨ s.casFlag = true) := hc
    simp [this, e5]
  unfold readerSched
  rw [List.append_assoc, run_append', h1, run_append',
    run_runOnes s.onClose _ rfl rfl]
  simp only [run, List.foldl_cons, List.foldl_nil, step, if_true]
  simp [e1, e3, hpr.2]

/-- … and further `Close()` calls in between change nothing of it (they only touch the flags): e.g. two racing closers -/
theorem close_does_not_disturb_shutdown (s : Sess) :
    (step s .close).popped = s.popped ∧ (step s .close).ran = s.ran ∧ (step s .close).readerPc = s.readerPc ∧
    (step s .close).onClose = s.onClose ∧ (step s .close).doneClosed = s.doneClosed := by
  obtain ⟨e1, e2, e3, e4, e5⟩ := doClose_fields s
  exact ⟨e2, e3, e4, e5, e1⟩

/-- a callback registered after the shutdown took the list is never run (observation, see docs/notes/C09.md): -/
example : (run {} [.addOnClose 1, .close, .readerSeesClose, .pop, .addOnClose 2, .runOne, .runOne, .closeDone]).ran = [1] ∧
    (run {} [.addOnClose 1, .close, .readerSeesClose, .pop, .addOnClose 2, .runOne, .runOne, .closeDone]).onClose = [2] := by
  decide

/-! Non-vacuity: two concurrent closers, a reader, two callbacks. -/
example : (run {} [.addOnClose 1, .addOnClose 2, .close, .close, .readerSeesClose, .close, .pop, .runOne, .runOne, .runOne, .closeDone, .close]).ran = [1, 2] := by decide
example : (run {} [.addOnClose 1, .close, .readerSeesClose, .pop, .runOne, .runOne, .closeDone]).doneClosed = 1 := by decide

/-! ### a frame write blocked in the transport -/

/-- fact read from `net/conn.go` on every run: `Close` closes the socket without first taking the write lock -/
theorem close_never_waits_for_writer : closeTakesWriteLock = false := by decide

/-- **Close is safe and effective while a write is stalled**: whatever happened before, one `Close()` returns and the
    next time the blocked writer is scheduled it leaves `Write` — for every history of earlier events. -/
theorem close_unblocks_stalled_write (arms : Bool) (s : WState) (evs : List WEv) :
    let s' := wrun closeTakesWriteLock arms s (evs ++ [.callClose, .sched])
    s'.closeReturned = true ∧ s'.writerBlocked = false := by
  simp only [wrun, List.foldl_append, List.foldl_cons, List.foldl_nil, close_never_waits_for_writer]
  simp [wstep]

/-- If `Close` took the writer's lock, a stalled writer and `Close` would wait for each other for ever: no sequence of
    close calls and scheduling changes anything (the request context cannot help either unless a deadline is armed). -/
theorem locked_close_deadlocks (evs : List WEv) (s : WState) (hb : s.writerBlocked = true) (hs : s.socketClosed = false) :
    let s' := wrun true false s evs
    s'.writerBlocked = true ∧ s'.socketClosed = false ∧ s'.closeReturned = s.closeReturned := by
  induction evs generalizing s with
  | nil => exact ⟨hb, hs, rfl⟩
  | cons e es ih =>
    simp only [wrun, List.foldl_cons]
    cases e with
    | callClose =>
      have : wstep true false s .callClose = s := by simp [wstep, hb]
      rw [this]; exact ih s hb hs
    | sched =>
      have : wstep true false s .sched = s := by simp [wstep, hs]
      rw [this]; exact ih s hb hs
    | ctxEnds =>
      have h := ih (wstep true false s .ctxEnds) (by simp [wstep, hb]) (by simp [wstep, hs])
      simpa [wstep, wrun] using h

/-- Non-vacuity: the stalled writer, two racing Close calls, then the writer runs. -/
example : wrun closeTakesWriteLock writeArmsDeadline {} [.callClose, .callClose, .sched]
    = { writerBlocked := false, socketClosed := true, ctxDone := false, closeReturned := true } := by decide

/-! ### the handshake gate (DTLS / TLS, peer leaves the handshake unanswered) -/

/-- the source fact: `handshake()` waits for its caller's context, not only for the transport -/
theorem handshake_waits_for_ctx : handshakeWaitsForCtx = true := by decide

theorem hrun_append (f : Bool) (s : HState) (a b : List HEv) : hrun f s (a ++ b) = hrun f (hrun f s a) b := by
  simp [hrun, List.foldl_append]

/-- once the operation has left `handshake(ctx)` it stays out -/
theorem hstep_returned (f : Bool) (s : HState) (e : HEv) (h : s.opWaiting = false) : (hstep f s e).opWaiting = false := by
  cases e <;> simp [hstep, h]

theorem hrun_returned (f : Bool) (evs : List HEv) : ∀ s : HState, s.opWaiting = false → (hrun f s evs).opWaiting = false := by
  induction evs with
  | nil => intro s h; simpa [hrun] using h
  | cons e r ih => intro s h; simpa [hrun] using ih _ (hstep_returned f s e h)

theorem hstep_ctxDone (f : Bool) (s : HState) (e : HEv) (h : s.opCtxDone = true) : (hstep f s e).opCtxDone = true := by
  cases e <;> simp [hstep, h]
  split <;> simp [h]

theorem hrun_ctxDone (f : Bool) (evs : List HEv) : ∀ s : HState, s.opCtxDone = true → (hrun f s evs).opCtxDone = true := by
  induction evs with
  | nil => intro s h; simpa [hrun] using h
  | cons e r ih => intro s h; simpa [hrun] using ih _ (hstep_ctxDone f s e h)

/-- With the select (the code as it is): whatever happened before and whoever holds the transport's handshake mutex, once
    the operation's context has ended the next time it is scheduled it returns - for every history `pre`, every later
    history `post`. -/
theorem handshake_returns_on_ctx (s : HState) (pre post : List HEv) :
    (hrun true s (pre ++ [.ctxEnds] ++ [.sched] ++ post)).opWaiting = false := by
  rw [hrun_append, hrun_append, hrun_append]
  apply hrun_returned
  generalize hrun true s pre = t
  cases hw : t.opWaiting <;> simp [hrun, hstep, hw]

/-- Closing the connection ends the wait with or without the select: the first scheduling ends the reader's handshake,
    the second one the operation's. -/
theorem handshake_returns_on_close (f : Bool) (s : HState) (pre post : List HEv) :
    (hrun f s (pre ++ [.close] ++ [.sched, .sched] ++ post)).opWaiting = false := by
  rw [hrun_append, hrun_append, hrun_append]
  apply hrun_returned
  generalize hrun f s pre = t
  cases hw : t.opWaiting <;> cases f <;> cases hr : t.readerIn <;> cases hc : t.opCtxDone <;> simp [hrun, hstep, hw, hr, hc]

/-- What the select is for (F32, the code before the repair called the transport directly): while the reader's handshake
    holds the mutex and nobody closes the connection, the operation never returns, although its context has ended. -/
theorem direct_handshake_call_waits_for_reader (evs : List HEv) (hnc : HEv.close ∉ evs) :
    ∀ s : HState, s.readerIn = true → s.opWaiting = true → s.closed = false →
      (hrun false s evs).opWaiting = true := by
  induction evs with
  | nil => intro s _ hw _; simpa [hrun] using hw
  | cons e r ih =>
    intro s hr hw hc
    have hne : e ≠ HEv.close := fun h => hnc (by simp [h])
    have hr' : HEv.close ∉ r := fun h => hnc (by simp [h])
    have := ih hr' (hstep false s e)
    cases e with
    | close => exact absurd rfl hne
    | ctxEnds => simpa [hrun] using this (by simp [hstep, hr]) (by simp [hstep, hw]) (by simp [hstep, hc])
    | sched =>
      have hs : hstep false s .sched = s := by
        cases s; simp_all [hstep]
      simpa [hrun, hs] using ih hr' s hr hw hc

-- the premises are met and the conclusions are not trivial: a silent peer, the context ends, nobody closes
example : (hrun true {} [.sched, .ctxEnds, .sched]).opWaiting = false := by decide
example : (hrun false {} [.sched, .ctxEnds, .sched, .sched, .sched]).opWaiting = true := by decide
example : (hrun false {} [.ctxEnds, .close, .sched, .sched]).opWaiting = false := by decide

end CoapVerif.Props.C09

section Audit
open CoapVerif.Props.C09
#print axioms waits_cover_ctx_and_conn
#print axioms close_never_waits_for_writer
#print axioms close_unblocks_stalled_write
#print axioms locked_close_deadlocks
#print axioms covered_fires
#print axioms returns_after_cancel
#print axioms receive_wait_fires
#print axioms slot_chain_drains
#print axioms qrun_nil
#print axioms slot_queue_drains
#print axioms inv_init
#print axioms doClose_inv
#print axioms step_inv
#print axioms run_inv
#print axioms socket_and_done_at_most_once
#print axioms close_idempotent
#print axioms run_append'
#print axioms run_runOnes
#print axioms done_completes
#print axioms close_does_not_disturb_shutdown
#print axioms doClose_fields
#print axioms step_allcbs
#print axioms registered_cons
#print axioms run_allcbs
#print axioms onclose_at_most_once
#print axioms onclose_exactly_once_at_completion
#print axioms handshake_waits_for_ctx
#print axioms hrun_append
#print axioms hstep_returned
#print axioms hrun_returned
#print axioms hstep_ctxDone
#print axioms hrun_ctxDone
#print axioms handshake_returns_on_ctx
#print axioms handshake_returns_on_close
#print axioms direct_handshake_call_waits_for_reader
end Audit
