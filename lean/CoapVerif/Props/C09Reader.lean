import CoapVerif.Model.PoolRetry
import CoapVerif.Lemmas.PoolRetry
/-!
# C09 — the reader of a connection comes back from decoding whatever the peer has sent

Statement (properties.jsonl, C09): "… whatever the peer does - silence, garbage, a half-open stream, an acknowledgement
without a response.  Closing a connection or stopping a server … completes the connection's done signal and runs every
registered on-close callback exactly once."

The done signal is completed by the goroutine that reads the connection (`Session.Run` → `shutdown`; the shared `Serve` loop
of the datagram server), `done_completes` in Props/C09.lean assumes that this goroutine takes its steps.  Between two reads
it decodes what it has read into a pooled message (`Conn.Process` / `processBuffer` → `UnmarshalWithDecoder` →
`Message.decode`), and `decode` contains the only loop on that path whose exit depends on the peer's bytes: the retry that
enlarges the option buffer while the decoder reports `ErrOptionsTooSmall`.  This file states, for C09, that the reader leaves
that loop for EVERY input and every starting capacity, after at most `len(data) − cap + 1` attempts (the loop is the model of
Model/PoolRetry.lean, shared with C02; its three shape facts are read from the AST on every run, Generated/PoolRetry.lean) —
and that a loop whose growth is clamped without an exit never leaves for a message that needs more (seeded change C09-W).

Tie: the cases `case udp|tcp <op> opts<N> cancel|close` and `case udp|tcp|dtls srvstop k1o<N> stop` deliver well-formed
messages with N = 16 | 17, 1024 | 1025, 1100, 1400, 2049, 5000 options to the real readers.
-/
namespace CoapVerif.Props.C09Reader
open CoapVerif.Spec.Wire (Bytes Opt Msg)
open CoapVerif.Model CoapVerif.Model.PoolMessage CoapVerif.Lemmas.PoolRetry

/-- **The reader returns from `decode`** — for every coder, every capacity the pooled message arrives with and every byte
string: the loop with `len(data) − cap + 1` attempts allowed IS the loop (it never runs out of attempts), and what it
returns is the decoder's verdict at a capacity that was sufficient, never the capacity error. -/
theorem reader_returns_from_decode (c : Coder) (cap : Nat) (data : Bytes) :
    decodeRetryN c (data.length - cap + 1) cap data = decodeRetry c cap data ∧
    ∃ cap', cap ≤ cap' ∧ decodeRetry c cap data = (c.decode cap' data, cap') ∧ c.decode cap' data ≠ .error .optCap :=
  ⟨decodeRetryN_eq c _ cap data (by omega), decodeRetry_spec c cap data⟩

/-- the statement has no hypothesis (nothing to be vacuous about); an instance: a datagram with three options arriving at a
message recycled without an options buffer (capacity 0) -/
example : ∃ cap', (decodeRetry .udp 0 [0x50, 0x01, 0x12, 0x34, 0xb0, 0x00, 0x00]).2 = cap' ∧
    (decodeRetry .udp 0 [0x50, 0x01, 0x12, 0x34, 0xb0, 0x00, 0x00]).1 ≠ .error .optCap := by
  obtain ⟨cap', _, heq, hne⟩ := (reader_returns_from_decode .udp 0 [0x50, 0x01, 0x12, 0x34, 0xb0, 0x00, 0x00]).2
  exact ⟨cap', by rw [heq], by rw [heq]; exact hne⟩

/-! ## The clamped shape -/

/-- the retry loop over an abstract decoder verdict (`tooSmall cap` = the decoder reports `ErrOptionsTooSmall` at `cap`),
growth clamped at `limit` without an exit; `none` = still looping when the attempts are used up -/
def clampedLoop (tooSmall : Nat → Bool) (limit : Nat) : Nat → Nat → Option Nat
  | 0, _ => none
  | fuel + 1, cap =>
    if tooSmall cap then clampedLoop tooSmall limit fuel (if (if cap * 2 = 0 then 16 else cap * 2) > limit then limit else (if cap * 2 = 0 then 16 else cap * 2))
    else some cap

/-- once the buffer has reached the limit and the message needs more, the loop never returns, however many attempts it gets
(for every limit ≥ 1 — 1024 in the seeded change — and every message) -/
theorem clamped_loop_never_returns (tooSmall : Nat → Bool) (limit : Nat) (hl : 0 < limit) (h : tooSmall limit = true) :
    ∀ fuel, clampedLoop tooSmall limit fuel limit = none := by
  intro fuel
  induction fuel with
  | zero => rfl
  | succ n ih =>
    have h0 : ¬ (limit * 2 = 0) := by omega
    have h1 : limit * 2 > limit := by omega
    simp only [clampedLoop, h, h0, h1, ↓reduceIte, ih]

/-- … and it gets there from the default capacity: 16 → 32 → … → 1024 → 1024 → … for a message that is too large at every
capacity up to 1024 (e.g. 1025 options) -/
example : ∀ fuel ≤ 64, clampedLoop (fun cap => cap ≤ 1024) 1024 fuel 16 = none := by decide

/-- the unclamped verdict for the same message: out after seven doublings -/
example : clampedLoop (fun cap => cap ≤ 1024) 4096 8 16 = some 2048 := by decide

section Audit
#print axioms reader_returns_from_decode
#print axioms clamped_loop_never_returns
end Audit

end CoapVerif.Props.C09Reader
