import CoapVerif.Model.ConnRegistry
/-!
# C09 — stopping a stream / DTLS server ends every accepted connection, whatever a connection's `Close()` reports

Statement (properties.jsonl, C09): "… Closing a connection or stopping a server is idempotent and safe while operations are
in flight: it completes the connection's done signal and runs every registered on-close callback exactly once."

For the servers that keep their accepted connections in `pkg/connections` the done signal of a connection is completed by
its reader (`Session.Run` → `shutdown`) once the transport is closed (`done_completes`, Props/C09.lean); what closes the
transports after `Stop()` is `Connections.Close()`.  This file proves that this step reaches EVERY registered connection for
every number of connections, every order and every pattern of connections whose `Close()` reports an error — and that the
shape which leaves the loop at the first reported error does not (seeded change C09-V).

Tie: `Generated.BlockingWaits.registryCloseVisitsAll` (harness/cmd/extract/gen_c09_waits.go: the loop of
`Connections.Close` contains no return / break / goto / continue / panic); the cases `case tcp|dtls srvstop k<N>f|h stop` run
the real servers over transports whose `Close()` releases the connection and reports an error.
-/
namespace CoapVerif.Props.C09Registry
open CoapVerif.Model.ConnRegistry

theorem closeAll_length (cs : List Conn) : (closeAll cs).length = cs.length := by
  induction cs with
  | nil => rfl
  | cons c cs ih => simp [closeAll, ih]

/-- every connection of the snapshot has been closed, whatever the individual `Close()` calls reported -/
theorem closeAll_closes_every (cs : List Conn) : ∀ c ∈ closeAll cs, c.opened = false := by
  induction cs with
  | nil => intro c h; cases h
  | cons d ds ih =>
    intro c h
    simp only [closeAll, List.mem_cons] at h
    cases h with
    | inl h => subst h; rfl
    | inr h => exact ih c h

theorem closeAll_no_reader_left (cs : List Conn) : readersLeft (closeAll cs) = 0 := by
  unfold readersLeft
  rw [List.length_eq_zero_iff, List.filter_eq_nil_iff]
  intro c h
  simp [closeAll_closes_every cs c h]

/-- the shape of the source is the one whose loop nothing leaves early -/
theorem registry_loop_visits_all : CoapVerif.Generated.BlockingWaits.registryCloseVisitsAll = true := by decide

/-- **Stop ends every accepted connection**: for every snapshot of the registry — any number of connections, any order,
any of them reporting an error from `Close()` — no reader is left after the registry was closed, so `Serve` returns. -/
theorem stop_ends_every_connection (cs : List Conn) : serveReturns cs = true := by
  simp [serveReturns, registryClose, registry_loop_visits_all, closeAll_no_reader_left]

/-- non-vacuity: three open connections, the first and the third report an error -/
example : serveReturns [⟨true, true⟩, ⟨true, false⟩, ⟨true, true⟩] = true := by decide

/-- What the early-return shape does: a connection that is open behind one whose `Close()` reports an error stays open —
for every prefix and suffix. -/
theorem early_return_leaves_open (pre post : List Conn) (f c : Conn) (hf : f.closeFails = true)
    (hpre : ∀ p ∈ pre, p.closeFails = false) :
    c ∈ closeUntilError (pre ++ f :: c :: post) := by
  induction pre with
  | nil => simp [closeUntilError, Conn.close, hf]
  | cons p ps ih =>
    have hp : p.closeFails = false := hpre p (List.mem_cons_self ..)
    have ih' := ih (fun q hq => hpre q (List.mem_cons_of_mem _ hq))
    simp only [List.cons_append, closeUntilError, Conn.close, hp]
    exact List.mem_cons_of_mem _ ih'

/-- … and then `Serve` does not return: a reader is left in its `Read`, for every such registry. -/
theorem early_return_serve_hangs (pre post : List Conn) (f c : Conn) (hf : f.closeFails = true) (hc : c.opened = true)
    (hpre : ∀ p ∈ pre, p.closeFails = false) :
    0 < readersLeft (closeUntilError (pre ++ f :: c :: post)) := by
  unfold readersLeft
  exact List.length_pos_of_mem (List.mem_filter.mpr ⟨early_return_leaves_open pre post f c hf hpre, by simp [hc]⟩)

/-- the smallest instance -/
theorem early_return_serve_hangs_witness :
    readersLeft (closeUntilError [⟨true, true⟩, ⟨true, false⟩]) = 1 := by decide

section Audit
#print axioms closeAll_length
#print axioms closeAll_closes_every
#print axioms closeAll_no_reader_left
#print axioms registry_loop_visits_all
#print axioms stop_ends_every_connection
#print axioms early_return_leaves_open
#print axioms early_return_serve_hangs
#print axioms early_return_serve_hangs_witness
end Audit

end CoapVerif.Props.C09Registry
