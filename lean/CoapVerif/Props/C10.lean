import CoapVerif.Go.Basic
import CoapVerif.Model.Server
import CoapVerif.Lemmas.Server
/-!
# C10 — Servers stay up and peers stay isolated under arbitrary input   (**partial**)

Statement (properties.jsonl): a server keeps serving for every sequence of well-formed and malformed datagrams, frames
and connection attempts from any number of peers: it never crashes, deadlocks or stops accepting, and messages from one
remote address are handled by one logical connection per (remote, local) address pair in arrival order.  Garbage,
oversize messages, stalled handshakes or the closure of one peer never change what other peers receive, and responses
to a discovery request are delivered only to the receiver registered for their token, each with the connection of the
peer that sent it.

What is proved (datagram server dispatch, `Model/Server.lean`):
* `key_normalisation` — multicast and unspecified local addresses collapse, concrete ones are kept apart;
* `one_conn_per_key` — in every reachable state the peer table holds at most one live connection per key;
* `in_arrival_order` — a logical connection sees the datagrams of its key in arrival order, each once;
* `non_interference` — what the connections of a remote address see (and whether they are closed) is the same as if the
  datagrams, connection attempts and closures of all *other* remote addresses had never happened — for every history,
  well-formed or not;
* `discovery_routing` — a response reaches the receiver of a discovery iff its token is registered, together with the
  connection it arrived on; otherwise the default handler.

Not modelled (hence partial): crash/deadlock freedom of the real process, the accept loop and handshake time-outs of the
stream/DTLS servers, goroutine scheduling — these are observed by the loopback harness (servers under fuzz peers), which
is evidence, not proof.
-/
namespace CoapVerif.Props.C10
open CoapVerif CoapVerif.Model.Server CoapVerif.Spec.Server CoapVerif.Lemmas.Server

/-- **key_normalisation**. -/
theorem key_normalisation (a b : Nat) :
    normLocal (.multicast a) = normLocal (.multicast b) ∧ normLocal (.multicast a) = normLocal .unspecified ∧
    (normLocal (.concrete a) = normLocal (.concrete b) ↔ a = b) ∧ normLocal (.concrete a) ≠ normLocal .unspecified := by
  simp [normLocal]

/-- the model's key is the specification's key -/
theorem key_eq_spec (d : Dgram) : (d.remote, normLocal d.loc) = specKey d := by
  cases d with
  | mk r l w t tok => cases l <;> rfl

/-- at most one live connection per key -/
def OneConnPerKey (s : State) : Prop := ∀ c1 ∈ s.conns, ∀ c2 ∈ s.conns, c1.key = c2.key → c1 = c2

theorem step_one_conn (s : State) (ev : Ev) (h : OneConnPerKey s) : OneConnPerKey (step s ev) := by
  have hfilter : ∀ (q : Conn → Bool), OneConnPerKey { s with conns := s.conns.filter q } := by
    intro q c1 h1 c2 h2 hk
    exact h c1 (List.mem_filter.mp h1).1 c2 (List.mem_filter.mp h2).1 hk
  have happend : ∀ (c : Conn), (∀ x ∈ s.conns, x.key ≠ c.key) → OneConnPerKey { s with conns := s.conns ++ [c] } := by
    intro c hc c1 h1 c2 h2 hk
    simp only [List.mem_append, List.mem_singleton] at h1 h2
    rcases h1 with h1 | h1 <;> rcases h2 with h2 | h2
    · exact h c1 h1 c2 h2 hk
    · subst h2; exact absurd hk (hc c1 h1)
    · subst h1; exact absurd hk.symm (hc c2 h2)
    · subst h1; subst h2; rfl
  cases ev with
  | dgram d =>
    simp only [step]
    cases hl : lookupKey s.conns d.remote d.loc with
    | some c =>
      simp only []
      split
      · -- update in place: keys unchanged
        intro c1 h1 c2 h2 hk
        simp only [List.mem_map] at h1 h2
        obtain ⟨a, ha, rfl⟩ := h1
        obtain ⟨b, hb, rfl⟩ := h2
        have hab : a.key = b.key := by
          by_cases c1 : a.key == c.key <;> by_cases c2 : b.key == c.key <;> simp [c1, c2] at hk <;> simp_all
        have := h a ha b hb hab
        subst this; rfl
      · intro c1 h1 c2 h2 hk
        exact h c1 (List.mem_filter.mp h1).1 c2 (List.mem_filter.mp h2).1 hk
    | none =>
      simp only []
      split
      · apply happend
        intro x hx hk
        -- an entry with the exact key would have been found
        unfold lookupKey at hl
        split at hl
        · cases hl
        · rename_i hf
          exact find_none hf x hx hk
      · intro c1 h1 c2 h2 hk; exact h c1 h1 c2 h2 hk
  | newConn r lis =>
    simp only [step]
    cases hl : lookupKey s.conns r lis with
    | some c => exact h
    | none =>
      apply happend
      intro x hx hk
      unfold lookupKey at hl
      split at hl
      · cases hl
      · rename_i hf
        exact find_none hf x hx hk
  | closePeer r loc =>
    simp only [step]
    cases hl : lookupKey s.conns r loc with
    | some c => intro c1 h1 c2 h2 hk; exact h c1 (List.mem_filter.mp h1).1 c2 (List.mem_filter.mp h2).1 hk
    | none => exact h

/-- **one_conn_per_key**: for every history. -/
theorem one_conn_per_key (evs : List Ev) : OneConnPerKey (run {} evs) := by
  have : ∀ s, OneConnPerKey s → OneConnPerKey (run s evs) := by
    induction evs with
    | nil => intro s h; exact h
    | cons e es ih => intro s h; exact ih _ (step_one_conn s e h)
  exact this {} (by intro c1 h1; simp at h1)

/-- what matters of a state for the remote address `B` -/
def core (B : Nat) (s : State) : List Conn × List Conn := (part B s.conns, part B s.closed)

/-- an event of another remote address leaves `B`'s connections alone -/
theorem step_other (B : Nat) (s : State) (ev : Ev) (h : evRemote ev ≠ B) : core B (step s ev) = core B s := by
  have hmap : ∀ (c : Conn) (f : Conn → Conn), c.key.1 ≠ B → (∀ x, (f x).key = x.key) →
      (∀ x, x.key ≠ c.key → f x = x) → part B (s.conns.map f) = part B s.conns := by
    intro c f hc hk hf
    rw [part_map B _ f hk]
    have : ∀ x ∈ part B s.conns, f x = x := by
      intro x hx
      apply hf
      intro e
      have := (mem_part.mp hx).2
      rw [e] at this
      exact hc this
    rw [List.map_congr_left this]; simp
  have hfil : ∀ (c : Conn), c.key.1 ≠ B → part B (s.conns.filter (fun x => x.key != c.key)) = part B s.conns := by
    intro c hc
    rw [part_filter]
    apply List.filter_eq_self.mpr
    intro x hx
    have := (mem_part.mp hx).2
    have : x.key ≠ c.key := fun e => hc (by rw [← e]; exact this)
    simpa using this
  have happ : ∀ (t : List Conn) (c : Conn), c.key.1 ≠ B → part B (t ++ [c]) = part B t := by
    intro t c hc
    rw [part_append, part_single]
    have : (c.key.1 == B) = false := by simpa using hc
    simp [this]
  cases ev with
  | dgram d =>
    simp only [evRemote] at h
    simp only [step]
    cases hl : lookupKey s.conns d.remote d.loc with
    | some c =>
      have hc : c.key.1 ≠ B := by rw [(lookupKey_some hl).2]; exact h
      simp only []
      split
      · simp only [core]
        rw [hmap c _ hc (by intro x; split <;> rfl) (by
          intro x hx
          have : (x.key == c.key) = false := by simpa using hx
          simp [this])]
      · simp only [core]
        rw [hfil c hc, happ _ c hc]
    | none =>
      simp only []
      split
      · simp only [core]; rw [happ _ _ (by simpa using h)]
      · simp only [core]; rw [happ _ _ (by simpa using h)]
  | newConn r lis =>
    simp only [evRemote] at h
    simp only [step]
    cases hl : lookupKey s.conns r lis with
    | some c => rfl
    | none => simp only [core]; rw [happ _ _ (by simpa using h)]
  | closePeer r loc =>
    simp only [evRemote] at h
    simp only [step]
    cases hl : lookupKey s.conns r loc with
    | some c =>
      have hc : c.key.1 ≠ B := by rw [(lookupKey_some hl).2]; exact h
      simp only [core]
      rw [hfil c hc, happ _ c hc]
    | none => rfl

/-- an event of `B` itself acts on `B`'s part only: states that agree on `B` agree afterwards -/
theorem step_same (B : Nat) (s1 s2 : State) (ev : Ev) (hr : evRemote ev = B) (h : core B s1 = core B s2) :
    core B (step s1 ev) = core B (step s2 ev) := by
  simp only [core, Prod.mk.injEq] at h
  obtain ⟨hc, hcl⟩ := h
  have hlook : ∀ loc, lookupKey s1.conns B loc = lookupKey s2.conns B loc := by
    intro loc; rw [← lookupKey_part B s1.conns, ← lookupKey_part B s2.conns, hc]
  have hfind : ∀ l, find s1.conns (B, l) = find s2.conns (B, l) := by
    intro l; rw [← find_part B s1.conns, ← find_part B s2.conns, hc]
  cases ev with
  | dgram d =>
    simp only [evRemote] at hr
    subst hr
    simp only [step, hlook]
    cases hl : lookupKey s2.conns d.remote d.loc with
    | some c =>
      simp only []
      split
      · simp only [core]
        rw [part_map _ _ _ (by intro x; split <;> rfl), part_map _ _ _ (by intro x; split <;> rfl), hc, hcl]
      · simp only [core]
        rw [part_filter, part_filter, part_append, part_append, hc, hcl]
    | none =>
      simp only []
      split
      · simp only [core]; rw [part_append, part_append, hc, hcl]
      · simp only [core]; rw [part_append, part_append, hc, hcl]
  | newConn r lis =>
    simp only [evRemote] at hr
    subst hr
    simp only [step, hlook]
    cases hl : lookupKey s2.conns r lis with
    | some c => simp only [core, hc, hcl]
    | none => simp only [core]; rw [part_append, part_append, hc, hcl]
  | closePeer r loc =>
    simp only [evRemote] at hr
    subst hr
    simp only [step, hlook]
    cases hl : lookupKey s2.conns r loc with
    | some c => simp only [core]; rw [part_filter, part_filter, part_append, part_append, hc, hcl]
    | none => simp only [core, hc, hcl]

theorem run_core (B : Nat) (evs : List Ev) : ∀ (s1 s2 : State), core B s1 = core B s2 →
    core B (run s1 evs) = core B (run s2 (evs.filter (fun e => evRemote e == B))) := by
  induction evs with
  | nil => intro s1 s2 h; exact h
  | cons e es ih =>
    intro s1 s2 h
    by_cases hr : evRemote e = B
    · have : (evRemote e == B) = true := by simpa using hr
      simp only [run, List.foldl_cons, List.filter_cons, this, if_true]
      exact ih _ _ (step_same B s1 s2 e hr h)
    · have : (evRemote e == B) = false := by simpa using hr
      simp only [run, List.foldl_cons, List.filter_cons, this, Bool.false_eq_true, if_false]
      apply ih
      rw [step_other B s1 e hr]; exact h

/-- **non_interference**: for every history and every remote address `B`, what `B`'s connections have seen and which of
    them are closed is exactly what results from `B`'s own datagrams, connection attempts and closures alone. -/
theorem non_interference (B : Nat) (evs : List Ev) :
    view (run {} evs) B = view (run {} (evs.filter (fun e => evRemote e == B))) B := by
  have := run_core B evs {} {} rfl
  simp only [core, Prod.mk.injEq] at this
  simp only [view, this.1, this.2]

/-- **in_arrival_order**: a well-formed datagram that reaches an existing connection is appended to what that connection
    has seen (and to no other connection). -/
theorem in_arrival_order (s : State) (d : Dgram) (c : Conn) (hw : d.wellFormed = true)
    (hl : lookupKey s.conns d.remote d.loc = some c) (h1 : OneConnPerKey s) :
    (step s (.dgram d)).conns = s.conns.map (fun x => if x = c then { x with seen := x.seen ++ [d.tag] } else x) := by
  simp only [step, hl, hw, if_true]
  apply List.map_congr_left
  intro x hx
  have hc := (lookupKey_some hl).1
  by_cases hk : x.key = c.key
  · have : x = c := h1 x hx c hc hk
    subst this; simp
  · have h2 : x ≠ c := fun e => hk (by rw [e])
    have : (x.key == c.key) = false := by simpa using hk
    simp [this, h2]

/-- **discovery_routing**. -/
theorem discovery_routing (registered : List Nat) (r : Resp) :
    (route registered r = .toReceiver r.token r.conn r.tag ↔ r.token ∈ registered) ∧
    (route registered r = .toDefault r.conn r.tag ↔ r.token ∉ registered) := by
  unfold route
  by_cases h : registered.contains r.token = true
  · have hm : r.token ∈ registered := by simpa using h
    simp [h, hm]
  · have h' : registered.contains r.token = false := by simpa using h
    have hm : r.token ∉ registered := by simpa using h'
    simp [h', hm]

/-! ### discovery registration: a running discovery keeps its receiver whatever other calls do -/

/-- at most one registered discovery per token -/
def UniqueTok (s : List (Nat × Nat)) : Prop := s.Pairwise (fun a b => a.2 ≠ b.2)

theorem dstep_start (s : List (Nat × Nat)) (id tok : Nat) :
    dstep s (.start id tok) = if s.any (fun e => e.2 == tok) then (s, .refused) else (s ++ [(id, tok)], .registered) := rfl
theorem dstep_finish (s : List (Nat × Nat)) (id : Nat) : dstep s (.finish id) = (s.filter (fun e => e.1 != id), .done) := rfl
theorem dstep_resp (s : List (Nat × Nat)) (r : Resp) :
    dstep s (.resp r) = match s.find? (fun e => e.2 == r.token) with
      | some e => (s, .toReceiverOf e.1 r.conn r.tag)
      | none => (s, .toDefault r.conn r.tag) := rfl

theorem dstep_unique (s : List (Nat × Nat)) (ev : DEv) (h : UniqueTok s) : UniqueTok (dstep s ev).1 := by
  unfold UniqueTok at *
  cases ev with
  | start id tok =>
    rw [dstep_start]
    by_cases ha : s.any (fun e => e.2 == tok) = true
    · simp only [ha, if_true]; exact h
    · simp only [ha, Bool.false_eq_true, if_false]
      rw [List.pairwise_append]
      refine ⟨h, List.pairwise_singleton _ _, ?_⟩
      intro a ha' b hb
      simp only [List.mem_singleton] at hb
      subst hb
      intro e
      apply ha
      simp only [List.any_eq_true, beq_iff_eq]
      exact ⟨a, ha', e⟩
  | finish id => rw [dstep_finish]; exact List.Pairwise.filter _ h
  | resp r => rw [dstep_resp]; split <;> exact h

theorem find_owner (s : List (Nat × Nat)) (id tok : Nat) (hu : UniqueTok s) (hm : (id, tok) ∈ s) :
    s.find? (fun e => e.2 == tok) = some (id, tok) := by
  induction s with
  | nil => cases hm
  | cons a t ih =>
    unfold UniqueTok at hu
    rw [List.pairwise_cons] at hu
    rcases List.mem_cons.mp hm with rfl | hm'
    · simp
    · have hne : a.2 ≠ tok := hu.1 (id, tok) hm'
      have : (a.2 == tok) = false := by simpa using hne
      simp only [List.find?_cons, this]
      exact ih hu.2 hm'

/-- **A refused call changes nothing**: a `DiscoveryRequest` whose token belongs to a running discovery is refused and
    the registration table is left exactly as it was. -/
theorem refused_start_changes_nothing (s : List (Nat × Nat)) (id id' tok : Nat) (hm : (id, tok) ∈ s) :
    dstep s (.start id' tok) = (s, .refused) := by
  rw [dstep_start]
  have : s.any (fun e => e.2 == tok) = true := by
    simp only [List.any_eq_true, beq_iff_eq]; exact ⟨(id, tok), hm, rfl⟩
  simp [this]

/-- **The registration of a running discovery is stable**: whatever other discoveries start (also with the same
    token), finish or receive in the meantime, as long as discovery `id` itself has not finished it stays registered. -/
theorem owner_stable (evs : List DEv) : ∀ (s : List (Nat × Nat)) (id tok : Nat), UniqueTok s → (id, tok) ∈ s →
    (∀ ev ∈ evs, ev ≠ .finish id) → UniqueTok (drun s evs) ∧ (id, tok) ∈ drun s evs := by
  induction evs with
  | nil => intro s id tok hu hm _; exact ⟨hu, hm⟩
  | cons ev evs ih =>
    intro s id tok hu hm hne
    have hu' := dstep_unique s ev hu
    have hm' : (id, tok) ∈ (dstep s ev).1 := by
      cases ev with
      | start id' tok' =>
        rw [dstep_start]
        by_cases ha : s.any (fun e => e.2 == tok') = true
        · simp only [ha, if_true]; exact hm
        · simp only [ha, Bool.false_eq_true, if_false]; exact List.mem_append_left _ hm
      | finish id' =>
        have : id' ≠ id := by
          intro e; exact hne (.finish id') (List.mem_cons_self) (by rw [e])
        rw [dstep_finish]
        simp only [List.mem_filter, bne_iff_ne, ne_eq]
        exact ⟨hm, fun e => this e.symm⟩
      | resp r => rw [dstep_resp]; split <;> exact hm
    have := ih (dstep s ev).1 id tok hu' hm' (fun e he => hne e (List.mem_cons_of_mem _ he))
    simpa [drun] using this

/-- **Responses go to the receiver registered for their token** (the conclusion of C10's last clause): after any
    history in which discovery `id` (token `tok`) registered and has not finished, a response carrying `tok` is handed to
    the receiver of `id`, with the connection of the peer that sent it; a response whose token no running discovery
    registered goes to the server's ordinary handler. -/
theorem discovery_delivery (evs : List DEv) (s : List (Nat × Nat)) (id tok : Nat) (r : Resp) (hu : UniqueTok s)
    (hm : (id, tok) ∈ s) (hne : ∀ ev ∈ evs, ev ≠ .finish id) (ht : r.token = tok) :
    (dstep (drun s evs) (.resp r)).2 = .toReceiverOf id r.conn r.tag := by
  obtain ⟨hu', hm'⟩ := owner_stable evs s id tok hu hm hne
  rw [dstep_resp, ht, find_owner _ id tok hu' hm']

theorem unregistered_to_default (s : List (Nat × Nat)) (r : Resp) (h : ∀ e ∈ s, e.2 ≠ r.token) :
    (dstep s (.resp r)).2 = .toDefault r.conn r.tag := by
  have : s.find? (fun e => e.2 == r.token) = none := by
    rw [List.find?_eq_none]; intro e he; simpa using h e he
  rw [dstep_resp, this]

/-- Non-vacuity: discovery 1 (token 7) runs; discovery 2 with the same token is refused and ends; the response with token 7
    still reaches receiver 1; a response with token 8 goes to the default handler; after discovery 1 ends so does token 7. -/
example : dtrace [] [.start 1 7, .start 2 7, .finish 2, .resp ⟨7, 40, 0⟩, .resp ⟨8, 41, 1⟩, .finish 1, .resp ⟨7, 40, 2⟩]
    = [.registered, .refused, .done, .toReceiverOf 1 40 0, .toDefault 41 1, .done, .toDefault 40 2] := by decide

/-! ### the peer table of one listener address meets its specification -/

/-- the model's event for a specification event on a listener bound to the concrete address `a` -/
def onAddr (a : Nat) : SEv → Ev
  | .dgram r wf => .dgram ⟨r, .concrete a, wf, 0, 0⟩
  | .newConn r => .newConn r (.concrete a)
  | .closePeer r => .closePeer r (.concrete a)

def TableInv (a : Nat) (s : State) (live : List Nat) : Prop :=
  s.conns.map (·.key) = live.map (fun r => (r, some a)) ∧ live.Nodup

theorem tbl_find_mem {a : Nat} {s : State} {live : List Nat} (h : TableInv a s live) {r : Nat} (hr : r ∈ live) :
    ∃ c, find s.conns (r, some a) = some c ∧ c.key = (r, some a) := by
  cases hf : find s.conns (r, some a) with
  | some c => exact ⟨c, rfl, (find_some hf).2⟩
  | none =>
    exfalso
    have hk : (r, some a) ∈ s.conns.map (·.key) := by rw [h.1]; exact List.mem_map.mpr ⟨r, hr, rfl⟩
    obtain ⟨c, hc, hck⟩ := List.mem_map.mp hk
    exact find_none hf c hc hck

theorem tbl_find_not_mem {a : Nat} {s : State} {live : List Nat} (h : TableInv a s live) {r : Nat} (hr : r ∉ live) :
    find s.conns (r, some a) = none ∧ find s.conns (r, none) = none := by
  constructor
  · cases hf : find s.conns (r, some a) with
    | none => rfl
    | some c =>
      exfalso
      obtain ⟨hc, hk⟩ := find_some hf
      have : (r, some a) ∈ s.conns.map (·.key) := List.mem_map.mpr ⟨c, hc, hk⟩
      rw [h.1] at this
      obtain ⟨x, hx, hxe⟩ := List.mem_map.mp this
      simp only [Prod.mk.injEq] at hxe
      exact hr (hxe.1 ▸ hx)
  · cases hf : find s.conns (r, none) with
    | none => rfl
    | some c =>
      exfalso
      obtain ⟨hc, hk⟩ := find_some hf
      have : (r, (none : Option Nat)) ∈ s.conns.map (·.key) := List.mem_map.mpr ⟨c, hc, hk⟩
      rw [h.1] at this
      obtain ⟨x, _, hxe⟩ := List.mem_map.mp this
      simp at hxe

theorem tbl_lookup {a : Nat} {s : State} {live : List Nat} (h : TableInv a s live) (r : Nat) :
    (r ∈ live → ∃ c, lookupKey s.conns r (.concrete a) = some c ∧ c.key = (r, some a)) ∧
    (r ∉ live → lookupKey s.conns r (.concrete a) = none) := by
  constructor
  · intro hr
    obtain ⟨c, hc, hk⟩ := tbl_find_mem h hr
    exact ⟨c, by simp [lookupKey, normLocal, hc], hk⟩
  · intro hr
    obtain ⟨h1, h2⟩ := tbl_find_not_mem h hr
    simp [lookupKey, normLocal, h1, h2]

theorem tbl_filter {a : Nat} {s : State} {live : List Nat} (h : TableInv a s live) (r : Nat) :
    (s.conns.filter (fun x => x.key != (r, some a))).map (·.key) = (live.filter (· != r)).map (fun r => (r, some a)) := by
  have e1 : (s.conns.filter (fun x => x.key != (r, some a))).map (·.key)
      = (s.conns.map (·.key)).filter (fun k => k != (r, some a)) := by
    rw [List.filter_map]; rfl
  rw [e1, h.1, List.filter_map]
  congr 1
  apply List.filter_congr
  intro x _
  by_cases e : x = r
  · subst e; show ((x, some a) != (x, some a)) = (x != x); simp
  · have h1 : ((x, some a) != (r, some a)) = true := by
      rw [bne_iff_ne]; exact fun h' => e (Prod.mk.inj h').1
    have h2 : (x != r) = true := by rw [bne_iff_ne]; exact e
    show ((x, some a) != (r, some a)) = (x != r)
    rw [h1, h2]

theorem table_step (a : Nat) (s : State) (live : List Nat) (ev : SEv) (h : TableInv a s live) :
    TableInv a (step s (onAddr a ev)) (liveStep live ev) := by
  cases ev with
  | dgram r wf =>
    simp only [onAddr, step, liveStep]
    by_cases hr : r ∈ live
    · obtain ⟨c, hl, hk⟩ := (tbl_lookup h r).1 hr
      simp only [hl]
      cases wf with
      | true =>
        have hc : live.contains r = true := by simpa using hr
        simp only [if_true, hc]
        refine ⟨?_, h.2⟩
        rw [← h.1, List.map_map]
        apply List.map_congr_left
        intro x _
        simp only [Function.comp]
        split <;> rfl
      | false =>
        simp only [Bool.false_eq_true, if_false]
        refine ⟨?_, h.2.filter _⟩
        rw [hk]; exact tbl_filter h r
    · have hl := (tbl_lookup h r).2 hr
      simp only [hl]
      cases wf with
      | true =>
        have hc : live.contains r = false := by simpa using hr
        simp only [if_true, hc, Bool.false_eq_true, if_false]
        refine ⟨by simp [h.1, normLocal], ?_⟩
        exact List.nodup_append.mpr ⟨h.2, (List.pairwise_singleton _ r), by
          intro x hx y hy; simp only [List.mem_singleton] at hy; subst hy; intro e; exact hr (e ▸ hx)⟩
      | false =>
        simp only [Bool.false_eq_true, if_false]
        have : live.filter (· != r) = live := by
          apply List.filter_eq_self.mpr
          intro x hx; simp only [bne_iff_ne, ne_eq]; intro e; exact hr (e ▸ hx)
        rw [this]; exact h
  | newConn r =>
    simp only [onAddr, step, liveStep]
    by_cases hr : r ∈ live
    · obtain ⟨c, hl, _⟩ := (tbl_lookup h r).1 hr
      have hc : live.contains r = true := by simpa using hr
      simp only [hl, hc, if_true]; exact h
    · have hl := (tbl_lookup h r).2 hr
      have hc : live.contains r = false := by simpa using hr
      simp only [hl, hc, Bool.false_eq_true, if_false]
      refine ⟨by simp [h.1, normLocal], ?_⟩
      exact List.nodup_append.mpr ⟨h.2, (List.pairwise_singleton _ r), by
        intro x hx y hy; simp only [List.mem_singleton] at hy; subst hy; intro e; exact hr (e ▸ hx)⟩
  | closePeer r =>
    simp only [onAddr, step, liveStep]
    by_cases hr : r ∈ live
    · obtain ⟨c, hl, hk⟩ := (tbl_lookup h r).1 hr
      simp only [hl]
      refine ⟨?_, h.2.filter _⟩
      rw [hk]; exact tbl_filter h r
    · have hl := (tbl_lookup h r).2 hr
      simp only [hl]
      have : live.filter (· != r) = live := by
        apply List.filter_eq_self.mpr
        intro x hx; simp only [bne_iff_ne, ne_eq]; intro e; exact hr (e ▸ hx)
      rw [this]; exact h

/-- **table_meets_spec**: on a listener bound to one concrete address, after every history of well-formed and malformed
    datagrams, server-initiated connections and closes from any peers, the peers that have an entry in the model's peer
    table are exactly those the specification names (latest event a well-formed datagram or a server-initiated
    connection), each once, in the order their entries were created.  (`Spec.Server.liveSpec` is also the judge of the
    `table` correspondence runs against the real server.) -/
theorem table_meets_spec (a : Nat) (evs : List SEv) :
    (run {} (evs.map (onAddr a))).conns.map (·.key.1) = liveSpec evs := by
  have key : ∀ (evs : List SEv) (s : State) (live : List Nat), TableInv a s live →
      TableInv a (run s (evs.map (onAddr a))) (evs.foldl liveStep live) := by
    intro evs
    induction evs with
    | nil => intro s live h; exact h
    | cons e es ih =>
      intro s live h
      simp only [List.map_cons, run, List.foldl_cons]
      exact ih _ _ (table_step a s live e h)
  have h := key evs {} [] ⟨rfl, List.nodup_nil⟩
  have := congrArg (List.map Prod.fst) h.1
  simp only [List.map_map] at this
  have e2 : (Prod.fst ∘ fun (r : Nat) => (r, some a)) = id := by funext r; rfl
  rw [e2, List.map_id] at this
  exact this

example : liveSpec [.dgram 1 true, .dgram 2 true, .dgram 1 false, .dgram 1 true, .newConn 3, .dgram 3 false, .closePeer 2, .dgram 9 false]
    = [1] := by decide

/-! Non-vacuity: peer 1 sends three datagrams (one to a multicast group), peer 2 sends garbage in between and gets closed. -/
example : view (run {} [.dgram ⟨1, .concrete 9, true, 10, 0⟩, .dgram ⟨2, .unspecified, false, 20, 0⟩,
    .dgram ⟨1, .concrete 9, true, 11, 0⟩, .dgram ⟨2, .unspecified, true, 21, 0⟩, .dgram ⟨2, .unspecified, false, 22, 0⟩,
    .dgram ⟨1, .multicast 7, true, 12, 0⟩]) 1
    = ([], [⟨(1, some 9), [10, 11]⟩, ⟨(1, none), [12]⟩]) := by decide

end CoapVerif.Props.C10

section Audit
open CoapVerif.Props.C10
#print axioms key_normalisation
#print axioms key_eq_spec
#print axioms step_one_conn
#print axioms one_conn_per_key
#print axioms step_other
#print axioms step_same
#print axioms run_core
#print axioms non_interference
#print axioms in_arrival_order
#print axioms discovery_routing
#print axioms tbl_find_mem
#print axioms tbl_find_not_mem
#print axioms tbl_lookup
#print axioms tbl_filter
#print axioms table_step
#print axioms table_meets_spec
#print axioms dstep_start
#print axioms dstep_finish
#print axioms dstep_resp
#print axioms find_owner
#print axioms dstep_unique
#print axioms refused_start_changes_nothing
#print axioms owner_stable
#print axioms discovery_delivery
#print axioms unregistered_to_default
end Audit
