import CoapVerif.Model.StreamServerAccept
import CoapVerif.Props.C10Streams
/-!
C10 (eleventh seeded round, C10-W): "A server keeps serving for every sequence of well-formed and malformed datagrams, frames
and connection attempts from any number of peers: it never crashes, deadlocks or stops accepting …"

Connection attempts that fail inside `Accept` (EMFILE / ENFILE, ECONNABORTED, …) are part of "every sequence of … connection
attempts".  For ALL histories (any number of failed Accepts, at any positions, however far apart):

* `accept_failures_transparent` - the server's state (served connections, registry, stopped) after a history is the state after
  the same history without its failed Accepts;
* `any_number_of_failures` / `accepts_after_failures` - after n failed Accepts, for every n, the next connection is accepted
  and served exactly as if none had failed (no quantity that grows over the server's life enters);
* `still_accepting` - the accept loop is back in `Accept` after every failure unless the server was stopped;
* `live_meets_spec_with_failures` - `Props/C10Streams.live_meets_spec` for histories with failed Accepts.

What the model does not contain is TIME: that the code's `continue` reaches `Accept` without a pause is observed on the real
servers (`streams … f …`: back in Accept within 2 s after the k-th failure, k up to 40 and in series `f*<n>`), not proved.
-/
namespace CoapVerif.Props.C10Accept
open CoapVerif.Spec.StreamServer CoapVerif.Model.StreamServer CoapVerif.Model.StreamServerAccept
open CoapVerif.Generated.ConnRegistry (RegKey)
open CoapVerif.Props.C10Streams (noStop)

theorem accept_failures_transparent (k : RegKey) (evs : List AEv) :
    ∀ s : AState, (arun k s evs).srv = run k s.srv (strip evs) := by
  induction evs with
  | nil => intro s; rfl
  | cons e t ih =>
    intro s
    cases e with
    | ev e => simp only [arun, List.foldl_cons, strip, run] ; exact ih (astep k s (.ev e))
    | acceptFail => simp only [arun, List.foldl_cons, strip] ; exact ih (astep k s .acceptFail)

/-- the failures are counted (the model does keep the quantity; nothing reads it) -/
theorem failures_counted (k : RegKey) (evs : List AEv) :
    ∀ s : AState, (arun k s evs).failures = s.failures + evs.count .acceptFail := by
  induction evs with
  | nil => intro s; rfl
  | cons e t ih =>
    intro s
    cases e with
    | ev e =>
      have := ih (astep k s (.ev e))
      simp only [arun, List.foldl_cons] at this ⊢
      rw [this]
      simp [astep]
    | acceptFail =>
      have := ih (astep k s .acceptFail)
      simp only [arun, List.foldl_cons] at this ⊢
      rw [this]
      simp [astep]
      omega

/-- **any number of failed Accepts changes nothing** -/
theorem any_number_of_failures (k : RegKey) (s : AState) (n : Nat) :
    (arun k s (List.replicate n .acceptFail)).srv = s.srv := by
  rw [accept_failures_transparent]
  have : strip (List.replicate n AEv.acceptFail) = [] := by
    induction n with
    | zero => rfl
    | succ n ih => simp [List.replicate_succ, strip, ih]
  rw [this]; rfl

/-- after n failed Accepts - for every n - a connection attempt of a new peer is accepted and served -/
theorem accepts_after_failures (k : RegKey) (s : AState) (n c r l : Nat) (hrun : s.srv.stopped = false)
    (hfresh : s.srv.live.any (fun x => x.id == c) = false) :
    (arun k s (List.replicate n .acceptFail ++ [.ev (.opn c r l)])).srv.live = s.srv.live ++ [⟨c, r, l⟩] := by
  have h1 : arun k s (List.replicate n .acceptFail ++ [.ev (.opn c r l)])
      = astep k (arun k s (List.replicate n .acceptFail)) (.ev (.opn c r l)) := by
    simp [arun, List.foldl_append]
  rw [h1]
  simp only [astep, any_number_of_failures, step, hrun, hfresh]
  simp

theorem still_accepting (k : RegKey) (s : AState) : accepting (astep k s .acceptFail) = accepting s := rfl

theorem openSpecA_strip (evs : List AEv) : openSpecA evs = openSpec (strip evs) := by
  have gen : ∀ (t : List SpecConn), evs.foldl openStepA t = (strip evs).foldl openStep t := by
    induction evs with
    | nil => intro t; rfl
    | cons e tl ih =>
      intro t
      cases e with
      | ev e =>
        simp only [List.foldl_cons, strip, openStepA]
        exact ih _
      | acceptFail =>
        simp only [List.foldl_cons, strip, openStepA]
        exact ih _
  exact gen []

/-- the connections the server serves are exactly those accepted and not closed by their own peer - failed Accepts between
    them, any number of them, make no difference -/
theorem live_meets_spec_with_failures (k : RegKey) (evs : List AEv) (he : (strip evs).all noStop = true) :
    (arun k {} evs).srv.live = (openSpecA evs).map (·.conn) := by
  rw [accept_failures_transparent, openSpecA_strip evs]
  exact CoapVerif.Props.C10Streams.live_meets_spec k (strip evs) he

/-- non-vacuity: fourteen isolated failures, each followed by a peer that connects and hangs up, then one more peer -/
example : (arun .connection {} ((List.range 14).flatMap (fun i => [.acceptFail, .ev (.opn i 1 1), .ev (.cls i)])
      ++ [.acceptFail, .ev (.opn 99 2 1)])).srv.live = [⟨99, 2, 1⟩] := by decide

example : (arun .connection {} (List.replicate 40 .acceptFail ++ [.ev (.opn 1 1 1)])).failures = 40 := by decide

section Audit
#print axioms accept_failures_transparent
#print axioms failures_counted
#print axioms any_number_of_failures
#print axioms accepts_after_failures
#print axioms still_accepting
#print axioms openSpecA_strip
#print axioms live_meets_spec_with_failures
end Audit

end CoapVerif.Props.C10Accept
