import CoapVerif.Model.StreamServer
/-!
# C10 on the connection-oriented servers: the registry keyed by the remote address only

Statement (properties.jsonl, C10): "A server keeps serving for every sequence of well-formed and malformed datagrams, frames
and connection attempts from any number of peers: it never crashes, deadlocks or stops accepting, and messages from one
remote address are handled by one logical connection per (remote, local) address pair in arrival order.  Garbage, oversize
messages, stalled handshakes or the closure of one peer never change what other peers receive, …"

`Model/StreamServer.lean` says which key each server uses; for the stream / DTLS servers' registry the key is a regenerated
fact (`Generated/ConnRegistry.lean`) and the model has both branches.  Here, for ALL histories of accepted / closed
connections, requests, housekeeping passes (no bound on their number or on the addresses):

* **whatever the key** - `live_meets_spec`: the connections a tcp/dtls server is serving are exactly the ones that were
  accepted and not closed by their own peer: two connections with equal remote and different local address are two logical
  connections, the arrival or the end of one never ends the other (the registry is not consulted for handling messages).
* **registry keyed by the connection** (the code since b69b0e7; section `Identity`) - `registry_is_open_set`: the registry
  holds exactly the open connections; hence `every_open_registered`, `registered_iff_open` (a connection is unregistered
  exactly at its own end; no arrival or end of ANOTHER connection changes its registration: `registration_independent`),
  `every_open_visited` (every housekeeping pass visits every open connection and nothing else), `stop_ends_serve` (Stop
  closes every connection and Serve returns) - no restriction on shared remote addresses.
* **registry keyed by the remote address only** (the code before, F40, and the world of seeded C10-T; section `RemoteOnly`) -
  `unshared_registered`, `unshared_visited`, `stop_ends_serve_partial` hold only for connections that never shared their
  remote address with another open connection; section `DoesNotHold` has the concrete witnesses of what fails: only the
  later of two connections is registered, the end of either unregisters both, an unregistered connection is never visited
  by housekeeping, is not closed by Stop, and `Serve` does not return while its peer keeps it open.
-/
namespace CoapVerif.Props.C10Streams
open CoapVerif.Spec.StreamServer CoapVerif.Model.StreamServer
open CoapVerif.Generated.ConnRegistry (RegKey)

def noStop : Ev → Bool
  | .stop => false
  | _ => true

theorem cls_live (k : RegKey) (s : State) (c : Nat) : (step k s (.cls c)).live = s.live.filter (fun y => y.id != c) := by
  simp only [step]
  split
  · rfl
  · rename_i h
    rw [List.find?_eq_none] at h
    symm
    rw [List.filter_eq_self]
    intro a ha
    have := h a ha
    simp only [bne_iff_ne, ne_eq]
    intro hc
    apply this
    simp [hc]

/-! ### whatever the registry's key: who is being served -/

structure LiveInv (s : State) (t : List SpecConn) : Prop where
  running : s.stopped = false
  live : s.live = t.map (·.conn)

theorem live_step (k : RegKey) (s : State) (t : List SpecConn) (h : LiveInv s t) (e : Ev) (he : noStop e = true) :
    LiveInv (step k s e) (openStep t e) := by
  obtain ⟨hrun, hlive⟩ := h
  cases e with
  | stop => simp [noStop] at he
  | req c => exact ⟨hrun, hlive⟩
  | sweep => exact ⟨hrun, hlive⟩
  | opn c r l =>
    have hany : s.live.any (fun x => x.id == c) = t.any (fun x => x.conn.id == c) := by
      rw [hlive, List.any_map]; rfl
    simp only [step, openStep, hrun, Bool.false_or, hany]
    by_cases hc : t.any (fun x => x.conn.id == c) = true
    · simp only [hc, if_true]
      exact ⟨hrun, hlive⟩
    · simp only [hc, if_false, Bool.false_eq_true]
      refine ⟨rfl, ?_⟩
      simp only [hlive, List.map_append, List.map_map, List.map_cons, List.map_nil]
      congr 1
      apply List.map_congr_left
      intro a _
      simp only [Function.comp]
      split <;> rfl
  | cls c =>
    refine ⟨?_, ?_⟩
    · simp only [step]; split <;> exact hrun
    · rw [cls_live k s c, hlive]
      simp only [openStep, List.filter_map]
      rfl

theorem live_run (k : RegKey) (s : State) (t : List SpecConn) (h : LiveInv s t) (evs : List Ev)
    (he : evs.all noStop = true) : LiveInv (run k s evs) (evs.foldl openStep t) := by
  induction evs generalizing s t with
  | nil => exact h
  | cons e es ih =>
    simp only [List.all_cons, Bool.and_eq_true] at he
    exact ih (step k s e) (openStep t e) (live_step k s t h e he.1) he.2

/-- **Whatever the key.**  For every history of accepted connections (any remote / local addresses, equal remotes included),
    requests, closures and housekeeping passes: the connections the server is serving are exactly those that were accepted and
    not closed by their own peer. -/
theorem live_meets_spec (k : RegKey) (evs : List Ev) (he : evs.all noStop = true) :
    (run k {} evs).live = (openSpec evs).map (·.conn) :=
  (live_run k {} [] ⟨rfl, rfl⟩ evs he).live

example : (run .connection {} [.opn 1 1 1, .opn 2 1 2, .req 1, .cls 2, .opn 3 1 2, .sweep]).live = [⟨1, 1, 1⟩, ⟨3, 1, 2⟩] := by decide

/-! ### registry keyed by the connection (the code since b69b0e7) -/
section Identity

def idEntry (x : SConn) : Nat × Nat := (x.id, x.id)

theorem step_running (k : RegKey) (s : State) (e : Ev) (hrun : s.stopped = false) (he : noStop e = true) :
    (step k s e).stopped = false := by
  cases e with
  | stop => simp [noStop] at he
  | req c => exact hrun
  | sweep => exact hrun
  | opn c r l => simp only [step]; split <;> exact hrun
  | cls c => simp only [step]; split <;> exact hrun

/-- the registry is the list of the connections being served -/
theorem reg_step (s : State) (hrun : s.stopped = false) (h : s.reg = s.live.map idEntry) (e : Ev) (he : noStop e = true) :
    (step .connection s e).reg = (step .connection s e).live.map idEntry := by
  cases e with
  | stop => simp [noStop] at he
  | req c => exact h
  | sweep => exact h
  | opn c r l =>
    simp only [step, hrun, Bool.false_or]
    by_cases hc : s.live.any (fun x => x.id == c) = true
    · simp only [hc, if_true]; exact h
    · simp only [hc, if_false, Bool.false_eq_true, regStore, regKeyOf, List.map_append, List.map_cons, List.map_nil, idEntry]
      congr 1
      rw [h, List.filter_eq_self]
      intro a ha
      rw [List.mem_map] at ha
      obtain ⟨x, hx, rfl⟩ := ha
      simp only [idEntry, bne_iff_ne, ne_eq]
      intro hxc
      apply hc
      rw [List.any_eq_true]
      exact ⟨x, hx, by simp [hxc]⟩
  | cls c =>
    rw [cls_live]
    simp only [step]
    split
    · rename_i x hf
      have hxc := List.find?_some hf
      simp only [beq_iff_eq] at hxc
      simp only [regDelete, regKeyOf, h, List.filter_map, hxc]
      rfl
    · rename_i hf
      rw [h]
      congr 1
      symm
      rw [List.filter_eq_self]
      intro a ha
      rw [List.find?_eq_none] at hf
      have := hf a ha
      simp only [bne_iff_ne, ne_eq]
      intro hc
      apply this
      simp [hc]

theorem reg_run (s : State) (hrun : s.stopped = false) (h : s.reg = s.live.map idEntry) (evs : List Ev)
    (he : evs.all noStop = true) : (run .connection s evs).reg = (run .connection s evs).live.map idEntry := by
  induction evs generalizing s with
  | nil => exact h
  | cons e es ih =>
    simp only [List.all_cons, Bool.and_eq_true] at he
    exact ih (step .connection s e) (step_running .connection s e hrun he.1) (reg_step s hrun h e he.1) he.2

/-- **The registry holds exactly the open connections**, for every history -/
theorem registry_is_open_set (evs : List Ev) (he : evs.all noStop = true) :
    (run .connection {} evs).reg = (openSpec evs).map (fun x => (x.conn.id, x.conn.id)) := by
  rw [reg_run {} rfl rfl evs he, live_meets_spec .connection evs he, List.map_map]
  rfl

/-- a connection is registered exactly while it is open: from its acceptance to its own end -/
theorem registered_iff_open (evs : List Ev) (he : evs.all noStop = true) (c : Nat) :
    registered (run .connection {} evs) c = (openSpec evs).any (fun x => x.conn.id == c) := by
  simp only [registered, registry_is_open_set evs he, List.any_map]
  rfl

theorem every_open_registered (evs : List Ev) (he : evs.all noStop = true) (x : SpecConn) (hx : x ∈ openSpec evs) :
    registered (run .connection {} evs) x.conn.id = true := by
  rw [registered_iff_open evs he, List.any_eq_true]
  exact ⟨x, hx, by simp⟩

/-- the arrival, the requests or the end of ANOTHER connection (and housekeeping) never change a connection's registration:
    only its own acceptance and its own end do -/
theorem registration_independent (evs : List Ev) (e : Ev) (he : (evs ++ [e]).all noStop = true) (c : Nat)
    (hopn : ∀ r l, e ≠ .opn c r l) (hcls : e ≠ .cls c) :
    registered (run .connection {} (evs ++ [e])) c = registered (run .connection {} evs) c := by
  have he' : evs.all noStop = true := by
    simp only [List.all_append, Bool.and_eq_true] at he; exact he.1
  rw [registered_iff_open _ he, registered_iff_open _ he']
  simp only [openSpec, List.foldl_append, List.foldl_cons, List.foldl_nil]
  generalize evs.foldl openStep [] = t
  cases e with
  | stop => simp [noStop] at he
  | req _ => rfl
  | sweep => rfl
  | opn c' r l =>
    have hne : c' ≠ c := fun h => hopn r l (by rw [h])
    simp only [openStep]
    split
    · rfl
    · simp only [List.any_append, List.any_map, List.any_cons, List.any_nil, Bool.or_false]
      have : (c' == c) = false := by simpa using hne
      rw [this, Bool.or_false]
      congr 1
      funext x
      simp only [Function.comp]
      split <;> rfl
  | cls c' =>
    have hne : c' ≠ c := fun h => hcls (by rw [h])
    simp only [openStep, List.any_filter]
    congr 1
    funext x
    by_cases hx : x.conn.id = c
    · simp [hx, Ne.symm hne]
    · simp [hx]

/-- every housekeeping pass visits every open connection, and nothing else -/
theorem every_open_visited (evs : List Ev) (he : evs.all noStop = true) :
    out (run .connection {} evs) (step .connection (run .connection {} evs) .sweep) .sweep
      = .visited ((openSpec evs).map (·.conn.id)) := by
  simp only [out, step]
  congr 1
  rw [registry_is_open_set evs he, live_meets_spec .connection evs he, List.map_map]
  show List.filter _ (List.map (fun x => x.conn.id) (openSpec evs)) = _
  rw [List.filter_eq_self]
  intro c hc
  rw [List.mem_map] at hc
  obtain ⟨x, hx, rfl⟩ := hc
  rw [List.any_map, List.any_eq_true]
  exact ⟨x, hx, by simp⟩

/-- `Stop` closes every open connection and `Serve` returns - for every history -/
theorem stop_ends_serve (evs : List Ev) (he : evs.all noStop = true) :
    out (run .connection {} evs) (step .connection (run .connection {} evs) .stop) .stop = .serveEnded true
    ∧ (step .connection (run .connection {} evs) .stop).live = [] := by
  have hall : ∀ x ∈ (run .connection {} evs).live, registered (run .connection {} evs) x.id = true := by
    intro c hc
    rw [live_meets_spec .connection evs he, List.mem_map] at hc
    obtain ⟨x, hx, rfl⟩ := hc
    exact every_open_registered evs he x hx
  refine ⟨?_, ?_⟩
  · simp only [out]
    congr 1
    rw [List.all_eq_true]
    exact hall
  · simp only [step]
    rw [List.filter_eq_nil_iff]
    intro a ha
    simp [hall a ha]

/-! non-vacuity, and the histories of F40 in this branch -/
example : (run .connection {} [.opn 1 1 1, .opn 2 1 2]).reg = [(1, 1), (2, 2)] := by decide
example : out (run .connection {} [.opn 1 1 1, .opn 2 1 2]) (run .connection {} [.opn 1 1 1, .opn 2 1 2]) .sweep = .visited [1, 2] := by decide
example : (run .connection {} [.opn 1 1 1, .opn 2 1 2, .cls 1]).reg = [(2, 2)] := by decide
example : out (run .connection {} [.opn 1 1 1, .opn 2 1 2]) (step .connection (run .connection {} [.opn 1 1 1, .opn 2 1 2]) .stop) .stop
    = .serveEnded true := by decide

end Identity

/-! ### registry keyed by the remote address only (before b69b0e7; seeded C10-T's world) -/

/-- the model state `s` and the specification's open connections `t` belong together (registry keyed by the remote address) -/
structure Inv (s : State) (t : List SpecConn) : Prop where
  running : s.stopped = false
  live : s.live = t.map (·.conn)
  reg : ∀ x ∈ t, x.shared = false → (x.conn.remote, x.conn.id) ∈ s.reg
  alone : ∀ x ∈ t, x.shared = false → ∀ y ∈ t, y.conn.remote = x.conn.remote → y = x

theorem inv_step (s : State) (t : List SpecConn) (h : Inv s t) (e : Ev) (he : noStop e = true) :
    Inv (step .remoteAddr s e) (openStep t e) := by
  obtain ⟨hrun, hlive, hreg, halone⟩ := h
  cases e with
  | stop => simp [noStop] at he
  | req c => exact ⟨hrun, hlive, hreg, halone⟩
  | sweep => exact ⟨hrun, hlive, hreg, halone⟩
  | opn c r l =>
    have hany : s.live.any (fun x => x.id == c) = t.any (fun x => x.conn.id == c) := by
      rw [hlive, List.any_map]; rfl
    simp only [step, openStep, hrun, Bool.false_or, hany, regKeyOf]
    by_cases hc : t.any (fun x => x.conn.id == c) = true
    · simp only [hc, if_true]
      exact ⟨hrun, hlive, hreg, halone⟩
    · simp only [hc, if_false, Bool.false_eq_true]
      refine ⟨rfl, ?_, ?_, ?_⟩
      · simp only [hlive, List.map_append, List.map_map, List.map_cons, List.map_nil]
        congr 1
        apply List.map_congr_left
        intro a _
        simp only [Function.comp]
        split <;> rfl
      · intro x hx hsh
        simp only [List.mem_append, List.mem_map, List.mem_singleton] at hx
        simp only [regStore, List.mem_append, List.mem_filter, List.mem_singleton]
        rcases hx with ⟨x0, hx0, rfl⟩ | rfl
        · by_cases hr : (x0.conn.remote == r) = true
          · simp [hr] at hsh
          · simp only [hr, if_false, Bool.false_eq_true] at hsh ⊢
            left
            refine ⟨hreg x0 hx0 hsh, ?_⟩
            simpa using hr
        · right; rfl
      · intro x hx hsh y hy hyr
        simp only [List.mem_append, List.mem_map, List.mem_singleton] at hx hy
        rcases hx with ⟨x0, hx0, rfl⟩ | rfl
        · by_cases hr : (x0.conn.remote == r) = true
          · simp [hr] at hsh
          · simp only [hr, if_false, Bool.false_eq_true] at hsh hyr ⊢
            rcases hy with ⟨y0, hy0, rfl⟩ | rfl
            · by_cases hr' : (y0.conn.remote == r) = true
              · simp only [hr', if_true] at hyr
                simp only [beq_iff_eq] at hr'
                simp [← hyr, hr'] at hr
              · simp only [hr', if_false, Bool.false_eq_true] at hyr ⊢
                exact halone x0 hx0 hsh y0 hy0 hyr
            · simp only at hyr
              simp [← hyr] at hr
        · simp only at hsh hyr
          rcases hy with ⟨y0, hy0, rfl⟩ | rfl
          · exfalso
            have hyr0 : y0.conn.remote = r := by
              by_cases hr' : (y0.conn.remote == r) = true
              · simpa using hr'
              · simp only [hr', if_false, Bool.false_eq_true] at hyr; exact hyr
            have : t.any (fun x => x.conn.remote == r) = true := by
              rw [List.any_eq_true]; exact ⟨y0, hy0, by simp [hyr0]⟩
            rw [this] at hsh; cases hsh
          · rfl
  | cls c =>
    have hl := cls_live .remoteAddr s c
    have hrun' : (step .remoteAddr s (.cls c)).stopped = false := by
      simp only [step]; split <;> exact hrun
    refine ⟨hrun', ?_, ?_, ?_⟩
    · rw [hl, hlive]
      simp only [openStep, List.filter_map]
      rfl
    · intro x hx hsh
      simp only [openStep, List.mem_filter] at hx
      obtain ⟨hxt, hxc⟩ := hx
      simp only [step]
      split
      · rename_i x0 hf
        have hx0 := List.mem_of_find?_eq_some hf
        have hx0c := List.find?_some hf
        rw [hlive, List.mem_map] at hx0
        obtain ⟨z, hz, hzc⟩ := hx0
        simp only [regDelete, regKeyOf, List.mem_filter]
        refine ⟨hreg x hxt hsh, ?_⟩
        simp only [bne_iff_ne, ne_eq]
        intro heq
        have : z = x := halone x hxt hsh z hz (by rw [hzc]; exact heq.symm)
        subst this
        rw [← hzc] at hx0c
        simp only [beq_iff_eq] at hx0c
        simp [hx0c] at hxc
      · exact hreg x hxt hsh
    · intro x hx hsh y hy hyr
      simp only [openStep, List.mem_filter] at hx hy
      exact halone x hx.1 hsh y hy.1 hyr

theorem inv_init : Inv {} [] :=
  ⟨rfl, rfl, fun _ hx => absurd hx List.not_mem_nil, fun _ hx => absurd hx List.not_mem_nil⟩

theorem inv_run (s : State) (t : List SpecConn) (h : Inv s t) (evs : List Ev) (he : evs.all noStop = true) :
    Inv (run .remoteAddr s evs) (evs.foldl openStep t) := by
  induction evs generalizing s t with
  | nil => exact h
  | cons e es ih =>
    simp only [List.all_cons, Bool.and_eq_true] at he
    exact ih (step .remoteAddr s e) (openStep t e) (inv_step s t h e he.1) he.2

/-- a connection that never shared its remote address with another open connection is in the registry -/
theorem unshared_registered (evs : List Ev) (he : evs.all noStop = true) (x : SpecConn) (hx : x ∈ openSpec evs)
    (hsh : x.shared = false) : registered (run .remoteAddr {} evs) x.conn.id = true := by
  have h := (inv_run {} [] inv_init evs he).reg x hx hsh
  simp only [registered, List.any_eq_true]
  exact ⟨_, h, by simp⟩

/-- … and is visited by the housekeeping pass that follows -/
theorem unshared_visited (evs : List Ev) (he : evs.all noStop = true) (x : SpecConn) (hx : x ∈ openSpec evs)
    (hsh : x.shared = false) :
    ∃ ids, out (run .remoteAddr {} evs) (step .remoteAddr (run .remoteAddr {} evs) .sweep) .sweep = .visited ids ∧ x.conn.id ∈ ids := by
  have hi := inv_run {} [] inv_init evs he
  refine ⟨_, rfl, ?_⟩
  simp only [step, List.mem_filter, List.mem_map]
  refine ⟨⟨_, hi.reg x hx hsh, rfl⟩, ?_⟩
  rw [hi.live, List.any_map, List.any_eq_true]
  exact ⟨x, hx, by simp⟩

/-- `Stop` ends `Serve` when no open connection ever shared its remote address (partial: see `DoesNotHold`) -/
theorem stop_ends_serve_partial (evs : List Ev) (he : evs.all noStop = true)
    (hall : ∀ x ∈ openSpec evs, x.shared = false) :
    out (run .remoteAddr {} evs) (step .remoteAddr (run .remoteAddr {} evs) .stop) .stop = .serveEnded true := by
  have hi := inv_run {} [] inv_init evs he
  simp only [out]
  congr 1
  rw [List.all_eq_true]
  intro c hc
  rw [hi.live, List.mem_map] at hc
  obtain ⟨x, hx, rfl⟩ := hc
  exact unshared_registered evs he x hx (hall x hx)

/-! non-vacuity: a history with two remotes, a reconnect and a pass -/
example : (run .remoteAddr {} [.opn 1 1 1, .opn 2 2 1, .req 1, .cls 2, .opn 3 2 1, .sweep]).live = [⟨1, 1, 1⟩, ⟨3, 2, 1⟩] := by decide
example : (openSpec [.opn 1 1 1, .opn 2 2 1, .req 1, .cls 2, .opn 3 2 1, .sweep]).map (·.shared) = [false, false] := by decide

section DoesNotHold
/-! two connections from remote 1 towards the local addresses 1 and 2 -/
def twoLocals : List Ev := [.opn 1 1 1, .opn 2 1 2]

/-- both are served (this is what the property asks) … -/
theorem shadowed_connection_is_served : (run .remoteAddr {} twoLocals).live = [⟨1, 1, 1⟩, ⟨2, 1, 2⟩] := by decide
/-- … but only the later one is registered: `Store` overwrote the entry of connection 1 -/
theorem shadowed_connection_not_registered :
    (run .remoteAddr {} twoLocals).reg = [(1, 2)] ∧ registered (run .remoteAddr {} twoLocals) 1 = false := by decide
/-- the housekeeping pass visits connection 2 only -/
theorem shadowed_connection_not_housekept :
    out (run .remoteAddr {} twoLocals) (run .remoteAddr {} twoLocals) .sweep = .visited [2] := by decide
/-- when connection 1 ends, `Delete` removes the entry of connection 2: no connection of that remote is registered any more -/
theorem end_of_one_unregisters_the_other :
    (run .remoteAddr {} (twoLocals ++ [.cls 1])).live = [⟨2, 1, 2⟩] ∧ (run .remoteAddr {} (twoLocals ++ [.cls 1])).reg = [] := by decide
/-- `Stop` does not close connection 1, and `Serve` does not return while its peer keeps it open -/
theorem stop_leaves_shadowed_connection :
    out (run .remoteAddr {} twoLocals) (step .remoteAddr (run .remoteAddr {} twoLocals) .stop) .stop = .serveEnded false
    ∧ (step .remoteAddr (run .remoteAddr {} twoLocals) .stop).live = [⟨1, 1, 1⟩] := by decide
end DoesNotHold

/-! ### a session that is shut down twice (datagram server: housekeeping pass, next datagram of the peer, Stop)

`udp/server/session.go: shutdown()` pops the OnClose callbacks (so they run once) and cancels the done context
(idempotent).  The three clean-up paths may meet on one closed connection (the pass works on a snapshot of the table): the
second shutdown must change nothing. -/
structure Sess where
  pendingCallbacks : Nat
  ranCallbacks : Nat := 0
  done : Bool := false
  deriving Repr, DecidableEq

def shutdown (s : Sess) : Sess := { pendingCallbacks := 0, ranCallbacks := s.ranCallbacks + s.pendingCallbacks, done := true }

theorem second_shutdown_is_noop (s : Sess) : shutdown (shutdown s) = shutdown s := by
  simp [shutdown]

def shutdownN : Nat → Sess → Sess
  | 0, s => s
  | n + 1, s => shutdown (shutdownN n s)

/-- however many clean-up paths meet on one session: the result is that of one shutdown (callbacks ran once) -/
theorem shutdown_any_number (s : Sess) (n : Nat) : shutdownN (n + 1) s = shutdown s := by
  induction n with
  | zero => rfl
  | succ k ih => rw [shutdownN, ih]; exact second_shutdown_is_noop s

example : shutdown (shutdown ⟨2, 0, false⟩) = ⟨0, 2, true⟩ := by decide

section Audit
#print axioms cls_live
#print axioms inv_step
#print axioms inv_init
#print axioms inv_run
#print axioms live_step
#print axioms live_run
#print axioms live_meets_spec
#print axioms step_running
#print axioms reg_step
#print axioms reg_run
#print axioms registry_is_open_set
#print axioms registered_iff_open
#print axioms every_open_registered
#print axioms registration_independent
#print axioms every_open_visited
#print axioms stop_ends_serve
#print axioms unshared_registered
#print axioms unshared_visited
#print axioms stop_ends_serve_partial
#print axioms shadowed_connection_is_served
#print axioms shadowed_connection_not_registered
#print axioms shadowed_connection_not_housekept
#print axioms end_of_one_unregisters_the_other
#print axioms stop_leaves_shadowed_connection
#print axioms second_shutdown_is_noop
#print axioms shutdown_any_number
end Audit

end CoapVerif.Props.C10Streams
