import CoapVerif.Model.ServerTokenKeys
/-!
C10 (eleventh seeded round, C10-V): "… responses to a discovery request are delivered only to the receiver registered for
their token, each with the connection of the peer that sent it."

The discovery tables are keyed by `message.Token.Hash()`.  Statements, for ALL histories of discovery calls and arriving
messages (any number of either, tokens of any length):

* `delivered_carries_own_token` - with the token as the key, a receiver is handed a message only if the message carries the
  token that receiver's call registered, and it is handed the connection the message arrived on;
* `keyed_agrees` - the tables keyed by `key token` behave exactly like that on every history whose tokens have pairwise
  different keys (`InjOn`).  That hypothesis cannot be dropped and is NOT a theorem of the real key for all tokens (a 64-bit
  key cannot separate the 1 + 2^8 + … + 2^64 tokens of length 0..8); the check evaluates it with the real `Token.Hash()` on the
  tokens of every generated `discover tok` line (output field `keys`), and C03 (`Lemmas/TokenReach`, `TokenTable`) treats the
  CRC itself;
* section `DoesNotHold`: with a key that forgets the token's length (`packKey`) a message that carries ANOTHER token is handed
  to a receiver, and the peer that sent it is not served by the server's handler.
-/
namespace CoapVerif.Props.C10Tokens
open CoapVerif.Model.ServerTokenKeys
open CoapVerif.Model.Server (DOut)

/-- `key` separates the tokens that satisfy `P` -/
def InjOn (key : Token → Nat) (P : Token → Prop) : Prop := ∀ a b, P a → P b → key a = key b → a = b

theorem any_congr_mem {α : Type} (l : List α) (p q : α → Bool) (h : ∀ x ∈ l, p x = q x) : l.any p = l.any q := by
  induction l with
  | nil => rfl
  | cons a t ih =>
    simp only [List.any_cons, h a (by simp)]
    rw [ih (fun x hx => h x (by simp [hx]))]

theorem find_congr_mem {α : Type} (l : List α) (p q : α → Bool) (h : ∀ x ∈ l, p x = q x) : l.find? p = l.find? q := by
  induction l with
  | nil => rfl
  | cons a t ih =>
    simp only [List.find?_cons, h a (by simp)]
    rw [ih (fun x hx => h x (by simp [hx]))]

theorem kstep_eq_tstep (key : Token → Nat) (P : Token → Prop) (hi : InjOn key P) (s : List (Nat × Token)) (e : KEv)
    (hs : ∀ x ∈ s, P x.2) (he : ∀ t ∈ evToks e, P t) : kstep key s e = tstep s e := by
  cases e with
  | start id tok =>
    have ht : P tok := he tok (by simp [evToks])
    have hc : s.any (fun e => key e.2 == key tok) = s.any (fun e => e.2 == tok) := by
      apply any_congr_mem
      intro x hx
      by_cases h : x.2 = tok
      · simp [h]
      · have : key x.2 ≠ key tok := fun hk => h (hi _ _ (hs x hx) ht hk)
        rw [show (key x.2 == key tok) = false from by simpa using this, show (x.2 == tok) = false from by simpa using h]
    simp only [kstep, tstep, hc]
  | finish id => rfl
  | msg r =>
    have ht : P r.token := he r.token (by simp [evToks])
    have hc : s.find? (fun e => key e.2 == key r.token) = s.find? (fun e => e.2 == r.token) := by
      apply find_congr_mem
      intro x hx
      by_cases h : x.2 = r.token
      · simp [h]
      · have : key x.2 ≠ key r.token := fun hk => h (hi _ _ (hs x hx) ht hk)
        rw [show (key x.2 == key r.token) = false from by simpa using this, show (x.2 == r.token) = false from by simpa using h]
    simp only [kstep, tstep, hc]

theorem tstep_toks (P : Token → Prop) (s : List (Nat × Token)) (e : KEv) (hs : ∀ x ∈ s, P x.2) (he : ∀ t ∈ evToks e, P t) :
    ∀ x ∈ (tstep s e).1, P x.2 := by
  cases e with
  | start id tok =>
    simp only [tstep]
    split
    · exact hs
    · intro x hx
      rcases List.mem_append.mp hx with h | h
      · exact hs x h
      · have : x = (id, tok) := by simpa using h
        subst this
        exact he tok (by simp [evToks])
  | finish id =>
    intro x hx
    exact hs x (List.mem_filter.mp hx).1
  | msg r =>
    simp only [tstep]
    split <;> exact hs

/-- **the keyed tables are the token tables** on every history whose tokens the key separates -/
theorem keyed_agrees (key : Token → Nat) (P : Token → Prop) (hi : InjOn key P) (evs : List KEv) :
    ∀ (s : List (Nat × Token)), (∀ x ∈ s, P x.2) → (∀ e ∈ evs, ∀ t ∈ evToks e, P t) → ktrace key s evs = ttrace s evs := by
  induction evs with
  | nil => intro s _ _; rfl
  | cons e es ih =>
    intro s hs he
    have h1 := kstep_eq_tstep key P hi s e hs (he e (by simp))
    simp only [ktrace, ttrace, h1]
    congr 1
    exact ih _ (tstep_toks P s e hs (he e (by simp))) (fun e' he' => he e' (by simp [he']))

/-- only the registering call's id is ever stored with a token, ids being handed out once (`FreshIds`) is not needed for
    the delivery statement: a receiver found for a message was registered with the message's token -/
theorem delivered_carries_own_token (s : List (Nat × Token)) (r : KResp) (id conn tag : Nat)
    (h : (tstep s (.msg r)).2 = .toReceiverOf id conn tag) : (id, r.token) ∈ s ∧ conn = r.conn ∧ tag = r.tag := by
  simp only [tstep] at h
  split at h
  · rename_i e hf
    have hm := List.mem_of_find?_eq_some hf
    have hp := List.find?_some hf
    have ht : e.2 = r.token := by simpa using hp
    injection h with h1 h2 h3
    refine ⟨?_, h2.symm, h3.symm⟩
    rw [← h1, ← ht]
    exact hm
  · cases h

/-- a message whose token no running discovery registered goes to the server's handler, with its own connection -/
theorem foreign_token_to_default (s : List (Nat × Token)) (r : KResp) (h : ∀ e ∈ s, e.2 ≠ r.token) :
    (tstep s (.msg r)).2 = .toDefault r.conn r.tag := by
  have : s.find? (fun e => e.2 == r.token) = none := by
    rw [List.find?_eq_none]
    intro x hx
    simpa using h x hx
  simp [tstep, this]

/-- the same two statements for the tables as the code keys them, along a whole history (through `keyed_agrees`) -/
theorem keyed_delivery (key : Token → Nat) (P : Token → Prop) (hi : InjOn key P) (s : List (Nat × Token)) (r : KResp)
    (hs : ∀ x ∈ s, P x.2) (hr : P r.token) (id conn tag : Nat)
    (h : (kstep key s (.msg r)).2 = .toReceiverOf id conn tag) : (id, r.token) ∈ s ∧ conn = r.conn ∧ tag = r.tag := by
  rw [kstep_eq_tstep key P hi s (.msg r) hs (by intro t ht; simp [evToks] at ht; subst ht; exact hr)] at h
  exact delivered_carries_own_token s r id conn tag h

/-- non-vacuity: a discovery with token 00 ab cd ef open; its answer reaches it, the message with token ab cd ef (another
    peer's request) reaches the server's handler; the identity-like key `tokNat`-style separation is witnessed by the tokens
    themselves (`ttrace`) -/
example : ttrace [] [.start 0 [0, 0xAB, 0xCD, 0xEF], .msg ⟨[0, 0xAB, 0xCD, 0xEF], 0, 0⟩, .msg ⟨[0xAB, 0xCD, 0xEF], 100, 2⟩, .finish 0]
    = [.registered, .toReceiverOf 0 0 0, .toDefault 100 2, .done] := by decide

example : ttrace [] (lineEvents [([0], []), ([0xA1, 0xB2], [0xA1, 0xB2, 0])])
    = [.registered, .registered, .toReceiverOf 0 0 0, .toDefault 0 1, .toReceiverOf 1 1 0, .toDefault 1 1,
       .toDefault 100 2, .toDefault 101 2, .done, .done] := by decide

section DoesNotHold
/-- **C10-V's key**: the token 00 ab cd ef and the token ab cd ef get one key … -/
theorem packKey_forgets_length : packKey [0, 0xAB, 0xCD, 0xEF] = packKey [0xAB, 0xCD, 0xEF] ∧ packKey [0] = packKey [] := by decide

/-- … so the well-behaved peer's message (connection 100, token ab cd ef) is handed to the receiver of the discovery that
    registered 00 ab cd ef, and the server's handler never sees it -/
theorem packKey_misdelivers :
    ktrace packKey [] [.start 0 [0, 0xAB, 0xCD, 0xEF], .msg ⟨[0xAB, 0xCD, 0xEF], 100, 2⟩]
      = [.registered, .toReceiverOf 0 100 2]
    ∧ ttrace [] [.start 0 [0, 0xAB, 0xCD, 0xEF], .msg ⟨[0xAB, 0xCD, 0xEF], 100, 2⟩] = [.registered, .toDefault 100 2] := by decide

theorem packKey_not_injective : ¬ InjOn packKey (fun _ => True) := by
  intro h
  have := h [0] [] trivial trivial (by decide)
  cases this
end DoesNotHold

section Audit
#print axioms any_congr_mem
#print axioms find_congr_mem
#print axioms kstep_eq_tstep
#print axioms tstep_toks
#print axioms keyed_agrees
#print axioms delivered_carries_own_token
#print axioms foreign_token_to_default
#print axioms keyed_delivery
#print axioms packKey_forgets_length
#print axioms packKey_misdelivers
#print axioms packKey_not_injective
end Audit

end CoapVerif.Props.C10Tokens
