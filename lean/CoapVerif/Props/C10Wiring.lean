import CoapVerif.Generated.OptionWiring
/-!
# C10 (configurations × transports) — the five appliers of every option agree

The properties quantify over "all transports" and "configurations".  An option such as `WithMaxMessageSize`,
`WithKeepAlive`, `WithTransmission` is written into the configuration of a TCP server, a TCP client, a UDP server, a DTLS
server and a UDP client by five separate methods (`options/*.go`).  `Generated/OptionWiring.lean` lists, for every
`…Apply` method, the configuration fields it assigns and the (transport-normalised) value texts, re-read from /repo on
every run.  The obligation: all appliers of one option type write the same fields from the same values - the code is
compared with itself, there is no expectation table; and no applier is empty.  (What the value *means* for a connection is
the business of the per-property levels that build their connections through the options: C06 `opt`, C07 `cfgsrv`,
C16 `tcpcli/tcpsrv/dtlssrv`, C18 server levels, C20 `srvmux`.)
-/
namespace CoapVerif.Props.C10Wiring
open CoapVerif.Generated.OptionWiring

/-- consecutive entries of the same option type (the list is sorted by type) have the same assignments -/
def adjAgree : List Applier → Bool
  | a :: b :: r => (a.opt != b.opt || a.assigns == b.assigns) && adjAgree (b :: r)
  | _ => true

def noneEmpty (l : List Applier) : Bool := l.all (fun a => !a.assigns.isEmpty)

/-- sortedness by option type, so that "consecutive" covers all pairs -/
def sortedByOpt : List Applier → Bool
  | a :: b :: r => decide (a.opt ≤ b.opt) && sortedByOpt (b :: r)
  | _ => true

theorem option_appliers_agree : adjAgree appliers = true ∧ noneEmpty appliers = true ∧ sortedByOpt appliers = true := by decide

/-- What `adjAgree` on a list sorted by option type gives: ANY two appliers of the same option type agree. -/
theorem adjAgree_head (a b : Applier) (r : List Applier) (h : adjAgree (a :: b :: r) = true) :
    (a.opt != b.opt || a.assigns == b.assigns) = true ∧ adjAgree (b :: r) = true := by
  simpa [adjAgree] using h

-- the obligation is not vacuous: a slip in one of the five copies is rejected
example : adjAgree [⟨"LimitOpt", "DTLSServerApply", ["LimitEndpoint=o.limit"]⟩, ⟨"LimitOpt", "TCPServerApply", ["LimitEndpoint=o.endpointLimit"]⟩] = false := by decide
example : adjAgree [⟨"AOpt", "TCPClientApply", ["A=o.a"]⟩, ⟨"AOpt", "UDPClientApply", ["A=o.a"]⟩, ⟨"BOpt", "UDPClientApply", ["B=o.b"]⟩] = true := by decide

/-! ### the servers' per-connection configuration

What `createConn` (tcp, dtls) / `getOrCreateConn` (udp) write into the configuration of an accepted connection.  Every
field is copied from the server's setting **of the same name**; the only other values are the ones listed in `special`
(the stream connection lives in the server's context and owns its socket; the datagram server wraps the handler for its
discovery receivers).  The two datagram-style servers fill in the same set of fields, and the fields every connection
needs are filled in by all three. -/

def special : List ConnField := [⟨"tcp", "Ctx", "s.ctx"⟩, ⟨"tcp", "CloseSocket", "true"⟩, ⟨"udp", "Handler", "func"⟩]

def sameNamed (l : List ConnField) : Bool := l.all (fun c => c.value == "s.cfg." ++ c.field || special.contains c)

def fieldsOf (sv : String) (l : List ConnField) : List String := (l.filter (·.server == sv)).map (·.field)

def sameSet (a b : List String) : Bool := a.all b.contains && b.all a.contains

def needed : List String := ["BlockwiseSZX", "Errors", "GetToken", "Handler", "MessagePool", "ProcessReceivedMessage", "ReceivedMessageQueueSize"]

theorem server_connection_wiring :
    sameNamed connFields = true ∧ sameSet (fieldsOf "dtls" connFields) (fieldsOf "udp" connFields) = true ∧
    (["tcp", "dtls", "udp"].all fun sv => needed.all fun f => (fieldsOf sv connFields).contains f) = true ∧
    (fieldsOf "tcp" connFields).contains "MaxMessageSize" = true ∧ (fieldsOf "tcp" connFields).contains "Ctx" = true := by decide

-- not vacuous: a limit copied from the wrong setting, a context that is not the server's
example : sameNamed [⟨"dtls", "LimitClientEndpointParallelRequests", "s.cfg.LimitClientParallelRequests"⟩] = false := by decide
example : sameNamed [⟨"tcp", "Ctx", "cfg.Ctx"⟩] = false := by decide

end CoapVerif.Props.C10Wiring

section Audit
open CoapVerif.Props.C10Wiring
#print axioms option_appliers_agree
#print axioms adjAgree_head
#print axioms server_connection_wiring
end Audit
