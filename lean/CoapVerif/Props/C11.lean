import CoapVerif.Go.Basic
import CoapVerif.Model.Reader
import CoapVerif.Model.ReaderPrograms
import CoapVerif.Lemmas.Reader
import CoapVerif.Spec.Dispatch
import CoapVerif.Generated.Dedup
/-!
# C11 — each received message is processed once; handlers may call back

Statement (properties.jsonl): every message accepted from the network is dispatched to application handling exactly
once — never dropped while the connection is open, never processed twice — and, as long as handlers return without
blocking, in arrival order.  A handler or callback may itself issue blocking requests on the same connection, to any
nesting depth, without stalling the connection: processing of later incoming messages (including the awaited
response) continues while it waits.

The theorems are about `Model.Reader` (`run (init cap udp inbox) evs`): **every** receive-queue capacity (0, 1, N), both
transports, **every** list of messages on the wire (distinct), **every** schedule `evs` of the socket reader, the loops
(including loops that take a message although their `loopDone` is already closed — Go's `select` may do that), the
handlers, time and close.  The first part (`exactly_once`, `exactly_once_across_replacement`, `replacement_moves_nothing`,
`dispatch_fifo`, `one_current_loop`) holds for *all* handlers.  `exactly_once` is largely what a FIFO channel with one
producer gives; the statements about loop replacement are not: they say that a message in the hands of a loop that
has been replaced is neither lost nor processed again.  The second part (`current_never_blocked`, `nested_any_depth`) holds for handlers whose first blocking
construct is preceded by a replacement request (`WF`); `doInternal_waits_preceded` shows that the connection's own
`doInternal` / `waitForAcknowledge` have that form in today's source.  The library's other blocking operations do
**not** (limiter, first notification of an observation on stream transports, ping): the full statement for them is
false — `Findings/C11.lean` (F11, F12, ping).
-/
namespace CoapVerif.Props.C11
open CoapVerif CoapVerif.Model.Reader CoapVerif.Lemmas.Reader

/-- handlers of all requests on the wire have their first blocking construct preceded by a replacement request -/
def WF (inbox : List Msg) : Prop := ∀ m ∈ inbox, waitsPreceded (progOf m.kind) = true

/-- **exactly_once.** For every schedule: (1) every accepted message is in exactly one stage — dispatched, in the queue,
    in the reader's hand, or (only once the connection is closed) discarded —, in arrival order; (2) no message is
    dispatched twice. -/
theorem exactly_once (cap : Nat) (udp : Bool) (inbox : List Msg) (hnd : inbox.Nodup) (evs : List Event) :
    let s := run (init cap udp inbox) evs
    s.accepted = s.started ++ s.queue ++ s.hand.toList ++ s.lost ∧ (s.lost ≠ [] → s.closed = true) ∧ s.started.Nodup := by
  intro s
  have inv := invQ_run _ evs (invQ_init cap udp inbox hnd)
  refine ⟨inv.fifo, fun h => (inv.lostClosed h).1, ?_⟩
  have h1 : s.accepted.Nodup := (List.nodup_append.mp inv.wire).1
  rw [inv.fifo] at h1
  simp only [List.append_assoc] at h1
  exact (List.nodup_append.mp h1).1

/-- **exactly_once_across_replacement.** What the channel does not give by itself: for every schedule, whatever loops
    have been replaced in the meantime (a replaced loop keeps running its handler, and may even take further messages),
    every message that has been taken is *either* finished *or* in the hands of exactly one loop — never both, never
    two loops, never lost when `TryToReplaceLoop` closes a loop's `loopDone` and starts another one —; a loop that is
    not running a handler holds nothing; and no message finishes twice. -/
theorem exactly_once_across_replacement (cap : Nat) (udp : Bool) (inbox : List Msg) (hnd : inbox.Nodup) (evs : List Event) :
    let s := run (init cap udp inbox) evs
    (∀ m ∈ s.started, (m ∈ s.finished ∧ ∀ l lp, s.loops l = some lp → lp.cur ≠ some m) ∨
                      (m ∉ s.finished ∧ ∃ l lp, s.loops l = some lp ∧ lp.cur = some m ∧
                         ∀ l' lp', s.loops l' = some lp' → lp'.cur = some m → l' = l)) ∧
    (∀ l lp, s.loops l = some lp → lp.pc ≠ .running → lp.cur = none) ∧
    (∀ m ∈ s.finished, m ∈ s.started) ∧ s.finished.Nodup := by
  intro s
  obtain ⟨_, _, ia⟩ := invQCA_run _ evs (invQ_init cap udp inbox hnd) (invC_init cap udp inbox) (invA_init cap udp inbox)
  refine ⟨?_, ia.idle, ia.fin, ia.finNd⟩
  intro m hm
  rcases ia.acc m hm with hf | ⟨l, lp, h1, h2⟩
  · left
    refine ⟨hf, ?_⟩
    intro l lp hl hc
    exact (ia.curS l lp m hl hc).2 hf
  · right
    exact ⟨(ia.curS l lp m h1 h2).2, l, lp, h1, h2, fun l' lp' h1' h2' => ia.uniq l' l lp' lp m h1' h1 h2' h2⟩

/-- **replacement_moves_nothing.** `TryToReplaceLoop` itself, in every reachable state: the queue, the reader's hand and
    the lists of accepted / taken messages are untouched, every loop keeps the message it holds, and the new loop
    starts with none. -/
theorem replacement_moves_nothing (cap : Nat) (udp : Bool) (inbox : List Msg) (evs : List Event) :
    let s := run (init cap udp inbox) evs
    qview (tryReplace s) = qview s ∧
    (∀ l lp, s.loops l = some lp → ∃ lp', (tryReplace s).loops l = some lp' ∧ lp'.cur = lp.cur) ∧
    (∀ l lp', (tryReplace s).loops l = some lp' → s.loops l = none → lp'.cur = none) := by
  intro s
  have ic := invC_run _ evs (invC_init cap udp inbox)
  have cp := curPres_tryReplace s ic
  refine ⟨tryReplace_qview s, cp.fwd, ?_⟩
  intro l lp' h1 h2
  rcases cp.bwd l lp' h1 with ⟨lp, g1, _, _⟩ | ⟨g, _⟩
  · rw [h2] at g1; cases g1
  · exact g

/-- **never_dropped** (corollary): while the connection is open, an accepted message has been dispatched or is still
    waiting for a loop. -/
theorem never_dropped (cap : Nat) (udp : Bool) (inbox : List Msg) (hnd : inbox.Nodup) (evs : List Event) (m : Msg) :
    let s := run (init cap udp inbox) evs
    s.closed = false → m ∈ s.accepted → m ∈ s.started ∨ m ∈ s.queue ∨ s.hand = some m := by
  intro s hopen hm
  have inv := invQ_run _ evs (invQ_init cap udp inbox hnd)
  have hl : s.lost = [] := by
    cases h : s.lost with
    | nil => rfl
    | cons x xs => have := (inv.lostClosed (by rw [h]; simp)).1; rw [hopen] at this; cases this
  rw [inv.fifo, hl] at hm
  simp only [List.append_nil, List.mem_append] at hm
  rcases hm with (h | h) | h
  · exact Or.inl h
  · exact Or.inr (Or.inl h)
  · right; right
    cases hh : s.hand with
    | none => rw [hh] at h; simp at h
    | some x => rw [hh] at h; simp at h; rw [h]

/-- **dispatch_fifo.** Messages are dispatched in the order in which they were accepted, whatever the handlers do. -/
theorem dispatch_fifo (cap : Nat) (udp : Bool) (inbox : List Msg) (hnd : inbox.Nodup) (evs : List Event) :
    ∃ rest, (run (init cap udp inbox) evs).accepted = (run (init cap udp inbox) evs).started ++ rest := by
  have inv := invQ_run _ evs (invQ_init cap udp inbox hnd)
  refine ⟨(run (init cap udp inbox) evs).queue ++ (run (init cap udp inbox) evs).hand.toList ++ (run (init cap udp inbox) evs).lost, ?_⟩
  rw [inv.fifo]; simp only [List.append_assoc]

/-- **one_current_loop.** At every moment exactly one loop has an open `loopDone` — the one the reader's
    `(loopDone, readingMessages)` pair belongs to; every other loop has been told to leave; and `readingMessages` of
    a loop is false exactly while it processes a message. -/
theorem one_current_loop (cap : Nat) (udp : Bool) (inbox : List Msg) (evs : List Event) :
    let s := run (init cap udp inbox) evs
    (∃ lp, s.loops s.current = some lp ∧ lp.doneClosed = false) ∧
    (∀ l lp, s.loops l = some lp → l ≠ s.current → lp.doneClosed = true) ∧
    (∀ l lp, s.loops l = some lp → (lp.reading = false ↔ lp.pc = .running)) := by
  intro s
  have inv := invC_run _ evs (invC_init cap udp inbox)
  exact ⟨inv.cur, inv.others, inv.flag⟩

/-- **current_never_blocked.** With well-formed handlers, in every reachable state the current loop is either at its
    select or running a handler whose next action can be taken at once; it has left only if the connection closed. -/
theorem current_never_blocked (cap : Nat) (udp : Bool) (inbox : List Msg) (hwf : WF inbox) (evs : List Event) :
    let s := run (init cap udp inbox) evs
    ∀ lp, s.loops s.current = some lp →
      (lp.pc = .exited → s.closed = true) ∧
      (lp.pc = .running → ∀ act rest, lp.prog = act :: rest → (doAct s s.current lp act rest).isSome = true) := by
  intro s lp hlp
  obtain ⟨_, iw⟩ := invCW_run _ evs (invC_init cap udp inbox) (invW_init cap udp inbox hwf)
  exact ⟨iw.alive lp hlp, fun hr act rest hp => current_can_step s iw lp hlp hr act rest hp⟩

/-- **nested_any_depth.** With well-formed handlers, from every reachable state of an open connection, the oldest waiting
    message — e.g. the response a nested call is waiting for, behind any number of requests whose handlers block in
    nested calls of their own — is dispatched after finitely many steps *of the current loop alone*; no step of any
    blocked handler is needed.  (Repeating it empties the queue.) -/
theorem nested_any_depth (cap : Nat) (udp : Bool) (inbox : List Msg) (hwf : WF inbox) (evs : List Event)
    (hopen : (run (init cap udp inbox) evs).closed = false) (m : Msg) (rest : List Msg)
    (hw : waiting (run (init cap udp inbox) evs) = m :: rest) :
    ∃ n, (advanceN n (run (init cap udp inbox) evs)).started = (run (init cap udp inbox) evs).started ++ [m] ∧
      waiting (advanceN n (run (init cap udp inbox) evs)) = rest := by
  obtain ⟨ic, iw⟩ := invCW_run _ evs (invC_init cap udp inbox) (invW_init cap udp inbox hwf)
  obtain ⟨n, h1, h2, _⟩ := head_taken _ _ (Nat.le_refl _) ic iw hopen m rest hw
  exact ⟨n, h1, h2⟩

/-- … and so is every waiting message, one after the other. -/
theorem queue_drains : ∀ (ws : List Msg) (s : State), InvC s → InvW s → s.closed = false → waiting s = ws →
    ∃ n, (advanceN n s).started = s.started ++ ws ∧ waiting (advanceN n s) = [] := by
  intro ws
  induction ws with
  | nil => intro s _ _ _ hw; exact ⟨0, by simp [advanceN], by simpa [advanceN] using hw⟩
  | cons m rest ih =>
    intro s ic iw hopen hw
    obtain ⟨n, h1, h2, h3, h4, h5⟩ := head_taken _ s (Nat.le_refl _) ic iw hopen m rest hw
    obtain ⟨n2, g1, g2⟩ := ih (advanceN n s) h4 h5 h3 h2
    refine ⟨n + n2, ?_, ?_⟩
    · have : advanceN (n + n2) s = advanceN n2 (advanceN n s) := advanceN_add n n2 s
      rw [this, g1, h1]; simp
    · have : advanceN (n + n2) s = advanceN n2 (advanceN n s) := advanceN_add n n2 s
      rw [this, g2]
where
  advanceN_add : ∀ (a b : Nat) (s : State), advanceN (a + b) s = advanceN b (advanceN a s)
    | 0, b, s => by simp [advanceN]
    | a + 1, b, s => by
      have : a + 1 + b = (a + b) + 1 := by omega
      rw [this]; simp only [advanceN]; exact advanceN_add a b (advance s)

open CoapVerif.Generated.WaitShape in
/-- **doInternal_waits_preceded (tie to the source).** In today's source every blocking construct of `doInternal` (datagram
    and stream) and of `waitForAcknowledge` has a `TryToReplaceLoop` call before it, and the reader has the structure
    the model follows (facts re-read from the AST on every run). -/
theorem doInternal_waits_preceded :
    (waits.filter (fun w => w.func == "Conn.doInternal" || w.func == "Conn.waitForAcknowledge")).all (·.precededByReplace) = true ∧
    (waits.filter (fun w => w.func == "Conn.doInternal")).length = 2 ∧
    loopExitsOnDone = true ∧ loopExitsOnConnDone = true ∧ loopClearsFlagProcessesSetsFlagUnderMutex = true ∧
    tryReplaceChecksCurrentFlagThenClosesAndSpawns = true := by
  decide +kernel

/-- **copy_waits_after_handover (tie to the source; repair F36).** The one lock the receive path itself waits for while it
    holds the reader loop is the per-message-ID lock of `udp/client handleReq` (held by the handler of the original while
    a retransmitted copy of that request arrives).  In today's source the copy tries the lock first and asks for a
    replacement loop before it waits (`copyWaitsAfterHandover`, re-read from the AST on every run): the queue behind the
    copy keeps moving, so the answer to the handler's own nested request is not parked behind it.  (Before the repair the
    loop waited with the queue in its hand: `scn udp 16 0 0 arrivem:1:g1:con:+7000 ack:1 dup:1&sep:1 …` hung until the
    nested request's deadline.) -/
theorem copy_waits_after_handover : Generated.Dedup.copyWaitsAfterHandover = true := by decide

/-- … hence a nested `Do` without limiter (limits 0) is a well-formed handler program, on both transports — whether or not the
    source hands the loop over before the limiter (the proof does not look at those facts). -/
theorem do_unlimited_wf (udp : Bool) (key k : Nat) :
    waitsPreceded (Model.ReaderPrograms.doProg udp key 0 0 k) = true := by
  have h1 : Model.ReaderPrograms.preceded "Conn.waitForAcknowledge" "select" = true := by decide +kernel
  have h2 : Model.ReaderPrograms.preceded "Conn.doInternal" "select" = true := by decide +kernel
  cases h3 : (Model.ReaderPrograms.preceded "LimitParallelRequests.acquireEndpoint" "select" ||
      Model.ReaderPrograms.handed udp "LimitParallelRequests.Do" "LimitParallelRequests.acquireEndpoint") <;>
  cases h4 : Model.ReaderPrograms.preceded "LimitParallelRequests.Do" "acquire" <;>
  cases udp <;>
    simp_all [Model.ReaderPrograms.doProg, Model.ReaderPrograms.limiterPart, Model.ReaderPrograms.ackPart,
      Model.ReaderPrograms.rep, Model.ReaderPrograms.totalKey, waitsPreceded]

/-! ### Non-vacuity: three requests whose handlers each block in a nested call (queue capacity 0), answered in reverse -/

def demoInbox : List Msg := [
  ⟨1, .req (Model.ReaderPrograms.doProg true 1 0 0 1)⟩, ⟨2, .req (Model.ReaderPrograms.doProg true 1 0 0 2)⟩,
  ⟨3, .req (Model.ReaderPrograms.doProg true 1 0 0 3)⟩, ⟨103, .resp 3⟩, ⟨102, .resp 2⟩, ⟨101, .resp 1⟩]

example : demoInbox.Nodup := by decide
example : WF demoInbox := by
  intro m hm
  simp only [demoInbox, List.mem_cons, List.mem_nil_iff, or_false] at hm
  rcases hm with h | h | h | h | h | h <;> subst h <;> decide +kernel

end CoapVerif.Props.C11

section Audit
open CoapVerif.Props.C11
#print axioms exactly_once
#print axioms exactly_once_across_replacement
#print axioms replacement_moves_nothing
#print axioms never_dropped
#print axioms dispatch_fifo
#print axioms one_current_loop
#print axioms current_never_blocked
#print axioms nested_any_depth
#print axioms queue_drains
#print axioms doInternal_waits_preceded
#print axioms copy_waits_after_handover
#print axioms do_unlimited_wf
end Audit
