import CoapVerif.Model.Reader
import CoapVerif.Model.ReaderPrograms
import CoapVerif.Model.ReaderNStart
import CoapVerif.Lemmas.Reader
import CoapVerif.Props.C11
/-!
# C11 — NSTART slots and the reader loop

> "A handler or callback may itself issue blocking requests on the same connection, to any nesting depth, without stalling
> the connection: processing of later incoming messages (including the awaited response) continues while it waits."
> (properties.jsonl, C11)

`udp/client/conn.go` counts outstanding interactions (RFC 7252 §4.7, NSTART): `prepareWriteMessage` waits for a slot
(`acquireOutstandingInteraction`) before a confirmable request is written.  A handler that waits there waits *on the loop
goroutine*.  Everything below is stated over the regenerated `Generated.WaitShape` (fact `nstartWaitPreceded`: the source calls
`TryToReplaceLoop` before the semaphore wait), so that the module builds for both shapes of the source:

* **source with the hand-over (F41 repaired, /repo a2d1ac6) — the full statement.**  `nstart_handlers_wf`: every handler built from
  nested `Do` (confirmable, non-confirmable, own endpoint) and one-way confirmable writes, at every NSTART, on either transport, is
  well-formed (its first blocking construct is preceded by a replacement request; `do_nstart_wf`, `write_nstart_wf` are the core).
  `nstart_wait_never_keeps_a_queued_message`: for every queue capacity, NSTART, list of such requests (and answers) on the wire and
  every schedule, the current loop is never blocked, and whatever the queue holds its oldest message is taken after finitely many
  steps of the current loop alone — in particular the acknowledgement that frees the slot is reached: no hypothesis about the
  socket reader, no `_partial`.
* **both shapes.**  `slot_window_*`: while a slot is held the holder performs only `send`, `replace` and `wait (acked k)` — never a
  wait for a *delivered* response, a pong or another semaphore.  `release_after_ack_read`: a holder standing in its acknowledgement
  wait gives the slot back after one step of the socket reader and two of its own — no `loopTake`, no dispatch — once the socket
  reader's hand is free and the acknowledgement is next on the wire.
* **source without the hand-over:** `Findings/C11NStart.lean` (`nstart_doProg_not_wf`, `nstart_stall`): the socket reader's hand is
  *not* free for ever, the connection stalls (F41).
-/
namespace CoapVerif.Props.C11NStart
open CoapVerif CoapVerif.Model.Reader CoapVerif.Model.ReaderPrograms CoapVerif.Model.ReaderNStart CoapVerif.Lemmas.Reader

/-- one action seen by an observer who tracks "holds an NSTART slot": `none` = an action that must not happen while the slot is
    held (it could need a dispatch from the receive queue, or another semaphore) -/
def stepW : Bool → Act → Option Bool
  | false, .acquire key _ => some (key == nstartKey)
  | false, _ => some false
  | true, .release key => if key == nstartKey then some false else none
  | true, .send _ => some true
  | true, .replace => some true
  | true, .wait (.acked _) _ => some true
  | true, _ => none

/-- the program holds a slot only over `send · replace · wait (acked _)`, and gives it back before it ends -/
def inlineWindow : Bool → List Act → Bool
  | h, [] => !h
  | h, a :: r => match stepW h a with
    | some h' => inlineWindow h' r
    | none => false

theorem inlineWindow_append (h : Bool) (p q : List Act) (hp : inlineWindow h p = true) (hq : inlineWindow false q = true) :
    inlineWindow h (p ++ q) = true := by
  induction p generalizing h with
  | nil =>
    cases h
    · simpa using hq
    · simp [inlineWindow] at hp
  | cons a r ih =>
    simp only [List.cons_append, inlineWindow] at hp ⊢
    cases hs : stepW h a with
    | none => rw [hs] at hp; cases hp
    | some h' => rw [hs] at hp; exact ih h' hp

/-- NSTART not limiting (`nstart = 0`, the harness's plain `udp`): the programs are those of `ReaderPrograms` -/
theorem nstart_zero_programs (udp : Bool) (a b c k : Nat) :
    doProgN udp a b c 0 k = doProg udp a b c k ∧ writeProgN udp 0 k = writeProg udp k ∧
    observeProgN udp a b c 0 k = observeProg udp a b c k := by
  cases udp <;> simp [doProgN, doProg, writeProgN, writeProg, observeProgN, observeProg, conWrite, takeSlot, giveSlot]

/-- a non-confirmable request takes no slot: its program does not depend on NSTART -/
theorem non_confirmable_independent_of_nstart (udp : Bool) (a b c n k : Nat) :
    doNonProgN udp a b c n k = doNonProg udp a b c k := rfl

/-- the stream transport has no NSTART -/
theorem stream_has_no_nstart (a b c n k : Nat) : doProgN false a b c n k = doProg false a b c k := by
  simp [doProgN, doProg, conWrite, takeSlot, giveSlot, ackPart]

/-- **the slot is held exactly over the write and its acknowledgement wait** -/
theorem slot_window_conWrite (udp : Bool) (n k : Nat) : inlineWindow false (conWrite udp n k) = true := by
  cases udp <;> cases n <;> cases h1 : nstartWaitPreceded <;> cases h2 : preceded "Conn.waitForAcknowledge" "select" <;>
    simp [conWrite, takeSlot, giveSlot, ackPart, rep, h1, h2, inlineWindow, stepW]

theorem quiet_limiterPart (udp : Bool) (fn : String) (a b c : Nat) (ha : a ≠ nstartKey) :
    inlineWindow false (limiterPart udp fn a b c) = true := by
  have ha' : (a == 2) = false := by simpa [nstartKey] using ha
  cases h1 : (preceded "LimitParallelRequests.acquireEndpoint" "select" || handed udp fn "LimitParallelRequests.acquireEndpoint") <;>
    cases h2 : preceded fn "acquire" <;>
    simp [limiterPart, rep, h1, h2, inlineWindow, stepW, ha', totalKey, nstartKey]

theorem quiet_tail (b1 b2 : Bool) (k : Nat) :
    inlineWindow false (rep b1 ++ [.wait (.delivered k) b2] ++ [.endCall k]) = true := by
  cases b1 <;> simp [rep, inlineWindow, stepW]

/-- … for a whole `Do` (any transport, limits, NSTART; endpoint entries are 1 and 100+k, never the NSTART entry) -/
theorem slot_window_do (udp : Bool) (a b c n k : Nat) (ha : a ≠ nstartKey) : inlineWindow false (doProgN udp a b c n k) = true := by
  unfold doProgN
  rw [List.append_assoc, List.append_assoc, List.append_assoc, List.append_assoc]
  refine inlineWindow_append _ _ _ (by simp [inlineWindow, stepW]) ?_
  refine inlineWindow_append _ _ _ (quiet_limiterPart udp _ a b c ha) ?_
  refine inlineWindow_append _ _ _ (slot_window_conWrite udp n k) ?_
  rw [← List.append_assoc]
  exact quiet_tail _ _ k

/-- … for a one-way confirmable write -/
theorem slot_window_write (udp : Bool) (n k : Nat) : inlineWindow false (writeProgN udp n k) = true := by
  unfold writeProgN
  rw [List.append_assoc]
  refine inlineWindow_append _ _ _ (by simp [inlineWindow, stepW]) ?_
  exact inlineWindow_append _ _ _ (slot_window_conWrite udp n k) (by simp [inlineWindow, stepW])

/-- … for `DoObserve` -/
theorem slot_window_observe (udp : Bool) (a b c n k : Nat) (ha : a ≠ nstartKey) :
    inlineWindow false (observeProgN udp a b c n k) = true := by
  unfold observeProgN
  rw [List.append_assoc, List.append_assoc, List.append_assoc, List.append_assoc, List.append_assoc]
  refine inlineWindow_append _ _ _ (by simp [inlineWindow, stepW]) ?_
  refine inlineWindow_append _ _ _ (quiet_limiterPart udp _ a b c ha) ?_
  refine inlineWindow_append _ _ _ (by cases handed udp "Conn.doObserve" "Handler.NewObservation" <;> simp [rep, inlineWindow, stepW]) ?_
  refine inlineWindow_append _ _ _ (slot_window_conWrite udp n k) ?_
  rw [← List.append_assoc]
  exact quiet_tail _ _ k

/-- non-vacuity: NSTART 1 on the datagram transport — the slot is really taken and given back, and the checker rejects a program
    that keeps the slot until the response has been *dispatched* (a non-confirmable request counted until `doInternal` returns) -/
example : (doProgN true 1 0 0 1 7).contains (.acquire nstartKey 1) = true ∧ (doProgN true 1 0 0 1 7).contains (.release nstartKey) = true ∧
    inlineWindow false [.startCall 7 30000, .acquire nstartKey 1, .send 7, .replace, .wait (.delivered 7) true, .endCall 7] = false := by
  decide +kernel

/-- what the socket reader's step does when the acknowledgement of `k` is next on the wire and its hand is free -/
theorem feederRead_ack (s : State) (k : Nat) (m : Msg) (inbox' : List Msg) (hhand : s.hand = none) (hin : s.inbox = m :: inbox')
    (hm : m.kind = .ack k ∨ (m.kind = .resp k ∧ s.udp = true)) :
    (step s .feederRead).loops = s.loops ∧ (step s .feederRead).holders = s.holders ∧
    (step s .feederRead).acked.contains k = true ∧ (step s .feederRead).started = s.started ∧
    (step s .feederRead).queue = s.queue := by
  simp only [step, hhand, hin]
  rcases hm with h | ⟨h, hu⟩
  · simp only [inlinePart, h]
    split <;> simp
  · simp only [inlinePart, h, hu, if_true]
    split <;> simp

/-- **giving the slot back needs only the socket reader** (either shape of the source; a step lemma: the socket reader's hand is free
    and the acknowledgement — bare, or piggybacked on the datagram transport — is the next message on the wire; that the socket
    reader gets there whatever the queue holds is `nstart_wait_never_keeps_a_queued_message`).  The holder `l` may be any
    goroutine (an application call or a handler on a replaced loop); after one step of the socket reader and two steps of `l`, with
    no `loopTake`, no dispatch and no step of any other handler, the slot is back, nothing was taken from the queue, and `l` goes on
    with the rest of its program. -/
theorem release_after_ack_read (s : State) (l k : Nat) (lp : Loop) (b : Bool) (rest : List Act) (m : Msg) (inbox' : List Msg)
    (hl : s.loops l = some lp) (hpc : lp.pc = .running)
    (hprog : lp.prog = .wait (.acked k) b :: .release nstartKey :: rest)
    (hhand : s.hand = none) (hin : s.inbox = m :: inbox')
    (hm : m.kind = .ack k ∨ (m.kind = .resp k ∧ s.udp = true)) :
    (run s [.feederRead, .handlerStep l, .handlerStep l]).holders = removeOne nstartKey s.holders ∧
    (run s [.feederRead, .handlerStep l, .handlerStep l]).started = s.started ∧
    (run s [.feederRead, .handlerStep l, .handlerStep l]).queue = s.queue ∧
    (∃ lp', (run s [.feederRead, .handlerStep l, .handlerStep l]).loops l = some lp' ∧ lp'.prog = rest) := by
  obtain ⟨f1, f2, f3, f4, f5⟩ := feederRead_ack s k m inbox' hhand hin hm
  simp only [run, List.foldl]
  generalize step s .feederRead = s1 at f1 f2 f3 f4 f5 ⊢
  have hl1 : s1.loops l = some lp := by rw [f1]; exact hl
  have e2 : step s1 (.handlerStep l) = setLoop s1 l { lp with prog := .release nstartKey :: rest } := by
    simp only [step, hl1, hpc, if_true, hprog, doAct, holds, f3]
  have e3 : step (setLoop s1 l { lp with prog := .release nstartKey :: rest }) (.handlerStep l) =
      setLoop { (setLoop s1 l { lp with prog := .release nstartKey :: rest }) with
                holders := removeOne nstartKey (setLoop s1 l { lp with prog := .release nstartKey :: rest }).holders } l
        { lp with prog := rest, held := removeOne nstartKey lp.held } := by
    simp only [step, setLoop, if_true, hpc, doAct]
  rw [e2, e3]
  refine ⟨by simp [setLoop, f2], by simp [setLoop, f4], by simp [setLoop, f5], ⟨{ lp with prog := rest, held := removeOne nstartKey lp.held }, by simp [setLoop], rfl⟩⟩

/-- non-vacuity: NSTART 1; an application goroutine (loop slot 1) has written a confirmable request and waits for its ACK with
    the slot; the handler of request 1 (on the one and only reader loop 0) waits for the slot; the ACK is next on the wire.  One
    step of the socket reader and two of the application goroutine free the slot, and the handler's next step takes it. -/
def exApp : Loop := { idleLoop with doneClosed := true, pc := .running, prog := doProgN true 1 0 0 1 9 }
def exState : State :=
  run { setLoop (init 16 true [⟨1, .req (doProgN true 1 0 0 1 1)⟩, ⟨101, .ack 9⟩]) 1 exApp with nloops := 2 }
    -- (a step of a blocked goroutine changes nothing, so the counts only have to be large enough for either shape of the source)
    (List.replicate 12 (.handlerStep 1) ++ [.feederRead, .feederPush, .loopTake 0] ++ List.replicate 12 (.handlerStep 0))

example : slotsInUse exState = 1 ∧ holdsSlotInAckWait exState 1 9 = true ∧ waitsForSlot exState 0 = true ∧ exState.hand = none ∧
    slotsInUse (run exState [.feederRead, .handlerStep 1, .handlerStep 1]) = 0 ∧
    holdsSlotInAckWait (run exState ([.feederRead, .handlerStep 1, .handlerStep 1] ++ List.replicate 6 (.handlerStep 0))) 0 1 = true := by
  decide +kernel

/-! ### The full statement, for a source that hands the reader loop over before the NSTART wait -/

theorem waitsPreceded_append (p q : List Act) (hp : waitsPreceded p = true) (hq : waitsPreceded q = true) :
    waitsPreceded (p ++ q) = true := by
  induction p with
  | nil => simpa using hq
  | cons a r ih =>
    cases a with
    | replace => rfl
    | startCall k d => simpa [waitsPreceded] using ih (by simpa [waitsPreceded] using hp)
    | acquire key limit =>
      cases limit with
      | zero => simpa [waitsPreceded] using ih (by simpa [waitsPreceded] using hp)
      | succ n => simp [waitsPreceded] at hp
    | send k => simpa [waitsPreceded] using ih (by simpa [waitsPreceded] using hp)
    | wait c b => simp [waitsPreceded] at hp
    | endCall k => simpa [waitsPreceded] using ih (by simpa [waitsPreceded] using hp)
    | release key => simpa [waitsPreceded] using ih (by simpa [waitsPreceded] using hp)

/-- **core:** with the hand-over before the NSTART wait a nested confirmable `Do` (limiter off) is well-formed on either transport,
    for every NSTART (0 = not limiting) — `doInternal` / `waitForAcknowledge` have their own (decided over today's source) -/
theorem do_nstart_wf (h : nstartWaitPreceded = true) (udp : Bool) (key n k : Nat) :
    waitsPreceded (doProgN udp key 0 0 n k) = true := by
  have h1 : preceded "Conn.waitForAcknowledge" "select" = true := by decide +kernel
  have h2 : preceded "Conn.doInternal" "select" = true := by decide +kernel
  cases h3 : (preceded "LimitParallelRequests.acquireEndpoint" "select" || handed udp "LimitParallelRequests.Do" "LimitParallelRequests.acquireEndpoint") <;>
  cases h4 : preceded "LimitParallelRequests.Do" "acquire" <;>
  cases udp <;> cases n <;>
    simp_all [doProgN, limiterPart, conWrite, takeSlot, giveSlot, ackPart, rep, totalKey, waitsPreceded]

theorem write_nstart_wf (h : nstartWaitPreceded = true) (udp : Bool) (n k : Nat) : waitsPreceded (writeProgN udp n k) = true := by
  have h1 : preceded "Conn.waitForAcknowledge" "select" = true := by decide +kernel
  cases udp <;> cases n <;> simp_all [writeProgN, conWrite, takeSlot, giveSlot, ackPart, rep, waitsPreceded]

theorem doNon_wf (udp : Bool) (key k : Nat) : waitsPreceded (doNonProg udp key 0 0 k) = true := by
  have h2 : preceded "Conn.doInternal" "select" = true := by decide +kernel
  cases h3 : (preceded "LimitParallelRequests.acquireEndpoint" "select" || handed udp "LimitParallelRequests.Do" "LimitParallelRequests.acquireEndpoint") <;>
  cases h4 : preceded "LimitParallelRequests.Do" "acquire" <;>
    simp_all [doNonProg, limiterPart, rep, totalKey, waitsPreceded]

/-- what a handler may do on its own connection (parallel-request limiter off — with it F11 applies) -/
inductive NestedOp
  | con (key k : Nat)     -- blocking `Do`, confirmable request (endpoint entry `key`)
  | non (key k : Nat)     -- blocking `Do`, non-confirmable request
  | write (k : Nat)       -- one-way confirmable `WriteMessage`

def opProg (udp : Bool) (n : Nat) : NestedOp → List Act
  | .con key k => doProgN udp key 0 0 n k
  | .non key k => doNonProgN udp key 0 0 n k
  | .write k => writeProgN udp n k

/-- the handler that performs `ops` one after the other, then returns -/
def handlerOf (udp : Bool) (n : Nat) (ops : List NestedOp) : List Act := (ops.map (opProg udp n)).flatten

/-- every such handler is well-formed, at every NSTART -/
theorem nstart_handlers_wf (h : nstartWaitPreceded = true) (udp : Bool) (n : Nat) (ops : List NestedOp) :
    waitsPreceded (handlerOf udp n ops) = true := by
  induction ops with
  | nil => rfl
  | cons o r ih =>
    simp only [handlerOf, List.map_cons, List.flatten_cons]
    refine waitsPreceded_append _ _ ?_ ih
    cases o with
    | con key k => exact do_nstart_wf h udp key n k
    | non key k => exact doNon_wf udp key k
    | write k => exact write_nstart_wf h udp n k

/-- **the full statement (source with the hand-over):** a handler's request that waits for an NSTART slot never keeps a queued
    message from being taken.  For every queue capacity, transport, NSTART `n`, every list of messages on the wire whose requests
    have handlers of the form above (nested requests one after the other, to any depth by way of the requests that arrive
    meanwhile; answers and acknowledgements have no handler) and every schedule: the current loop can always take its next step —
    it is never the goroutine that waits in the semaphore —, it has not left while the connection is open, and, whatever the queue
    and the socket reader's hand hold, the oldest waiting message is taken after finitely many steps of the current loop alone
    (no step of a blocked handler is used); so the socket reader always gets on to the acknowledgement that frees the slot. -/
theorem nstart_wait_never_keeps_a_queued_message (h : nstartWaitPreceded = true) (cap n : Nat) (udp : Bool) (inbox : List Msg)
    (hin : ∀ m ∈ inbox, ∃ ops, progOf m.kind = handlerOf udp n ops) (evs : List Event) :
    (∀ lp, (run (init cap udp inbox) evs).loops (run (init cap udp inbox) evs).current = some lp →
      (lp.pc = .exited → (run (init cap udp inbox) evs).closed = true) ∧
      (lp.pc = .running → ∀ act rest, lp.prog = act :: rest →
        (doAct (run (init cap udp inbox) evs) (run (init cap udp inbox) evs).current lp act rest).isSome = true)) ∧
    ((run (init cap udp inbox) evs).closed = false → ∀ m rest, waiting (run (init cap udp inbox) evs) = m :: rest →
      ∃ j, (advanceN j (run (init cap udp inbox) evs)).started = (run (init cap udp inbox) evs).started ++ [m] ∧
        waiting (advanceN j (run (init cap udp inbox) evs)) = rest) := by
  have hwf : Props.C11.WF inbox := by
    intro m hm
    obtain ⟨ops, ho⟩ := hin m hm
    rw [ho]; exact nstart_handlers_wf h udp n ops
  exact ⟨Props.C11.current_never_blocked cap udp inbox hwf evs,
    fun hopen m rest hw => Props.C11.nested_any_depth cap udp inbox hwf evs hopen m rest hw⟩

/-- non-vacuity: NSTART 1, queue of size 0, three requests whose handlers issue nested confirmable requests, a further request, the
    acknowledgements behind them — the history that stalls a source without the hand-over (`Findings.C11NStart.nstart_stall`) -/
def exInbox : List Msg := [⟨1, .req (handlerOf true 1 [.con 1 1])⟩, ⟨2, .req (handlerOf true 1 [.con 1 2, .write 3])⟩,
  ⟨3, .req (handlerOf true 1 [])⟩, ⟨101, .ack 1⟩, ⟨102, .ack 2⟩]

example (h : nstartWaitPreceded = true) :
    ∀ evs, ∀ lp, (run (init 0 true exInbox) evs).loops (run (init 0 true exInbox) evs).current = some lp → lp.pc = .running →
      ∀ act rest, lp.prog = act :: rest →
        (doAct (run (init 0 true exInbox) evs) (run (init 0 true exInbox) evs).current lp act rest).isSome = true := by
  intro evs lp hlp hr
  refine ((nstart_wait_never_keeps_a_queued_message h 0 1 true _ ?_ evs).1 lp hlp).2 hr
  intro m hm
  simp only [exInbox, List.mem_cons, List.mem_nil_iff, or_false] at hm
  rcases hm with rfl | rfl | rfl | rfl | rfl
  · exact ⟨[.con 1 1], rfl⟩
  · exact ⟨[.con 1 2, .write 3], rfl⟩
  · exact ⟨[], rfl⟩
  · exact ⟨[], rfl⟩
  · exact ⟨[], rfl⟩

end CoapVerif.Props.C11NStart

section Audit
open CoapVerif.Props.C11NStart
#print axioms inlineWindow_append
#print axioms nstart_zero_programs
#print axioms non_confirmable_independent_of_nstart
#print axioms stream_has_no_nstart
#print axioms slot_window_conWrite
#print axioms quiet_limiterPart
#print axioms quiet_tail
#print axioms slot_window_do
#print axioms slot_window_write
#print axioms slot_window_observe
#print axioms feederRead_ack
#print axioms release_after_ack_read
#print axioms waitsPreceded_append
#print axioms do_nstart_wf
#print axioms write_nstart_wf
#print axioms doNon_wf
#print axioms nstart_handlers_wf
#print axioms nstart_wait_never_keeps_a_queued_message
end Audit
