import CoapVerif.Model.ReaderReplyCache
/-!
C11, clause "never processed twice", on a busy connection (eleventh seeded round, C11-W):

> Every message accepted from the network is dispatched to application handling exactly once - never dropped while the
> connection is open, never processed twice - …

On the datagram transports a copy of a message (same message ID) that arrives inside EXCHANGE_LIFETIME of the original is a
retransmission: it is answered from the reply cache, its handler does not run again — **however many other exchanges the peer
has had on the connection in between** and however often the cache was swept.  `Driver.C11` treats every `dup:<m>` as such a copy;
`copy_inside_lifetime_is_not_dispatched` is what justifies that for histories of any length (the harness's `flood` op makes them
4 096 and more exchanges long).  `bounded_cache_dispatches_twice` is the seeded shape's witness.
-/
namespace CoapVerif.Props.C11ReplyCache
open CoapVerif.Model.ReaderReplyCache

/-- the entry of message `mid` is in the cache and expires at `exp` -/
def Holds (s : St) (mid exp : Nat) : Prop := (mid, exp) ∈ s.cache

theorem found_of_holds {s : St} {mid exp : Nat} (h : Holds s mid exp) (hl : s.now < exp) : found s.cache s.now mid = true := by
  unfold found
  rw [List.any_eq_true]
  exact ⟨(mid, exp), h, by simp [hl]⟩

/-- one event keeps a live entry, and dispatches `mid` only if it is not there -/
theorem step_keeps (life : Nat) (s : St) (e : Ev) (mid exp : Nat) (h : Holds s mid exp) (hl : (step life s e).now < exp) :
    Holds (step life s e) mid exp ∧ (step life s e).dispatched.count mid = s.dispatched.count mid := by
  cases e with
  | recv m =>
    by_cases hf : found s.cache s.now m = true
    · have hs : step life s (.recv m) = s := by simp [step, hf]
      rw [hs]; exact ⟨h, rfl⟩
    · have hs : step life s (.recv m) = { s with cache := (m, s.now + life) :: s.cache, dispatched := s.dispatched ++ [m] } := by
        simp [step, hf]
      rw [hs] at hl ⊢
      refine ⟨List.mem_cons_of_mem _ h, ?_⟩
      have hne : m ≠ mid := by
        intro heq
        subst heq
        exact hf (found_of_holds h hl)
      simp [List.count_append, hne]
  | sweep =>
    refine ⟨?_, rfl⟩
    have hl' : s.now < exp := hl
    simp only [step, Holds, List.mem_filter]
    exact ⟨h, by simp [hl']⟩
  | tick d => exact ⟨h, rfl⟩

theorem now_mono (life : Nat) (s : St) (e : Ev) : s.now ≤ (step life s e).now := by
  cases e with
  | recv m => simp only [step]; split <;> simp
  | sweep => simp [step]
  | tick d => simp [step]

theorem now_run (life : Nat) (s : St) (es : List Ev) : (run life s es).now = s.now + elapsed es := by
  induction es generalizing s with
  | nil => simp [run, elapsed]
  | cons e es ih =>
    rw [run, ih]
    cases e with
    | recv m => simp only [step, elapsed]; split <;> simp
    | sweep => simp [step, elapsed]
    | tick d => simp only [step, elapsed]; omega

theorem elapsed_append_recv (es : List Ev) (mid : Nat) : elapsed (es ++ [.recv mid]) = elapsed es := by
  induction es with
  | nil => simp [elapsed]
  | cons e es ih => cases e <;> simp [elapsed, ih]

/-- **Never processed twice, for runs of any length.**  Once message `mid` has been received (state `s` holds its entry, expiring at
    `exp`), any sequence of further events — any number of other messages, copies, sweeps — that stays before `exp` dispatches `mid`
    not once more, and the entry is still there. -/
theorem run_keeps (life : Nat) (es : List Ev) (s : St) (mid exp : Nat) (h : Holds s mid exp) (hl : s.now + elapsed es < exp) :
    Holds (run life s es) mid exp ∧ (run life s es).dispatched.count mid = s.dispatched.count mid := by
  induction es generalizing s with
  | nil => exact ⟨h, rfl⟩
  | cons e es ih =>
    have hnow : (step life s e).now + elapsed es = s.now + elapsed (e :: es) := by
      cases e with
      | recv m => simp only [step, elapsed]; split <;> simp
      | sweep => simp [step, elapsed]
      | tick d => simp only [step, elapsed]; omega
    have hl1 : (step life s e).now < exp := by omega
    obtain ⟨h1, c1⟩ := step_keeps life s e mid exp h hl1
    obtain ⟨h2, c2⟩ := ih (step life s e) h1 (by omega)
    exact ⟨h2, by rw [run, c2, c1]⟩

/-- The clause as the histories have it: a message arrives for the first time (it is dispatched: exactly one more dispatch), then
    anything happens for less than EXCHANGE_LIFETIME — `es` is arbitrary, in particular arbitrarily many other exchanges —, then its
    copy arrives: the number of dispatches of `mid` is the same as right after the original. -/
theorem copy_inside_lifetime_is_not_dispatched (life : Nat) (s : St) (mid : Nat) (es : List Ev)
    (hnew : found s.cache s.now mid = false) (hlife : elapsed es < life) :
    (run life s (.recv mid :: es ++ [.recv mid])).dispatched.count mid = s.dispatched.count mid + 1 := by
  have h0 : Holds (step life s (.recv mid)) mid (s.now + life) := by
    simp [step, hnew, Holds]
  have hn0 : (step life s (.recv mid)).now = s.now := by simp [step, hnew]
  have hc0 : (step life s (.recv mid)).dispatched.count mid = s.dispatched.count mid + 1 := by
    simp [step, hnew, List.count_append]
  have hrun : run life s (.recv mid :: es ++ [.recv mid]) = run life (step life s (.recv mid)) (es ++ [.recv mid]) := rfl
  rw [hrun]
  have hel := elapsed_append_recv es mid
  obtain ⟨_, c⟩ := run_keeps life (es ++ [.recv mid]) (step life s (.recv mid)) mid (s.now + life) h0 (by rw [hn0, hel]; omega)
  rw [c, hc0]

/-- non-vacuity: other exchanges and two sweeps in 200 s, lifetime 247 s: message 7 is dispatched once -/
example : (run 247 {} (.recv 7 :: ((List.range 6).map (fun i => Ev.recv (100 + i)) ++ [.sweep, .tick 200, .sweep]) ++ [.recv 7])).dispatched.count 7 = 1 := by
  decide

/-- … and after the lifetime the same message ID is a new message (the statement needs `elapsed es < life`) -/
example : (run 247 {} [.recv 7, .tick 247, .recv 7]).dispatched.count 7 = 2 := by decide

/-- **The seeded shape's witness** (C11-W: at most `cap` entries, the oldest is evicted): with a bound the clause fails — the
    original, `cap` further exchanges, no time at all, and the copy is dispatched a second time. -/
theorem bounded_cache_dispatches_twice :
    (runCap 247 4 {} (.recv 7 :: (List.range 4).map (fun i => Ev.recv (100 + i)) ++ [.recv 7])).dispatched.count 7 = 2 := by
  decide

section Audit
#print axioms found_of_holds
#print axioms step_keeps
#print axioms now_mono
#print axioms now_run
#print axioms elapsed_append_recv
#print axioms run_keeps
#print axioms copy_inside_lifetime_is_not_dispatched
#print axioms bounded_cache_dispatches_twice
end Audit

end CoapVerif.Props.C11ReplyCache
