import CoapVerif.Go.Basic
import CoapVerif.Model.Ownership
import CoapVerif.Spec.Ownership
/-!
# C12 — A pooled message has one owner at a time   (**partial**)

Statement (properties.jsonl): a message object is never returned to the pool twice without being re-acquired in
between, and it is never recycled while the application legitimately holds it: the content of a response returned
from a request call, of a request inside a handler and of a notification inside a callback stays unchanged until
the application releases it or returns.  The library never reads or writes a message after releasing it, under any
concurrency of requests, handlers, retransmissions and housekeeping.

What is proved here:
* `monitor_iff_spec` — the typestate monitor that is run over the lifecycle traces of the real code accepts a
  trace **iff** the trace satisfies the property as stated declaratively in `Spec/Ownership.lean`
  (no double release, no release/recycling while the application holds, no hand-out of a released object, no write
  after release): for every trace and every initial ownership state.  So a clean monitor run is exactly the
  property on that execution, and a monitor alarm is never a false alarm with respect to the stated conditions.
* `processReceived_ok`, `doHandover_ok`, `midElement_once` — the library's receive path, the response hand-over to a
  waiting request and the pending-confirmable clone obey the discipline for **every** behaviour of the application
  handler built from SetMessage / Swap / release-of-swapped / Hijack (path programs, hand abstraction of the code).

What is not proved (hence partial): that the Go code follows exactly these path programs on every schedule — this is
observed, not proved: hook h1 records the real acquire/release trace of every scenario the harness runs and the
monitor validates it (`traces_validated_against_impl`); reads after release are detected only through the poison
values that a message carries while it sits in the pool.
-/
namespace CoapVerif.Props.C12
open CoapVerif CoapVerif.Model.Ownership
open CoapVerif.Spec.Ownership (Ev okAfterRel okWhileHeld specOK)

/-- The obligations the current ownership state puts on the rest of the trace. -/
def Pending (m : Store) (es : List Ev) : Prop :=
  ∀ o, (m o = .free → okAfterRel o es = true) ∧ (m o = .app → okWhileHeld o es = true)

theorem set_same (m : Store) (o : Nat) (t : TS) : (m.set o t) o = t := by simp [Store.set]
theorem set_other (m : Store) (o x : Nat) (t : TS) (h : x ≠ o) : (m.set o t) x = m x := by simp [Store.set, h]

/-- **monitor_iff_spec**: for every trace and every ownership state, the monitor accepts exactly the traces that meet
    the declarative property (given the obligations already pending from the past). -/
theorem monitor_iff_spec (es : List Ev) : ∀ (m : Store), monitor m es = none ↔ (specOK es = true ∧ Pending m es) := by
  induction es with
  | nil => intro m; simp [monitor, specOK, Pending, okAfterRel, okWhileHeld]
  | cons e es ih =>
    intro m
    cases e with
    | acq o =>
      simp only [monitor, stepM]
      cases hm : m o with
      | app =>
        simp only []
        constructor
        · intro h; cases h
        · intro ⟨_, hp⟩
          have := (hp o).2 hm
          simp [okWhileHeld] at this
      | free =>
        simp only []
        rw [ih]
        simp only [specOK]
        constructor
        · intro ⟨hs, hp⟩
          refine ⟨hs, fun x => ?_⟩
          by_cases hx : x = o
          · subst hx; exact ⟨(fun _ => by simp [okAfterRel]), (fun h => by rw [hm] at h; cases h)⟩
          · have := hp x
            rw [set_other m o x _ hx] at this
            exact ⟨(fun h => by simp [okAfterRel, Ne.symm hx, this.1 h]), (fun h => by simp [okWhileHeld, Ne.symm hx, this.2 h])⟩
        · intro ⟨hs, hp⟩
          refine ⟨hs, fun x => ?_⟩
          by_cases hx : x = o
          · subst hx; rw [set_same]; exact ⟨(fun h => by cases h), (fun h => by cases h)⟩
          · rw [set_other m o x _ hx]
            have := hp x
            exact ⟨(fun h => by simpa [okAfterRel, Ne.symm hx] using this.1 h), (fun h => by simpa [okWhileHeld, Ne.symm hx] using this.2 h)⟩
      | held =>
        simp only []
        rw [ih]
        simp only [specOK]
        constructor
        · intro ⟨hs, hp⟩
          refine ⟨hs, fun x => ?_⟩
          by_cases hx : x = o
          · subst hx; exact ⟨(fun _ => by simp [okAfterRel]), (fun h => by rw [hm] at h; cases h)⟩
          · have := hp x
            rw [set_other m o x _ hx] at this
            exact ⟨(fun h => by simp [okAfterRel, Ne.symm hx, this.1 h]), (fun h => by simp [okWhileHeld, Ne.symm hx, this.2 h])⟩
        · intro ⟨hs, hp⟩
          refine ⟨hs, fun x => ?_⟩
          by_cases hx : x = o
          · subst hx; rw [set_same]; exact ⟨(fun h => by cases h), (fun h => by cases h)⟩
          · rw [set_other m o x _ hx]
            have := hp x
            exact ⟨(fun h => by simpa [okAfterRel, Ne.symm hx] using this.1 h), (fun h => by simpa [okWhileHeld, Ne.symm hx] using this.2 h)⟩
    | rel o =>
      simp only [monitor, stepM]
      cases hm : m o with
      | free =>
        simp only []
        constructor
        · intro h; cases h
        · intro ⟨_, hp⟩
          have := (hp o).1 hm
          simp [okAfterRel] at this
      | app =>
        simp only []
        constructor
        · intro h; cases h
        · intro ⟨_, hp⟩
          have := (hp o).2 hm
          simp [okWhileHeld] at this
      | held =>
        simp only []
        rw [ih]
        simp only [specOK, Bool.and_eq_true]
        constructor
        · intro ⟨hs, hp⟩
          have ho := (hp o).1 (set_same m o .free)
          refine ⟨⟨ho, hs⟩, fun x => ?_⟩
          by_cases hx : x = o
          · subst hx; exact ⟨(fun h => by rw [hm] at h; cases h), (fun h => by rw [hm] at h; cases h)⟩
          · have := hp x
            rw [set_other m o x _ hx] at this
            exact ⟨(fun h => by simp [okAfterRel, Ne.symm hx, this.1 h]), (fun h => by simp [okWhileHeld, Ne.symm hx, this.2 h])⟩
        · intro ⟨⟨ho, hs⟩, hp⟩
          refine ⟨hs, fun x => ?_⟩
          by_cases hx : x = o
          · subst hx; rw [set_same]; exact ⟨(fun _ => ho), (fun h => by cases h)⟩
          · rw [set_other m o x _ hx]
            have := hp x
            exact ⟨(fun h => by simpa [okAfterRel, Ne.symm hx] using this.1 h), (fun h => by simpa [okWhileHeld, Ne.symm hx] using this.2 h)⟩
    | hold o =>
      simp only [monitor, stepM]
      cases hm : m o with
      | free =>
        simp only []
        constructor
        · intro h; cases h
        · intro ⟨_, hp⟩
          have := (hp o).1 hm
          simp [okAfterRel] at this
      | app =>
        simp only []
        rw [ih]
        simp only [specOK, Bool.and_eq_true]
        constructor
        · intro ⟨hs, hp⟩
          have ho := (hp o).2 (set_same m o .app)
          refine ⟨⟨ho, hs⟩, fun x => ?_⟩
          by_cases hx : x = o
          · subst hx; exact ⟨(fun h => by rw [hm] at h; cases h), (fun _ => by simpa [okWhileHeld] using ho)⟩
          · have := hp x
            rw [set_other m o x _ hx] at this
            exact ⟨(fun h => by simp [okAfterRel, Ne.symm hx, this.1 h]), (fun h => by simpa [okWhileHeld] using this.2 h)⟩
        · intro ⟨⟨ho, hs⟩, hp⟩
          refine ⟨hs, fun x => ?_⟩
          by_cases hx : x = o
          · subst hx; rw [set_same]; exact ⟨(fun h => by cases h), (fun _ => ho)⟩
          · rw [set_other m o x _ hx]
            have := hp x
            exact ⟨(fun h => by simpa [okAfterRel, Ne.symm hx] using this.1 h), (fun h => by simpa [okWhileHeld] using this.2 h)⟩
      | held =>
        simp only []
        rw [ih]
        simp only [specOK, Bool.and_eq_true]
        constructor
        · intro ⟨hs, hp⟩
          have ho := (hp o).2 (set_same m o .app)
          refine ⟨⟨ho, hs⟩, fun x => ?_⟩
          by_cases hx : x = o
          · subst hx; exact ⟨(fun h => by rw [hm] at h; cases h), (fun h => by rw [hm] at h; cases h)⟩
          · have := hp x
            rw [set_other m o x _ hx] at this
            exact ⟨(fun h => by simp [okAfterRel, Ne.symm hx, this.1 h]), (fun h => by simpa [okWhileHeld] using this.2 h)⟩
        · intro ⟨⟨ho, hs⟩, hp⟩
          refine ⟨hs, fun x => ?_⟩
          by_cases hx : x = o
          · subst hx; rw [set_same]; exact ⟨(fun h => by cases h), (fun _ => ho)⟩
          · rw [set_other m o x _ hx]
            have := hp x
            exact ⟨(fun h => by simpa [okAfterRel, Ne.symm hx] using this.1 h), (fun h => by simpa [okWhileHeld] using this.2 h)⟩
    | unhold o =>
      simp only [monitor, stepM]
      rw [ih]
      simp only [specOK]
      by_cases hm : m o = .app
      · simp only [hm, if_true]
        constructor
        · intro ⟨hs, hp⟩
          refine ⟨hs, fun x => ?_⟩
          by_cases hx : x = o
          · subst hx; exact ⟨(fun h => by rw [hm] at h; cases h), (fun _ => by simp [okWhileHeld])⟩
          · have := hp x
            rw [set_other m o x _ hx] at this
            exact ⟨(fun h => by simpa [okAfterRel] using this.1 h), (fun h => by simp [okWhileHeld, Ne.symm hx, this.2 h])⟩
        · intro ⟨hs, hp⟩
          refine ⟨hs, fun x => ?_⟩
          by_cases hx : x = o
          · subst hx; rw [set_same]; exact ⟨(fun h => by cases h), (fun h => by cases h)⟩
          · rw [set_other m o x _ hx]
            have := hp x
            exact ⟨(fun h => by simpa [okAfterRel] using this.1 h), (fun h => by simpa [okWhileHeld, Ne.symm hx] using this.2 h)⟩
      · simp only [hm, if_false]
        constructor
        · intro ⟨hs, hp⟩
          refine ⟨hs, fun x => ?_⟩
          have := hp x
          by_cases hx : x = o
          · subst hx; exact ⟨(fun h => by simpa [okAfterRel] using this.1 h), (fun h => absurd h hm)⟩
          · exact ⟨(fun h => by simpa [okAfterRel] using this.1 h), (fun h => by simp [okWhileHeld, Ne.symm hx, this.2 h])⟩
        · intro ⟨hs, hp⟩
          refine ⟨hs, fun x => ?_⟩
          have := hp x
          by_cases hx : x = o
          · subst hx; exact ⟨(fun h => by simpa [okAfterRel] using this.1 h), (fun h => absurd h hm)⟩
          · exact ⟨(fun h => by simpa [okAfterRel] using this.1 h), (fun h => by simpa [okWhileHeld, Ne.symm hx] using this.2 h)⟩
    | poisonBad o =>
      simp [monitor, stepM, specOK]

/-- From the start of a trace (every object held by its creator): the monitor accepts iff the property holds. -/
theorem monitor_sound (es : List Ev) : monitor Store.init es = none ↔ specOK es = true := by
  rw [monitor_iff_spec]
  constructor
  · intro h; exact h.1
  · intro h; exact ⟨h, (fun o => ⟨fun hf => by simp [Store.init] at hf, fun hf => by simp [Store.init] at hf⟩)⟩

/-! ### Path programs of the library routines -/

/-- objects the handler brings in (it owns them: they are `held`) -/
def freshOf : List HandlerOp → List Nat
  | [] => []
  | .setMessage f :: r => f :: freshOf r
  | .swap f :: r => f :: freshOf r
  | _ :: r => freshOf r

/-- Distinctness of everything the handler touches: the installed response, what Swap gave back, what it brings in. -/
structure Distinct (s : PathState) (fresh : List Nat) : Prop where
  d1 : s.resp ∉ s.swapped
  d2 : s.swapped.Nodup
  d3 : fresh.Nodup
  d4 : ∀ f ∈ fresh, f ≠ s.resp ∧ f ∉ s.swapped

/-- The handler part of a routine: whatever the handler does, every release it causes hits an object that is held,
    the monitor stays silent, and afterwards the installed response and everything Swap handed back are still held;
    objects the handler never touches keep their state. -/
theorem ne_of_mem_not_mem {a b : Nat} {l : List Nat} (ha : a ∈ l) (hb : b ∉ l) : a ≠ b :=
  fun e => hb (e ▸ ha)

theorem handler_ok (ops : List HandlerOp) : ∀ (s : PathState) (m : Store) (tail : List Ev),
    Distinct s (freshOf ops) → m s.resp = .held → (∀ o ∈ s.swapped, m o = .held) → (∀ f ∈ freshOf ops, m f = .held) →
    ∃ m', monitor m ((handlerTrace s ops).2 ++ tail) = monitor m' tail ∧
      m' (handlerTrace s ops).1.resp = .held ∧
      (handlerTrace s ops).1.resp ∈ s.resp :: freshOf ops ∧
      (∀ x, x ≠ s.resp → x ∉ s.swapped → x ∉ freshOf ops → m' x = m x) := by
  induction ops with
  | nil =>
    intro s m tail _ hr _ _
    exact ⟨m, by simp [handlerTrace], by simpa [handlerTrace] using hr, by simp [handlerTrace], fun _ _ _ _ => rfl⟩
  | cons op ops ih =>
    intro s m tail hd hr hsw hfr
    cases op with
    | setMessage f =>
      simp only [freshOf] at hd hfr ⊢
      have hf := hd.d4 f (by simp)
      have hnd := List.nodup_cons.mp hd.d3
      have hd1 : Distinct { s with resp := f } (freshOf ops) :=
        ⟨hf.2, hd.d2, hnd.2, fun g hg => ⟨ne_of_mem_not_mem hg hnd.1, (hd.d4 g (by simp [hg])).2⟩⟩
      have h1 : (m.set s.resp .free) f = .held := by rw [set_other m _ f _ hf.1]; exact hfr f (by simp)
      have h2 : ∀ o ∈ s.swapped, (m.set s.resp .free) o = .held := fun o ho => by
        rw [set_other m _ o _ (ne_of_mem_not_mem ho hd.d1)]; exact hsw o ho
      have h3 : ∀ g ∈ freshOf ops, (m.set s.resp .free) g = .held := fun g hg => by
        rw [set_other m _ g _ (hd.d4 g (by simp [hg])).1]; exact hfr g (by simp [hg])
      obtain ⟨m', e1, e2, e3, e4⟩ := ih { s with resp := f } (m.set s.resp .free) tail hd1 h1 h2 h3
      refine ⟨m', ?_, by simpa [handlerTrace] using e2, ?_, ?_⟩
      · simp only [handlerTrace, List.cons_append, monitor, stepM, hr]
        exact e1
      · simp only [handlerTrace]
        rcases List.mem_cons.mp e3 with h | h
        · simp [h]
        · simp [h]
      · intro x hx1 hx2 hx3
        simp only [List.mem_cons, not_or] at hx3
        rw [e4 x hx3.1 hx2 hx3.2, set_other m _ x _ hx1]
    | swap f =>
      simp only [freshOf] at hd hfr ⊢
      have hf := hd.d4 f (by simp)
      have hnd := List.nodup_cons.mp hd.d3
      have hd1 : Distinct { s with resp := f, swapped := s.resp :: s.swapped } (freshOf ops) :=
        ⟨by simp [hf.1, hf.2], List.nodup_cons.mpr ⟨hd.d1, hd.d2⟩, hnd.2,
         fun g hg => ⟨ne_of_mem_not_mem hg hnd.1, by
           have := hd.d4 g (by simp [hg]); simp [this.1, this.2]⟩⟩
      have h2 : ∀ o ∈ s.resp :: s.swapped, m o = .held := fun o ho => by
        rcases List.mem_cons.mp ho with h | h
        · rw [h]; exact hr
        · exact hsw o h
      obtain ⟨m', e1, e2, e3, e4⟩ := ih { s with resp := f, swapped := s.resp :: s.swapped } m tail hd1
        (hfr f (by simp)) h2 (fun g hg => hfr g (by simp [hg]))
      refine ⟨m', by simpa [handlerTrace] using e1, by simpa [handlerTrace] using e2, ?_, ?_⟩
      · simp only [handlerTrace]
        rcases List.mem_cons.mp e3 with h | h
        · simp [h]
        · simp [h]
      · intro x hx1 hx2 hx3
        simp only [List.mem_cons, not_or] at hx3
        exact e4 x hx3.1 (by simp [hx1, hx2]) hx3.2
    | releaseSwapped =>
      simp only [freshOf] at hd hfr ⊢
      obtain ⟨sr, ssw, sh⟩ := s
      cases ssw with
      | nil =>
        obtain ⟨m', e1, e2, e3, e4⟩ := ih ⟨sr, [], sh⟩ m tail hd hr hsw hfr
        exact ⟨m', by simpa [handlerTrace] using e1, by simpa [handlerTrace] using e2,
          by simpa [handlerTrace] using e3, e4⟩
      | cons o rest =>
        simp only at hd hr hsw
        have hmo : o ∈ o :: rest := by simp
        have hsub : ∀ x ∈ rest, x ∈ o :: rest := fun x hx => by simp [hx]
        have hnd := List.nodup_cons.mp hd.d2
        have ho : m o = .held := hsw o hmo
        have hro : sr ≠ o := (ne_of_mem_not_mem hmo hd.d1).symm
        have hd1 : Distinct ⟨sr, rest, sh⟩ (freshOf ops) :=
          ⟨fun h => hd.d1 (hsub _ h), hnd.2, hd.d3,
           fun g hg => ⟨(hd.d4 g hg).1, fun h => (hd.d4 g hg).2 (hsub _ h)⟩⟩
        have h1 : (m.set o .free) sr = .held := by rw [set_other m _ _ _ hro]; exact hr
        have h2 : ∀ x ∈ rest, (m.set o .free) x = .held := fun x hx => by
          rw [set_other m _ x _ (ne_of_mem_not_mem hx hnd.1)]; exact hsw x (hsub x hx)
        have h3 : ∀ g ∈ freshOf ops, (m.set o .free) g = .held := fun g hg => by
          rw [set_other m _ g _ (ne_of_mem_not_mem hmo (hd.d4 g hg).2).symm]; exact hfr g hg
        obtain ⟨m', e1, e2, e3, e4⟩ := ih ⟨sr, rest, sh⟩ (m.set o .free) tail hd1 h1 h2 h3
        refine ⟨m', ?_, by simpa [handlerTrace] using e2, by simpa [handlerTrace] using e3, ?_⟩
        · simp only [handlerTrace, List.cons_append, monitor, stepM, ho]
          exact e1
        · intro x hx1 hx2 hx3
          have hxo : x ≠ o := fun e => hx2 (e ▸ hmo)
          rw [e4 x hx1 (fun h => hx2 (hsub x h)) hx3, set_other m _ x _ hxo]
    | hijack =>
      simp only [freshOf] at hd hfr ⊢
      obtain ⟨m', e1, e2, e3, e4⟩ := ih { s with hijacked := true } m tail
        ⟨hd.d1, hd.d2, hd.d3, hd.d4⟩ hr hsw hfr
      exact ⟨m', by simpa [handlerTrace] using e1, by simpa [handlerTrace] using e2,
        by simpa [handlerTrace] using e3, e4⟩

/-- **routine_preserves (receive path)**: `ProcessReceivedMessageWithHandler` on udp and tcp obeys the ownership
    discipline for every sequence of handler operations — given that the objects the handler brings in are its own,
    distinct ones. In particular the request is released at most once and never while the handler runs, and every
    response object installed at some point is released exactly once. -/
theorem monitor_cons_ok (m m' : Store) (e : Ev) (es : List Ev) (h : stepM m e = .ok m') :
    monitor m (e :: es) = monitor m' es := by
  simp [monitor, h]

theorem processReceived_ok (tcp : Bool) (req resp : Nat) (ops : List HandlerOp)
    (hfresh : (freshOf ops).Nodup) (hreq : req ≠ resp ∧ req ∉ freshOf ops) (hresp : resp ∉ freshOf ops) :
    monitor Store.init (processReceived tcp req resp ops) = none := by
  unfold processReceived
  simp only []
  -- `acq resp`, `hold req`
  have s1 : stepM Store.init (.acq resp) = .ok (Store.init.set resp .held) := by simp [stepM, Store.init]
  have hq : (Store.init.set resp .held) req = .held := by rw [set_other _ _ _ _ hreq.1]; rfl
  have s2 : stepM (Store.init.set resp .held) (.hold req) = .ok ((Store.init.set resp .held).set req .app) := by
    simp [stepM, hq]
  rw [monitor_cons_ok _ _ _ _ s1, monitor_cons_ok _ _ _ _ s2]
  have hm0r : ((Store.init.set resp .held).set req .app) resp = .held := by
    rw [set_other _ _ _ _ (Ne.symm hreq.1), set_same]
  have hm0f : ∀ f ∈ freshOf ops, ((Store.init.set resp .held).set req .app) f = .held := fun f hf => by
    rw [set_other _ _ _ _ (ne_of_mem_not_mem hf hreq.2), set_other _ _ _ _ (ne_of_mem_not_mem hf hresp)]; rfl
  have hd : Distinct { resp := resp } (freshOf ops) :=
    ⟨by simp, by simp, hfresh, fun f hf => ⟨ne_of_mem_not_mem hf hresp, by simp⟩⟩
  obtain ⟨m', e1, e2, e3, e4⟩ := handler_ok ops { resp := resp } ((Store.init.set resp .held).set req .app) _
    hd hm0r (by simp) hm0f
  rw [e1]
  have hreqm : m' req = .app := by
    rw [e4 req hreq.1 (by simp) hreq.2]; exact set_same _ _ _
  have hne : (handlerTrace { resp := resp } ops).1.resp ≠ req := by
    intro e
    rcases List.mem_cons.mp e3 with h | h
    · exact hreq.1 (by rw [← e, h])
    · exact hreq.2 (e ▸ h)
  have s3 : stepM m' (.unhold req) = .ok (m'.set req .held) := by simp [stepM, hreqm]
  rw [monitor_cons_ok _ _ _ _ s3]
  have hr2 : (m'.set req .held) (handlerTrace { resp := resp } ops).1.resp = .held := by
    rw [set_other _ _ _ _ hne]; exact e2
  cases tcp <;> cases (handlerTrace { resp := resp } ops).1.hijacked <;>
    simp [monitor, stepM, set_same, hr2, set_other _ _ _ _ hne, set_other _ _ _ _ (Ne.symm hne)]

/-- **routine_preserves (response hand-over)**: the response hijacked by a waiting request call is not released by the
    receive path, is held by the caller and released by it exactly once. -/
theorem doHandover_ok (r resp : Nat) (h : r ≠ resp) : monitor Store.init (doHandover r resp) = none := by
  unfold doHandover processReceived
  simp [handlerTrace, monitor, stepM, Store.init, Store.set, h, Ne.symm h]

/-- **routine_preserves (pending confirmable)**: however many of {ACK/RST, expiry sweep, retransmission error} try to
    release the private clone, it reaches the pool at most once. -/
theorem midElement_once (clone n : Nat) : monitor Store.init (midElementReleases clone n) = none := by
  unfold midElementReleases
  split <;> simp [monitor, stepM, Store.init, Store.set]

/-! Non-vacuity: a handler that installs its own response (3), swaps in another (4), releases what Swap gave back and
    hijacks the request; and a trace with a double release that the monitor rejects. -/
example : monitor Store.init (processReceived false 1 2 [.setMessage 3, .swap 4, .releaseSwapped, .hijack]) = none := by decide
example : monitor Store.init [.rel 5, .rel 5] = some (.doubleRelease 5) := by decide
example : specOK [.hold 1, .rel 1, .unhold 1] = false := by decide

end CoapVerif.Props.C12

section Audit
open CoapVerif.Props.C12
#print axioms set_same
#print axioms set_other
#print axioms monitor_iff_spec
#print axioms monitor_sound
#print axioms ne_of_mem_not_mem
#print axioms handler_ok
#print axioms monitor_cons_ok
#print axioms processReceived_ok
#print axioms doHandover_ok
#print axioms midElement_once
end Audit
