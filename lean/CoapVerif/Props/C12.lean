import CoapVerif.Go.Basic
import CoapVerif.Model.Ownership
import CoapVerif.Spec.Ownership
/-!
# C12 — A pooled message has one owner at a time   (**partial**)

Statement (properties.jsonl): a message object is never returned to the pool twice without being re-acquired in
between, and it is never recycled while the application legitimately holds it: the content of a response returned
from a request call, of a request inside a handler and of a notification inside a callback stays unchanged until
the application releases it or returns.  The library never reads or writes a message after releasing it, under any
concurrency of requests, handlers, retransmissions and housekeeping.

What is proved here:
* `monitor_iff_spec` — the typestate monitor that is run over the lifecycle traces of the real code accepts a
  trace **iff** the trace satisfies the property as stated declaratively in `Spec/Ownership.lean`
  (no double release; no second hand-out by the pool without a release in between; no release/recycling while any
  of the — counted — application holds is in progress; no hand-out of a released object to the application; no
  read/write by the library of a released object; no write after release): for every trace and every initial
  ownership state with its pending obligations.  So a clean monitor run is exactly the property on that execution,
  and a monitor alarm is never a false alarm with respect to the stated conditions.  `monitor_sound`: from the empty
  state (`Store.init`, nothing seen yet) there are no pending obligations.
* `processReceived_ok`, `doHandover_ok` — the library's receive path and the response hand-over to a waiting request
  obey the discipline for **every** behaviour of the application handler built from SetMessage / Swap /
  release-of-swapped / Hijack (path programs, hand abstraction of the code).
* `midElement_ok`, `midElement_spec`, `midElement_released_once` — the pending confirmable's stored clone
  (`midElement` of udp/client/conn.go: `private.msg` under `private.Mutex`) as a transition system: for **every
  schedule** of release attempts (ACK, RST, response, expiry, write error), retransmissions (`GetMessage`: acquire a
  copy, clone the stored message into it, all under the lock; failing or not) and completions (write + release of
  the copy), interleaved at the granularity of the critical sections, the emitted trace is accepted by the monitor;
  the stored clone is released exactly once iff some release attempt runs.  `midElement_unlocked_clone_rejected`:
  the same system with the clone moved out of the critical section (seeded shape C12-A) has a rejected schedule.

* `Props/C12Paths.lean` (second module of this check) — path programs of the observation callbacks and of the block-wise
  layer (`Model/OwnershipPaths.lean`): `linear_ok`, `obs_ok`, `bw_ok`, `linear_conservation`, `obs_released_once`,
  `bw_released_once`, `accepted_rel_le_acq` and four negative theorems.

What is not proved (hence partial): that the Go code follows exactly these path programs / this transition system on
every schedule — this is observed, not proved: hook h1 records the real acquire/release trace of every scenario the
harness runs and the monitor validates it (`traces_validated_against_impl`); reads after release by the real code are
detected only through the poison values that a message carries while it sits in the pool and through the race
harness (the tracker emits no `use` events; `use` occurs in the model traces of `midElement` only).
-/
namespace CoapVerif.Props.C12
open CoapVerif CoapVerif.Model.Ownership
open CoapVerif.Spec.Ownership (Ev okAfterRel okAfterAcq okWhileHeld specOK)

/-- What the spec asks of the rest of the trace at the event `e` itself (the clause that starts at `e`). -/
def headOK : Ev → List Ev → Bool
  | .rel o, r => okAfterRel o r
  | .acq o, r => okAfterAcq o r
  | .hold o, r => okWhileHeld o 0 r
  | .poisonBad _, _ => false
  | _, _ => true

theorem specOK_cons (e : Ev) (es : List Ev) : specOK (e :: es) = (headOK e es && specOK es) := by
  cases e <;> simp [specOK, headOK]

/-- The obligation a past `acq o` still puts on the rest of the trace. -/
def acqObl (o : Nat) (out : Bool) (es : List Ev) : Bool := if out then okAfterAcq o es else true

/-- The obligations the typestate `t` of object `o` puts on the rest of the trace -/
def obl (o : Nat) : TS → List Ev → Bool
  | .free, es => okAfterRel o es
  | .held out, es => acqObl o out es
  | .app out n, es => okWhileHeld o n es && acqObl o out es

/-- The obligations the current ownership state puts on the rest of the trace. -/
def Pending (m : Store) (es : List Ev) : Prop := ∀ o, obl o (m o) es = true

theorem set_same (m : Store) (o : Nat) (t : TS) : (m.set o t) o = t := by simp [Store.set]
theorem set_other (m : Store) (o x : Nat) (t : TS) (h : x ≠ o) : (m.set o t) x = m x := by simp [Store.set, h]

/-- A hold that is protected at nesting depth `d+1` is protected at depth `d`. -/
theorem okWhileHeld_mono1 (o : Nat) (es : List Ev) : ∀ d, okWhileHeld o (d + 1) es = true → okWhileHeld o d es = true := by
  induction es with
  | nil => intro d _; rfl
  | cons e es ih =>
    intro d h
    cases e with
    | hold o' =>
      simp only [okWhileHeld] at h ⊢
      by_cases ho : o' = o
      · simp only [ho, if_true] at h ⊢; exact ih _ h
      · simp only [ho, if_false] at h ⊢; exact ih _ h
    | unhold o' =>
      simp only [okWhileHeld] at h ⊢
      by_cases ho : o' = o
      · simp only [ho, if_true] at h ⊢
        cases d with
        | zero => rfl
        | succ d' => exact ih _ h
      · simp only [ho, if_false] at h ⊢; exact ih _ h
    | rel o' =>
      simp only [okWhileHeld] at h ⊢
      by_cases ho : o' = o
      · simp [ho] at h
      · simp only [ho, if_false] at h ⊢; exact ih _ h
    | acq o' =>
      simp only [okWhileHeld] at h ⊢
      by_cases ho : o' = o
      · simp [ho] at h
      · simp only [ho, if_false] at h ⊢; exact ih _ h
    | poisonBad o' => simp only [okWhileHeld] at h ⊢; exact ih _ h
    | use o' => simp only [okWhileHeld] at h ⊢; exact ih _ h

theorem okWhileHeld_zero (o : Nat) (es : List Ev) : ∀ d, okWhileHeld o d es = true → okWhileHeld o 0 es = true := by
  intro d
  induction d with
  | zero => exact id
  | succ d ih => exact fun h => ih (okWhileHeld_mono1 o es d h)

/-- An event about another object does not touch the obligations of `x`. -/
theorem obl_other (x : Nat) (t : TS) (e : Ev) (es : List Ev) (h : objOf e ≠ x) : obl x t (e :: es) = obl x t es := by
  cases e <;> cases t <;> simp only [objOf] at h <;>
    simp [obl, acqObl, okAfterRel, okAfterAcq, okWhileHeld, h]

/-- A step the monitor refuses breaks the clause starting at the event or an obligation pending on its object. -/
theorem step_error (e : Ev) (t : TS) (es : List Ev) (v : Viol) (h : stepTS (objOf e) t e = .error v) :
    ¬ (headOK e es = true ∧ obl (objOf e) t (e :: es) = true) := by
  cases e <;> cases t <;> simp only [stepTS, objOf] at h <;>
    (try cases h) <;> (try (rename_i out; cases out <;> simp only [] at h <;> (try cases h))) <;>
    simp [headOK, obl, acqObl, okAfterRel, okAfterAcq, okWhileHeld, objOf]

/-- A step the monitor accepts turns (the clause starting at the event + the obligations pending on its object) into
    exactly the obligations of the new typestate. -/
theorem step_ok (e : Ev) (t t' : TS) (es : List Ev) (h : stepTS (objOf e) t e = .ok t') :
    (headOK e es = true ∧ obl (objOf e) t (e :: es) = true) ↔ obl (objOf e) t' es = true := by
  cases e with
  | acq o =>
    cases t with
    | free => cases h; simp [headOK, obl, acqObl, okAfterRel, objOf]
    | held out => cases out <;> cases h; simp [headOK, obl, acqObl, objOf]
    | app out n => cases h
  | rel o =>
    cases t with
    | free => cases h
    | held out => cases h; cases out <;> simp [headOK, obl, acqObl, okAfterAcq, objOf]
    | app out n => cases h
  | hold o =>
    cases t with
    | free => cases h
    | held out => cases h; simp [headOK, obl, acqObl, okAfterAcq, objOf]
    | app out n =>
      cases h
      simp only [headOK, obl, acqObl, okAfterAcq, okWhileHeld, objOf, if_true, Bool.and_eq_true]
      constructor
      · intro h; exact h.2
      · intro h; exact ⟨okWhileHeld_zero o es _ h.1, h⟩
  | unhold o =>
    cases t with
    | free => cases h; simp [headOK, obl, okAfterRel, objOf]
    | held out => cases h; simp [headOK, obl, acqObl, okAfterAcq, objOf]
    | app out n =>
      cases n <;> cases h <;> simp [headOK, obl, acqObl, okAfterAcq, okWhileHeld, objOf]
  | poisonBad o => cases h
  | use o =>
    cases t with
    | free => cases h
    | held out => cases h; simp [headOK, obl, acqObl, okAfterAcq, objOf]
    | app out n => cases h; simp [headOK, obl, acqObl, okAfterAcq, okWhileHeld, objOf]

/-- **monitor_iff_spec**: for every trace and every ownership state, the monitor accepts exactly the traces that meet
    the declarative property (given the obligations already pending from the past). -/
theorem monitor_iff_spec (es : List Ev) : ∀ (m : Store), monitor m es = none ↔ (specOK es = true ∧ Pending m es) := by
  induction es with
  | nil => intro m; simp only [monitor, specOK, Pending, true_and]; exact ⟨fun _ o => by cases m o <;> simp [obl, acqObl, okAfterRel, okAfterAcq, okWhileHeld], fun _ => trivial⟩
  | cons e es ih =>
    intro m
    simp only [monitor, stepM, specOK_cons, Bool.and_eq_true]
    cases hs : stepTS (objOf e) (m (objOf e)) e with
    | error v =>
      simp only []
      constructor
      · intro h; cases h
      · intro ⟨⟨hh, _⟩, hp⟩; exact absurd ⟨hh, hp (objOf e)⟩ (step_error e _ es v hs)
    | ok t' =>
      simp only []
      rw [ih]
      have key := step_ok e _ t' es hs
      constructor
      · intro ⟨hsp, hp⟩
        have h1 := key.mpr (by simpa [set_same] using hp (objOf e))
        refine ⟨⟨h1.1, hsp⟩, fun x => ?_⟩
        by_cases hx : x = objOf e
        · rw [hx]; exact h1.2
        · rw [obl_other x _ e es (Ne.symm hx)]
          have := hp x
          rwa [set_other m _ x _ hx] at this
      · intro ⟨⟨hh, hsp⟩, hp⟩
        refine ⟨hsp, fun x => ?_⟩
        by_cases hx : x = objOf e
        · rw [hx, set_same]; exact key.mp ⟨hh, hp (objOf e)⟩
        · rw [set_other m _ x _ hx, ← obl_other x _ e es (Ne.symm hx)]
          exact hp x

/-- From the start of a trace (nothing seen yet): the monitor accepts iff the property holds. -/
theorem monitor_sound (es : List Ev) : monitor Store.init es = none ↔ specOK es = true := by
  rw [monitor_iff_spec]
  exact ⟨fun h => h.1, fun h => ⟨h, fun o => rfl⟩⟩

/-! ### Path programs of the library routines -/

/-- `t` is the state of an object owned by library or handler code, not held by the application, not in the pool. -/
def Owned (t : TS) : Prop := ∃ out, t = .held out

theorem monitor_cons_ok (m m' : Store) (e : Ev) (es : List Ev) (h : stepM m e = .ok m') :
    monitor m (e :: es) = monitor m' es := by
  simp [monitor, h]

theorem monitor_rel_owned (m : Store) (o : Nat) (es : List Ev) (h : Owned (m o)) :
    monitor m (.rel o :: es) = monitor (m.set o .free) es := by
  obtain ⟨b, hb⟩ := h
  exact monitor_cons_ok _ _ _ _ (by simp [stepM, stepTS, objOf, hb])

/-- objects the handler brings in (it owns them: they are `held`) -/
def freshOf : List HandlerOp → List Nat
  | [] => []
  | .setMessage f :: r => f :: freshOf r
  | .swap f :: r => f :: freshOf r
  | _ :: r => freshOf r

/-- Distinctness of everything the handler touches: the installed response, what Swap gave back, what it brings in. -/
structure Distinct (s : PathState) (fresh : List Nat) : Prop where
  d1 : s.resp ∉ s.swapped
  d2 : s.swapped.Nodup
  d3 : fresh.Nodup
  d4 : ∀ f ∈ fresh, f ≠ s.resp ∧ f ∉ s.swapped

/-- The handler part of a routine: whatever the handler does, every release it causes hits an object that is held,
    the monitor stays silent, and afterwards the installed response and everything Swap handed back are still held;
    objects the handler never touches keep their state. -/
theorem ne_of_mem_not_mem {a b : Nat} {l : List Nat} (ha : a ∈ l) (hb : b ∉ l) : a ≠ b :=
  fun e => hb (e ▸ ha)

theorem handler_ok (ops : List HandlerOp) : ∀ (s : PathState) (m : Store) (tail : List Ev),
    Distinct s (freshOf ops) → Owned (m s.resp) → (∀ o ∈ s.swapped, Owned (m o)) → (∀ f ∈ freshOf ops, Owned (m f)) →
    ∃ m', monitor m ((handlerTrace s ops).2 ++ tail) = monitor m' tail ∧
      Owned (m' (handlerTrace s ops).1.resp) ∧
      (handlerTrace s ops).1.resp ∈ s.resp :: freshOf ops ∧
      (∀ x, x ≠ s.resp → x ∉ s.swapped → x ∉ freshOf ops → m' x = m x) := by
  induction ops with
  | nil =>
    intro s m tail _ hr _ _
    exact ⟨m, by simp [handlerTrace], by simpa [handlerTrace] using hr, by simp [handlerTrace], fun _ _ _ _ => rfl⟩
  | cons op ops ih =>
    intro s m tail hd hr hsw hfr
    cases op with
    | setMessage f =>
      simp only [freshOf] at hd hfr ⊢
      have hf := hd.d4 f (by simp)
      have hnd := List.nodup_cons.mp hd.d3
      have hd1 : Distinct { s with resp := f } (freshOf ops) :=
        ⟨hf.2, hd.d2, hnd.2, fun g hg => ⟨ne_of_mem_not_mem hg hnd.1, (hd.d4 g (by simp [hg])).2⟩⟩
      have h1 : Owned ((m.set s.resp .free) f) := by rw [set_other m _ f _ hf.1]; exact hfr f (by simp)
      have h2 : ∀ o ∈ s.swapped, Owned ((m.set s.resp .free) o) := fun o ho => by
        rw [set_other m _ o _ (ne_of_mem_not_mem ho hd.d1)]; exact hsw o ho
      have h3 : ∀ g ∈ freshOf ops, Owned ((m.set s.resp .free) g) := fun g hg => by
        rw [set_other m _ g _ (hd.d4 g (by simp [hg])).1]; exact hfr g (by simp [hg])
      obtain ⟨m', e1, e2, e3, e4⟩ := ih { s with resp := f } (m.set s.resp .free) tail hd1 h1 h2 h3
      refine ⟨m', ?_, by simpa [handlerTrace] using e2, ?_, ?_⟩
      · simp only [handlerTrace, List.cons_append]
        rw [monitor_rel_owned _ _ _ hr]
        exact e1
      · simp only [handlerTrace]
        rcases List.mem_cons.mp e3 with h | h
        · simp [h]
        · simp [h]
      · intro x hx1 hx2 hx3
        simp only [List.mem_cons, not_or] at hx3
        rw [e4 x hx3.1 hx2 hx3.2, set_other m _ x _ hx1]
    | swap f =>
      simp only [freshOf] at hd hfr ⊢
      have hf := hd.d4 f (by simp)
      have hnd := List.nodup_cons.mp hd.d3
      have hd1 : Distinct { s with resp := f, swapped := s.resp :: s.swapped } (freshOf ops) :=
        ⟨by simp [hf.1, hf.2], List.nodup_cons.mpr ⟨hd.d1, hd.d2⟩, hnd.2,
         fun g hg => ⟨ne_of_mem_not_mem hg hnd.1, by
           have := hd.d4 g (by simp [hg]); simp [this.1, this.2]⟩⟩
      have h2 : ∀ o ∈ s.resp :: s.swapped, Owned (m o) := fun o ho => by
        rcases List.mem_cons.mp ho with h | h
        · rw [h]; exact hr
        · exact hsw o h
      obtain ⟨m', e1, e2, e3, e4⟩ := ih { s with resp := f, swapped := s.resp :: s.swapped } m tail hd1
        (hfr f (by simp)) h2 (fun g hg => hfr g (by simp [hg]))
      refine ⟨m', by simpa [handlerTrace] using e1, by simpa [handlerTrace] using e2, ?_, ?_⟩
      · simp only [handlerTrace]
        rcases List.mem_cons.mp e3 with h | h
        · simp [h]
        · simp [h]
      · intro x hx1 hx2 hx3
        simp only [List.mem_cons, not_or] at hx3
        exact e4 x hx3.1 (by simp [hx1, hx2]) hx3.2
    | releaseSwapped =>
      simp only [freshOf] at hd hfr ⊢
      obtain ⟨sr, ssw, sh⟩ := s
      cases ssw with
      | nil =>
        obtain ⟨m', e1, e2, e3, e4⟩ := ih ⟨sr, [], sh⟩ m tail hd hr hsw hfr
        exact ⟨m', by simpa [handlerTrace] using e1, by simpa [handlerTrace] using e2,
          by simpa [handlerTrace] using e3, e4⟩
      | cons o rest =>
        simp only at hd hr hsw
        have hmo : o ∈ o :: rest := by simp
        have hsub : ∀ x ∈ rest, x ∈ o :: rest := fun x hx => by simp [hx]
        have hnd := List.nodup_cons.mp hd.d2
        have ho : Owned (m o) := hsw o hmo
        have hro : sr ≠ o := (ne_of_mem_not_mem hmo hd.d1).symm
        have hd1 : Distinct ⟨sr, rest, sh⟩ (freshOf ops) :=
          ⟨fun h => hd.d1 (hsub _ h), hnd.2, hd.d3,
           fun g hg => ⟨(hd.d4 g hg).1, fun h => (hd.d4 g hg).2 (hsub _ h)⟩⟩
        have h1 : Owned ((m.set o .free) sr) := by rw [set_other m _ _ _ hro]; exact hr
        have h2 : ∀ x ∈ rest, Owned ((m.set o .free) x) := fun x hx => by
          rw [set_other m _ x _ (ne_of_mem_not_mem hx hnd.1)]; exact hsw x (hsub x hx)
        have h3 : ∀ g ∈ freshOf ops, Owned ((m.set o .free) g) := fun g hg => by
          rw [set_other m _ g _ (ne_of_mem_not_mem hmo (hd.d4 g hg).2).symm]; exact hfr g hg
        obtain ⟨m', e1, e2, e3, e4⟩ := ih ⟨sr, rest, sh⟩ (m.set o .free) tail hd1 h1 h2 h3
        refine ⟨m', ?_, by simpa [handlerTrace] using e2, by simpa [handlerTrace] using e3, ?_⟩
        · simp only [handlerTrace, List.cons_append]
          rw [monitor_rel_owned _ _ _ ho]
          exact e1
        · intro x hx1 hx2 hx3
          have hxo : x ≠ o := fun e => hx2 (e ▸ hmo)
          rw [e4 x hx1 (fun h => hx2 (hsub x h)) hx3, set_other m _ x _ hxo]
    | hijack =>
      simp only [freshOf] at hd hfr ⊢
      obtain ⟨m', e1, e2, e3, e4⟩ := ih { s with hijacked := true } m tail
        ⟨hd.d1, hd.d2, hd.d3, hd.d4⟩ hr hsw hfr
      exact ⟨m', by simpa [handlerTrace] using e1, by simpa [handlerTrace] using e2,
        by simpa [handlerTrace] using e3, e4⟩

/-- **routine_preserves (receive path)**: `ProcessReceivedMessageWithHandler` on udp and tcp obeys the ownership
    discipline for every sequence of handler operations — given that the objects the handler brings in are its own,
    distinct ones. In particular the request is released at most once and never while the handler runs, and every
    response object installed at some point is released exactly once. -/
theorem processReceived_ok (tcp : Bool) (req resp : Nat) (ops : List HandlerOp)
    (hfresh : (freshOf ops).Nodup) (hreq : req ≠ resp ∧ req ∉ freshOf ops) (hresp : resp ∉ freshOf ops) :
    monitor Store.init (processReceived tcp req resp ops) = none := by
  unfold processReceived
  simp only []
  -- `acq resp`, `hold req`
  have s1 : stepM Store.init (.acq resp) = .ok (Store.init.set resp (.held true)) := by
    simp [stepM, stepTS, objOf, Store.init]
  have hq : (Store.init.set resp (.held true)) req = .held false := by rw [set_other _ _ _ _ hreq.1]; rfl
  have s2 : stepM (Store.init.set resp (.held true)) (.hold req)
      = .ok ((Store.init.set resp (.held true)).set req (.app false 0)) := by
    simp [stepM, stepTS, objOf, hq]
  rw [monitor_cons_ok _ _ _ _ s1, monitor_cons_ok _ _ _ _ s2]
  have hm0r : Owned (((Store.init.set resp (.held true)).set req (.app false 0)) resp) := by
    rw [set_other _ _ _ _ (Ne.symm hreq.1), set_same]; exact ⟨_, rfl⟩
  have hm0f : ∀ f ∈ freshOf ops, Owned (((Store.init.set resp (.held true)).set req (.app false 0)) f) := fun f hf => by
    rw [set_other _ _ _ _ (ne_of_mem_not_mem hf hreq.2), set_other _ _ _ _ (ne_of_mem_not_mem hf hresp)]; exact ⟨_, rfl⟩
  have hd : Distinct { resp := resp } (freshOf ops) :=
    ⟨by simp, by simp, hfresh, fun f hf => ⟨ne_of_mem_not_mem hf hresp, by simp⟩⟩
  obtain ⟨m', e1, e2, e3, e4⟩ := handler_ok ops { resp := resp } ((Store.init.set resp (.held true)).set req (.app false 0)) _
    hd hm0r (by simp) hm0f
  rw [e1]
  have hreqm : m' req = .app false 0 := by
    rw [e4 req hreq.1 (by simp) hreq.2]; exact set_same _ _ _
  have hne : (handlerTrace { resp := resp } ops).1.resp ≠ req := by
    intro e
    rcases List.mem_cons.mp e3 with h | h
    · exact hreq.1 (by rw [← e, h])
    · exact hreq.2 (e ▸ h)
  have s3 : stepM m' (.unhold req) = .ok (m'.set req (.held false)) := by simp [stepM, stepTS, objOf, hreqm]
  rw [monitor_cons_ok _ _ _ _ s3]
  have hr2 : Owned ((m'.set req (.held false)) (handlerTrace { resp := resp } ops).1.resp) := by
    rw [set_other _ _ _ _ hne]; exact e2
  obtain ⟨b, hb⟩ := hr2
  cases tcp <;> cases (handlerTrace { resp := resp } ops).1.hijacked <;>
    simp [monitor, stepM, stepTS, objOf, set_same, hb, set_other _ _ _ _ hne, set_other _ _ _ _ (Ne.symm hne)]

/-- **routine_preserves (response hand-over)**: the response hijacked by a waiting request call is not released by the
    receive path, is held by the caller and released by it exactly once. -/
theorem doHandover_ok (r resp : Nat) (h : r ≠ resp) : monitor Store.init (doHandover r resp) = none := by
  unfold doHandover processReceived
  simp [handlerTrace, monitor, stepM, stepTS, objOf, Store.init, Store.set, h, Ne.symm h]


/-! ### `midElement`: the stored clone under its lock, every schedule -/

theorem set_self (m : Store) (o : Nat) : m.set o (m o) = m := by
  funext x; simp only [Store.set]; split
  · rename_i h; rw [h]
  · rfl

theorem monitor_use_live (m : Store) (o : Nat) (es : List Ev) (h : m o ≠ .free) :
    monitor m (.use o :: es) = monitor m es := by
  have : stepM m (.use o) = .ok m := by
    simp only [stepM, objOf]
    cases hm : m o with
    | free => exact absurd hm h
    | held b => simp only [stepTS]; rw [← hm, set_self]
    | app b n => simp only [stepTS]; rw [← hm, set_self]
  exact monitor_cons_ok _ _ _ _ this

theorem monitor_acq_avail (m : Store) (o : Nat) (es : List Ev) (h : m o = .free ∨ m o = .held false) :
    monitor m (.acq o :: es) = monitor (m.set o (.held true)) es := by
  rcases h with h | h <;> exact monitor_cons_ok _ _ _ _ (by simp [stepM, stepTS, objOf, h])

/-- What the ownership state knows about a `midElement` whose accesses are all under the lock. -/
structure MidInv (clone : Nat) (s : MidState) (m : Store) : Prop where
  noPtr : s.ptrs = 0
  cl : m clone = if s.stored then .held true else .free
  notCopy : clone ∉ s.copies
  nodup : s.copies.Nodup
  copies : ∀ k ∈ s.copies, m k = .held true
  others : ∀ x, x ≠ clone → x ∉ s.copies → m x = .free ∨ m x = .held false

theorem midRun_ok (clone : Nat) (sched : List MidStep) : ∀ (s : MidState) (m : Store),
    (∀ st ∈ sched, st.underLock = true) → MidInv clone s m → monitor m (midRun clone s sched) = none := by
  induction sched with
  | nil => intro s m _ _; rfl
  | cons st r ih =>
    intro s m hl inv
    have hr : ∀ st ∈ r, st.underLock = true := fun x hx => hl x (by simp [hx])
    have hst := hl st (by simp)
    obtain ⟨stored, ptrs, copies⟩ := s
    have hI := inv
    obtain ⟨i1, i2, i3, i4, i5, i6⟩ := inv
    simp only at i1 i2 i3 i4 i5 i6
    cases st with
    | release =>
      simp only [midRun, midStep]
      cases stored with
      | false => exact ih _ m hr hI
      | true =>
        simp only [if_true, List.cons_append, List.nil_append]
        rw [monitor_rel_owned m clone _ ⟨true, by simpa using i2⟩]
        refine ih _ _ hr ⟨i1, by simp [set_same], i3, i4, fun k hk => ?_, fun x hx hx2 => ?_⟩
        · rw [set_other _ _ _ _ (ne_of_mem_not_mem hk i3)]; exact i5 k hk
        · rw [set_other _ _ _ _ hx]; exact i6 x hx hx2
    | getMessage k fail =>
      simp only [midRun, midStep, MidState.poolMayGive]
      by_cases hc : (stored && ((k != clone || !stored) && !copies.contains k)) = true
      · simp only [hc, if_true]
        simp only [Bool.and_eq_true, Bool.or_eq_true, bne_iff_ne, ne_eq, Bool.not_eq_true', List.contains_eq_mem,
          decide_eq_false_iff_not] at hc
        obtain ⟨hs, hk1, hk2⟩ := hc
        subst hs
        have hkc : k ≠ clone := by rcases hk1 with h | h; exact h; cases h
        simp only [if_true] at i2
        have hcl : (m.set k (.held true)) clone = .held true := by rw [set_other _ _ _ _ (Ne.symm hkc)]; exact i2
        cases fail with
        | true =>
          simp only [if_true, List.cons_append, List.nil_append]
          rw [monitor_acq_avail m k _ (i6 k hkc hk2), monitor_use_live _ clone _ (by rw [hcl]; simp),
            monitor_use_live _ k _ (by rw [set_same]; simp), monitor_rel_owned _ k _ ⟨true, set_same _ _ _⟩]
          refine ih _ _ hr ⟨i1, ?_, i3, i4, fun x hx => ?_, fun x hx hx2 => ?_⟩
          · simp only [if_true]; rw [set_other _ _ _ _ (Ne.symm hkc)]; exact hcl
          · have : x ≠ k := fun e => hk2 (e ▸ hx)
            rw [set_other _ _ _ _ this, set_other _ _ _ _ this]; exact i5 x hx
          · by_cases hxk : x = k
            · rw [hxk, set_same]; exact Or.inl rfl
            · rw [set_other _ _ _ _ hxk, set_other _ _ _ _ hxk]; exact i6 x hx hx2
        | false =>
          simp only [Bool.false_eq_true, if_false, List.cons_append, List.nil_append]
          rw [monitor_acq_avail m k _ (i6 k hkc hk2), monitor_use_live _ clone _ (by rw [hcl]; simp),
            monitor_use_live _ k _ (by rw [set_same]; simp)]
          refine ih _ _ hr ⟨i1, by simpa using hcl, ?_, List.nodup_cons.mpr ⟨hk2, i4⟩, fun x hx => ?_, fun x hx hx2 => ?_⟩
          · simp only [List.mem_cons, not_or]; exact ⟨Ne.symm hkc, i3⟩
          · rcases List.mem_cons.mp hx with h | h
            · rw [h, set_same]
            · have : x ≠ k := fun e => hk2 (e ▸ h)
              rw [set_other _ _ _ _ this]; exact i5 x h
          · simp only [List.mem_cons, not_or] at hx2
            rw [set_other _ _ _ _ hx2.1]; exact i6 x hx hx2.2
      · simp only [hc, Bool.false_eq_true, if_false, List.nil_append]
        exact ih _ m hr hI
    | finish k =>
      simp only [midRun, midStep]
      by_cases hk : copies.contains k = true
      · simp only [hk, if_true, List.cons_append, List.nil_append]
        simp only [List.contains_eq_mem, decide_eq_true_eq] at hk
        have hmk := i5 k hk
        have hkc : k ≠ clone := ne_of_mem_not_mem hk i3
        rw [monitor_use_live _ k _ (by rw [hmk]; simp), monitor_rel_owned _ k _ ⟨true, hmk⟩]
        refine ih _ _ hr ⟨i1, ?_, fun h => i3 (List.mem_of_mem_erase h), i4.erase k, fun x hx => ?_, fun x hx hx2 => ?_⟩
        · simp only; rw [set_other _ _ _ _ (Ne.symm hkc)]; exact i2
        · have := (List.Nodup.mem_erase_iff i4).mp hx
          rw [set_other _ _ _ _ this.1]; exact i5 x this.2
        · by_cases hxk : x = k
          · rw [hxk, set_same]; exact Or.inl rfl
          · rw [set_other _ _ _ _ hxk]
            exact i6 x hx (fun h => hx2 ((List.Nodup.mem_erase_iff i4).mpr ⟨hxk, h⟩))
      · simp only [hk, Bool.false_eq_true, if_false, List.nil_append]
        exact ih _ m hr hI
    | takePtr => cases hst
    | cloneUnlocked k => cases hst

/-- **routine_preserves (pending confirmable)**: whatever number of release attempts (ACK, RST, response, expiry, write
    error) and retransmissions (`GetMessage` + write + release of the copy) run against one `midElement`, in whatever
    interleaving of their critical sections, the lifecycle trace obeys the ownership discipline: the stored clone is
    not released twice, it is not read by a retransmission after its release, copies are acquired, used and released
    once each. -/
theorem midElement_ok (clone : Nat) (sched : List MidStep) (hl : ∀ st ∈ sched, st.underLock = true) :
    monitor Store.init (midElementTrace clone sched) = none := by
  unfold midElementTrace
  rw [monitor_acq_avail _ _ _ (Or.inr rfl), monitor_use_live _ _ _ (by rw [set_same]; simp)]
  refine midRun_ok clone sched {} _ hl ⟨rfl, by simp [set_same], by simp, by simp, by simp, fun x hx _ => ?_⟩
  rw [set_other _ _ _ _ hx]; exact Or.inr rfl

/-- The same in the words of the declarative property. -/
theorem midElement_spec (clone : Nat) (sched : List MidStep) (hl : ∀ st ∈ sched, st.underLock = true) :
    specOK (midElementTrace clone sched) = true :=
  (monitor_sound _).mp (midElement_ok clone sched hl)

/-- number of `rel o` in a trace -/
def countRel (o : Nat) : List Ev → Nat
  | [] => 0
  | .rel o' :: r => (if o' = o then 1 else 0) + countRel o r
  | _ :: r => countRel o r

theorem countRel_append (o : Nat) (a b : List Ev) : countRel o (a ++ b) = countRel o a + countRel o b := by
  induction a with
  | nil => simp [countRel]
  | cons e a ih => cases e <;> simp [countRel, ih, Nat.add_assoc]

theorem midRun_countRel (clone : Nat) (sched : List MidStep) : ∀ (s : MidState),
    (∀ st ∈ sched, st.underLock = true) → clone ∉ s.copies →
    countRel clone (midRun clone s sched) = if s.stored = true ∧ MidStep.release ∈ sched then 1 else 0 := by
  induction sched with
  | nil => intro s _ _; simp [midRun, countRel]
  | cons st r ih =>
    intro s hl hc
    have hr : ∀ st ∈ r, st.underLock = true := fun x hx => hl x (by simp [hx])
    have hst := hl st (by simp)
    obtain ⟨stored, ptrs, copies⟩ := s
    simp only at hc
    simp only [midRun, countRel_append]
    cases st with
    | release =>
      cases stored with
      | false => simp only [midStep]; rw [ih _ hr hc]; simp [countRel]
      | true => simp only [midStep, if_true]; rw [ih _ hr hc]; simp [countRel]
    | getMessage k fail =>
      simp only [midStep, MidState.poolMayGive]
      by_cases hcnd : (stored && ((k != clone || !stored) && !copies.contains k)) = true
      · simp only [hcnd, if_true]
        simp only [Bool.and_eq_true, Bool.or_eq_true, bne_iff_ne, ne_eq, Bool.not_eq_true', List.contains_eq_mem,
          decide_eq_false_iff_not] at hcnd
        obtain ⟨hs, hk1, hk2⟩ := hcnd
        subst hs
        have hkc : k ≠ clone := by rcases hk1 with h | h; exact h; cases h
        cases fail with
        | true => simp only [if_true]; rw [ih _ hr hc]; simp [countRel, hkc]
        | false =>
          simp only [Bool.false_eq_true, if_false]
          rw [ih _ hr (by simp only [List.mem_cons, not_or]; exact ⟨Ne.symm hkc, hc⟩)]; simp [countRel]
      · simp only [hcnd, Bool.false_eq_true, if_false]; rw [ih _ hr hc]; simp [countRel]
    | finish k =>
      simp only [midStep]
      by_cases hk : copies.contains k = true
      · simp only [hk, if_true]
        simp only [List.contains_eq_mem, decide_eq_true_eq] at hk
        have hkc : k ≠ clone := ne_of_mem_not_mem hk hc
        rw [ih _ hr (fun h => hc (List.mem_of_mem_erase h))]; simp [countRel, hkc]
      · simp only [hk, Bool.false_eq_true, if_false]; rw [ih _ hr hc]; simp [countRel]
    | takePtr => cases hst
    | cloneUnlocked k => cases hst

/-- The stored clone goes back to the pool **exactly once** if any release attempt runs (and not at all otherwise),
    whatever else is scheduled around it. -/
theorem midElement_released_once (clone : Nat) (sched : List MidStep) (hl : ∀ st ∈ sched, st.underLock = true) :
    countRel clone (midElementTrace clone sched) = if MidStep.release ∈ sched then 1 else 0 := by
  unfold midElementTrace
  simp only [countRel]
  rw [midRun_countRel clone sched {} hl (by simp)]
  simp

/-- **Negative (seeded shape C12-A)**: if `GetMessage` only reads the pointer under the lock and clones after
    unlocking, there is a schedule — pointer taken, then an ACK releases the stored clone, then the clone is read — whose
    trace the monitor rejects: a read of a message that sits in the pool. -/
theorem midElement_unlocked_clone_rejected :
    ∃ sched, monitor Store.init (midElementTrace 1 sched) = some (.usedAfterRelease 1) :=
  ⟨[.takePtr, .release, .cloneUnlocked 2], by decide⟩

/-- … for every object identity, and the declarative property is violated as well. -/
theorem midElement_unlocked_clone_rejected' (clone : Nat) :
    specOK (midElementTrace clone [.takePtr, .release, .cloneUnlocked (clone + 1)]) = false := by
  simp [midElementTrace, midRun, midStep, MidState.poolMayGive, specOK, okAfterRel, okAfterAcq]

/-! Non-vacuity.

The three audit witnesses are rejected, by the monitor and by the spec: -/
-- 1. the pool hands one object to two owners without a release in between
example : monitor Store.init [.acq 1, .acq 1] = some (.handedOutTwice 1) := by decide
example : specOK [.acq 1, .acq 1] = false := by decide
example : monitor Store.init [.rel 1, .acq 1, .acq 1] = some (.handedOutTwice 1) := by decide
-- 2. nested holds: the first holder is still protected after the second one is done
example : monitor Store.init [.hold 1, .hold 1, .unhold 1, .rel 1, .unhold 1] = some (.releasedWhileAppHolds 1) := by decide
example : specOK [.hold 1, .hold 1, .unhold 1, .rel 1, .unhold 1] = false := by decide
-- 3. `midElement`: clone outside the lock → read of a released message (theorem `midElement_unlocked_clone_rejected`);
--    the trace of that schedule, spelled out:
example : midElementTrace 1 [.takePtr, .release, .cloneUnlocked 2]
    = [.acq 1, .use 1, .rel 1, .acq 2, .use 1, .use 2] := by decide
example : monitor Store.init [.rel 1, .use 1] = some (.usedAfterRelease 1) := by decide
example : specOK [.rel 1, .use 1] = false := by decide

/-! What stays legal: an object that never came out of the pool (`pool.NewMessage`) is held, unheld and released;
    release and re-acquisition alternate; properly nested holds; a normal receive path; a handler that installs its
    own response (3), swaps in another (4), releases what Swap gave back and hijacks the request; a `midElement` with
    two retransmissions, an ACK in between and a late second release attempt. -/
example : monitor Store.init [.hold 1, .unhold 1, .rel 1] = none := by decide
example : monitor Store.init [.acq 1, .rel 1, .acq 1, .use 1, .rel 1] = none := by decide
example : monitor Store.init [.hold 1, .hold 1, .unhold 1, .unhold 1, .rel 1] = none := by decide
example : processReceived false 1 2 [] = [.acq 2, .hold 1, .unhold 1, .rel 2, .rel 1] := by decide
example : monitor Store.init (processReceived false 1 2 []) = none := by decide
example : specOK (processReceived true 1 2 []) = true := by decide
example : monitor Store.init (processReceived false 1 2 [.setMessage 3, .swap 4, .releaseSwapped, .hijack]) = none := by decide
example : monitor Store.init [.rel 5, .rel 5] = some (.doubleRelease 5) := by decide
example : specOK [.hold 1, .rel 1, .unhold 1] = false := by decide
example : midElementTrace 1 [.getMessage 2 false, .release, .getMessage 3 false, .finish 2, .release, .getMessage 2 true]
    = [.acq 1, .use 1, .acq 2, .use 1, .use 2, .rel 1, .use 2, .rel 2] := by decide
example : monitor Store.init (midElementTrace 1 [.getMessage 2 false, .release, .getMessage 3 false, .finish 2, .release]) = none := by decide
example : countRel 1 (midElementTrace 1 [.getMessage 2 false, .release, .finish 2, .release, .release]) = 1 := by decide

end CoapVerif.Props.C12

section Audit
open CoapVerif.Props.C12
#print axioms specOK_cons
#print axioms set_same
#print axioms set_other
#print axioms okWhileHeld_mono1
#print axioms okWhileHeld_zero
#print axioms obl_other
#print axioms step_error
#print axioms step_ok
#print axioms monitor_iff_spec
#print axioms monitor_sound
#print axioms monitor_cons_ok
#print axioms monitor_rel_owned
#print axioms ne_of_mem_not_mem
#print axioms handler_ok
#print axioms processReceived_ok
#print axioms doHandover_ok
#print axioms set_self
#print axioms monitor_use_live
#print axioms monitor_acq_avail
#print axioms midRun_ok
#print axioms midElement_ok
#print axioms midElement_spec
#print axioms countRel_append
#print axioms midRun_countRel
#print axioms midElement_released_once
#print axioms midElement_unlocked_clone_rejected
#print axioms midElement_unlocked_clone_rejected'
end Audit
