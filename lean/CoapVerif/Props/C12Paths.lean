import CoapVerif.Props.C12
import CoapVerif.Model.OwnershipPaths
/-!
# C12, path programs of the observation callbacks and of the block-wise layer

(continues `Props/C12.lean`; statement of the property: see there.)

`Model/OwnershipPaths.lean` writes the message-handling paths of net/observation and net/blockwise as transition systems
over schedules, in a language of *linear slot operations* (every release / use / hand-over names the slot the pointer is
taken from and only happens if the object is there).

Proved here, for **every** schedule (any number of steps of any goroutines in any interleaving of their critical
sections), every control state and every placement that agrees with the ownership state:

* `linear_ok` — a program whose steps consist of linear operations only is accepted by the typestate monitor;
  `obs_ok`, `bw_ok` — the observation program and the block-wise program, as the code is, are such programs
  (`obs_spec`, `bw_spec`: the same in the words of the declarative property, through `monitor_sound`);
* `linear_conservation` — in every run, for every object: acquisitions + (1 if the program owned it at the start) =
  releases + (1 if it is still in a slot at the end); `obs_released_once`, `bw_released_once`: from a start where the
  program owns nothing, every acquired object is released exactly once or is still in a slot (never released: left
  to the garbage collector / still in use) — never twice;
* `accepted_rel_le_acq` — for every trace the monitor accepts (so: every recorded trace that passes the check), every
  object is released at most once per acquisition;
* negative theorems, one realistic wrong shape each: `bw_expire_release_rejected` (the `onExpire` callback of a
  reassembly entry releases the message while a handler works on it under the guard: the completed message is handed to
  the application after its release — seeded C12-M), `bw_write_double_release_rejected` (seeded C12-F),
  `bw_cont_releases_request_rejected` (a failing continuation releases the request the caller of `Do` holds — seeded
  C12-R), `obs_release_hijacked_rejected` (the receive path releases a notification its callback hijacked).

Not proved: that the Go code is an instance of these programs.  That is observed: harness/c12 `TestC12Paths` runs the real
`blockwise.BlockWise` and the real `observation.Handler` over a tracking pool, step by step (and with steps of two
goroutines interleaved), and the driver compares each step's recorded acquire/release/hold events with the program's
(`path_steps_matched`); real connections with hook h1 run the same situations under the monitor.
-/
namespace CoapVerif.Props.C12Paths
open CoapVerif CoapVerif.Model.Ownership CoapVerif.Model.OwnershipPaths
open CoapVerif.Spec.Ownership (Ev specOK)
open CoapVerif.Props.C12

/-- what the placement of one object says about its typestate -/
def AgreeAt : Option (Nat × Bool) → TS → Prop
  | none, t => t = .free ∨ t = .held false
  | some (_, false), t => ∃ out, t = .held out
  | some (_, true), t => ∃ out, t = .app out 0

def Agree (P : Place) (m : Store) : Prop := ∀ k, AgreeAt (P k) (m k)

theorem pset_same (P : Place) (k : Nat) (v) : (P.set k v) k = v := by simp [Place.set]
theorem pset_other (P : Place) (k x : Nat) (v) (h : x ≠ k) : (P.set k v) x = P x := by simp [Place.set, h]

theorem agree_set {P : Place} {m : Store} (h : Agree P m) (k : Nat) (v : Option (Nat × Bool)) (t : TS)
    (hv : AgreeAt v t) : Agree (P.set k v) (m.set k t) := by
  intro x
  by_cases hx : x = k
  · rw [hx, pset_same, set_same]; exact hv
  · rw [pset_other _ _ _ _ hx, set_other _ _ _ _ hx]; exact h x

/-- nothing seen yet agrees with every placement in which the application holds nothing -/
theorem agree_init (P : Place) (h : ∀ k s, P k ≠ some (s, true)) : Agree P Store.init := by
  intro k
  cases hp : P k with
  | none => exact Or.inr rfl
  | some v =>
    obtain ⟨s, b⟩ := v
    cases b with
    | false => exact ⟨false, rfl⟩
    | true => exact absurd hp (h k s)

theorem agree_empty : Agree Place.empty Store.init := agree_init _ (fun _ _ h => by simp [Place.empty] at h)

theorem inSlot_some {P : Place} {s k : Nat} (h : P.inSlot s k = true) : ∃ b, P k = some (s, b) := by
  unfold Place.inSlot at h
  cases hp : P k with
  | none => simp [hp] at h
  | some v =>
    obtain ⟨s', b⟩ := v
    simp only [hp, beq_iff_eq] at h
    exact ⟨b, by rw [h]⟩

/-- One linear operation whose guard holds: the monitor accepts its events and the placement still agrees. -/
theorem op_ok (op : Op) (P : Place) (m : Store) (hl : op.linear = true) (hg : op.guard P = true) (ha : Agree P m) :
    ∃ m', (∀ tail, monitor m (op.evs ++ tail) = monitor m' tail) ∧ Agree (op.apply P) m' := by
  cases op with
  | acq s k =>
    simp only [Op.guard, Option.isNone_iff_eq_none] at hg
    have hk := ha k
    rw [hg] at hk
    exact ⟨m.set k (.held true), fun tail => by simp only [Op.evs, List.cons_append, List.nil_append]; exact monitor_acq_avail m k tail hk,
      agree_set ha k _ _ ⟨true, rfl⟩⟩
  | rel s k =>
    simp only [Op.guard, beq_iff_eq] at hg
    have hk := ha k
    rw [hg] at hk
    exact ⟨m.set k .free, fun tail => by simp only [Op.evs, List.cons_append, List.nil_append]; exact monitor_rel_owned m k tail hk,
      agree_set ha k _ _ (Or.inl rfl)⟩
  | use s k =>
    simp only [Op.guard] at hg
    obtain ⟨b, hb⟩ := inSlot_some hg
    have hk := ha k
    rw [hb] at hk
    refine ⟨m, fun tail => ?_, ha⟩
    simp only [Op.evs, List.cons_append, List.nil_append]
    apply monitor_use_live
    cases b with
    | false => obtain ⟨o, ho⟩ := hk; rw [ho]; simp
    | true => obtain ⟨o, ho⟩ := hk; rw [ho]; simp
  | mv s s' k =>
    simp only [Op.guard] at hg
    obtain ⟨b, hb⟩ := inSlot_some hg
    refine ⟨m, fun tail => by simp [Op.evs], ?_⟩
    intro x
    by_cases hx : x = k
    · simp only [Op.apply]; rw [hx, pset_same, hb]
      have hk := ha k
      rw [hb] at hk
      cases b <;> exact hk
    · simp only [Op.apply]; rw [pset_other _ _ _ _ hx]; exact ha x
  | hold s k =>
    simp only [Op.guard, beq_iff_eq] at hg
    have hk := ha k
    rw [hg] at hk
    obtain ⟨o, ho⟩ := hk
    refine ⟨m.set k (.app o 0), fun tail => ?_, agree_set ha k _ _ ⟨o, rfl⟩⟩
    simp only [Op.evs, List.cons_append, List.nil_append]
    exact monitor_cons_ok _ _ _ _ (by simp [stepM, stepTS, objOf, ho])
  | unhold s k =>
    simp only [Op.guard, beq_iff_eq] at hg
    have hk := ha k
    rw [hg] at hk
    obtain ⟨o, ho⟩ := hk
    refine ⟨m.set k (.held o), fun tail => ?_, agree_set ha k _ _ ⟨o, rfl⟩⟩
    simp only [Op.evs, List.cons_append, List.nil_append]
    exact monitor_cons_ok _ _ _ _ (by simp [stepM, stepTS, objOf, ho])
  | relAlias k => cases hl
  | useAlias k => cases hl
  | holdAlias k => cases hl

/-- One step (all its operations or none). -/
theorem execOps_ok (ops : List Op) : ∀ (P P' : Place) (m : Store) (e : List Ev),
    (∀ op ∈ ops, op.linear = true) → execOps P ops = some (P', e) → Agree P m →
    ∃ m', (∀ tail, monitor m (e ++ tail) = monitor m' tail) ∧ Agree P' m' := by
  induction ops with
  | nil =>
    intro P P' m e _ h ha
    simp only [execOps, Option.some.injEq, Prod.mk.injEq] at h
    obtain ⟨h1, h2⟩ := h
    subst h1; subst h2
    exact ⟨m, fun _ => rfl, ha⟩
  | cons op r ih =>
    intro P P' m e hl h ha
    simp only [execOps] at h
    by_cases hg : op.guard P = true
    · simp only [hg, if_true] at h
      cases hr : execOps (op.apply P) r with
      | none => simp [hr] at h
      | some v =>
        obtain ⟨P1, e1⟩ := v
        simp only [hr, Option.some.injEq, Prod.mk.injEq] at h
        obtain ⟨h1, h2⟩ := h
        subst h1; subst h2
        obtain ⟨m1, hm1, ha1⟩ := op_ok op P m (hl op (by simp)) hg ha
        obtain ⟨m2, hm2, ha2⟩ := ih (op.apply P) P1 m1 e1 (fun o ho => hl o (by simp [ho])) hr ha1
        exact ⟨m2, fun tail => by rw [List.append_assoc, hm1, hm2], ha2⟩
    · simp [hg] at h

theorem run_cons {C St : Type} (p : Prog C St) (c : C) (P : Place) (st : St) (r : List St) :
    p.run c P (st :: r) =
      match execOps P (p.step c st).2 with
      | some (P', e) => ((p.run (p.step c st).1 P' r).1, (p.run (p.step c st).1 P' r).2.1, e ++ (p.run (p.step c st).1 P' r).2.2)
      | none => p.run c P r := by
  simp only [Prog.run]
  cases execOps P (p.step c st).2 with
  | none => rfl
  | some v => rfl

/-- **Every schedule of a linear program is accepted by the monitor**, from every control state and every placement that
    agrees with the ownership state; and the final placement agrees with the final ownership state. -/
theorem linear_run_ok {C St : Type} (p : Prog C St) (hp : p.Linear) (sched : List St) : ∀ (c : C) (P : Place) (m : Store),
    Agree P m → ∃ m', (∀ tail, monitor m ((p.run c P sched).2.2 ++ tail) = monitor m' tail) ∧ Agree (p.run c P sched).2.1 m' := by
  induction sched with
  | nil => intro c P m ha; exact ⟨m, fun _ => rfl, ha⟩
  | cons st r ih =>
    intro c P m ha
    rw [run_cons]
    cases hr : execOps P (p.step c st).2 with
    | none => exact ih c P m ha
    | some v =>
      obtain ⟨P1, e1⟩ := v
      simp only []
      obtain ⟨m1, hm1, ha1⟩ := execOps_ok _ P P1 m e1 (hp c st) hr ha
      obtain ⟨m2, hm2, ha2⟩ := ih (p.step c st).1 P1 m1 ha1
      exact ⟨m2, fun tail => by rw [List.append_assoc, hm1, hm2], ha2⟩

theorem monitor_nil (m : Store) : monitor m [] = none := rfl

theorem linear_ok {C St : Type} (p : Prog C St) (hp : p.Linear) (sched : List St) (c : C) (P : Place) (m : Store)
    (ha : Agree P m) : monitor m (p.trace c P sched) = none := by
  obtain ⟨m', h, _⟩ := linear_run_ok p hp sched c P m ha
  have := h []
  rw [List.append_nil] at this
  unfold Prog.trace
  rw [this]; rfl

/-! ### The two programs are linear -/

theorem linear_of_all {ops : List Op} (h : ops.all Op.linear = true) : ∀ op ∈ ops, op.linear = true :=
  List.all_eq_true.mp h

theorem obsCoded_linear : obsCoded.Linear := by
  intro c st
  apply linear_of_all
  cases st <;> simp only [obsCoded, ObsStep.asCoded, if_true, Bool.false_eq_true, if_false, obsStep] <;>
    (repeat' split) <;> simp [Op.linear]

theorem bwCoded_linear : bwCoded.Linear := by
  intro c st
  apply linear_of_all
  cases st <;> simp only [bwCoded, BwStep.asCoded, if_true, Bool.false_eq_true, if_false, bwStep, BwCtl.leave] <;>
    (repeat' split) <;> simp [Op.linear]

/-- **Observation callbacks**: every schedule of registrations, deliveries (notifications and the response to the
    registration, with or without a call of the callback), hijacks, callback returns (udp / tcp release order), releases by
    the application, `Cancel` calls (with their response or failure), `GetObservationRequest` copies and their release by
    the block-wise layer, in any interleaving, is accepted by the monitor. -/
theorem obs_ok (sched : List ObsStep) (c : ObsCtl) (P : Place) (m : Store) (ha : Agree P m) :
    monitor m (obsCoded.trace c P sched) = none :=
  linear_ok obsCoded obsCoded_linear sched c P m ha

/-- **Block-wise layer**: every schedule of `Do` calls and returns (also returns while the transfer is under way),
    continuations, `WriteMessage`, responses cut into blocks, reassembly under the guard by any number of receive-path
    invocations, `next` calls, expiry sweeps between any two critical sections, is accepted by the monitor. -/
theorem bw_ok (sched : List BwStep) (c : BwCtl) (P : Place) (m : Store) (ha : Agree P m) :
    monitor m (bwCoded.trace c P sched) = none :=
  linear_ok bwCoded bwCoded_linear sched c P m ha

/-- … in the words of the declarative property, from the start of a trace. -/
theorem obs_spec (sched : List ObsStep) : specOK (obsCoded.trace {} Place.empty sched) = true :=
  (monitor_sound _).mp (obs_ok sched {} Place.empty Store.init agree_empty)

theorem bw_spec (sched : List BwStep) : specOK (bwCoded.trace {} Place.empty sched) = true :=
  (monitor_sound _).mp (bw_ok sched {} Place.empty Store.init agree_empty)

/-! ### Counting -/

/-- number of `acq o` in a trace -/
def countAcq (o : Nat) : List Ev → Nat
  | [] => 0
  | .acq o' :: r => (if o' = o then 1 else 0) + countAcq o r
  | _ :: r => countAcq o r

theorem countAcq_append (o : Nat) (a b : List Ev) : countAcq o (a ++ b) = countAcq o a + countAcq o b := by
  induction a with
  | nil => simp [countAcq]
  | cons e a ih => cases e <;> simp [countAcq, ih, Nat.add_assoc]

/-- 1 if the program has `k` in one of its slots -/
def placed (P : Place) (k : Nat) : Nat := if (P k).isSome then 1 else 0

theorem op_conserve (op : Op) (P : Place) (k : Nat) (hl : op.linear = true) (hg : op.guard P = true) :
    countAcq k op.evs + placed P k = countRel k op.evs + placed (op.apply P) k := by
  cases op with
  | acq s k' =>
    simp only [Op.guard, Option.isNone_iff_eq_none] at hg
    by_cases h : k' = k
    · subst h; simp [Op.evs, Op.apply, countAcq, countRel, placed, pset_same, hg]
    · simp [Op.evs, Op.apply, countAcq, countRel, placed, pset_other _ _ _ _ (Ne.symm h), h]
  | rel s k' =>
    simp only [Op.guard, beq_iff_eq] at hg
    by_cases h : k' = k
    · subst h; simp [Op.evs, Op.apply, countAcq, countRel, placed, pset_same, hg]
    · simp [Op.evs, Op.apply, countAcq, countRel, placed, pset_other _ _ _ _ (Ne.symm h), h]
  | use s k' => simp [Op.evs, Op.apply, countAcq, countRel]
  | mv s s' k' =>
    simp only [Op.guard] at hg
    obtain ⟨b, hb⟩ := inSlot_some hg
    by_cases h : k' = k
    · subst h; simp [Op.evs, Op.apply, countAcq, countRel, placed, pset_same, hb]
    · simp [Op.evs, Op.apply, countAcq, countRel, placed, pset_other _ _ _ _ (Ne.symm h)]
  | hold s k' =>
    simp only [Op.guard, beq_iff_eq] at hg
    by_cases h : k' = k
    · subst h; simp [Op.evs, Op.apply, countAcq, countRel, placed, pset_same, hg]
    · simp [Op.evs, Op.apply, countAcq, countRel, placed, pset_other _ _ _ _ (Ne.symm h)]
  | unhold s k' =>
    simp only [Op.guard, beq_iff_eq] at hg
    by_cases h : k' = k
    · subst h; simp [Op.evs, Op.apply, countAcq, countRel, placed, pset_same, hg]
    · simp [Op.evs, Op.apply, countAcq, countRel, placed, pset_other _ _ _ _ (Ne.symm h)]
  | relAlias k' => cases hl
  | useAlias k' => cases hl
  | holdAlias k' => cases hl

theorem execOps_conserve (ops : List Op) (k : Nat) : ∀ (P P' : Place) (e : List Ev),
    (∀ op ∈ ops, op.linear = true) → execOps P ops = some (P', e) →
    countAcq k e + placed P k = countRel k e + placed P' k := by
  induction ops with
  | nil =>
    intro P P' e _ h
    simp only [execOps, Option.some.injEq, Prod.mk.injEq] at h
    obtain ⟨h1, h2⟩ := h
    subst h1; subst h2; simp [countAcq, countRel]
  | cons op r ih =>
    intro P P' e hl h
    simp only [execOps] at h
    by_cases hg : op.guard P = true
    · simp only [hg, if_true] at h
      cases hr : execOps (op.apply P) r with
      | none => simp [hr] at h
      | some v =>
        obtain ⟨P1, e1⟩ := v
        simp only [hr, Option.some.injEq, Prod.mk.injEq] at h
        obtain ⟨h1, h2⟩ := h
        subst h1; subst h2
        have a := op_conserve op P k (hl op (by simp)) hg
        have b := ih (op.apply P) P1 e1 (fun o ho => hl o (by simp [ho])) hr
        rw [countAcq_append, countRel_append]
        omega
    · simp [hg] at h

/-- **Conservation**: in every run of a linear program, for every object: what was acquired (plus what the program owned
    at the start) is what was released plus what is still in a slot at the end.  As `placed ≤ 1`: between two releases
    of an object there is an acquisition, and an object the program acquired and no longer has was released exactly once. -/
theorem linear_conservation {C St : Type} (p : Prog C St) (hp : p.Linear) (k : Nat) (sched : List St) : ∀ (c : C) (P : Place),
    countAcq k (p.trace c P sched) + placed P k = countRel k (p.trace c P sched) + placed (p.run c P sched).2.1 k := by
  unfold Prog.trace
  induction sched with
  | nil => intro c P; simp [Prog.run, countAcq, countRel]
  | cons st r ih =>
    intro c P
    rw [run_cons]
    cases hr : execOps P (p.step c st).2 with
    | none => exact ih c P
    | some v =>
      obtain ⟨P1, e1⟩ := v
      simp only []
      have a := execOps_conserve _ k P P1 e1 (hp c st) hr
      have b := ih (p.step c st).1 P1
      rw [countAcq_append, countRel_append]
      omega

theorem placed_le_one (P : Place) (k : Nat) : placed P k ≤ 1 := by unfold placed; split <;> omega

/-- Observation paths, from a start where nothing is owned: every object is released as often as it was acquired, except
    that its last acquisition may still be in a slot (a hijacked notification the application has not released yet, a
    `Cancel` still under way): **never more releases than acquisitions, at most one acquisition not yet released**. -/
theorem obs_released_once (sched : List ObsStep) (k : Nat) :
    countAcq k (obsCoded.trace {} Place.empty sched) =
      countRel k (obsCoded.trace {} Place.empty sched) + placed (obsCoded.run {} Place.empty sched).2.1 k := by
  have := linear_conservation obsCoded obsCoded_linear k sched {} Place.empty
  simpa [placed, Place.empty] using this

/-- Block-wise paths, likewise; what is still in a slot at the end of a run was never released by the layer (reassembly
    messages, cached originals, `WriteMessage`'s copy: left to the garbage collector) or is in the application's hands. -/
theorem bw_released_once (sched : List BwStep) (k : Nat) :
    countAcq k (bwCoded.trace {} Place.empty sched) =
      countRel k (bwCoded.trace {} Place.empty sched) + placed (bwCoded.run {} Place.empty sched).2.1 k := by
  have := linear_conservation bwCoded bwCoded_linear k sched {} Place.empty
  simpa [placed, Place.empty] using this

/-- For **every trace the monitor accepts** (every recorded trace that passes the check): an object is released at most
    once per acquisition (plus once if it was out at the start). -/
theorem accepted_rel_le_acq (o : Nat) (es : List Ev) : ∀ (m : Store), monitor m es = none →
    countRel o es ≤ countAcq o es + (if m o = .free then 0 else 1) := by
  induction es with
  | nil => intro m _; simp [countRel]
  | cons e es ih =>
    intro m h
    simp only [monitor] at h
    cases hs : stepM m e with
    | error v => simp [hs] at h
    | ok m' =>
      simp only [hs] at h
      have := ih m' h
      simp only [stepM] at hs
      cases ht : stepTS (objOf e) (m (objOf e)) e with
      | error v => simp [ht] at hs
      | ok t =>
        simp only [ht, Except.ok.injEq] at hs
        subst hs
        by_cases ho : objOf e = o
        · rw [ho] at ht
          rw [ho, set_same] at this
          cases e <;> simp only [objOf] at ho <;> subst ho <;> simp only [countRel, countAcq, if_true] <;>
            cases hm : m _ <;> simp only [hm, stepTS] at ht <;>
            (try (rename_i b; cases b <;> simp only [] at ht)) <;>
            (try (rename_i b n; cases n <;> simp only [] at ht)) <;>
            (try cases ht) <;> simp_all <;> omega
        · rw [set_other _ _ _ _ (Ne.symm ho)] at this
          cases e <;> simp only [objOf] at ho <;> simp only [countRel, countAcq, ho, if_false, Nat.zero_add] <;> exact this

/-! ### Negative theorems: one realistic wrong shape each -/

/-- **seeded C12-M**: the `onExpire` callback of a reassembly entry releases the message through the entry's pointer.  A
    sweep that runs while the last block is being appended (the handler holds the guard) gives the message back to the
    pool; the handler then completes it and hands it to `next`: read (and handed to the application) after its release. -/
theorem bw_expire_release_rejected :
    ∃ sched, monitor Store.init (bwProg.trace {} Place.empty sched) = some (.usedAfterRelease 3) :=
  ⟨[.rxStart 1 2, .reasmEnter 1 3 false, .reasmAppend 1, .reasmMore 1 4, .rxEnd 1,
    .rxStart 5 6, .reasmEnter 5 0 false, .sweepRelease, .reasmAppend 5, .reasmComplete 5 false], by decide⟩

/-- **seeded C12-F**: `WriteMessage` releases its working copy on the error return although `startSendingMessage` already
    did (token in use). -/
theorem bw_write_double_release_rejected :
    ∃ sched, monitor Store.init (bwProg.trace {} Place.empty sched) = some (.doubleRelease 4) :=
  ⟨[.appAcquire 1, .write 1 2 .normal 3, .writeDoubleRelease 1 4 5], by decide⟩

/-- **seeded C12-R**: a continuation that fails releases the message of the sending entry — the request the caller of `Do`
    still holds; the caller's own release is then the second one. -/
theorem bw_cont_releases_request_rejected :
    ∃ sched, monitor Store.init (bwProg.trace {} Place.empty sched) = some (.doubleRelease 1) :=
  ⟨[.appAcquire 1, .doStart 1 true 2, .rxStart 3 4, .contCode 3, .contFailReleasesRequest 3 5, .rxEnd 3, .doReturn,
    .appRelease 1], by decide⟩

/-- The receive path releases a notification although its callback hijacked it: released while the application holds it. -/
theorem obs_release_hijacked_rejected :
    ∃ sched, monitor Store.init (obsProg.trace {} Place.empty sched) = some (.releasedWhileAppHolds 3) :=
  ⟨[.observeStart 1, .deliver 3 4 true, .hijack 3, .cbReturnIgnoringHijack 3], by decide⟩

/-! ### Non-vacuity: the programs do something; the traces of some schedules, spelled out -/

-- a notification, cancelled while in its callback; the response to the deregistration; a hijacked notification
example : obsCoded.trace {} Place.empty
    [.observeStart 1, .deliver 2 3 true, .cbReturn false 2, .observeEnd true, .deliver 4 5 true, .cancel 6, .cancelResp 7,
     .cancelEnd, .cbReturn false 4, .deliver 8 9 true, .hijack 8, .cbReturn false 8, .appRelease 8]
  = [.acq 1, .use 1, .acq 2, .use 2, .acq 3, .hold 2, .unhold 2, .rel 3, .rel 2, .rel 1,
     .acq 4, .use 4, .acq 5, .hold 4, .acq 6, .use 6, .acq 7, .use 7, .use 7, .rel 7, .rel 6, .unhold 4, .rel 5, .rel 4,
     .acq 8, .use 8, .acq 9, .hold 8, .use 8, .rel 9, .unhold 8, .rel 8] := by decide
-- a second Cancel does nothing; a copy for the block-wise layer is made only while registered
example : obsCoded.trace {} Place.empty [.observeStart 1, .observeEnd true, .getRequest 2, .tmpRelease 2, .cancel 3, .cancel 4, .getRequest 5]
  = [.acq 1, .use 1, .rel 1, .acq 2, .use 2, .rel 2, .acq 3, .use 3] := by decide
-- Do with a body of several blocks, one continuation, given up by its context, the late 2.31 finds nothing
example : bwCoded.trace {} Place.empty
    [.appAcquire 1, .doStart 1 true 2, .rxStart 3 4, .contCode 3, .contCreate 3 5 false, .rxEnd 3, .doReturn,
     .rxStart 6 7, .contCode 6, .contCreate 6 8 false, .rxEnd 6, .appRelease 1]
  = [.acq 1, .use 1, .acq 2, .use 1, .use 2, .acq 3, .use 3, .acq 4, .use 3, .use 1, .acq 5, .use 1, .rel 4, .use 5, .rel 5, .rel 3,
     .rel 2, .acq 6, .use 6, .acq 7, .use 7, .rel 7, .rel 6, .rel 1] := by decide
-- reassembly: first block, the entry expires while the last block is appended, completion, handed to the application
example : bwCoded.trace {} Place.empty
    [.rxStart 1 2, .reasmEnter 1 3 false, .reasmAppend 1, .reasmMore 1 4, .rxEnd 1,
     .rxStart 5 6, .reasmEnter 5 0 false, .sweep, .reasmAppend 5, .reasmComplete 5 false, .reasmLeave 5, .rxEnd 5]
  = [.acq 1, .use 1, .acq 2, .acq 3, .use 1, .use 3, .use 1, .use 3, .acq 4, .rel 2, .use 4, .rel 4, .rel 1,
     .acq 5, .use 5, .acq 6, .use 3, .use 5, .use 3, .use 3, .hold 3, .unhold 3, .use 6, .rel 6, .rel 5] := by decide
-- … the reassembly message was never released: it is still in its slot
example : placed (bwCoded.run {} Place.empty
    [.rxStart 1 2, .reasmEnter 1 3 false, .reasmAppend 1, .reasmMore 1 4, .rxEnd 1]).2.1 3 = 1 := by decide
-- the guard: a second invocation cannot enter while the first works on the message
example : bwCoded.trace {} Place.empty [.rxStart 1 2, .reasmEnter 1 3 false, .rxStart 5 6, .reasmEnter 5 0 false]
  = [.acq 1, .use 1, .acq 2, .acq 3, .use 1, .use 3, .acq 5, .use 5, .acq 6] := by decide
-- wrong-shape steps do nothing in the program "as coded"
example : bwCoded.trace {} Place.empty [.rxStart 1 2, .reasmEnter 1 3 false, .sweepRelease] = [.acq 1, .use 1, .acq 2, .acq 3, .use 1, .use 3] := by decide
example : monitor Store.init [.acq 1, .rel 1, .rel 1] = some (.doubleRelease 1) := by decide
example : countRel 1 [.acq 1, .rel 1, .acq 1, .rel 1] ≤ countAcq 1 [.acq 1, .rel 1, .acq 1, .rel 1] + 1 := by decide

end CoapVerif.Props.C12Paths

section Audit
open CoapVerif.Props.C12Paths
#print axioms pset_same
#print axioms pset_other
#print axioms agree_set
#print axioms agree_init
#print axioms agree_empty
#print axioms inSlot_some
#print axioms op_ok
#print axioms execOps_ok
#print axioms run_cons
#print axioms linear_run_ok
#print axioms monitor_nil
#print axioms linear_ok
#print axioms linear_of_all
#print axioms obsCoded_linear
#print axioms bwCoded_linear
#print axioms obs_ok
#print axioms bw_ok
#print axioms obs_spec
#print axioms bw_spec
#print axioms countAcq_append
#print axioms op_conserve
#print axioms execOps_conserve
#print axioms linear_conservation
#print axioms placed_le_one
#print axioms obs_released_once
#print axioms bw_released_once
#print axioms accepted_rel_le_acq
#print axioms bw_expire_release_rejected
#print axioms bw_write_double_release_rejected
#print axioms bw_cont_releases_request_rejected
#print axioms obs_release_hijacked_rejected
end Audit
