import CoapVerif.Props.C12Paths
import CoapVerif.Model.OwnershipPrepareWrite
/-!
# C12, path program of `prepareWriteMessage` and the hand-over to the `midElement` (udp/client/conn.go)

(continues `Props/C12.lean` / `Props/C12Paths.lean`.)  `Model/OwnershipPrepareWrite.lean` writes every exit of
`prepareWriteMessage` — no copy (non-confirmable), `Clone` fails (the copy is released, once), no free NSTART slot / message
ID in use (the copy is dropped), stored in the mid element — and the element's further life (release attempts,
retransmission copies) as a program of linear slot operations.

* `pw_ok` — every schedule of calls with every outcome, of release attempts, retransmissions and completions, for any
  number of requests under way, is accepted by the monitor; `pw_spec`: the declarative property.
* `pw_released_once` — every object acquired on these paths is released exactly once or still in a slot (a stored copy whose
  element nobody released yet; a copy dropped on the NSTART / message-ID exits).
* `pw_clone_failure_releases_copy_once` — the `Clone`-failure exit: the copy is acquired once and released once, nothing stays.
* `pw_seeded_double_release_rejected`, `pw_seeded_double_release_rejected'` — seeded shape C12-T (deferred release on every early
  return + the explicit release of the `Clone`-failure branch): the trace of one such call is rejected, `doubleRelease`;
  for every object identity the declarative property is violated.

Tie: `scn udp badbody[bw] …` of harness/c12 (request bodies that fail on Read / Seek, confirmable and not, Post / Do /
WriteMessage, block-wise off and on) on real connections with hook h1, judged by the monitor.
-/
namespace CoapVerif.Props.C12PrepareWrite
open CoapVerif CoapVerif.Model.Ownership CoapVerif.Model.OwnershipPaths
open CoapVerif.Spec.Ownership (Ev specOK)
open CoapVerif.Props.C12 CoapVerif.Props.C12Paths

theorem pwCoded_linear : pwCoded.Linear := by
  intro c st
  apply linear_of_all
  cases st <;> simp only [pwCoded, PwStep.asCoded, if_true, Bool.false_eq_true, if_false, pwStep] <;>
    (repeat' split) <;> simp [Op.linear]

/-- **prepareWriteMessage / midElement hand-over**: every schedule is accepted by the monitor. -/
theorem pw_ok (sched : List PwStep) (c : PwCtl) (P : Place) (m : Store) (ha : Agree P m) :
    monitor m (pwCoded.trace c P sched) = none :=
  linear_ok pwCoded pwCoded_linear sched c P m ha

theorem pw_spec (sched : List PwStep) : specOK (pwCoded.trace {} Place.empty sched) = true :=
  (monitor_sound _).mp (pw_ok sched {} Place.empty Store.init agree_empty)

theorem pw_released_once (sched : List PwStep) (k : Nat) :
    countAcq k (pwCoded.trace {} Place.empty sched) =
      countRel k (pwCoded.trace {} Place.empty sched) + placed (pwCoded.run {} Place.empty sched).2.1 k := by
  have := linear_conservation pwCoded pwCoded_linear k sched {} Place.empty
  simpa [placed, Place.empty] using this

/-- The `Clone`-failure exit, for every request and copy: acquired once, released once, not kept. -/
theorem pw_clone_failure_releases_copy_once (r msg : Nat) (h : r ≠ msg) :
    pwCoded.trace {} Place.empty [.appAcquire r, .prepare r msg .cloneFail]
      = [.acq r, .acq msg, .use r, .use msg, .rel msg] ∧
    placed (pwCoded.run {} Place.empty [.appAcquire r, .prepare r msg .cloneFail]).2.1 msg = 0 := by
  simp [Prog.trace, Prog.run, pwCoded, PwStep.asCoded, pwStep, execOps, Op.guard, Op.apply, Op.evs, Place.set, Place.empty,
    Place.inSlot, placed, h, Ne.symm h]

/-- **Negative (seeded C12-T)**: the copy is released by the explicit release of the `Clone`-failure branch and again by the
    deferred release: rejected. -/
theorem pw_seeded_double_release_rejected :
    ∃ sched, monitor Store.init (pwProg.trace {} Place.empty sched) = some (.doubleRelease 2) :=
  ⟨[.appAcquire 1, .prepareSeeded 1 2 .cloneFail], by decide⟩

/-- … for every object identity, and the declarative property is violated as well. -/
theorem pw_seeded_double_release_rejected' (r msg : Nat) (h : r ≠ msg) :
    specOK (pwProg.trace {} Place.empty [.appAcquire r, .prepareSeeded r msg .cloneFail]) = false := by
  simp [Prog.trace, Prog.run, pwProg, pwStep, execOps, Op.guard, Op.apply, Op.evs, Place.set, Place.empty,
    Place.inSlot, h, Ne.symm h, specOK, Spec.Ownership.okAfterRel, Spec.Ownership.okAfterAcq]

/-! Non-vacuity -/
-- two requests under way; one acknowledged, one retransmitted and then expired; a third whose body cannot be read
example : pwCoded.trace {} Place.empty
    [.appAcquire 1, .prepare 1 2 .stored, .appAcquire 3, .prepare 3 4 .stored, .release 2, .getMessage 4 5 false, .finish 5,
     .release 4, .release 4, .getMessage 4 6 false, .appAcquire 7, .prepare 7 8 .cloneFail, .appRelease 7, .prepare 1 9 .non]
  = [.acq 1, .acq 2, .use 1, .use 2, .acq 3, .acq 4, .use 3, .use 4, .rel 2, .acq 5, .use 4, .use 5, .use 5, .rel 5, .rel 4,
     .acq 7, .acq 8, .use 7, .use 8, .rel 8, .rel 7, .use 1] := by decide
-- the exits that drop the copy: it is still in its slot (never released)
example : placed (pwCoded.run {} Place.empty [.appAcquire 1, .prepare 1 2 .nstartFail]).2.1 2 = 1 := by decide
-- the seeded shape's other early exits are fine (that part of the change is a real leak fix)
example : monitor Store.init (pwProg.trace {} Place.empty [.appAcquire 1, .prepareSeeded 1 2 .midInUse, .prepareSeeded 1 3 .nstartFail]) = none := by decide
example : pwProg.trace {} Place.empty [.appAcquire 1, .prepareSeeded 1 2 .cloneFail] = [.acq 1, .acq 2, .use 1, .use 2, .rel 2, .rel 2] := by decide

end CoapVerif.Props.C12PrepareWrite

section Audit
open CoapVerif.Props.C12PrepareWrite
#print axioms pwCoded_linear
#print axioms pw_ok
#print axioms pw_spec
#print axioms pw_released_once
#print axioms pw_clone_failure_releases_copy_once
#print axioms pw_seeded_double_release_rejected
#print axioms pw_seeded_double_release_rejected'
end Audit
