import CoapVerif.Props.C12Paths
import CoapVerif.Model.OwnershipStale
/-!
# C12, the block-wise paths with expired-but-unswept entries (continues `Props/C12Paths.lean`)

Statement of the property (properties.jsonl, C12): "A message object is never returned to the pool twice without being
re-acquired in between, and it is never recycled while the application legitimately holds it […] The library never reads
or writes a message after releasing it, under any concurrency of requests, handlers, retransmissions and housekeeping."

`Model/OwnershipStale.lean` adds to the block-wise program the window between the end of a sending entry's validity and
the housekeeping tick that removes it (step `expire`; the element stays in the map, `LoadOrStore` replaces it), in which a
new exchange under the same token may start.

* `bwx_ok` / `bwx_spec` — every schedule of the extended program (all steps of `bwStep`, with `expire` anywhere between
  them, any number of times) is accepted by the monitor / satisfies the declarative property;
* `bwx_released_once` — per object: acquisitions = releases + (1 if still in a slot), in every run;
* `bwx_stale_release_rejected` — the seeded shape C12-V (`LoadOrStore` reports `loaded` for an element it stored in the
  place of an expired one, `startSendingMessage` releases the original it has just put into the cache): the continuation of
  the new transfer reads the message after its release — rejected with `usedAfterRelease`.
-/
namespace CoapVerif.Props.C12Stale
open CoapVerif CoapVerif.Model.Ownership CoapVerif.Model.OwnershipPaths CoapVerif.Model.OwnershipStale
open CoapVerif.Spec.Ownership (Ev specOK)
open CoapVerif.Props.C12 CoapVerif.Props.C12Paths

theorem bwxCoded_linear : bwxCoded.Linear := by
  intro c st
  cases st with
  | base s =>
    have h := bwCoded_linear c.base s
    simp only [bwxCoded, BwxStep.asCoded, bwxStep]
    simp only [bwCoded] at h
    by_cases hs : s.asCoded = true
    · simp only [hs, if_true] at h ⊢
      exact h
    · simp only [hs] at h ⊢
      intro op hop
      simp at hop
  | expire =>
    apply linear_of_all
    simp only [bwxCoded, BwxStep.asCoded, if_true, bwxStep]
    (repeat' split) <;> simp
  | respondStaleReleases x sm e =>
    intro op hop
    simp [bwxCoded, BwxStep.asCoded] at hop

/-- **Block-wise layer with entries that expired but were not swept**: every schedule of the steps of `bw_ok` with the
    end of the sending entry's validity (`expire`) anywhere in between — a new response, `WriteMessage` or `Do` under the
    same token replaces the stale element — is accepted by the monitor. -/
theorem bwx_ok (sched : List BwxStep) (c : BwxCtl) (P : Place) (m : Store) (ha : Agree P m) :
    monitor m (bwxCoded.trace c P sched) = none :=
  linear_ok bwxCoded bwxCoded_linear sched c P m ha

theorem bwx_spec (sched : List BwxStep) : specOK (bwxCoded.trace {} Place.empty sched) = true :=
  (monitor_sound _).mp (bwx_ok sched {} Place.empty Store.init agree_empty)

theorem bwx_released_once (sched : List BwxStep) (k : Nat) :
    countAcq k (bwxCoded.trace {} Place.empty sched) =
      countRel k (bwxCoded.trace {} Place.empty sched) + placed (bwxCoded.run {} Place.empty sched).2.1 k := by
  have := linear_conservation bwxCoded bwxCoded_linear k sched {} Place.empty
  simpa [placed, Place.empty] using this

/-- **seeded C12-V**: a response in blocks under token T was abandoned and its entry expired (not swept); a new GET under
    T is answered in blocks: the original response (object 8) is stored in the place of the stale element and released
    all the same; the request for the next block is served out of it: read after its release. -/
theorem bwx_stale_release_rejected :
    ∃ sched, monitor Store.init (bwxProg.trace {} Place.empty sched) = some (.usedAfterRelease 8) :=
  ⟨[.base (.rxStart 1 2), .base (.forward 1), .base (.forwardReturn 1), .base (.respond 1 .normal 3 0), .base (.rxEnd 1),
    .expire,
    .base (.rxStart 7 8), .base (.forward 7), .base (.forwardReturn 7), .respondStaleReleases 7 9 10, .base (.rxEnd 7),
    .base (.rxStart 11 12), .base (.contCode 11)], by decide⟩

/-! ### Non-vacuity -/

-- the same history as the code does it: the second response is stored in the place of the stale one, nothing is released
-- but blocks, receive-path messages and responses; the continuation is cut out of object 8, which is still the layer's
example : bwxCoded.trace {} Place.empty
    [.base (.rxStart 1 2), .base (.forward 1), .base (.forwardReturn 1), .base (.respond 1 .normal 3 0), .base (.rxEnd 1),
     .expire,
     .base (.rxStart 7 8), .base (.forward 7), .base (.forwardReturn 7), .base (.respond 7 .normal 9 0), .base (.rxEnd 7),
     .base (.rxStart 11 12), .base (.contCode 11), .base (.contCreate 11 13 false), .base (.rxEnd 11)]
    = [.acq 1, .use 1, .acq 2, .hold 1, .unhold 1, .acq 3, .use 2, .use 3, .rel 3, .rel 1,
       .acq 7, .use 7, .acq 8, .hold 7, .unhold 7, .acq 9, .use 8, .use 9, .rel 9, .rel 7,
       .acq 11, .use 11, .acq 12, .use 11, .use 8, .acq 13, .use 8, .rel 12, .use 13, .rel 13, .rel 11] := by decide

-- without `expire` the second response finds the token in use (the code's error path: the original is released, 4.08)
example : (bwxCoded.run {} Place.empty
    [.base (.rxStart 1 2), .base (.forward 1), .base (.forwardReturn 1), .base (.respond 1 .normal 3 0), .base (.rxEnd 1),
     .expire]).1.stale = some 2 := by decide

example : placed (bwxCoded.run {} Place.empty
    [.base (.rxStart 1 2), .base (.forward 1), .base (.forwardReturn 1), .base (.respond 1 .normal 3 0), .base (.rxEnd 1),
     .expire, .base (.rxStart 7 8), .base (.forward 7), .base (.forwardReturn 7), .base (.respond 7 .normal 9 0),
     .base (.rxEnd 7)]).2.1 2 = 1 := by decide

section Audit
#print axioms bwxCoded_linear
#print axioms bwx_ok
#print axioms bwx_spec
#print axioms bwx_released_once
#print axioms bwx_stale_release_rejected
end Audit

end CoapVerif.Props.C12Stale
