import CoapVerif.Model.OwnershipStorage
/-!
# C12, the content of a held message does not live in the transport's receive memory

Statement of the property (properties.jsonl, C12): "[…] it is never recycled while the application legitimately holds
it: the content of a response returned from a request call, of a request inside a handler and of a notification inside a
callback stays unchanged until the application releases it or returns. […]"

* `decoded_content_stable` — for an encoded message of ANY length `n` (no bound: the 16-bit boundary, the tcp framing's
  65805, 2^24 … are ordinary members of the domain), decoded as the code does it, and ANY sequence of later receptions
  into the transport's memory, the holder reads what was decoded;
* `seeded_small_stable` — the seeded shape C12-W behaves the same up to its limit (why every datagram-sized test passes);
* `seeded_alias_changes` — beyond the limit (for every `n > limit`, in particular 65536 with limit 65535) there is a
  receive memory and one later reception of one byte after which the holder reads something else.

Tie to the real code: harness/c12 `scn pool decode <coder> <n>` (decode, overwrite the source memory, compare) and
`scn tcp jumbo <n> req|resp` (the real tcp session with pipelined frames) for n = 65535, 65536, 65537, 65804, 65805, 2^17, …;
a difference is the judge's `changed` mark.
-/
namespace CoapVerif.Props.C12Storage
open CoapVerif.Model.OwnershipStorage

/-- **Held content is stable**: whatever the connection receives afterwards, and however long the encoded message was. -/
theorem decoded_content_stable (rx : Bytes) (n : Nat) (ws : List (Nat × Bytes)) :
    content (writes rx ws) (unmarshal rx n) = content rx (unmarshal rx n) := rfl

theorem seeded_small_stable (limit : Nat) (rx : Bytes) (n : Nat) (h : n ≤ limit) (ws : List (Nat × Bytes)) :
    content (writes rx ws) (unmarshalSeeded limit rx n) = content rx (unmarshalSeeded limit rx n) := by
  have : ¬ n > limit := by omega
  simp [unmarshalSeeded, this, content]

/-- **seeded C12-W**: for every length beyond the limit, a held message changes with the next byte the transport receives. -/
theorem seeded_alias_changes (limit n : Nat) (h : n > limit) :
    ∃ (rx : Bytes) (ws : List (Nat × Bytes)), rx.length = n ∧
      content (writes rx ws) (unmarshalSeeded limit rx n) ≠ content rx (unmarshalSeeded limit rx n) := by
  obtain ⟨k, rfl⟩ : ∃ k, n = k + 1 := ⟨n - 1, by omega⟩
  refine ⟨List.replicate (k + 1) 0, [(0, [1])], by simp, ?_⟩
  simp only [unmarshalSeeded, h, if_true, content, writes, write]
  simp [List.replicate_succ]

/-- the boundary itself -/
theorem seeded_alias_changes_at_65536 :
    ∃ (rx : Bytes) (ws : List (Nat × Bytes)), rx.length = 65536 ∧
      content (writes rx ws) (unmarshalSeeded 65535 rx 65536) ≠ content rx (unmarshalSeeded 65535 rx 65536) :=
  seeded_alias_changes 65535 65536 (by omega)

/-! ### Non-vacuity -/

example : content (writes [1, 2, 3, 4, 5] [(0, [9, 9]), (3, [7, 7, 7])]) (unmarshal [1, 2, 3, 4, 5] 4) = [1, 2, 3, 4] := by decide
example : writes [1, 2, 3, 4, 5] [(0, [9, 9]), (3, [7, 7, 7])] = [9, 9, 3, 7, 7, 7] := by decide
example : content (writes [1, 2, 3, 4, 5] [(0, [9, 9])]) (unmarshalSeeded 3 [1, 2, 3, 4, 5] 4) = [9, 9, 3, 4] := by decide
example : content (writes [1, 2, 3, 4, 5] [(0, [9, 9])]) (unmarshalSeeded 3 [1, 2, 3, 4, 5] 3) = [1, 2, 3] := by decide

section Audit
#print axioms decoded_content_stable
#print axioms seeded_small_stable
#print axioms seeded_alias_changes
#print axioms seeded_alias_changes_at_65536
end Audit

end CoapVerif.Props.C12Storage
