import CoapVerif.Go.Basic
import CoapVerif.Model.Tables
import CoapVerif.Lemmas.Tables
import CoapVerif.Spec.Quiescence
/-!
# C13 — no per-exchange state outlives the exchange

Statement (properties.jsonl): after all exchanges on a connection have ended — successfully, by error, by
cancellation, or by expiry once the housekeeping tick has passed their deadline — the connection retains nothing for
them: no waiting token or message-ID continuations, no block-wise reassembly or send buffers, no limiter queue
entries, no per-ID locks and no observation entries other than observations that are still live.  Cached replies
disappear after the exchange lifetime, so memory held per peer is bounded by live work, not by history.

`bracketed` is about **today's source**: the list of insertions into per-exchange tables and of the removals paired
with them is re-read from the AST on every run (`Generated/TableShape.lean`); the theorem says that every insertion
has a removal on every exit path, or lives in an expiring cache, or is a live registration with an error-guarded
clean-up.  `quiescent_empty` then holds for every history of the table model over those sites (any number of
exchanges, any interleaving of insertions, early removals, returns, cancellations and ticks).  The lock map and the
limiter's endpoint entries have their own reference-count theorems.  The real tables are compared with this on every
run through the size accessors (hook h2).
-/
namespace CoapVerif.Props.C13
open CoapVerif CoapVerif.Model.Tables CoapVerif.Lemmas.Tables

/-- **bracketed.** Every insertion into a per-exchange table in today's source is paired with a removal on every exit
    path (deferred / `closeFns` / cancel closure / reference-counted unlock), or goes into an expiring cache, or is a
    live registration removed on failure and on cancel. -/
theorem bracketed : bracketedB = true := by decide +kernel

/-- **bracket_sites_agree.** The continuations, lock, limiter, discovery and `blockwise.Do` entries — the sites the model
    (and the harness's "bounded by live work" clauses) treat as brackets — are brackets in today's source. -/
theorem bracket_sites_agree : bracketSitesAgreeB = true := by decide +kernel

/-- … in particular every site has a class. -/
theorem every_site_classified (i : Nat) (hi : i < sites.length) : (siteCls i).isSome = true := by
  have h := bracketed
  unfold bracketedB at h
  rw [List.all_eq_true] at h
  unfold siteCls
  rw [List.getElem?_eq_getElem hi]
  exact h _ (List.getElem_mem hi)

/-- **bracket entries belong to work in progress** (memory is bounded by live work): in every reachable state an entry
    of a bracketed site belongs to an exchange whose function has not returned. -/
theorem bracket_entries_have_active_owner (evs : List TEvent) (hw : WellTimed {} evs) (e : Entry)
    (he : e ∈ (trun evs).entries) (hb : isBracket (siteCls e.site) = true) : e.owner ∉ (trun evs).ended :=
  (invT_run evs hw).br e he hb

/-- **quiescent_empty.** After any history, once housekeeping runs at a time `now`: an entry whose exchange has ended
    and whose deadline has passed can only be a live registration (an observation whose registering call succeeded
    and that has not been cancelled).  For every history, every number of exchanges, every interleaving. -/
theorem quiescent_empty (evs : List TEvent) (hw : WellTimed {} evs) (now : Int) (e : Entry)
    (he : e ∈ (trun (evs ++ [.tick now])).entries)
    (hsite : e.site < sites.length)
    (hended : e.owner ∈ (trun (evs ++ [.tick now])).ended)
    (hdead : e.deadline < now) :
    isLive (siteCls e.site) = true ∧ e.owner ∉ (trun (evs ++ [.tick now])).failed ∧
      e.owner ∉ (trun (evs ++ [.tick now])).cancelled := by
  have inv := invT_run (evs ++ [.tick now]) (wellTimed_append evs {} (.tick now) hw (by intro a b c d h; cases h))
  have hcls := every_site_classified e.site hsite
  -- the final tick removed every expiring entry whose deadline has passed
  have hexp : isExpiring (siteCls e.site) = false := by
    rw [trun_append] at he
    simp only [tstep] at he
    have := (List.mem_filter.mp he).2
    cases hx : isExpiring (siteCls e.site)
    · rfl
    · simp [hx, hdead] at this
  cases hc : siteCls e.site with
  | none => rw [hc] at hcls; cases hcls
  | some c =>
    cases c with
    | bracket => exact absurd hended (inv.br e he (by rw [hc]; rfl))
    | handle => exact absurd hended (inv.br e he (by rw [hc]; rfl))
    | bracketExpiring => rw [hc] at hexp; cases hexp
    | expiring => rw [hc] at hexp; cases hexp
    | live =>
      have := inv.lv e he (by rw [hc]; rfl)
      exact ⟨rfl, this.1, this.2⟩

/-- **Corollary: nothing is retained.** If moreover no live registration is left (every observation failed or was
    cancelled), all exchanges have ended and every deadline has passed, the tables are empty. -/
theorem quiescent_nothing_retained (evs : List TEvent) (hw : WellTimed {} evs) (now : Int)
    (hall : ∀ e ∈ (trun (evs ++ [.tick now])).entries,
      e.site < sites.length ∧ e.owner ∈ (trun (evs ++ [.tick now])).ended ∧ e.deadline < now ∧
      (e.owner ∈ (trun (evs ++ [.tick now])).failed ∨ e.owner ∈ (trun (evs ++ [.tick now])).cancelled)) :
    (trun (evs ++ [.tick now])).entries = [] := by
  apply List.eq_nil_iff_forall_not_mem.mpr
  intro e he
  obtain ⟨h1, h2, h3, h4⟩ := hall e he
  have := quiescent_empty evs hw now e he h1 h2 h3
  rcases h4 with h4 | h4
  · exact this.2.1 h4
  · exact this.2.2 h4

/-- the sites of the token → message-ID table of the confirmable requests that are being written (`udp/client/conn.go`
    `requestMessageIDs`, the repair of F42: `writeMessage` inserts the entry, its deferred `Delete` removes it, `Conn.handle` only
    reads it) exist in today's source and every one of them is a bracket: nothing but a deferred removal in the inserting
    function pairs with the insertion -/
def reqMidSitesB : Bool :=
  sites.any (fun s => s.func == "Conn.writeMessage" && s.table == "requestMessageIDs") &&
  sites.all (fun s => s.table != "requestMessageIDs" || (s.func == "Conn.writeMessage" && classify s.removal == some .bracket))

theorem request_message_ids_bracketed : reqMidSitesB = true := by decide +kernel

/-- **request_message_ids_never_left_behind.** In every reachable state of every well-timed history an entry of
    `requestMessageIDs` belongs to a `writeMessage` that has not returned — with success, with the error of its context, of the
    connection or of the write: `finish` removes the entry whatever its outcome flag.  (When a response acknowledges the request
    the message-ID continuation is consumed; the woken `writeMessage` returns and takes this entry with it.) -/
theorem request_message_ids_never_left_behind (evs : List TEvent) (hw : WellTimed {} evs) (e : Entry)
    (he : e ∈ (trun evs).entries) (s : Generated.TableShape.Insertion) (hs : sites[e.site]? = some s)
    (ht : s.table = "requestMessageIDs") : e.owner ∉ (trun evs).ended := by
  apply bracket_entries_have_active_owner evs hw e he
  have h := request_message_ids_bracketed
  unfold reqMidSitesB at h
  rw [Bool.and_eq_true, List.all_eq_true] at h
  have hm : s ∈ sites := List.mem_of_getElem? hs
  have h2 := h.2 s hm
  simp only [ht, bne_self_eq_false, Bool.false_or, Bool.and_eq_true, beq_iff_eq] at h2
  unfold siteCls
  rw [hs]
  simp only [Option.bind_some, h2.2]
  rfl

/-- … so the table is empty whenever every `writeMessage` has returned -/
theorem request_message_ids_empty_when_idle (evs : List TEvent) (hw : WellTimed {} evs)
    (hidle : ∀ e ∈ (trun evs).entries, e.owner ∈ (trun evs).ended) : tableSize (trun evs) "requestMessageIDs" = 0 := by
  unfold tableSize
  rw [List.length_eq_zero_iff, List.filter_eq_nil_iff]
  intro e he hx
  cases hs : sites[e.site]? with
  | none => rw [hs] at hx; cases hx
  | some s =>
    rw [hs] at hx
    exact request_message_ids_never_left_behind evs hw e he s hs (by simpa using hx) (hidle e he)

/-- the token-continuation site of `doInternal` in today's source -/
def lateTok : Nat := (sites.findIdx? (fun s => s.func == "Conn.doInternal" && s.table == "tokenHandlerContainer")).getD 0
/-- registered, returned (entry removed by the deferred delete), then inserted again on behalf of the ended call -/
def lateEvs : List TEvent := [.insert lateTok 7 1 0, .finish 1 true, .insert lateTok 7 1 0]

/-- **The hypothesis is needed** (and is what the harness asserts on the real code): one insertion on behalf of an
    exchange that has already returned — a deferred delete followed by an asynchronous re-insert — leaves a bracket
    entry behind for ever, whatever housekeeping does. -/
theorem late_insert_leaks :
    ¬ WellTimed {} lateEvs ∧ (trun (lateEvs ++ [.tick 1000000])).entries = [⟨lateTok, 7, 1, 0⟩] := by
  refine ⟨fun h => ?_, by decide +kernel⟩
  have h3 : (1 : Nat) ∉ (tstep (tstep {} (.insert lateTok 7 1 0)) (.finish 1 true)).ended := h.2.2.1.1
  exact h3 (by simp [tstep])

/-- **handle_sites_agree.** The two `AsyncPing` registrations are removed by a cancel closure handed to the caller
    (class `handle`: the model's "return of the exchange" is the invocation of that closure), and the library's own
    caller of `AsyncPing`, `Client.Ping`, defers it in today's source.  Direct users of `AsyncPing` carry that
    obligation themselves; it is outside this theorem. -/
theorem handle_sites_agree : handleSitesAgreeB = true := by decide +kernel

/-- **mutexmap_refcount.** For every history of `Lock`/`Unlock` in which only holders unlock (the code's
    `l := Lock(k); defer l.Unlock()`), `Unlock` never panics and the map holds exactly the keys that somebody holds or
    waits for, each with that count: an entry exists iff its count is positive. -/
theorem mutexmap_refcount (es : List LEvent) (hv : LValid (fun _ => 0) es) :
    ∃ m, lrun (fun _ => none) es = some m ∧ ∀ k, m k = if hrun (fun _ => 0) es k = 0 then none else some (hrun (fun _ => 0) es k) := by
  obtain ⟨m, h1, h2⟩ := lrun_rep es (fun _ => none) (fun _ => 0) (by intro k; simp) hv
  exact ⟨m, h1, h2⟩

/-- … hence the lock map is empty whenever nobody holds a lock. -/
theorem mutexmap_empty_when_idle (es : List LEvent) (hv : LValid (fun _ => 0) es)
    (hidle : ∀ k, hrun (fun _ => 0) es k = 0) : ∃ m, lrun (fun _ => none) es = some m ∧ ∀ k, m k = none := by
  obtain ⟨m, h1, h2⟩ := mutexmap_refcount es hv
  exact ⟨m, h1, fun k => by rw [h2 k, hidle k]; rfl⟩

/-- **limiter_idle.** For every history of acquire / release / withdrawn waiter (each release by a request that holds or
    was handed a slot, each withdrawal by a queued request), an endpoint entry exists exactly while requests hold or
    wait for it — its counter is positive and counter + waiters is their number —, so when every request has left
    the entry is gone. -/
theorem limiter_idle (limit : Nat) (es : List QEvent) :
    ∀ (q : Queues) (c : Nat → Nat), QRep q c →
      (∀ (pre : List QEvent) (e : QEvent) (post : List QEvent), es = pre ++ e :: post → QValidEv (pre.foldl (qstep limit) q) e) →
      QRep (es.foldl (qstep limit) q) (es.foldl ostep c) := by
  induction es with
  | nil => intro q c rep _; exact rep
  | cons e es ih =>
    intro q c rep hv
    have hv0 := hv [] e es rfl
    apply ih _ _ (qstep_rep limit q c e rep hv0)
    intro pre e' post heq
    have := hv (e :: pre) e' post (by rw [heq]; rfl)
    simpa using this

/-! ### Non-vacuity -/

/-- a history over today's sites: a Do registers limiter, block-wise send, token and message-ID entries (sites found by
    name), is answered (token entry consumed), returns; a reply is cached; the tick comes after the cache deadline -/
def siteOf (fn table : String) : Nat := (sites.findIdx? (fun s => s.func == fn && s.table == table)).getD 0

example : (trun [
    .insert (siteOf "LimitParallelRequests.acquireEndpoint" "endpointQueues") 7 1 0,
    .insert (siteOf "BlockWise.Do" "sendingMessagesCache") 11 1 30,
    .insert (siteOf "Conn.doInternal" "tokenHandlerContainer") 11 1 0,
    .insert (siteOf "Conn.prepareWriteMessage" "midHandlerContainer") 101 1 0,
    .insert (siteOf "messageCache.Store" "c") 5000 2 247,
    .consume (siteOf "Conn.prepareWriteMessage" "midHandlerContainer") 101,
    .consume (siteOf "Conn.doInternal" "tokenHandlerContainer") 11,
    .tick 100,
    .finish 1 true, .finish 2 true]).entries.length = 1 := by decide +kernel
example : (trun [
    .insert (siteOf "messageCache.Store" "c") 5000 2 247, .finish 2 true, .tick 100, .tick 248]).entries = [] := by decide +kernel
example : (trun [
    .insert (siteOf "Handler.NewObservation" "observations") 9 3 0, .finish 3 true, .tick 1000]).entries.length = 1 := by decide +kernel
example : (trun [
    .insert (siteOf "Handler.NewObservation" "observations") 9 3 0, .finish 3 false, .tick 1000]).entries = [] := by decide +kernel
-- a confirmable request written through `WriteMessage`: message-ID continuation and token → message-ID entry; the response
-- acknowledges (continuation consumed), `writeMessage` returns; the same with an error return (context ended while waiting)
example : (trun [
    .insert (siteOf "Conn.prepareWriteMessage" "midHandlerContainer") 101 1 0,
    .insert (siteOf "Conn.writeMessage" "requestMessageIDs") 11 1 0,
    .consume (siteOf "Conn.prepareWriteMessage" "midHandlerContainer") 101]).entries.length = 1 := by decide +kernel
example : (trun [
    .insert (siteOf "Conn.prepareWriteMessage" "midHandlerContainer") 101 1 0,
    .insert (siteOf "Conn.writeMessage" "requestMessageIDs") 11 1 0,
    .consume (siteOf "Conn.prepareWriteMessage" "midHandlerContainer") 101, .finish 1 true]).entries = [] := by decide +kernel
example : (trun [
    .insert (siteOf "Conn.prepareWriteMessage" "midHandlerContainer") 101 1 0,
    .insert (siteOf "Conn.writeMessage" "requestMessageIDs") 11 1 0, .finish 1 false]).entries = [] := by decide +kernel
example : (lrun (fun _ => none) [.lock 5, .lock 5, .unlock 5, .lock 6, .unlock 5, .unlock 6]).map (fun m => (m 5, m 6)) = some (none, none) := by decide
example : ((([QEvent.acquire 1, .acquire 1, .acquire 1, .cancelWaiter 1, .release 1, .release 1] : List QEvent).foldl (qstep 1) (fun _ => none)) 1) = none := by decide

end CoapVerif.Props.C13

section Audit
open CoapVerif.Props.C13
#print axioms bracketed
#print axioms bracket_sites_agree
#print axioms every_site_classified
#print axioms bracket_entries_have_active_owner
#print axioms quiescent_empty
#print axioms quiescent_nothing_retained
#print axioms request_message_ids_bracketed
#print axioms request_message_ids_never_left_behind
#print axioms request_message_ids_empty_when_idle
#print axioms late_insert_leaks
#print axioms handle_sites_agree
#print axioms mutexmap_refcount
#print axioms mutexmap_empty_when_idle
#print axioms limiter_idle
end Audit
