import CoapVerif.Model.TokenValue
/-!
# C13 — stored keys are values fixed at registration (second use of a request message)

Statement (properties.jsonl): "… the connection retains nothing for them: … and no observation entries other than
observations that are still live."

Machine: `Model/TokenValue.lean`.

* `setTokens_keep_table` — whatever the application writes into its message objects, the table and the handles' tokens do
  not change;
* `cancel_removes_exactly_the_registered_entry` — register from a message, let the application write any sequence of other
  tokens into any of its messages, cancel: the table is the one before the registration (the entry made at registration is
  gone, no other entry is touched);
* `only_live_observations` — in every history, every entry of the table belongs to a handle that was not cancelled, and sits
  under the token that handle holds (so nothing is left for a cancelled observation: `cancelled_has_no_entry`).
* negative shape `alias_leaks`: in the machine in which the handle shares the message's token bytes, register / write
  another token / cancel leaves the entry for ever.
-/
namespace CoapVerif.Props.C13Token
open CoapVerif.Model.TokenValue

def setAll (ws : List (Nat × Nat)) : List KEv := ws.map (fun w => KEv.setToken w.1 w.2)

theorem setTokens_keep_table (ws : List (Nat × Nat)) : ∀ s : KState,
    (krun s (setAll ws)).obs = s.obs ∧ (krun s (setAll ws)).stored = s.stored ∧
    (krun s (setAll ws)).nextId = s.nextId ∧ (krun s (setAll ws)).cancelled = s.cancelled := by
  induction ws with
  | nil => intro s; exact ⟨rfl, rfl, rfl, rfl⟩
  | cons w ws ih =>
    intro s
    have := ih (kstep s (.setToken w.1 w.2))
    simpa [krun, setAll, kstep] using this

theorem filter_ne_self (l : List (Nat × Nat)) (k : Nat) (h : l.any (fun e => e.1 == k) = false) :
    l.filter (fun e => e.1 != k) = l := by
  induction l with
  | nil => rfl
  | cons a l ih =>
    simp only [List.any_cons, Bool.or_eq_false_iff] at h
    have ha : (a.1 != k) = true := by simp [bne, h.1]
    simp only [List.filter_cons, ha, if_true, ih h.2]

/-- **Cancellation removes exactly the entry registered under the registration-time token, whatever the caller does to its
    messages afterwards.**  `s`: any state; the message in `slot` holds a token that is not in use; `ws`: any writes
    `(slot', tok')` - also to the message the observation was registered from. -/
theorem cancel_removes_exactly_the_registered_entry (s : KState) (slot : Nat) (ws : List (Nat × Nat))
    (hfree : s.obs.any (fun e => e.1 == s.msgs slot) = false) :
    (krun s (KEv.observe slot :: setAll ws ++ [KEv.cancel s.nextId])).obs = s.obs ∧
    (kstep s (.observe slot)).obs = (s.msgs slot, s.nextId) :: s.obs := by
  have h1 : (kstep s (.observe slot)).obs = (s.msgs slot, s.nextId) :: s.obs := by simp [kstep, hfree]
  have h2 : (kstep s (.observe slot)).stored s.nextId = some (s.msgs slot) := by simp [kstep, hfree]
  refine ⟨?_, h1⟩
  have hk := setTokens_keep_table ws (kstep s (.observe slot))
  simp only [krun, List.foldl_cons, List.foldl_append, List.foldl_nil] at hk ⊢
  simp only [kstep.eq_def (List.foldl kstep (kstep s (.observe slot)) (setAll ws)) (.cancel s.nextId), hk.2.1, h2, hk.1, h1]
  simp only [List.filter_cons, bne_self_eq_false, Bool.false_eq_true, if_false]
  exact filter_ne_self _ _ hfree

/-- invariant of every history -/
def KInv (s : KState) : Prop :=
  (∀ e ∈ s.obs, s.stored e.2 = some e.1 ∧ e.2 ∉ s.cancelled) ∧ (∀ o, s.stored o ≠ none → o < s.nextId) ∧
  (∀ c ∈ s.cancelled, c < s.nextId)

theorem kinv_init : KInv {} := ⟨by simp, by simp, by simp⟩

theorem kstep_inv (s : KState) (ev : KEv) (h : KInv s) : KInv (kstep s ev) := by
  obtain ⟨h1, h2, h3⟩ := h
  cases ev with
  | setToken slot tok => exact ⟨h1, h2, h3⟩
  | observe slot =>
    simp only [kstep]
    split
    · exact ⟨h1, fun o ho => Nat.lt_succ_of_lt (h2 o ho), fun c hc => Nat.lt_succ_of_lt (h3 c hc)⟩
    · refine ⟨fun e he => ?_, fun o ho => ?_, fun c hc => Nat.lt_succ_of_lt (h3 c hc)⟩
      · simp only [List.mem_cons] at he
        rcases he with rfl | he
        · exact ⟨by simp, fun hc => Nat.lt_irrefl _ (h3 _ hc)⟩
        · have := h1 e he
          have hlt : e.2 < s.nextId := h2 e.2 (by rw [this.1]; simp)
          exact ⟨by simp [Nat.ne_of_lt hlt, this.1], this.2⟩
      · by_cases c : o = s.nextId
        · subst c; exact Nat.lt_succ_self _
        · simp only [c, if_false] at ho; exact Nat.lt_succ_of_lt (h2 o ho)
  | cancel owner =>
    simp only [kstep]
    cases hs : s.stored owner with
    | none => exact ⟨h1, h2, h3⟩
    | some k =>
      refine ⟨fun e he => ?_, h2, fun c hc => ?_⟩
      · simp only [List.mem_filter, bne_iff_ne, ne_eq] at he
        have := h1 e he.1
        refine ⟨this.1, fun hc => ?_⟩
        simp only [List.mem_cons] at hc
        rcases hc with hc | hc
        · rw [hc, hs] at this; exact he.2 (Option.some.inj this.1).symm
        · exact this.2 hc
      · simp only [List.mem_cons] at hc
        rcases hc with rfl | hc
        · exact h2 _ (by rw [hs]; simp)
        · exact h3 c hc

theorem krun_inv (evs : List KEv) : ∀ s, KInv s → KInv (krun s evs) := by
  induction evs with
  | nil => intro s h; exact h
  | cons e es ih => intro s h; exact ih _ (kstep_inv s e h)

/-- **No observation entries other than live observations**, for every history of registrations, cancellations and writes
    into the application's message objects: every entry of the table belongs to a handle that was not cancelled and sits
    under the token value that handle holds. -/
theorem only_live_observations (evs : List KEv) :
    ∀ e ∈ (krun {} evs).obs, (krun {} evs).stored e.2 = some e.1 ∧ e.2 ∉ (krun {} evs).cancelled :=
  (krun_inv evs {} kinv_init).1

/-- nothing is kept for a cancelled observation -/
theorem cancelled_has_no_entry (evs : List KEv) (o : Nat) (h : o ∈ (krun {} evs).cancelled) :
    ∀ e ∈ (krun {} evs).obs, e.2 ≠ o :=
  fun e he ho => (only_live_observations evs e he).2 (ho ▸ h)

/-! ### non-vacuity and the negative shape -/

/-- register from message 0 (token 7), write token 9 then 8 into the same message, register again from it, cancel the first:
    the first entry is gone, the second stays -/
example : (krun {} [.setToken 0 7, .observe 0, .setToken 0 9, .setToken 0 8, .observe 0, .cancel 0]).obs = [(8, 1)] := by decide

/-- the aliasing machine: Cancel of the first looks under 8 - it removes the SECOND observation's entry and the first one's
    stays although its handle is cancelled -/
theorem alias_leaks :
    (krunAlias {} [.setToken 0 7, .observe 0, .setToken 0 9, .setToken 0 8, .observe 0, .cancel 0]).obs = [(7, 0)] ∧
    0 ∈ (krunAlias {} [.setToken 0 7, .observe 0, .setToken 0 9, .setToken 0 8, .observe 0, .cancel 0]).cancelled := by decide

/-- … and with a plain request as second use the entry simply stays -/
example : (krunAlias {} [.setToken 0 7, .observe 0, .setToken 0 9, .cancel 0]).obs = [(7, 0)] := by decide
example : (krun {} [.setToken 0 7, .observe 0, .setToken 0 9, .cancel 0]).obs = [] := by decide

end CoapVerif.Props.C13Token

section Audit
open CoapVerif.Props.C13Token
#print axioms setTokens_keep_table
#print axioms filter_ne_self
#print axioms cancel_removes_exactly_the_registered_entry
#print axioms kinv_init
#print axioms kstep_inv
#print axioms krun_inv
#print axioms only_live_observations
#print axioms cancelled_has_no_entry
#print axioms alias_leaks
end Audit
