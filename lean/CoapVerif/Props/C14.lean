import CoapVerif.Generated.SyncShape
import CoapVerif.Generated.SyncCallSites
import CoapVerif.Spec.SeqMap
import CoapVerif.Model.SyncMap
import CoapVerif.Model.Cache
import CoapVerif.Model.SyncSystem
import CoapVerif.Lemmas.SyncMap
/-!
# C14 — concurrent map and expiring cache are linearizable

Statement (properties.jsonl): under every interleaving of concurrent calls, the shared map and the expiring cache behave
like a sequential map in which each operation takes effect atomically at some instant between its call and its return.
In particular, among concurrent store-if-absent calls on an absent (or expired) key exactly one reports having stored
and all others observe that value, callbacks run against the value actually in the map, and the expiry sweep never
removes or replaces an entry that has not expired.

How the theorems fit together
* `shape_agrees`, `no_access_outside_lock`, `one_locked_section` tie the step model to today's source: the critical-section
  structure of every method of `sync.Map` and `cache.Cache` is re-read from the AST on every run (Generated/SyncShape.lean).
* `atomic_steps_linearizable` (and its special case `single_section_linearizable`) is the generic theorem over **all
  programs and all schedules**; `step_refines` discharges its hypothesis for the model (it contains the per-method
  refinements, restated one by one below); `all_linearizable` is the conclusion for the map and the cache.
* `loadOrStore_one_winner`, `callbacks_see_current_value`, `sweep_only_expired`, `range_weak_spec` are the particular
  clauses of the statement; `judge_sound` says the executable judge used on the real code accepts only linearizable histories.

`Range` and `CheckExpirations` release the lock between iterations; they are *not* atomic and the specification says
precisely what they are instead (a sequence of atomic observations / of atomic removals of expired entries) — see
`range_weak_spec`, `sweep_only_expired` and `Spec/SeqMap.lean`.
-/
namespace CoapVerif.Props.C14
open CoapVerif.Spec.SeqMap CoapVerif.Model.SyncMap CoapVerif.Model.Cache CoapVerif.Model.SyncSystem
open CoapVerif.Lemmas.SyncMap
open CoapVerif.Generated.SyncShape (Lock Prim Section mapMethods cacheMethods outsideLock)

/-! ### tie to the source -/

/-- The step structure written next to the model equals the one extracted from the source, method by method. -/
theorem shape_agrees : mapShapes = mapMethods ∧ cacheShapes = cacheMethods := by decide

/-- The Go map is never touched while no lock is held. -/
theorem no_access_outside_lock : outsideLock = [] := by decide

/-- methods of `Cache` call methods of the embedded `Map`: one table in which the callee names resolve -/
def methodTable : List (String × List Section) := cacheMethods.map (fun e => ("Cache." ++ e.1, e.2)) ++ mapMethods

/-- Every method except the two iterating ones executes exactly one locked section (following calls of other methods). -/
theorem one_locked_section :
    ∀ n ∈ ["Store", "Load", "LoadOrStore", "Replace", "Delete", "LoadAndDelete", "LoadAndDeleteAll", "CopyData", "Length",
           "Range2", "StoreWithFunc", "LoadWithFunc", "LoadOrStoreWithFunc", "ReplaceWithFunc", "DeleteWithFunc",
           "LoadAndDeleteWithFunc", "Cache.LoadOrStore", "Cache.Load"],
      lockedSections methodTable 4 n = some 1 := by decide

/-! ### the generic theorems -/

/-- If every atomic step of an implementation is either invisible or exactly one atomic transition of the pending
    specification operation (and the returning step a completing one), then the history of **every schedule of every
    program** is linearizable.  (`R` relates implementation and specification states, `A` a running call and the pending
    specification operation.) -/
theorem atomic_steps_linearizable {δ P L : Type} (I : Impl δ P L) (R : δ → State → Prop) (A : L → Op → Prop)
    (Ok : P → Prop) (hstart : ∀ p, Ok p → A (I.start p) (I.view p)) (hstep : StepOK I R A)
    (d0 : δ) (s0 : State) (h0 : R d0 s0) (progs : Nat → List P) (hok : ∀ t, ∀ p ∈ progs t, Ok p) (sched : List Nat) :
    Linearizable s0 (history I d0 (fun t => .idle (progs t)) sched) :=
  lin_of_atomic_steps I R A Ok hstart hstep sched d0 s0 _ _ h0 (fun t => ⟨rfl, hok t⟩)

/-- An operation that is one atomic step equal to its specification operation linearizes at that step, for every
    interleaving and history. -/
theorem single_section_linearizable {δ P L : Type} (I : Impl δ P L) (R : δ → State → Prop)
    (hsingle : ∀ p d s, R d s → ∃ d' r s', I.step (I.start p) d = (d', .inr r) ∧
      (s', Outcome.done r) ∈ fires (I.view p) s ∧ R d' s')
    (d0 : δ) (s0 : State) (h0 : R d0 s0) (progs : Nat → List P) (sched : List Nat) :
    Linearizable s0 (history I d0 (fun t => .idle (progs t)) sched) := by
  apply atomic_steps_linearizable I R (fun l op => ∃ p, l = I.start p ∧ op = I.view p) (fun _ => True)
    (fun p _ => ⟨p, rfl, rfl⟩) ?_ d0 s0 h0 progs (fun _ _ _ => trivial)
  intro l op d s hA hR
  obtain ⟨p, rfl, rfl⟩ := hA
  obtain ⟨d', r, s', he, hf, hR'⟩ := hsingle p d s hR
  rw [he]
  exact ⟨s', hf, hR'⟩

/-! ### refinement, method by method -/

/-- Every atomic step of the model of `sync.Map` + `cache.Cache` is invisible or one atomic transition of the sequential map. -/
theorem step_refines : StepOK impl R A := impl_stepOK

/-- all single-section methods of `Map` at once (`LoadAndDeleteAll`, which also detaches the map object, is part of
    `step_refines`): the effect of the critical section is the specification's transition on the canonical form, and
    unique keys are preserved -/
theorem map_method_refines (op : Op) (m m' : Entries) (r : Res) (s : State) (hs : s.m = canon m)
    (h : mapSection op m = some (m', r)) (hnd : NoDupKeys m) (hne : op ≠ .loadAndDeleteAll) :
    ({ s with m := canon m' }, Outcome.done r) ∈ fires op s ∧ NoDupKeys m' :=
  mapSection_refines op m m' r s hs h hnd hne

theorem store_refines (k : Nat) (v : Val) (m : Entries) : canon (mset k v m) = sput k v (canon m) := canon_mset k v m
theorem delete_refines (k : Nat) (m : Entries) (h : NoDupKeys m) : canon (merase k m) = sdel k (canon m) := canon_merase k m h
theorem load_refines (k : Nat) (m : Entries) : sget k (canon m) = mget k m := sget_canon k m
theorem length_refines (m : Entries) (h : NoDupKeys m) : (canon m).length = m.length := length_canon m h

theorem loadOrStore_refines (k : Nat) (v : Val) (m m' : Entries) (r : Res) (s : State) (hs : s.m = canon m)
    (h : mapSection (.loadOrStore k v) m = some (m', r)) (hnd : NoDupKeys m) :
    ({ s with m := canon m' }, Outcome.done r) ∈ fires (.loadOrStore k v) s :=
  (mapSection_refines _ m m' r s hs h hnd (by simp)).1

theorem replaceWithFunc_refines (k : Nat) (f : RFn) (m m' : Entries) (r : Res) (s : State) (hs : s.m = canon m)
    (h : mapSection (.replaceWithFunc k f) m = some (m', r)) (hnd : NoDupKeys m) :
    ({ s with m := canon m' }, Outcome.done r) ∈ fires (.replaceWithFunc k f) s :=
  (mapSection_refines _ m m' r s hs h hnd (by simp)).1

theorem cacheLoadOrStore_refines (k : Nat) (e : Val) (m : Entries) (s : State) (hs : s.m = canon m) (hnd : NoDupKeys m) :
    ({ s with m := canon (cacheLoadOrStoreSection k e s.now m).1 }, Outcome.done (cacheLoadOrStoreSection k e s.now m).2)
      ∈ fires (.cacheLoadOrStore k e) s :=
  (Lemmas.SyncMap.cacheLoadOrStore_refines k e m s hs hnd).1

theorem cacheLoad_refines (k : Nat) (m : Entries) (s : State) (hs : s.m = canon m) :
    (s, Outcome.done (cacheLoadSection k s.now m)) ∈ fires (.cacheLoad k) s :=
  Lemmas.SyncMap.cacheLoad_refines k m s hs

/-- **The map and the cache are linearizable**: for all programs (any number of threads, any operations of the whole
    API of `Map` and `Cache`, any oracle for Go's iteration order) and all schedules, the history is linearizable with
    respect to the sequential map — `Range` / `CheckExpirations` being specified as sequences of atomic observations /
    removals, and `LoadAndDeleteAll` as detaching the map (Spec/SeqMap.lean). -/
theorem all_linearizable (progs : Nat → List Call) (sched : List Nat) :
    Linearizable init (history impl { data := [], now := 0 } (fun t => .idle (progs t)) sched) :=
  atomic_steps_linearizable impl R A (fun _ => True) (fun c _ => A_start c) impl_stepOK _ init
    ⟨rfl, by simp [NoDupKeys, keys]⟩ progs (fun _ _ _ => trivial) sched

/-! ### store-if-absent -/

/-- Among concurrent `LoadOrStore(k, ·)` calls on an absent key — in every schedule of every program whose other
    operations do not remove or overwrite `k` — exactly one call reports having stored (the first to take effect) and
    all others report `loaded` with exactly that value. -/
theorem loadOrStore_one_winner (k : Nat) (progs : Nat → List Call) (hk : ∀ t, ∀ c ∈ progs t, KeepsKey k c)
    (d0 : MState) (h0 : mget k d0.data = none) (sched : List Nat) :
    let rs := losResults k (history impl d0 (fun t => .idle (progs t)) sched)
    rs = [] ∨ ∃ w rest, rs = Res.stored w false :: rest ∧ ∀ r ∈ rest, r = Res.stored w true :=
  (one_winner_aux k sched d0 _ (fun t => ⟨progs t, rfl, hk t⟩)).2 h0

/-- The same for the cache (`Cache.LoadOrStore`), as a statement about its atomic section: on an absent **or expired**
    key the caller's element is stored and `loaded = false`; on a live entry nothing changes, the caller observes that
    entry and `loaded = true` (unless it passed the very element that is stored). -/
theorem cacheLoadOrStore_one_winner (k : Nat) (e : Val) (now : Nat) (m : Entries) :
    let r := cacheLoadOrStoreSection k e now m
    ((mget k m = none ∨ ∃ o, mget k m = some o ∧ o.expired now = true) →
        r.2 = .stored e false ∧ mget k r.1 = some e) ∧
    (∀ o, mget k m = some o → o.expired now = false →
        r.2 = .stored o (o != e) ∧ mget k r.1 = some o) := by
  intro r
  constructor
  · intro h
    rcases h with h | ⟨o, h, hx⟩
    · simp [r, cacheLoadOrStoreSection, h, mget_mset]
    · simp [r, cacheLoadOrStoreSection, h, hx, mget_mset]
  · intro o h hx
    simp [r, cacheLoadOrStoreSection, h, hx, mget_mset]

/-! ### callbacks -/

/-- what a callback of a `…WithFunc` method was called with, as reported in the result -/
def cbArg : Res → Option (Option Val)
  | .optCb _ a => some a
  | .storedCb _ _ a => some a
  | _ => none

/-- Callbacks run against the value actually in the map: the argument the callback receives is the entry of the key in
    the very critical section in which the method's own read/modify/write happens (`none` = the callback that takes no
    argument — `createFunc` — or no callback ran), and what is written back is computed from that same value. -/
theorem callbacks_see_current_value (m : Entries) (k d : Nat) (v : Val) (f : RFn) :
    mapSection (.loadWithFunc k d) m = some (m, .optCb ((mget k m).map (·.add d)) (mget k m)) ∧
    mapSection (.replaceWithFunc k f) m = some (msetOpt k (applyR f (mget k m)) m, .optCb (mget k m) (mget k m)) ∧
    mapSection (.deleteWithFunc k) m = some (merase k m, .optCb none (mget k m)) ∧
    mapSection (.loadAndDeleteWithFunc k d) m = some (merase k m, .optCb ((mget k m).map (·.add d)) (mget k m)) ∧
    (∀ o, mget k m = some o → mapSection (.loadOrStoreWithFunc k d v) m = some (m, .storedCb (o.add d) true (some o))) ∧
    (mget k m = none → mapSection (.loadOrStoreWithFunc k d v) m = some (mset k v m, .storedCb v false none)) := by
  refine ⟨rfl, rfl, rfl, rfl, ?_, ?_⟩
  · intro o h; simp [mapSection, h]
  · intro h; simp [mapSection, h]

/-- … and it stays that value while the callback runs: whatever the callback of `LoadWithFunc` reads under its key itself is
    what it was called with (`Spec.cbCurrent`, the harness operation `lwfr`): the section leaves the map as it found it and the
    argument is the entry of the key in it. -/
theorem callback_reread_is_argument (m m' : Entries) (k d : Nat) (r : Res) (a : Option Val)
    (h : mapSection (.loadWithFunc k d) m = some (m', r)) (ha : cbArg r = some a) :
    cbCurrent a (mget k m') = true := by
  have e := (callbacks_see_current_value m k d ⟨0, 0⟩ .del).1
  rw [e] at h
  cases h
  simp only [cbArg, Option.some.injEq] at ha
  subst ha
  simp [cbCurrent]

/-! ### the expiry sweep -/

/-- the time a running sweep judges expiry against -/
def sweepTime (l : L) (d : MState) : Option Nat :=
  match l with
  | .sweepStart t _ => some (t.getD d.now)
  | .sweepIter t _ _ _ => some t
  | .sweepExpire t _ _ _ _ _ => some t
  | _ => none

/-- The sweep never removes or replaces an entry that has not expired: whatever step a running `CheckExpirations` takes,
    in whatever state the other threads have left the map, every key keeps its entry unless that entry is expired at
    the sweep's time — and then it is removed, never replaced.  The clock is not touched.

    "The sweep's time" `t` is the `now` **argument** of `CheckExpirations(now)` (`sweepTime`, fixed for the whole call by
    `sweepTime_is_argument`): the value the caller passed (`sweep:<t>` in histories) or, for `sweep`, the clock value read when
    the call starts.  It need not be the clock: with `now` ahead of the clock the sweep removes entries that are not yet
    expired *by the clock* (a `Cache.Load` just before still returns them — see the example below); this is what
    `Element.IsExpired(now)` means and it is linearizable; whether a caller should pass such a time is not a question about
    the cache (`udp/server.getConn` passes `time.Now()+10ms`, noted in docs/notes/C14.md). -/
theorem sweep_only_expired (l : L) (d : MState) (t : Nat) (ht : sweepTime l d = some t) (hnd : NoDupKeys d.data) :
    let d' := (step l d).1
    d'.now = d.now ∧ ∀ k, mget k d'.data = mget k d.data ∨
      (∃ e, mget k d.data = some e ∧ e.expired t = true ∧ mget k d'.data = none) := by
  cases l <;> simp only [sweepTime, reduceCtorEq] at ht
  case sweepStart t0 oracle =>
    cases ha : advance oracle (iterData d d.gen) <;> simp [step, sweepStep, ha]
  case sweepIter t' acc oracle g =>
    cases ha : advance oracle (iterData d g) <;> simp [step, sweepStep, ha]
  case sweepExpire t' k' e acc cs g =>
    simp only [Option.some.injEq] at ht
    subst ht
    simp only [step]
    refine ⟨by first | rfl | trivial, ?_⟩
    intro k
    unfold expireSection
    cases hg : mget k' d.data with
    | none =>
      simp only
      rw [mget_merase _ _ _ hnd]
      by_cases hk : k = k'
      · subst hk; left; simp [hg]
      · left; simp [hk]
    | some o =>
      simp only
      by_cases hx : o = e ∧ o.expired t' = true
      · rw [if_pos hx]
        simp only
        rw [mget_merase _ _ _ hnd]
        by_cases hk : k = k'
        · subst hk
          right
          exact ⟨o, hg, hx.2, by simp⟩
        · left; simp [hk]
      · rw [if_neg hx]
        simp only
        rw [mget_mset]
        by_cases hk : k = k'
        · subst hk; left; simp [hg]
        · left; simp [hk]

/-- The time a sweep judges expiry against is fixed when the call starts — the argument the caller passed, else the clock
    value at the first step — and never changes afterwards, whatever the clock does. -/
theorem sweepTime_is_argument (c : Call) (t0 : Option Nat) (hc : c.op = .sweep t0) (d : MState) :
    sweepTime (start c) d = some (t0.getD d.now) ∧
    ∀ (l : L) (d1 : MState) (t : Nat), sweepTime l d1 = some t →
      ∀ l', (step l d1).2 = .inl l' → ∀ d2 : MState, sweepTime l' d2 = some t := by
  constructor
  · simp [start, hc, sweepTime]
  · intro l d1 t ht l' hl' d2
    cases l <;> simp only [sweepTime, reduceCtorEq, Option.some.injEq] at ht
    case sweepStart t1 oracle =>
      simp only [step, sweepStep] at hl'
      cases ha : advance oracle (iterData d1 d1.gen) with
      | none => simp [ha] at hl'
      | some x =>
        obtain ⟨c', e, cs⟩ := x
        simp only [ha, Sum.inl.injEq] at hl'
        subst hl'
        unfold sweepAfterVisit
        split <;> simp [sweepTime, ht]
    case sweepIter t1 acc oracle g =>
      simp only [step, sweepStep] at hl'
      cases ha : advance oracle (iterData d1 g) with
      | none => simp [ha] at hl'
      | some x =>
        obtain ⟨c', e, cs⟩ := x
        simp only [ha, Sum.inl.injEq] at hl'
        subst hl'
        unfold sweepAfterVisit
        split <;> simp [sweepTime, ht]
    case sweepExpire t1 k e acc cs g =>
      simp only [step, Sum.inl.injEq] at hl'
      subst hl'
      simp [sweepTime, ht]

/-! ### Range -/

/-- What `Range` guarantees although it is not atomic: every step leaves the map alone, and each pair handed to the
    callback is the entry that key has, at the instant of that step, in the map object the iteration runs on — which is the
    shared map itself as long as no `LoadAndDeleteAll` has replaced it since the `Range` began (`g = d.gen`).  Steps
    happen one by one inside the call, in the order of the report.  Nothing is promised about keys inserted or deleted
    by others meanwhile. -/
theorem range_weak_spec (stop : Option Nat) (acc : Entries) (oracle : List Nat) (g : Nat) (d : MState) :
    (step (.range stop acc oracle g) d).1 = d ∧
    (match (step (.range stop acc oracle g) d).2 with
     | .inr r => r = .visits acc
     | .inl (.range stop' acc' _ g') => stop' = stop ∧ g' = g ∧ ∃ c v, acc' = acc ++ [(c, v)] ∧ mget c (iterData d g) = some v
     | .inl (.rangeStop acc') => ∃ c v, acc' = acc ++ [(c, v)] ∧ mget c (iterData d g) = some v
     | .inl _ => False) ∧
    (g = d.gen → iterData d g = d.data) ∧ mapOf (absState d) g = canon (iterData d g) := by
  refine ⟨?_, ?_, fun h => by rw [h]; exact iterData_cur d, mapOf_abs d g⟩
  · simp only [step, rangeStep]
    cases advance oracle (iterData d g) with
    | none => rfl
    | some x => obtain ⟨c, v, cs⟩ := x; simp only; split <;> rfl
  · simp only [step, rangeStep]
    cases ha : advance oracle (iterData d g) with
    | none => rfl
    | some x =>
      obtain ⟨c, v, cs⟩ := x
      have hm := advance_some ha
      simp only
      by_cases hstop : stop = some (acc ++ [(c, v)]).length
      · rw [if_pos hstop]
        exact ⟨c, v, rfl, hm⟩
      · rw [if_neg hstop]
        exact ⟨rfl, rfl, c, v, rfl, hm⟩

/-- running a whole `Range` without interference (sequentially) -/
def rangeAlone : Nat → L → MState → Option Res
  | 0, _, _ => none
  | n + 1, l, d =>
    match step l d with
    | (_, .inr r) => some r
    | (d', .inl l') => rangeAlone n l' d'

/-- … and when nobody interferes, `Range` (here: iterating in the order in which the entries are listed) reports exactly
    the entries of the map, each once. -/
theorem range_sequential_complete (m : Entries) (now : Nat) (h : NoDupKeys m) :
    rangeAlone (m.length + 1) (.rangeStart none (m.map (·.1))) { data := m, now := now } = some (.visits m) := by
  have hit : iterData { data := m, now := now } 0 = m := rfl
  have key : ∀ (t acc : Entries), acc ++ t = m →
      rangeAlone (t.length + 1) (.range none acc (t.map (·.1)) 0) { data := m, now := now } = some (.visits m) := by
    intro t
    induction t with
    | nil =>
      intro acc hacc
      simp only [List.append_nil] at hacc
      simp [rangeAlone, step, rangeStep, advance, hacc]
    | cons e t' ih =>
      intro acc hacc
      obtain ⟨k, v⟩ := e
      have hmem : (k, v) ∈ m := by rw [← hacc]; simp
      have hg := mget_of_mem h hmem
      have hrec := ih (acc ++ [(k, v)]) (by rw [← hacc]; simp)
      have hs : step (.range none acc (k :: t'.map (·.1)) 0) { data := m, now := now }
          = ({ data := m, now := now }, .inl (.range none (acc ++ [(k, v)]) (t'.map (·.1)) 0)) := by
        simp [step, rangeStep, hit, advance, hg]
      simp only [List.length_cons, List.map_cons]
      rw [rangeAlone, hs]
      exact hrec
  have h0 := key m [] rfl
  cases m with
  | nil => simp [rangeAlone, step, rangeStep, advance]
  | cons e t =>
    simp only [List.length_cons, List.map_cons] at h0 ⊢
    rw [rangeAlone] at h0 ⊢
    exact h0

/-! ### The callers use the atomic forms

The theorems above are about the methods of `Map` and `Cache`.  A caller inherits them only if it uses the atomic form: a
store-if-absent wrapper has to be **one** `LoadOrStore` call, and a value that is only valid while it is in the map (a pooled
message: `BlockWise.Do` deletes its entry when it returns and the request then goes back to the pool and is reset) has to be
read **inside the callback of `LoadWithFunc`**, under the map's lock.  The extractor lists every call on a field holding a map or
cache in the client connections, the block-wise layer, the observation table, the limiter and the multicast tables
(Generated/SyncCallSites.lean, regenerated on every run); the obligations are decided over that list. -/

section CallSites
open CoapVerif.Generated.SyncCallSites

/-- the calls a function makes on one field: (method, deferred) in source order -/
def callsOf (fn field : String) : List (String × Bool) :=
  (calls.filter (fun c => c.fn == fn && c.field == field)).map (fun c => (c.method, c.deferred))

/-- what runs under the map's lock in the (first) call of `method` that `fn` makes on `field` -/
def insideOf (fn field method : String) : List String :=
  ((calls.find? (fun c => c.fn == fn && c.field == field && c.method == method)).map (·.inside)).getD []

/-- the one place where a look-up and a later removal in the same function are deliberate: the block-wise receive path works on
    the entry under the entry's own guard (a semaphore inside the value), not under the map's lock -/
def checkThenActExceptions : List (String × String) := [("BlockWise.processReceivedMessage", "receivingMessagesCache")]

/-- no function looks a key up with a plain `Load` and later `Store`s or `Delete`s on the same field (check-then-act in two
    critical sections: a store-if-absent must be one `LoadOrStore`, a removal that wants the value one `LoadAndDelete`) -/
def noCheckThenAct : Bool :=
  calls.all (fun c1 => calls.all (fun c2 =>
    !(c1.file == c2.file && c1.fn == c2.fn && c1.field == c2.field && c1.method == "Load" &&
      (c2.method == "Store" || c2.method == "Delete") && !checkThenActExceptions.contains (c1.fn, c1.field))))

def kindOf (field : String) : String := ((fieldKinds.find? (fun k => k.2.1 == field)).map (·.2.2)).getD "unknown"

/-- look-ups on an expiring cache that deliberately use the embedded plain map's `LoadWithFunc` (which knows nothing about
    expiry): they read a pooled request under the lock; `getSendingMessageCode` tests the expiry itself inside the callback -/
def expiryBlindLookups : List (String × String) :=
  [("BlockWise.getSendingMessageCode", "sendingMessagesCache"), ("BlockWise.continueSendingMessage", "sendingMessagesCache"),
   ("BlockWise.getSentRequest", "sendingMessagesCache")]

/-- `cache.Cache` embeds the plain `Map`; a method of the embedded map called on a cache value bypasses the cache's expiry
    semantics (a store-if-absent through `LoadOrStoreWithFunc` never replaces an expired entry, `Store` overwrites a live
    one).  On a field that is a cache only the cache's own methods are called — `Load`, `LoadOrStore`, `CheckExpirations` —
    and `Delete`, which has nothing to do with expiry; the deliberate exceptions are listed. -/
def cachesUseCacheMethods : Bool :=
  calls.all (fun c => kindOf c.field != "cache" ||
    ["Load", "LoadOrStore", "CheckExpirations", "Delete"].contains c.method ||
    (c.method == "LoadWithFunc" && expiryBlindLookups.contains (c.fn, c.field)))

/-- fields whose values are pooled messages owned by whoever put them there (the owner deletes the entry and then releases the message) -/
def pooledFields : List String := ["sendingMessagesCache", "multicastRequests"]

/-- such values are never handed out of the lock: the only ways these fields are used -/
def pooledReadUnderLock : Bool :=
  calls.all (fun c => !pooledFields.contains c.field ||
    ["LoadWithFunc", "LoadOrStore", "Store", "Delete", "CheckExpirations"].contains c.method)

/-- The callers rely on the atomicity the way it is proved:
* no check-then-act (`Load` … `Store` / `Delete`) on any of the tables; pooled messages are read under the lock only; on the
  expiring caches only the cache's own (expiry-aware) methods are used, with the listed deliberate exceptions;
* an observation is removed from its table by exactly one `LoadAndDelete` (one winner among concurrent `Cancel`s); the block-wise
  reassembly entry is registered by exactly one `Cache.LoadOrStore` (an expired, unswept entry is replaced);
* the datagram connection's response cache: `Store` is exactly one `LoadOrStore`, `Load` one `Load` (the element is an
  immutable byte slice);
* block-wise `Do` registers its request with one `LoadOrStore` and removes it with a deferred `Delete`; `getSentRequest`
  copies the request (acquire, code, token, options, type) and `getSendingMessageCode` reads its code inside `LoadWithFunc`;
* a request's token handler / an observation / a multicast handler is registered with one `LoadOrStore`; the limiter's
  per-path bookkeeping is done inside `LoadOrStoreWithFunc` / `ReplaceWithFunc`. -/
theorem callers_use_atomic_forms :
    noCheckThenAct = true ∧ pooledReadUnderLock = true ∧ cachesUseCacheMethods = true ∧
    fieldKinds.map (fun k => (k.2.1, k.2.2)) =
      [("c", "cache"), ("tokenHandlerContainer", "map"), ("midHandlerContainer", "map"), ("tokenHandlerContainer", "map"),
       ("sendingMessagesCache", "cache"), ("receivingMessagesCache", "cache"), ("observations", "map"), ("endpointQueues", "map"),
       ("multicastHandler", "map"), ("multicastRequests", "map")] ∧
    callsOf "Handler.pullOutObservation" "observations" = [("LoadAndDelete", false)] ∧
    callsOf "BlockWise.getCachedReceivedMessage" "receivingMessagesCache" = [("LoadOrStore", false)] ∧
    callsOf "messageCache.Store" "c" = [("LoadOrStore", false)] ∧
    callsOf "messageCache.Load" "c" = [("Load", false)] ∧
    callsOf "BlockWise.Do" "sendingMessagesCache" = [("LoadOrStore", false), ("Delete", true)] ∧
    callsOf "BlockWise.getSentRequest" "sendingMessagesCache" = [("LoadWithFunc", false)] ∧
    ["AcquireMessage", "SetCode", "Code", "SetToken", "Token", "ResetOptionsTo", "Options", "SetType", "Type"].all
      (insideOf "BlockWise.getSentRequest" "sendingMessagesCache" "LoadWithFunc").contains = true ∧
    callsOf "BlockWise.getSendingMessageCode" "sendingMessagesCache" = [("LoadWithFunc", false)] ∧
    (insideOf "BlockWise.getSendingMessageCode" "sendingMessagesCache" "LoadWithFunc").contains "Code" = true ∧
    callsOf "Handler.NewObservation" "observations" = [("LoadOrStore", false)] ∧
    callsOf "LimitParallelRequests.acquireEndpoint" "endpointQueues" = [("LoadOrStoreWithFunc", false)] ∧
    callsOf "LimitParallelRequests.cancelEndpoint" "endpointQueues" = [("ReplaceWithFunc", false)] ∧
    callsOf "LimitParallelRequests.releaseEndpoint" "endpointQueues" = [("ReplaceWithFunc", false)] := by
  decide

end CallSites

/-! ### the judge -/

/-- The executable judge that the check runs on the histories of the real code accepts only linearizable histories. -/
theorem judge_sound (H : List Ev) (h : judge H = true) : Linearizable init H := Lemmas.SyncMap.judge_sound H h

/-! ### Non-vacuity: concrete programs and schedules -/

/-- two threads race `LoadOrStore` on the absent key 1, a third reads: all 3-step schedules -/
def exProgs : Nat → List Call
  | 0 => [⟨.loadOrStore 1 ⟨5, 0⟩, []⟩]
  | 1 => [⟨.loadOrStore 1 ⟨7, 0⟩, []⟩]
  | 2 => [⟨.load 1, []⟩]
  | _ => []

example : history impl { data := [], now := 0 } (fun t => .idle (exProgs t)) [1, 2, 0] =
    [.call 1 (.loadOrStore 1 ⟨7, 0⟩), .ret 1 (.stored ⟨7, 0⟩ false), .call 2 (.load 1), .ret 2 (.opt (some ⟨7, 0⟩)),
     .call 0 (.loadOrStore 1 ⟨5, 0⟩), .ret 0 (.stored ⟨7, 0⟩ true)] := by decide

example : losResults 1 (history impl { data := [], now := 0 } (fun t => .idle (exProgs t)) [1, 2, 0]) =
    [.stored ⟨7, 0⟩ false, .stored ⟨7, 0⟩ true] := by decide

example : ∀ t, ∀ c ∈ exProgs t, KeepsKey 1 c := by
  intro t c hc
  match t with
  | 0 | 1 | 2 => simp [exProgs] at hc; subst hc; simp [KeepsKey]
  | n + 3 => simp [exProgs] at hc

/-- the F8 scenario on the repaired model: entry 5 (expired at time 10) is seen by the sweep, replaced by the fresh 7 by
    another thread, and the sweep's conditional removal then leaves 7 alone -/
def exSweep : Nat → List Call
  | 0 => [⟨.sweep none, [1]⟩]
  | 1 => [⟨.cacheLoadOrStore 1 ⟨7, 100⟩, []⟩]
  | _ => []

example : finalState impl { data := [(1, ⟨5, 3⟩)], now := 10 } (fun t => .idle (exSweep t)) [0, 1, 0, 0] = { data := [(1, ⟨7, 100⟩)], now := 10 } := by decide
example : finalState impl { data := [(1, ⟨5, 3⟩)], now := 10 } (fun t => .idle (exSweep t)) [0, 0, 0, 1] = { data := [(1, ⟨7, 100⟩)], now := 10 } := by decide
example : sweepTime (.sweepExpire 10 1 ⟨5, 3⟩ [] [] 0) { data := [(1, ⟨5, 3⟩)], now := 10 } = some 10 ∧ (⟨5, 3⟩ : Val).expired 10 = true := by decide

/-- a sweep whose `now` is **ahead of the clock** (clock 10, `CheckExpirations(50)`): entry 5 (valid until 20) is not expired
    by the clock — `Cache.Load` returns it — and is removed by the sweep; the history is linearizable, and the removal is
    what `sweep_only_expired` allows (expired at the sweep's own time 50) -/
def exAhead : Nat → List Call
  | 0 => [⟨.cacheLoad 1, []⟩, ⟨.sweep (some 50), [1]⟩, ⟨.cacheLoad 1, []⟩]
  | _ => []

example : history impl { data := [(1, ⟨5, 20⟩)], now := 10 } (fun t => .idle (exAhead t)) [0, 0, 0, 0, 0] =
    [.call 0 (.cacheLoad 1), .ret 0 (.opt (some ⟨5, 20⟩)), .call 0 (.sweep (some 50)), .ret 0 .unit,
     .call 0 (.cacheLoad 1), .ret 0 (.opt none)] := by decide
example : (⟨5, 20⟩ : Val).expired 10 = false ∧ (⟨5, 20⟩ : Val).expired 50 = true := by decide

/-- a sweep whose `now` is **behind the clock** (clock 30, `CheckExpirations(15)`): entry 5 (valid until 20) is expired by the
    clock (`Cache.Load` hides it) but not at the sweep's time, so the sweep leaves it in the map -/
def exBehind : Nat → List Call
  | 0 => [⟨.sweep (some 15), [1]⟩, ⟨.cacheLoad 1, []⟩, ⟨.load 1, []⟩]
  | _ => []

example : history impl { data := [(1, ⟨5, 20⟩)], now := 30 } (fun t => .idle (exBehind t)) [0, 0, 0, 0] =
    [.call 0 (.sweep (some 15)), .ret 0 .unit, .call 0 (.cacheLoad 1), .ret 0 (.opt none),
     .call 0 (.load 1), .ret 0 (.opt (some ⟨5, 20⟩))] := by decide

/-- a history that is NOT linearizable (both racing calls report "stored") is rejected by the judge, the repaired one accepted -/
example : judge [.call 0 (.loadOrStore 1 ⟨5, 0⟩), .call 1 (.loadOrStore 1 ⟨7, 0⟩), .ret 0 (.stored ⟨5, 0⟩ false),
    .ret 1 (.stored ⟨7, 0⟩ false)] = false := by decide
example : judge [.call 0 (.loadOrStore 1 ⟨5, 0⟩), .call 1 (.loadOrStore 1 ⟨7, 0⟩), .ret 0 (.stored ⟨5, 0⟩ false),
    .ret 1 (.stored ⟨5, 0⟩ true)] = true := by decide

end CoapVerif.Props.C14

section Audit
open CoapVerif.Props.C14
#print axioms shape_agrees
#print axioms no_access_outside_lock
#print axioms one_locked_section
#print axioms atomic_steps_linearizable
#print axioms single_section_linearizable
#print axioms step_refines
#print axioms map_method_refines
#print axioms store_refines
#print axioms delete_refines
#print axioms load_refines
#print axioms length_refines
#print axioms loadOrStore_refines
#print axioms replaceWithFunc_refines
#print axioms cacheLoadOrStore_refines
#print axioms cacheLoad_refines
#print axioms all_linearizable
#print axioms loadOrStore_one_winner
#print axioms cacheLoadOrStore_one_winner
#print axioms callbacks_see_current_value
#print axioms callback_reread_is_argument
#print axioms sweep_only_expired
#print axioms sweepTime_is_argument
#print axioms range_weak_spec
#print axioms range_sequential_complete
#print axioms callers_use_atomic_forms
#print axioms judge_sound
end Audit
