import CoapVerif.Props.C14
/-!
# C14 — what `CopyData` returns is the table at ONE instant, however big the table is

Statement (properties.jsonl): Under every interleaving of concurrent calls, the shared map and the expiring cache behave like a
sequential map in which each operation takes effect atomically at some instant between its call and its return. …

For `CopyData` "takes effect atomically at some instant" says: the map it returns is the content the table had at one instant
between call and return — for a table of three entries and for one of three thousand.  Nothing in the model or the
specification bounds the size of the table (`Entries` is a list), so the theorems of Props/C14.lean cover big tables already;
this file states the consequence for the copy on its own, and what a copy taken in PIECES (the read lock released and taken
again between two pieces, writers running in the gap) can return that no instant explains:

* `copyData_is_one_snapshot` – the one read-locked section of `CopyData` (`one_locked_section`, `shape_agrees`) returns the
  canonical listing of the table as it is in that section, leaves it unchanged, and that is the one transition of the
  sequential map (`copy_has_one_transition`: the specification gives a copy no intermediate steps);
* `fill_get`, `fill_length`, `fill_nodup` – the bulk operation `fill:<n>:<base>:<v>` of the harness (n `Store`s) builds a table
  of exactly n more entries: the programs of checks/c14.py reach 1024, 1025, 2048, 2049 … 8193 entries with it;
* `torn_listing_matches_no_instant` – a listing that shows the table WITHOUT an earlier store of a writer but WITH a later
  one is the content at none of the instants of that writer's run; `copyOfAB_torn` is the instance the real code is held to.

The real code is held to this by the programs of section 4c of checks/c14.py on tables of 1024 / 1025 / 2048 / 2049 entries:
under the cooperative scheduler every re-acquisition of the lock is a scheduling point, so a copy taken in pieces lets the
writer run between two pieces.  Seeded change C14-W (more than 1024 entries: copied 1024 at a time) is what this rejects:
`c9:fill:2045:1000:0 … c0:copy c1:store:1:11 r1:- c1:store:2:12 r1:- … r0:d=[1=5,2=12,…]`.
-/
namespace CoapVerif.Props.C14Copy
open CoapVerif.Spec.SeqMap CoapVerif.Model.SyncMap CoapVerif.Model.Cache CoapVerif.Model.SyncSystem CoapVerif.Props.C14
open CoapVerif.Lemmas.SyncMap

/-- The specification gives `CopyData` exactly one transition: it returns the whole content and changes nothing.  There are no
    intermediate steps (nothing like the observations of a `Range`), whatever the size of the table. -/
theorem copy_has_one_transition (s : State) : fires .copyData s = [(s, .done (.dump s.m))] := rfl

/-- The model's `CopyData` is one read-locked section (that this is the shape of the source is `shape_agrees`, that it is the
    only section `one_locked_section`); it returns the canonical listing of the table of that moment and leaves the table
    alone, and this is the specification's transition — for EVERY table `m`, no bound on `m.length`. -/
theorem copyData_is_one_snapshot (m : Entries) (s : State) (hs : s.m = canon m) (hnd : NoDupKeys m) :
    mapSection .copyData m = some (m, .dump (canon m)) ∧
    (s, Outcome.done (.dump (canon m))) ∈ fires .copyData s ∧ (canon m).length = m.length := by
  refine ⟨rfl, ?_, length_canon m hnd⟩
  rw [copy_has_one_transition, hs]
  exact List.mem_singleton.2 rfl

/-! ### the bulk operation of the harness: `fill:<n>:<base>:<v>` = `Store(base, v) … Store(base+n-1, v)` -/

def fill : Nat → Nat → Val → Entries → Entries
  | 0, _, _, m => m
  | n + 1, base, v, m => fill n (base + 1) v (mset base v m)

theorem fill_get (n base : Nat) (v : Val) (m : Entries) (k : Nat) :
    mget k (fill n base v m) = if base ≤ k ∧ k < base + n then some v else mget k m := by
  induction n generalizing base m with
  | zero =>
    simp only [fill, Nat.add_zero]
    have : ¬ (base ≤ k ∧ k < base) := by omega
    rw [if_neg this]
  | succ n ih =>
    rw [fill, ih, mget_mset]
    by_cases h1 : base + 1 ≤ k ∧ k < base + 1 + n
    · have h2 : base ≤ k ∧ k < base + (n + 1) := by omega
      simp [h1, h2]
    · by_cases h3 : k = base
      · have h2 : base ≤ k ∧ k < base + (n + 1) := by omega
        rw [if_neg h1, if_pos h3, if_pos h2]
      · have h2 : ¬ (base ≤ k ∧ k < base + (n + 1)) := by omega
        simp [h1, h2, h3]

theorem fill_nodup (n base : Nat) (v : Val) (m : Entries) (h : NoDupKeys m) : NoDupKeys (fill n base v m) := by
  induction n generalizing base m with
  | zero => exact h
  | succ n ih => rw [fill]; exact ih _ _ (NoDupKeys_mset h)

theorem length_mset_absent (k : Nat) (v : Val) (m : Entries) (h : mget k m = none) : (mset k v m).length = m.length + 1 := by
  induction m with
  | nil => simp [mset]
  | cons e t ih =>
    obtain ⟨k', v'⟩ := e
    by_cases hk : k' = k
    · simp [mget, hk] at h
    · simp only [mget, hk, if_false] at h
      simp [mset, hk, ih h]

/-- `fill` over keys that are not in the table yet adds exactly `n` entries: a table of 3 entries filled with 2045 has 2048. -/
theorem fill_length (n base : Nat) (v : Val) (m : Entries) (h : ∀ k, base ≤ k → k < base + n → mget k m = none) :
    (fill n base v m).length = m.length + n := by
  induction n generalizing base m with
  | zero => simp [fill]
  | succ n ih =>
    rw [fill, ih]
    · rw [length_mset_absent base v m (h base (by omega) (by omega))]; omega
    · intro k h1 h2
      rw [mget_mset]
      have : k ≠ base := by omega
      simp [this]
      exact h k (by omega) (by omega)

/-- the tables of the generated programs: three entries of the writer's, then `fill` up to the size -/
example : (fill 2045 1000 ⟨0, 0⟩ [(1, ⟨5, 0⟩), (2, ⟨6, 0⟩), (3, ⟨7, 0⟩)]).length = 2048 := by
  refine (fill_length 2045 1000 _ _ ?_).trans rfl
  intro k h1 h2
  have e1 : (1 = k) = False := by simp; omega
  have e2 : (2 = k) = False := by simp; omega
  have e3 : (3 = k) = False := by simp; omega
  simp [mget, e1, e2, e3]

/-! ### a copy that is not one instant -/

/-- A writer stores `va` under `a`, then `vb` under `b` (both new values).  The table goes through three contents: `m0`,
    `mset a va m0`, `mset b vb (mset a va m0)`.  A listing `L` that shows `a` as it was BEFORE the first store and `b` as it is
    AFTER the second one is none of the three: no instant between the copy's call and its return explains it. -/
theorem torn_listing_matches_no_instant (L m0 : Entries) (a b : Nat) (va vb : Val) (hab : a ≠ b)
    (ha : mget a m0 ≠ some va) (hb : mget b m0 ≠ some vb)
    (hLa : sget a L = mget a m0) (hLb : sget b L = some vb) :
    L ≠ canon m0 ∧ L ≠ canon (mset a va m0) ∧ L ≠ canon (mset b vb (mset a va m0)) := by
  refine ⟨?_, ?_, ?_⟩
  · intro h
    rw [h, sget_canon] at hLb
    exact hb hLb
  · intro h
    rw [h, sget_canon, mget_mset] at hLb
    have : ¬ b = a := fun e => hab e.symm
    simp [this] at hLb
    exact hb hLb
  · intro h
    rw [h, sget_canon, mget_mset, mget_mset] at hLa
    simp [hab] at hLa
    exact ha hLa.symm

/-- non-vacuity: the table `[1=5, 2=6]`, the writer stores 11 under 1 and 12 under 2, the copy returns `[1=5, 2=12]` -/
theorem copyOfAB_torn :
    let m0 : Entries := [(1, ⟨5, 0⟩), (2, ⟨6, 0⟩)]
    let L : Entries := [(1, ⟨5, 0⟩), (2, ⟨12, 0⟩)]
    L ≠ canon m0 ∧ L ≠ canon (mset 1 ⟨11, 0⟩ m0) ∧ L ≠ canon (mset 2 ⟨12, 0⟩ (mset 1 ⟨11, 0⟩ m0)) := by decide

/-- what the judge rejects (the shape observed under seeded C14-W, on a table small enough to be written out): the copy overlaps
    both stores and returns the second one's effect without the first one's … -/
example : judge [.call 9 (.store 1 ⟨5, 0⟩), .ret 9 .unit, .call 9 (.store 2 ⟨6, 0⟩), .ret 9 .unit,
    .call 0 .copyData, .call 1 (.store 1 ⟨11, 0⟩), .ret 1 .unit, .call 1 (.store 2 ⟨12, 0⟩), .ret 1 .unit,
    .ret 0 (.dump [(1, ⟨5, 0⟩), (2, ⟨12, 0⟩)])] = false := by decide
/-- … while each of the three contents the table went through is accepted -/
example : judge [.call 9 (.store 1 ⟨5, 0⟩), .ret 9 .unit, .call 9 (.store 2 ⟨6, 0⟩), .ret 9 .unit,
    .call 0 .copyData, .call 1 (.store 1 ⟨11, 0⟩), .ret 1 .unit, .call 1 (.store 2 ⟨12, 0⟩), .ret 1 .unit,
    .ret 0 (.dump [(1, ⟨11, 0⟩), (2, ⟨6, 0⟩)])] = true := by decide
example : judge [.call 9 (.store 1 ⟨5, 0⟩), .ret 9 .unit, .call 9 (.store 2 ⟨6, 0⟩), .ret 9 .unit,
    .call 0 .copyData, .call 1 (.store 1 ⟨11, 0⟩), .ret 1 .unit, .call 1 (.store 2 ⟨12, 0⟩), .ret 1 .unit,
    .ret 0 (.dump [(1, ⟨5, 0⟩), (2, ⟨6, 0⟩)])] = true := by decide
/-- the one section on a table kept in another order than the listing -/
example : mapSection .copyData [(2, ⟨6, 0⟩), (1, ⟨5, 0⟩)] = some ([(2, ⟨6, 0⟩), (1, ⟨5, 0⟩)], .dump [(1, ⟨5, 0⟩), (2, ⟨6, 0⟩)]) := by decide

end CoapVerif.Props.C14Copy

section Audit
open CoapVerif.Props.C14Copy
#print axioms copy_has_one_transition
#print axioms copyData_is_one_snapshot
#print axioms fill_get
#print axioms fill_nodup
#print axioms length_mset_absent
#print axioms fill_length
#print axioms torn_listing_matches_no_instant
#print axioms copyOfAB_torn
end Audit
