import CoapVerif.Props.C14
/-!
# C14 — the `onLoad` callback of `LoadOrStoreWithFunc` runs on the element that is currently in the map

Statement (properties.jsonl): … callbacks run against the value actually in the map …

`LoadOrStoreWithFunc` runs its callbacks under the WRITE lock.  With values that are plain data a callback applied to a stale
VALUE is invisible in any history (every history is linearizable: the result only has to be explained by SOME instant between
call and return).  What a user such as the parallel-request limiter relies on is stronger and is a statement about the moment
the callback runs: its argument IS the element stored under the key at that moment (the limiter keeps per-path counters in the
element; a callback that runs on an element which is no longer in the map counts on an orphan — seeded change C16-U).

On the real code this is the harness operation `loswfr` (kind `mapcb`): the callback records its argument and, through the
overlay-only `VerifPeek`, the element in the map while it runs; the judge clause is `Spec.cbCurrent` (verdict
`violates callbacks-see-current-value`).  On the model the two are equal in every state, hence for every schedule:
-/
namespace CoapVerif.Props.C14Current
open CoapVerif.Spec.SeqMap CoapVerif.Model.SyncMap CoapVerif.Model.Cache CoapVerif.Model.SyncSystem CoapVerif.Props.C14

/-- The critical section of `LoadOrStoreWithFunc`: when the `onLoad` callback runs (it reports its argument `a`), `a` is the
    entry of the key in the map the section runs on, and the section leaves the map as it is — what the callback would read
    under its key while it runs (`m`), and right after it (`m'`), is its argument. -/
theorem onload_callback_runs_on_current_element (m m' : Entries) (k d : Nat) (v : Val) (r : Res) (a : Val)
    (h : mapSection (.loadOrStoreWithFunc k d v) m = some (m', r)) (ha : cbArg r = some (some a)) :
    cbCurrent (some a) (mget k m) = true ∧ cbCurrent (some a) (mget k m') = true ∧ m' = m := by
  cases hk : mget k m with
  | none =>
    simp only [mapSection, hk, Option.some.injEq, Prod.mk.injEq] at h
    obtain ⟨_, hr⟩ := h
    subst hr
    simp [cbArg] at ha
  | some o =>
    simp only [mapSection, hk, Option.some.injEq, Prod.mk.injEq] at h
    obtain ⟨hm, hr⟩ := h
    subst hr hm
    simp only [cbArg, Option.some.injEq] at ha
    subst ha
    simp [cbCurrent, hk]

/-- … for every schedule: in whatever state `s` the other threads have left the object (any program, any schedule so far), a
    thread whose next call is `LoadOrStoreWithFunc` completes it in ONE scheduled step, and if its callback ran, the callback's
    argument is the entry of the key in that very state and the map is unchanged by the step. -/
theorem loswf_every_schedule (s : MState) (ths : Nat → TSt Call L) (t k d : Nat) (v : Val) (orc : List Nat) (rest : List Call)
    (ht : ths t = .idle (⟨.loadOrStoreWithFunc k d v, orc⟩ :: rest)) :
    ∃ r, (sched1 impl s ths t).2.2 = [.call t (.loadOrStoreWithFunc k d v), .ret t r] ∧
      ∀ a, cbArg r = some (some a) → mget k s.data = some a ∧ (sched1 impl s ths t).1.data = s.data := by
  cases hk : mget k s.data with
  | none =>
    refine ⟨.storedCb v false none, ?_, ?_⟩
    · simp [sched1, ht, impl, start, step, view, mapSection, hk]
    · intro a ha; simp [cbArg] at ha
  | some o =>
    refine ⟨.storedCb (o.add d) true (some o), ?_, ?_⟩
    · simp [sched1, ht, impl, start, step, view, mapSection, hk]
    · intro a ha
      simp only [cbArg, Option.some.injEq] at ha
      subst ha
      simp [sched1, ht, impl, start, step, mapSection, hk]

/-- non-vacuity: key 1 holds 5; the callback is called with 5, which is what the map holds -/
example : mapSection (.loadOrStoreWithFunc 1 100 ⟨9, 0⟩) [(1, ⟨5, 0⟩)] = some ([(1, ⟨5, 0⟩)], .storedCb ⟨105, 0⟩ true (some ⟨5, 0⟩)) ∧
    cbCurrent (some ⟨5, 0⟩) (mget 1 [(1, ⟨5, 0⟩)]) = true := by decide

/-- what the judge rejects (observed under seeded C16-U: `r0:a=105/true/cb=5/now=nil` — the entry was deleted between the
    look-up and the callback) -/
example : cbCurrent (some ⟨5, 0⟩) none = false := by decide

end CoapVerif.Props.C14Current

section Audit
open CoapVerif.Props.C14Current
#print axioms onload_callback_runs_on_current_element
#print axioms loswf_every_schedule
end Audit
