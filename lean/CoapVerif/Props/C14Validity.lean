import CoapVerif.Props.C14
/-!
# C14 — an element is live up to its validity, however far away that validity is

Statement (properties.jsonl): … among concurrent store-if-absent calls on an absent (or expired) key exactly one reports having
stored and all others observe that value … and the expiry sweep never removes or replaces an entry that has not expired.

"Expired" is a comparison of two instants, `now.After(validUntil)`.  The validity is a `time.Time` that callers choose freely:
`BlockWise.Do` passes the deadline of the request's context, `handleSendingMessage` / `getValidUntil` the same or
`now + timeout`; `time.Now().Add(math.MaxInt64)` ("practically never") is an ordinary value of that type and lies in the year
2292+, beyond 2262-04-11T23:47:16Z where a count of nanoseconds since 1970 stops fitting 64 bits.  The model keeps the validity
as an unbounded natural number (`Val.vu`, seconds after the origin of the harness' clock), so the theorems below hold for EVERY
validity: an entry whose validity has not passed is found by `Cache.Load`, wins `Cache.LoadOrStore` (the caller observes it and
`loaded` is true) and survives every step of every sweep whose `now` has not passed it — no bound on `vu`, in particular not
2^63 nanoseconds.  The real code is held to the same on validities 8276687236 / 8276687237 (the last second inside / the first
beyond int64 Unix nanoseconds, counted from the clock origin 2000-01-01 of testing/synctest), 8300000000 (2263) and 9223372036
(clock + math.MaxInt64 ns) by the generated programs of checks/c14.py (section 3b, the cache templates, `bwrecv`, the stress rounds).
Seeded change C14-V (validity kept as int64 Unix nanoseconds: such an instant wraps into the 17th century) is what this rejects:
`c9:store:1:5@9223372036 r9:- … c0:cload:1 r0:v=nil`.
-/
namespace CoapVerif.Props.C14Validity
open CoapVerif.Spec.SeqMap CoapVerif.Model.SyncMap CoapVerif.Model.Cache CoapVerif.Model.SyncSystem CoapVerif.Props.C14
open CoapVerif.Lemmas.SyncMap

/-- `Element.IsExpired(now)` is exactly "a validity is set and `now` is later": nothing else about the magnitude of either
    instant enters. -/
theorem expired_iff (v : Val) (now : Nat) : v.expired now = true ↔ v.vu ≠ 0 ∧ v.vu < now := by
  simp [Val.expired]

/-- … so an element is live at every instant up to and including its validity, whatever the validity is. -/
theorem live_until_validity (v : Val) (now : Nat) (h : now ≤ v.vu) : v.expired now = false := by
  cases hx : v.expired now with
  | false => rfl
  | true => have := (expired_iff v now).1 hx; omega

/-- `Cache.Load` finds an entry whose validity has not passed. -/
theorem live_entry_is_found (k : Nat) (o : Val) (now : Nat) (m : Entries) (hk : mget k m = some o) (h : now ≤ o.vu) :
    cacheLoadSection k now m = .opt (some o) := by
  simp [cacheLoadSection, hk, live_until_validity o now h]

/-- `Cache.LoadOrStore` on a key whose entry has not passed its validity: the entry stays, the caller observes it, and
    `loaded` is true for every caller that offered another element — no second "stored". -/
theorem live_entry_wins (k : Nat) (o e : Val) (now : Nat) (m : Entries) (hk : mget k m = some o) (h : now ≤ o.vu) :
    (cacheLoadOrStoreSection k e now m).2 = .stored o (o != e) ∧ mget k (cacheLoadOrStoreSection k e now m).1 = some o :=
  (cacheLoadOrStore_one_winner k e now m).2 o hk (live_until_validity o now h)

/-- The sweep: whatever step a running `CheckExpirations(now)` takes, in whatever state the other threads have left the map,
    an entry whose validity `now` has not passed is still there afterwards, unchanged. -/
theorem live_entry_survives_sweep (l : L) (d : MState) (t : Nat) (ht : sweepTime l d = some t) (hnd : NoDupKeys d.data)
    (k : Nat) (o : Val) (hk : mget k d.data = some o) (h : t ≤ o.vu) : mget k (step l d).1.data = some o := by
  have hs := (sweep_only_expired l d t ht hnd).2 k
  rcases hs with hs | ⟨e, he, hx, _⟩
  · rw [hs, hk]
  · rw [hk] at he
    cases he
    rw [live_until_validity o t h] at hx
    cases hx

/-- … and the write-locked section of the sweep itself reports "not removed" for it (its `onExpire` does not run). -/
theorem live_entry_not_handed_to_onExpire (k : Nat) (o e : Val) (t : Nat) (m : Entries) (hk : mget k m = some o) (h : t ≤ o.vu) :
    (expireSection k e t m).2 = false ∧ mget k (expireSection k e t m).1 = some o := by
  have hx := live_until_validity o t h
  simp [expireSection, hk, hx, mget_mset]

/-! non-vacuity, at the values the generated programs use: clock + math.MaxInt64 ns (9223372036 s) and the first second beyond
    int64 Unix nanoseconds (8276687237 s after 2000-01-01) -/
example : cacheLoadSection 1 10 [(1, ⟨5, 9223372036⟩)] = .opt (some ⟨5, 9223372036⟩) := by decide
example : cacheLoadOrStoreSection 1 ⟨6, 110⟩ 10 [(1, ⟨5, 8276687237⟩)] = ([(1, ⟨5, 8276687237⟩)], .stored ⟨5, 8276687237⟩ true) := by decide
example : expireSection 1 ⟨5, 9223372036⟩ 9000000000 [(1, ⟨5, 9223372036⟩)] = ([(1, ⟨5, 9223372036⟩)], false) := by decide
/-- a sweep whose `now` is later still does remove it (the hypothesis `t ≤ o.vu` is needed) -/
example : expireSection 1 ⟨5, 8300000000⟩ 9000000000 [(1, ⟨5, 8300000000⟩)] = ([], true) := by decide
/-- what the judge rejects (observed under seeded C14-V): the live entry is not found -/
example : judge [.call 9 (.store 1 ⟨5, 9223372036⟩), .ret 9 .unit, .call 0 (.cacheLoad 1), .ret 0 (.opt none)] = false := by decide
example : judge [.call 9 (.store 1 ⟨5, 9223372036⟩), .ret 9 .unit, .call 0 (.cacheLoad 1), .ret 0 (.opt (some ⟨5, 9223372036⟩))] = true := by decide

end CoapVerif.Props.C14Validity

section Audit
open CoapVerif.Props.C14Validity
#print axioms expired_iff
#print axioms live_until_validity
#print axioms live_entry_is_found
#print axioms live_entry_wins
#print axioms live_entry_survives_sweep
#print axioms live_entry_not_handed_to_onExpire
end Audit
