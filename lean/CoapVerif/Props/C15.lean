import CoapVerif.Go.Basic
import CoapVerif.Model.PoolOptions
import CoapVerif.Spec.SortedMultiset
import CoapVerif.Lemmas.SortedMultiset
import CoapVerif.Lemmas.OptionsModel
import CoapVerif.Lemmas.OptionValuesModel
import CoapVerif.Lemmas.PoolOptionsModel
import CoapVerif.Lemmas.OptionGlueModel
/-!
# C15 — Option list and message builder behave like a sorted multiset model

Statement (properties.jsonl): Any sequence of option-editing operations (set, add, remove,
set-path/location-path, typed setters, reset-to, clone, message reset and reuse) leaves the option list equal to
what a simple reference list predicts: ascending by option number, insertion order kept among repeated options,
values byte-exact and unaffected by later edits or internal buffer growth. All query operations (find, has, single
and multi-value getters, path, queries, content format) answer consistently with that model and never crash, and
splitting a path into segments then joining it back returns the normalised path (one leading slash, empty segments
dropped) for every path whose segments are at most 255 bytes, longer segments being refused.

Objects.  `Model/Options.lean`: `message.Options` as a slice header `(arr, len)` over a backing array with in-place
writes, `append` reallocating exactly when `len = cap` (any growth policy `g`), checked indexing in `Except Panic`.
`Model/OptionValues.lean`: option values are *views* into a heap of byte buffers, the editing functions take a
destination buffer.  `Model/PoolOptions.lean`: the pooled message's value buffer with its cursor and growth.
`Spec/SortedMultiset.lean`: the reference list (stable insertion `ins`, `remove`, `set`, `values`, `segments`,
`join`).  `o.toList` is what a reader of the slice sees; `items m o` is the list of `(number, bytes)`.

All theorems hold for every list length, every capacity, every growth policy, every buffer; nothing is sampled.
The invariants that make the statements true — `WF` (len ≤ cap), `Sorted`, `Live` (stored values lie inside their
buffers and outside the unused part of the value buffer) — are themselves proved to be preserved by every operation.
-/
namespace CoapVerif.Props.C15
open CoapVerif.Model.Options CoapVerif.Spec.SortedMultiset
open CoapVerif.Lemmas.SortedMultiset CoapVerif.Lemmas.OptionsModel CoapVerif.Lemmas.OptionValuesModel
open CoapVerif.Lemmas.PoolOptionsModel CoapVerif.Lemmas.OptionGlueModel

variable {α : Type}

/-! ## 0. the shape of the source the theorems are about

The models branch on structural facts that the extractor reads from the AST of `message/options.go` on every run
(`Generated/OptionListShape.lean`): the comparison operator of the range loops of the multi getters and of `path`,
whether `setPath` validates before it removes, whether `ResetOptionsTo` checks the size before it overwrites.  The
theorems below are proved for the shapes stated here; if the source changes shape this theorem (and every proof that
unfolds one of the facts) stops checking, while the model keeps following the source. -/
theorem shape_agrees :
    CoapVerif.Generated.OptionListShape.getUint32sLoopStrict = true ∧
    CoapVerif.Generated.OptionListShape.getStringsLoopStrict = true ∧
    CoapVerif.Generated.OptionListShape.getBytessLoopStrict = true ∧
    CoapVerif.Generated.OptionListShape.pathLoopsStrict = true ∧
    CoapVerif.Generated.OptionListShape.setPathValidatesBeforeRemove = true ∧
    CoapVerif.Generated.OptionListShape.resetChecksSizeBeforeOverwrite = true := by decide

/-- … and of the library's own users of the list (`Model/OptionGlue.lean`): `NewObservation` keeps a `.Clone()` of the
request's options; `ResponseWriter.SetResponse` calls `ResetOptionsTo(opts)` unconditionally; `Client.NewObserveRequest`
puts the Observe option on the built request with `SetObserve`. -/
theorem shape_agrees_glue :
    CoapVerif.Generated.OptionListShape.observationClonesOptions = true ∧
    CoapVerif.Generated.OptionListShape.setResponseAlwaysResets = true ∧
    CoapVerif.Generated.OptionListShape.newObserveRequestSetsObserve = true := by decide

/-! ## 1. binary search (`findPosition`, `Find`) -/

/-- Termination measure + bounds invariant: on *every* list (sorted or not) within its capacity the search loop
ends within its `2·len + 2` iterations and no index is out of range. -/
theorem findPosition_total {o : Options α} (hwf : WF o) (id : Nat) : ∃ r, o.findPosition id = .ok r :=
  Lemmas.OptionsModel.findPosition_total hwf id

/-- `findPosition_spec` (loop invariant of DESIGN appendix B2): on a sorted list the result is the open interval
around the options with that number: `(last index with a smaller number, first index with a larger number)`, with
Go's encodings `-1` for "none before" / "none after" and `(-1, 0)` for the empty list. -/
theorem findPosition_spec {o : Options α} (hwf : WF o) (hs : Sorted o.toList) (id : Nat) :
    o.findPosition id = .ok ((lt id o.toList : Int) - 1,
      if o.len = 0 then 0 else if le id o.toList = o.len then -1 else (le id o.toList : Int)) :=
  Lemmas.OptionsModel.findPosition_spec hwf hs id

/-- What `lt` and `le` are: on a sorted list the options with a smaller number are exactly the first `lt`, those
with a number not larger exactly the first `le`. -/
theorem lt_le_characterisation {β : Type} {l : List (Nat × β)} (hs : Sorted l) (id i : Nat) (h : i < l.length) :
    (l[i].1 < id ↔ i < lt id l) ∧ (l[i].1 ≤ id ↔ i < le id l) :=
  ⟨lt_iff hs id i h, le_iff hs id i h⟩

/-- `find_spec`: `Find` returns the index range of the specification, or `ErrOptionNotFound` when it is empty. -/
theorem find_spec {o : Options α} (hwf : WF o) (hs : Sorted o.toList) (id : Nat) :
    o.find id = .ok ((findRange id o.toList).map (fun r => ((r.1 : Int), (r.2 : Int)))) := by
  rw [Lemmas.OptionsModel.find_spec hwf hs id]
  have hv := values_length id hs
  have hll := lt_le_le id o.toList
  unfold findRange
  by_cases c : lt id o.toList = le id o.toList
  · have : (values id o.toList).length = 0 := by omega
    simp [c, this]
  · have h0 : ¬ ((values id o.toList).length = 0) := by omega
    simp only [c, h0, if_false, Option.map_some]
    -- the first index carrying the number is `lt`
    have hfirst : o.toList.findIdx (fun y => y.1 == id) = lt id o.toList := by
      have hlen : le id o.toList ≤ o.toList.length := le_le_length id o.toList
      rw [List.findIdx_eq (by omega)]
      refine ⟨?_, ?_⟩
      · have h1 := (lt_iff hs id (lt id o.toList) (by omega))
        have h2 := (le_iff hs id (lt id o.toList) (by omega))
        simp only [beq_iff_eq]
        have h3 : ¬ (o.toList[lt id o.toList].1 < id) := fun h => by have := h1.mp h; omega
        have h4 := h2.mpr (by omega)
        omega
      · intro j hj
        have h1 := (lt_iff hs id j (by omega))
        simp only [beq_eq_false_iff_ne, ne_eq]; omega
    rw [hfirst, hv]
    congr 3; omega

/-! ## 2. `Set`, `Add`, `Remove` refine the reference list; sortedness is preserved -/

/-- `add_refines`: for every capacity and growth policy, `Add` succeeds and the new slice reads as the stable
insertion into the old one. -/
theorem add_refines [Inhabited α] (g : Nat → Nat) {o : Options α} (hwf : WF o) (hs : Sorted o.toList) (x : Opt α) :
    ∃ o', o.add g x = .ok o' ∧ WF o' ∧ o'.toList = ins x o.toList := by
  obtain ⟨o', h1, h2, _, h4⟩ := add_spec g hwf hs x
  exact ⟨o', h1, h2, by rw [h4, ins_eq x hs]⟩

/-- `set_refines` -/
theorem set_refines [Inhabited α] (g : Nat → Nat) {o : Options α} (hwf : WF o) (hs : Sorted o.toList) (x : Opt α) :
    ∃ o', o.set g x = .ok o' ∧ WF o' ∧ o'.toList = Spec.SortedMultiset.set x o.toList := by
  obtain ⟨o', h1, h2, _, h4⟩ := set_spec g hwf hs x
  exact ⟨o', h1, h2, by rw [h4, set_eq x hs]⟩

/-- `remove_refines`; `Remove` works in place (same backing array length). -/
theorem remove_refines {o : Options α} (hwf : WF o) (hs : Sorted o.toList) (id : Nat) :
    ∃ o', o.remove id = .ok o' ∧ WF o' ∧ o'.arr.length = o.arr.length ∧ o'.toList = remove id o.toList := by
  obtain ⟨o', h1, h2, h3, _, h5⟩ := remove_spec hwf hs id
  exact ⟨o', h1, h2, h3, by rw [h5, remove_eq id hs]⟩

/-- `sorted_preserved`: the reference operations keep the list ascending (hence, by the three refinement theorems,
so do `Set`, `Add`, `Remove`), and `ResetOptionsTo` of arbitrary — also unsorted — input produces a sorted list. -/
theorem sorted_preserved {β : Type} (x : Nat × β) (id : Nat) (inp : List (Nat × β)) {l : List (Nat × β)} (hs : Sorted l) :
    Sorted (ins x l) ∧ Sorted (Spec.SortedMultiset.set x l) ∧ Sorted (remove id l) ∧ Sorted (resetTo inp) :=
  ⟨ins_sorted x hs, set_sorted x hs, remove_sorted id hs, resetTo_sorted inp⟩

theorem sorted_preserved_model [Inhabited α] (g : Nat → Nat) {o o' : Options α} (hwf : WF o) (hs : Sorted o.toList)
    (x : Opt α) (id : Nat) (h : o.add g x = .ok o' ∨ o.set g x = .ok o' ∨ o.remove id = .ok o') : Sorted o'.toList := by
  rcases h with h | h | h
  · obtain ⟨o'', h1, _, h3⟩ := add_refines g hwf hs x
    rw [h] at h1; injection h1 with h1; subst h1; rw [h3]; exact ins_sorted x hs
  · obtain ⟨o'', h1, _, h3⟩ := set_refines g hwf hs x
    rw [h] at h1; injection h1 with h1; subst h1; rw [h3]; exact set_sorted x hs
  · obtain ⟨o'', h1, _, _, h3⟩ := remove_refines hwf hs id
    rw [h] at h1; injection h1 with h1; subst h1; rw [h3]; exact remove_sorted id hs

/-! ## 3. getters: never panic, answer as the reference list does -/

/-- `getters_no_panic`: on a well-formed sorted list no query operation panics — for every option number and for a
result slice of every length `n` (0, too small, exact, larger). -/
theorem getters_no_panic (m : Mem) {o : Options View} (hwf : WF o) (hs : Sorted o.toList) (id n : Nat) :
    (∃ r, o.find id = .ok r) ∧ (∃ r, o.has id = .ok r) ∧
    (∃ r, Options.getBytes m o id = .ok r) ∧ (∃ r, Options.getUint32 m o id = .ok r) ∧
    (∃ r, Options.getBytess m o id n = .ok r) ∧ (∃ r, Options.getStrings m o id n = .ok r) ∧
    (∃ r, Options.getUint32s m o id n = .ok r) ∧
    (∃ r, Options.pathString m o id = .ok r) ∧ (∃ r, Options.queries m o = .ok r) ∧
    (∃ r, Options.contentFormatOf m o = .ok r) := by
  refine ⟨⟨_, Lemmas.OptionsModel.find_spec hwf hs id⟩, ?_, ⟨_, getBytes_spec m hwf hs id⟩, ⟨_, getUint32_spec m hwf hs id⟩,
    ⟨_, getBytess_spec m hwf hs id n⟩, ⟨_, getStrings_spec m hwf hs id n⟩, ⟨_, getUint32s_spec m hwf hs id n⟩,
    ⟨_, pathString_spec m hwf hs id⟩,
    ⟨_, queries_spec m hwf hs⟩, ⟨_, contentFormat_spec m hwf hs⟩⟩
  unfold Options.has
  rw [Lemmas.OptionsModel.find_spec hwf hs id]
  exact ⟨_, rfl⟩

/-- `getters_spec` (single-value getters, `HasOption`, `ContentFormat`): the first value stored under the number. -/
theorem getters_spec_single (m : Mem) {o : Options View} (hwf : WF o) (hs : Sorted o.toList) (id : Nat) :
    o.has id = .ok (!(values id (items m o)).isEmpty) ∧
    Options.getBytes m o id = .ok ((values id (items m o)).head?) ∧
    Options.getUint32 m o id = .ok (((values id (items m o)).head?).map uintOf) ∧
    Options.contentFormatOf m o = .ok (((values contentFormatId (items m o)).head?).map (fun v => mediaTypeOf (uintOf v))) := by
  refine ⟨?_, getBytes_spec m hwf hs id, getUint32_spec m hwf hs id, contentFormat_spec m hwf hs⟩
  unfold Options.has
  rw [Lemmas.OptionsModel.find_spec hwf hs id, values_items]
  have hv := values_length id hs
  have hll := lt_le_le id o.toList
  by_cases c : lt id o.toList = le id o.toList
  · have : values id o.toList = [] := List.eq_nil_of_length_eq_zero (by omega)
    simp [c, this, bind, Except.bind, pure, Except.pure]
  · have : values id o.toList ≠ [] := by intro h; rw [h] at hv; simp at hv; omega
    simp [c, this, bind, Except.bind, pure, Except.pure]

/-- `getters_spec` (multi-value getters `GetBytess`/`GetStrings`/`GetUint32s`, `Queries`): with a result slice of
length `n` they report `ErrOptionNotFound` when nothing is stored, `(count, ErrTooSmall)` when `n < count`, and
otherwise exactly the stored values in order — never one more, never a neighbour's. -/
theorem getters_spec_multi (m : Mem) {o : Options View} (hwf : WF o) (hs : Sorted o.toList) (id n : Nat) :
    Options.getBytess m o id n = .ok (
      let vs := values id (items m o)
      if vs = [] then ((0 : Int), some Err.notFound, [])
      else if n < vs.length then ((vs.length : Int), some Err.tooSmall, []) else ((vs.length : Int), none, vs)) ∧
    Options.getStrings m o id n = Options.getBytess m o id n ∧
    Options.getUint32s m o id n = .ok (
      let vs := (values id (items m o)).map uintOf
      if vs = [] then ((0 : Int), some Err.notFound, [])
      else if n < vs.length then ((vs.length : Int), some Err.tooSmall, []) else ((vs.length : Int), none, vs)) ∧
    Options.queries m o = .ok (let vs := values uriQueryId (items m o); if vs = [] then none else some vs) :=
  ⟨getBytess_spec m hwf hs id n, by rw [getStrings_spec m hwf hs id n, getBytess_spec m hwf hs id n],
    getUint32s_spec m hwf hs id n, queries_spec m hwf hs⟩

/-! ## 4. paths -/

/-- The model's `GetPathBufferSize` splits exactly as the specification does: it refuses iff some non-empty
segment is longer than `maxPathValue` (= 255, regenerated from the source) and otherwise returns the total length. -/
theorem getPathBufferSize_spec (p : Bytes) :
    Options.getPathBufferSize p = .ok (
      if (segments p).any (fun s => s.length > maxSegment) then .error Err.invalidLen
      else .ok (totalSeg (segments p))) := by
  unfold Options.getPathBufferSize
  rw [pathSizeLoop_spec (p.length + 1) p 0 (by omega)]
  simp

/-- `path_split_join`, editing half (`SetPath` / `SetLocationPath` on any option number `id`).  With a destination
buffer inside the heap and all stored values outside its unused part:
* a path with a segment over 255 bytes is refused with `ErrInvalidValueLength` and **list and heap are untouched**;
* a path whose segments do not fit the buffer is refused with `ErrTooSmall`, again untouched (F19);
* otherwise the options of that number are replaced by one option per non-empty segment, in order, every other
  option and every stored value stays as it was, and the invariants hold again for the rest of the buffer. -/
theorem path_split_join_set (g : Nat → Nat) {m : Mem} {o : Options View} {buf : Slice}
    (hwf : WF o) (hs : Sorted o.toList) (hbuf : SliceIn m buf) (hlive : Live m buf o) (id : Nat) (p : Bytes) :
    ∃ res, Options.setPath g m o id buf p = .ok res ∧
      match Spec.SortedMultiset.setPath id p (items m o) with
      | none => res.err = some Err.invalidLen ∧ res.mem = m ∧ res.opts = o
      | some l' =>
        if p ≠ [] ∧ totalSeg (segments p) > buf.len then res.err = some Err.tooSmall ∧ res.mem = m ∧ res.opts = o
        else
          let used := if p = [] then 0 else totalSeg (segments p)
          res.err = none ∧ res.used = (used : Int) ∧ Post m buf res.mem res.opts used ∧ items res.mem res.opts = l' :=
  setPath_spec g hwf hs hbuf hlive id p

/-- refusal happens exactly for a segment longer than 255 bytes -/
theorem path_refused_iff (id : Nat) (p : Bytes) (l : List Item) :
    Spec.SortedMultiset.setPath id p l = none ↔ ∃ s ∈ segments p, s.length > 255 :=
  setPath_refused_iff id p l

/-- `path_split_join`, reading half: `Path()`/`LocationPath()` never panic and return the join of the stored
segments, `("", ErrOptionNotFound)` when there is none. -/
theorem path_split_join_get (m : Mem) {o : Options View} (hwf : WF o) (hs : Sorted o.toList) (id : Nat) :
    Options.pathString m o id = .ok (
      match Spec.SortedMultiset.path id (items m o) with
      | none => ([], some Err.notFound)
      | some p => (p, none)) :=
  pathString_spec m hwf hs id

/-- `path_split_join`: set a non-empty path whose segments are at most 255 bytes with a buffer that is large
enough, then read it back: the result is the normalised path — one leading slash per non-empty segment, empty
segments dropped — or `("", ErrOptionNotFound)` (the root) when the path has no non-empty segment. -/
theorem path_split_join (g : Nat → Nat) {m : Mem} {o : Options View} {buf : Slice}
    (hwf : WF o) (hs : Sorted o.toList) (hbuf : SliceIn m buf) (hlive : Live m buf o) (id : Nat) (p : Bytes)
    (hp : p ≠ []) (hseg : ∀ s ∈ segments p, s.length ≤ 255) (hfit : totalSeg (segments p) ≤ buf.len) :
    ∃ res, Options.setPath g m o id buf p = .ok res ∧ res.err = none ∧
      Options.pathString res.mem res.opts id
        = .ok (if segments p = [] then ([], some Err.notFound) else (join (segments p), none)) := by
  obtain ⟨res, h1, h2⟩ := setPath_spec g hwf hs hbuf hlive id p
  have hsi : Sorted (items m o) := (mapVal_sorted _).mpr hs
  cases hsp : Spec.SortedMultiset.setPath id p (items m o) with
  | none =>
    obtain ⟨s, hs1, hs2⟩ := (setPath_refused_iff id p _).mp hsp
    have := hseg s hs1
    unfold maxSegment at hs2; omega
  | some l' =>
    rw [hsp] at h2
    have hc : ¬ (p ≠ [] ∧ totalSeg (segments p) > buf.len) := by omega
    simp only [hc, if_false, hp] at h2
    obtain ⟨he, _, hpost, hitems⟩ := h2
    refine ⟨res, h1, he, ?_⟩
    rw [pathString_spec res.mem hpost.wf hpost.sorted id, hitems, path_setPath id p hsi hp hsp]
    by_cases c : segments p = [] <;> simp [c]

/-! ## 5. values are byte-exact and stable (Options level: one destination buffer) -/

/-- `values_stable` for `SetBytes`/`AddBytes`/`SetString`/`AddString`: when the destination buffer lies inside the
heap and every stored value lies outside its unused part, the call succeeds, the list a reader sees is the
reference's, **every view outside the unused part of the buffer — in particular every value stored earlier — reads
exactly as before**, and the stored values again lie outside what is left of the buffer. -/
theorem values_stable_put (isSet : Bool) (g : Nat → Nat) {m : Mem} {o : Options View} {buf : Slice}
    (hwf : WF o) (hs : Sorted o.toList) (hbuf : SliceIn m buf) (hlive : Live m buf o)
    (id : Nat) (data : List UInt8) (hfit : data.length ≤ buf.len)
    (hok : ¬ (id = CoapVerif.Generated.OptionList.uriPath ∧ data.length > CoapVerif.Generated.OptionList.maxPathValue)) :
    ∃ m' o', (if isSet then Options.setBytes g m o buf id data else Options.addBytes g m o buf id data)
        = .ok ⟨m', o', data.length, none⟩ ∧
      Post m buf m' o' data.length ∧
      items m' o' = (if isSet then Spec.SortedMultiset.set (id, data) (items m o) else ins (id, data) (items m o)) :=
  put_ok isSet g hwf hs hbuf hlive id data hfit hok

/-! ## 6. the pooled message: whole histories, buffer growth, reset and reuse, clone -/

/-- **Any sequence of option-editing operations** on a `pool.Message` (byte/string/uint32 setters and adders,
`SetPath`, `AddQuery`, `Remove`, `ResetOptionsTo` with arbitrary unsorted input or with a selection of the message's
own options, `Reset` followed by reuse), for every option capacity, every growth policy of `append` on the option
slice (`g`) and on the value buffer (`gb`): the run never ends in a **runtime** panic (index out of range, slice
bounds: `Msg.run … = .ok _`), the invariant (`len ≤ cap`, sorted, values inside their buffers and below the cursor)
is re-established, and the list of `(number, value bytes)` a reader sees equals the reference list obtained by
folding `Spec.SortedMultiset.specStep` over the same history.

What "never panics" does *not* mean here: the typed pool setters call `panic(fmt.Errorf(…))` *on purpose* when the
wrapped `Options` method refuses (the only reachable case: `SetOptionString`/`AddOptionString` with a Uri-Path value
over 255 bytes).  `Msg.step` models that deliberate panic as a refusal that the caller recovers from — the message is
left as the method left it and the history goes on — and `specStep` leaves the list unchanged for it; `SetPath` returns
its error instead of panicking and is treated the same way.  So the statement is "no runtime error and, after every
step including refused ones, list = reference", not "no Go `panic` statement is ever executed". -/
theorem history_refines (g : Nat → Nat) (gb : Nat → Nat → Nat) (ops : List Msg.Op) {r : Msg} (hinv : MsgInv r) :
    ∃ r', Msg.run g gb r ops = .ok r' ∧ MsgInv r' ∧
      items r'.mem r'.opts = ops.foldl specStep (items r.mem r.opts) ∧ Sorted (items r'.mem r'.opts) := by
  obtain ⟨r', h1, h2, h3, _⟩ := run_spec g gb ops hinv
  exact ⟨r', h1, h2, h3, (mapVal_sorted _).mpr h2.sorted⟩

/-- … in particular from a new message of any option capacity (`NewMessage` has 16; `SetMessage` gives others). -/
theorem history_refines_new (g : Nat → Nat) (gb : Nat → Nat → Nat) (ops : List Msg.Op) (optCap : Nat) :
    ∃ r', Msg.run g gb (Msg.new [] optCap) ops = .ok r' ∧ items r'.mem r'.opts = ops.foldl specStep [] := by
  obtain ⟨r', h1, _, h3, _⟩ := run_spec g gb ops (msgInv_new [] optCap)
  refine ⟨r', h1, ?_⟩
  rw [h3]
  simp [items, Msg.new, Mem.alloc, Options.make, Options.toList, mapVal]

/-- `values_stable`: the values stored in a message (their views lie inside their buffers and below the cursor of
the value buffer — the invariant) are **never changed by later edits or by growth of the value buffer**: after any
history without `Reset` every such view still reads the same bytes, is still inside its buffer and still below the
cursor.  (The design's hypothesis "pairwise disjoint" is not needed: below-the-cursor alone suffices, because the
code only ever writes at or above the cursor or into fresh buffers.) -/
theorem values_stable (g : Nat → Nat) (gb : Nat → Nat → Nat) (ops : List Msg.Op) {r : Msg} (hinv : MsgInv r)
    (hnr : Spec.OptionOp.Op.reset ∉ ops) :
    ∃ r', Msg.run g gb r ops = .ok r' ∧
      ∀ x ∈ r.opts.toList, r'.mem.read x.2 = r.mem.read x.2 ∧ InB r'.mem x.2 ∧ Below r'.vb.bid r'.vb.off x.2 := by
  obtain ⟨r', h1, _, _, h4⟩ := run_spec g gb ops hinv
  refine ⟨r', h1, fun x hx => ?_⟩
  obtain ⟨a, b⟩ := hinv.live x hx
  exact (h4 hnr).views x.2 a b

/-- one operation: the same, with the refinement of that operation (`specStep` spells out the reference) -/
theorem step_refines (g : Nat → Nat) (gb : Nat → Nat → Nat) {r : Msg} (hinv : MsgInv r) (op : Msg.Op) :
    ∃ r', r.step g gb op = .ok r' ∧ MsgInv r' ∧ items r'.mem r'.opts = specStep (items r.mem r.opts) op ∧
      (op ≠ .reset → Keeps r.mem r.vb r'.mem r'.vb) :=
  step_spec g gb hinv op

/-- `pool.Message.SetPath` (F19): a refused path (`ErrInvalidValueLength`) leaves the message **exactly** as it
was; otherwise — also when the value buffer has to grow while the message already carries a path — the call
succeeds and the list is the reference's. -/
theorem pool_setPath_refines (g : Nat → Nat) (gb : Nat → Nat → Nat) {r : Msg} (hinv : MsgInv r) (p : Bytes) :
    ∃ r' e, r.setPath g gb p = .ok (r', e) ∧ MsgInv r' ∧ Keeps r.mem r.vb r'.mem r'.vb ∧
      match Spec.SortedMultiset.setPath uriPathId p (items r.mem r.opts) with
      | none => e = some Err.invalidLen ∧ r' = r
      | some l' => e = none ∧ items r'.mem r'.opts = l' :=
  msg_setPath_spec g gb hinv p

/-- `ResetOptionsTo` on the `Options` level (finding C15-resetto): with too small a buffer nothing is overwritten. -/
theorem resetOptionsTo_refused_untouched (g : Nat → Nat) (m : Mem) (o : Options View) (buf : Slice)
    (inp : List (Opt View)) (h : buf.len < Options.totalLen inp) :
    Options.resetOptionsTo g m o buf inp = .ok ⟨m, o, Options.totalLen inp, some Err.tooSmall⟩ :=
  (contract_reset g inp).small m o buf h

/-- `Options.Clone()`: the clone reads as the original, lives in buffers allocated by the call (so no later edit
of the original can reach it), and nothing the original stores is changed. -/
theorem clone_refines (g : Nat → Nat) {m : Mem} {o : Options View} (hwf : WF o) (hs : Sorted o.toList)
    (hin : ∀ x ∈ o.toList, InB m x.2) :
    ∃ m' c, Options.clone g m o = .ok (m', c, none) ∧ WF c ∧ Sorted c.toList ∧ items m' c = items m o ∧
      (∀ v, InB m v → m'.read v = m.read v ∧ InB m' v) ∧
      (∀ x ∈ c.toList, InB m' x.2 ∧ m.length ≤ x.2.bid) := by
  obtain ⟨m', c, h1, h2, h3, h4, h5, h6, _⟩ := clone_spec g hwf hs hin
  exact ⟨m', c, h1, h2, h3, h4, h5, h6⟩

/-- `pool.Message.Clone(dst)` (its option part, `dst.ResetOptionsTo(src.Options())`): when the source's values lie
outside the unused part of the destination's value buffer, the destination ends up with the source's list, and the
source's values are not changed. -/
theorem pool_clone_refines (g : Nat → Nat) (gb : Nat → Nat → Nat) {dst : Msg} (hinv : MsgInv dst)
    (src : Options View) (hs : Sorted src.toList)
    (hsrc : ∀ x ∈ src.toList, InB dst.mem x.2 ∧ Below dst.vb.bid dst.vb.off x.2) :
    ∃ r' e, dst.resetOptionsTo g gb src.toList = .ok (r', e) ∧ e = none ∧ MsgInv r' ∧
      items r'.mem r'.opts = items dst.mem src ∧
      ∀ x ∈ src.toList, r'.mem.read x.2 = dst.mem.read x.2 := by
  have hext : ∀ v ∈ src.toList.map (·.2), InB dst.mem v ∧ Below dst.vb.bid dst.vb.off v := by
    intro v hv
    obtain ⟨x, hx, rfl⟩ := List.mem_map.mp hv
    exact hsrc x hx
  obtain ⟨r', e, h1, h2, h3, h4⟩ := retry_spec gb hinv (contract_reset g src.toList) hext
  simp only [Bool.false_eq_true, if_false] at h4
  refine ⟨r', e, h1, h4.1, h2, ?_, fun x hx => (h3.views x.2 (hsrc x hx).1 (hsrc x hx).2).1⟩
  rw [h4.2]
  exact resetTo_of_sorted ((mapVal_sorted _).mpr hs)

theorem selectOwn_range {β : Type} (l : List β) : ∀ n, n ≤ l.length →
    Spec.SortedMultiset.selectOwn l (List.range n) = l.take n := by
  intro n
  induction n with
  | zero => intro _; simp [Spec.SortedMultiset.selectOwn]
  | succ n ih =>
    intro h
    have hn : n < l.length := by omega
    unfold Spec.SortedMultiset.selectOwn at ih ⊢
    rw [List.range_succ, List.filterMap_append, ih (by omega)]
    simp only [List.filterMap_cons, List.filterMap_nil, Nat.mod_eq_of_lt hn, List.getElem?_eq_getElem hn]
    rw [List.take_add_one, List.getElem?_eq_getElem hn]; rfl

/-- `ResetOptionsTo` fed from a selection of the message's **own** options — option structs copied by index (subset,
permutation or repetition) into a slice of their own, whose *values* are still views into the message's own value
buffer (value aliasing): the result is the stable sort of the selected options with their values byte-exact, because
the copies are written at/above the cursor and every source lies below it; selecting every index in order gives the
list back unchanged.  (Here the input *slice* is a separate array; the case where it is a slice of the message's own
option array, `m.ResetOptionsTo(m.Options()[k:k+n])`, is `resetOptionsTo_own_slice_benign` below.) -/
theorem pool_resetSelf_refines (g : Nat → Nat) (gb : Nat → Nat → Nat) {r : Msg} (hinv : MsgInv r) (idxs : List Nat) :
    ∃ r', r.step g gb (.resetSelf idxs) = .ok r' ∧ MsgInv r' ∧
      items r'.mem r'.opts = resetTo (Spec.SortedMultiset.selectOwn (items r.mem r.opts) idxs) ∧
      (idxs = List.range (items r.mem r.opts).length → items r'.mem r'.opts = items r.mem r.opts) := by
  obtain ⟨r', h1, h2, h3, _⟩ := step_spec g gb hinv (.resetSelf idxs)
  refine ⟨r', h1, h2, h3, fun hi => ?_⟩
  rw [h3, hi]
  show resetTo (Spec.SortedMultiset.selectOwn _ _) = _
  rw [selectOwn_range _ _ (Nat.le_refl _), List.take_length]
  exact resetTo_of_sorted ((mapVal_sorted _).mpr hinv.sorted)

/-- **Array aliasing.** `options.ResetOptionsTo(buf, options[k:k+n])`, where the input is a slice of the receiver's own
backing array, is modelled with the read index and the write index of the Go loop over one shared array
(`Options.resetLoopAliased`): iteration `j` reads element `k+j` of the array as it is at that moment, after `j` in-place
`Add`s.  It is benign: the call behaves exactly like `ResetOptionsTo` on a private copy of those options, because the
`Add`s so far have touched only indices `< j` (`add_frame`). -/
theorem resetOptionsTo_own_slice_benign (g : Nat → Nat) (m : Mem) {o : Options View} (hwf : WF o) (buf : Slice) {k n : Nat}
    (h : k + n ≤ o.len) :
    Options.resetOptionsToAliased g m o buf k n = Options.resetOptionsTo g m o buf ((o.toList.drop k).take n) :=
  resetOptionsToAliased_eq g m hwf buf h

/-- … and on a pooled message: `m.ResetOptionsTo(m.Options()[k:k+n])` never panics, keeps the invariant and leaves
exactly the options `k … k+n-1` of the old list with their values; with `k = 0`, `n = len` it is the identity. -/
theorem pool_resetOwnSlice_refines (g : Nat → Nat) (gb : Nat → Nat → Nat) {r : Msg} (hinv : MsgInv r) {k n : Nat}
    (h : k + n ≤ r.opts.len) :
    ∃ r' e, r.resetOptionsToOwnSlice g gb k n = .ok (r', e) ∧ e = none ∧ MsgInv r' ∧
      items r'.mem r'.opts = ((items r.mem r.opts).drop k).take n := by
  rw [resetOptionsToOwnSlice_eq g gb hinv.wf h]
  have hsub : ∀ x ∈ (r.opts.toList.drop k).take n, x ∈ r.opts.toList :=
    fun x hx => List.mem_of_mem_drop (List.mem_of_mem_take hx)
  have hext : ∀ v ∈ ((r.opts.toList.drop k).take n).map (·.2), InB r.mem v ∧ Below r.vb.bid r.vb.off v := by
    intro v hv
    obtain ⟨x, hx, rfl⟩ := List.mem_map.mp hv
    exact hinv.live x (hsub x hx)
  obtain ⟨r', e, h1, h2, _, h4⟩ := retry_spec gb hinv (contract_reset g ((r.opts.toList.drop k).take n)) hext
  simp only [Bool.false_eq_true, if_false] at h4
  refine ⟨r', e, h1, h4.1, h2, ?_⟩
  rw [h4.2]
  have e1 : ((r.opts.toList.drop k).take n).map (fun x => (x.1, r.mem.read x.2)) = ((items r.mem r.opts).drop k).take n := by
    unfold items mapVal; rw [List.map_take, List.map_drop]
  rw [e1]
  apply resetTo_of_sorted
  have hs : Sorted (items r.mem r.opts) := (mapVal_sorted _).mpr hinv.sorted
  exact List.Pairwise.sublist ((List.take_sublist _ _).trans (List.drop_sublist _ _)) hs

/-! ## 7. clone / reset-to through the library's own users of the list -/

/-- `ResponseWriter.SetResponse(code, contentFormat, body, opts…)` on a response message in any state — options left by
an earlier `SetResponse` or set through `Message()` — leaves exactly the given options (stable sort) plus
Content-Format when there is a body: **also when no options are given** the old ones are gone. -/
theorem setResponse_refines (g : Nat → Nat) (gb : Nat → Nat → Nat) {r : Msg} (hinv : MsgInv r) (cf : Nat) (hcf : cf < 65536)
    (hasBody : Bool) (inp : List (Opt View))
    (hext : ∀ v ∈ inp.map (·.2), InB r.mem v ∧ Below r.vb.bid r.vb.off v) :
    ∃ r', r.setResponse g gb cf hasBody inp = .ok (r', none) ∧ MsgInv r' ∧
      items r'.mem r'.opts = responseOptions cf hasBody (inp.map (fun x => (x.1, r.mem.read x.2))) :=
  setResponse_spec g gb hinv cf hcf hasBody inp hext

/-- An observation is registered exactly for a request whose Observe option is 0, and the options it keeps are those
of the request at that moment: **no later history on the request message** — edits, growth of its value buffer, `Reset`
when it goes back to the pool, reuse for another request — **changes them** (`Observation.Request`,
`GetObservationRequest` and `Cancel` read from these kept options). -/
theorem observation_keeps_request_options (g : Nat → Nat) (gb : Nat → Nat → Nat) {r : Msg} (hinv : MsgInv r) :
    ∃ res, observeRequest g r.mem r.opts = .ok res ∧
      (res.2.isSome ↔ registers (items r.mem r.opts) = true) ∧
      ∀ kept, res.2 = some kept →
        items res.1 kept = items r.mem r.opts ∧
        MsgInv ({ r with mem := res.1 } : Msg) ∧
        ∀ (ops : List Msg.Op) (r' : Msg), Msg.run g gb { r with mem := res.1 } ops = .ok r' →
          items r'.mem kept = items r.mem r.opts :=
  observation_keeps g gb hinv

/-- The message builders of the generic client, `New{Get,Post,Put,Delete,Observe}Request(path, [cf, payload,] opts…)`:
never a runtime panic; refused exactly for a path with a segment over 255 bytes; otherwise the built request carries the
caller's options (stable sort), the path, Content-Format for a POST/PUT with payload, and for an observe request
**exactly one Observe option with value 0 — set, not add — whatever the caller's options contain**.  (That the caller's
own option slices are left alone is outside the model — the model copies the values it is given — and is checked on the
real code by the `build` operation: a sibling slice over the caller's backing array must come back unchanged.) -/
theorem buildRequest_refines (g : Nat → Nat) (gb : Nat → Nat → Nat) (m : Mem) (k : ReqKind) (p : Bytes) (cf : Nat)
    (hcf : cf < 65536) (hasBody : Bool) (inp : List Item) :
    ∃ m', buildRequest g gb m k p cf hasBody inp = .ok (m', requestOptions (kindName k) p cf hasBody inp) :=
  buildRequest_spec g gb m k p cf hcf hasBody inp

/-- the general fact behind it: a view in a buffer that is neither the current nor the original value buffer of a
message is never changed by any history on that message, `Reset` included -/
theorem foreign_values_untouched (g : Nat → Nat) (gb : Nat → Nat → Nat) (ops : List Msg.Op) {r r' : Msg} (hinv : MsgInv r)
    (h : Msg.run g gb r ops = .ok r') {v : View} (hf : Foreign r v) : r'.mem.read v = r.mem.read v :=
  (foreign_run g gb ops hinv h hf).1

/-! ## Non-vacuity: concrete instances of the hypotheses and of each conclusion -/

section Examples
def exG (c : Nat) : Nat := 2 * c + 1
/-- a full slice of capacity 3 holding `8:a 11:b 11:c` -/
def exO : Options Nat := ⟨[(8, 1), (11, 2), (11, 3)], 3⟩

example : WF exO ∧ Sorted exO.toList := by
  refine ⟨by unfold WF; decide, ?_⟩
  simp [Sorted, exO, Options.toList]
example : exO.findPosition 11 = .ok (0, -1) ∧ exO.findPosition 9 = .ok (0, 1) ∧ exO.findPosition 3 = .ok (-1, 0) := by decide
example : exO.find 11 = .ok (some (1, 3)) ∧ exO.find 12 = .ok none := by decide
-- Add reallocates (len = cap) and inserts after the equal numbers; Set replaces both; Remove compacts in place
example : (exO.add exG (11, 9)).map (·.toList) = .ok [(8, 1), (11, 2), (11, 3), (11, 9)] := by decide
example : (exO.add exG (9, 9)).map (·.toList) = .ok [(8, 1), (9, 9), (11, 2), (11, 3)] := by decide
example : (exO.set exG (11, 9)).map (·.toList) = .ok [(8, 1), (11, 9)] := by decide
example : (exO.remove 11).map (·.toList) = .ok [(8, 1)] := by decide
example : ins (11, 9) exO.toList = [(8, 1), (11, 2), (11, 3), (11, 9)] := by decide
-- multi getter at the end of the list with an exactly sized result slice (the F1 position)
example : exO.getMulti true 11 2 = .ok (2, none, [2, 3]) ∧ exO.getMulti true 11 1 = .ok (2, some .tooSmall, []) ∧
    exO.getMulti true 11 7 = .ok (2, none, [2, 3]) := by decide
-- paths
-- "//a//bc/" splits into "a","bc" and joins to "/a/bc"; "//" has no segment (the root)
example : segments [47, 47, 97, 47, 47, 98, 99, 47] = [[97], [98, 99]] := by decide
example : join (segments [47, 47, 97, 47, 47, 98, 99, 47]) = [47, 97, 47, 98, 99] := by decide
example : segments [47, 47] = [] := by decide
example : Spec.SortedMultiset.setPath 11 [47, 120] [(11, [97]), (11, [98]), (15, [113])] = some [(11, [120]), (15, [113])] := by decide
set_option maxRecDepth 10000 in
example : Spec.SortedMultiset.setPath 11 (47 :: List.replicate 256 120) [(11, [97])] = none := by
  rw [setPath_refused_iff]; exact ⟨List.replicate 256 120, by decide, by decide⟩
-- a pooled message with option capacity 0: history with growth of the option slice, a path edit on a message that
-- already carries a path, a refused path, a typed setter, reset and reuse
def exGb (c need : Nat) : Nat := max (2 * c) need
example : MsgInv (Msg.new [] 0) := msgInv_new [] 0
set_option maxRecDepth 100000 in
example : ((Msg.run exG exGb (Msg.new [] 0)
      [.setPath [47, 97, 47, 98], .addBytes 15 [113], .setPath [47, 120], .setUint32 12 50, .remove 15]).map Msg.items)
    = .ok [(11, [120]), (12, [50])] := by decide
example : [Spec.OptionOp.Op.setPath [47, 97, 47, 98], .addBytes 15 [113], .setPath [47, 120], .setUint32 12 50, .remove 15].foldl specStep []
    = [(11, [120]), (12, [50])] := by decide
-- values set in non-ascending number order (query before path), then the message is reset to its own options
-- (identity) and to a reordered subset of them
set_option maxRecDepth 100000 in
example : ((Msg.run exG exGb (Msg.new [] 2)
      [.addBytes 15 [105, 102], .setUint32 6 42, .setPath [47, 111, 47, 114], .resetSelf [0, 1, 2, 3], .resetSelf [3, 0]]).map Msg.items)
    = .ok [(6, [42]), (15, [105, 102])] := by decide
-- the input is a slice of the receiver's own array: read index 1.. while the writes go to 0..
example : ((Options.resetOptionsToAliased exG [[1, 2, 3, 0, 0, 0, 0, 0]]
      ⟨[(4, ⟨0, 0, 1⟩), (8, ⟨0, 1, 1⟩), (11, ⟨0, 2, 1⟩)], 3⟩ ⟨0, 3, 5⟩ 1 2).map
        (fun r => r.opts.toList.map (fun x => (x.1, r.mem.read x.2)))) = .ok [(8, [2]), (11, [3])] := by decide
-- a response prepared with ETag and Location-Path, then replaced by an error response without options and body
set_option maxRecDepth 100000 in
example : (do
    let r0 := Msg.new [[170], [108]] 16
    let (r1, _) ← r0.setResponse exG exGb 50 true [(4, ⟨0, 0, 1⟩), (8, ⟨1, 0, 1⟩)]
    let (r2, _) ← r1.setResponse exG exGb 0 false []
    pure (r1.items, r2.items) : M _) = .ok ([(4, [170]), (8, [108]), (12, [50])], []) := by decide
-- an observe request built from options that already contain Observe = 5: exactly one Observe, value 0
example : requestOptions "observe" [47, 97] 0 false [(15, [113]), (6, [5])] = some [(6, []), (11, [97]), (15, [113])] := by decide
example : deregistrationOptions [(6, []), (11, [97])] [74, 74, 74] = some [(4, [74, 74, 74]), (6, [1]), (11, [97])] := by decide
example : registers [(6, []), (11, [97])] = true ∧ registers [(6, [5])] = false ∧ registers [(11, [97])] = false := by decide
example : deregistrationOptions [(6, []), (11, [97]), (11, [98]), (15, [113])] = some [(6, [1]), (11, [97]), (11, [98])] := by decide
end Examples

end CoapVerif.Props.C15

section Audit
open CoapVerif.Props.C15
#print axioms shape_agrees
#print axioms shape_agrees_glue
#print axioms findPosition_total
#print axioms findPosition_spec
#print axioms lt_le_characterisation
#print axioms find_spec
#print axioms add_refines
#print axioms set_refines
#print axioms remove_refines
#print axioms sorted_preserved
#print axioms sorted_preserved_model
#print axioms getters_no_panic
#print axioms getters_spec_single
#print axioms getters_spec_multi
#print axioms getPathBufferSize_spec
#print axioms path_split_join_set
#print axioms path_refused_iff
#print axioms path_split_join_get
#print axioms path_split_join
#print axioms values_stable_put
#print axioms history_refines
#print axioms history_refines_new
#print axioms values_stable
#print axioms step_refines
#print axioms pool_setPath_refines
#print axioms resetOptionsTo_refused_untouched
#print axioms clone_refines
#print axioms pool_clone_refines
#print axioms selectOwn_range
#print axioms pool_resetSelf_refines
#print axioms resetOptionsTo_own_slice_benign
#print axioms pool_resetOwnSlice_refines
#print axioms setResponse_refines
#print axioms observation_keeps_request_options
#print axioms foreign_values_untouched
#print axioms buildRequest_refines
end Audit
