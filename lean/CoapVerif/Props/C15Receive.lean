import CoapVerif.Props.C15
import CoapVerif.Model.PoolOptionsReceive
/-!
# C15 — a received message that is edited afterwards

Statement (properties.jsonl, the clause this file is about): "… values byte-exact and unaffected by later edits or
internal buffer growth."

Situation: a message taken from the pool, a datagram unmarshalled into it (`Msg.receive`: its option values are
sub-slices of the message's unmarshal buffer), then **any** history of option-editing operations on it — a handler or
proxy that annotates a received request before passing it on.  The values the message arrived with live in a buffer
of their own; the values stored later go to the value buffer, which grows on demand (in place inside its own block,
or into a fresh block — every growth policy).  Theorems: the list after `receive` is the list on the wire
(`receive_refines`); every later history refines the sorted-multiset reference started from that list
(`received_then_edited`); and as long as the message is not reset, every value it arrived with still reads the same
bytes (`received_values_stable`) — no edit and no growth of the value buffer reaches the unmarshal buffer.
-/
namespace CoapVerif.Props.C15Receive
open CoapVerif.Model.Options CoapVerif.Spec.SortedMultiset
open CoapVerif.Lemmas.SortedMultiset CoapVerif.Lemmas.OptionsModel CoapVerif.Lemmas.OptionValuesModel
open CoapVerif.Lemmas.PoolOptionsModel

theorem read_new (m : Mem) (blk : List UInt8) (off len : Nat) :
    (m ++ [blk]).read ⟨m.length, off, len⟩ = (blk.drop off).take len := by
  unfold Mem.read
  rw [buf_eq, List.getElem?_append_right (Nat.le_refl _)]
  simp

/-- the layout of the datagram in the unmarshal buffer: every view produced by `Options.Unmarshal` reads the value
that was put on the wire, lies in the new block and inside it -/
theorem wire_layout (m : Mem) : ∀ (inp : List Item) (pre : List UInt8),
    mapVal (m ++ [pre ++ wireBytes inp]).read (wireViews m.length pre.length inp) = inp ∧
    ∀ x ∈ wireViews m.length pre.length inp,
      x.2.bid = m.length ∧ x.2.off + x.2.len ≤ (pre ++ wireBytes inp).length := by
  intro inp
  induction inp with
  | nil => intro pre; simp [wireViews, mapVal]
  | cons x rest ih =>
    intro pre
    have hblk : pre ++ wireBytes (x :: rest) = (pre ++ 0 :: x.2) ++ wireBytes rest := by
      simp [wireBytes]
    have hlen : (pre ++ 0 :: x.2).length = pre.length + 1 + x.2.length := by
      simp; omega
    obtain ⟨ih1, ih2⟩ := ih (pre ++ 0 :: x.2)
    rw [hlen] at ih1 ih2
    rw [hblk]
    refine ⟨?_, ?_⟩
    · simp only [wireViews, mapVal, List.map_cons]
      unfold mapVal at ih1
      rw [ih1]
      congr 1
      rw [read_new]
      have h2 : (pre ++ 0 :: x.2) ++ wireBytes rest = (pre ++ [0]) ++ (x.2 ++ wireBytes rest) := by simp
      have h3 : (pre ++ [(0 : UInt8)]).length = pre.length + 1 := by simp
      rw [h2, ← h3, List.drop_left, List.take_left]
    · intro y hy
      simp only [wireViews, List.mem_cons] at hy
      rcases hy with rfl | hy
      · refine ⟨rfl, ?_⟩
        simp only [List.length_append, List.length_cons]
        omega
      · exact ih2 y hy

/-- `receive_refines`: unmarshalling a datagram into a message from the pool never panics, re-establishes the
invariant (the received values count as stored: they lie inside their buffer and outside the value buffer), the list a
reader sees is exactly the list on the wire, and the value buffer is the message's original one, unused. -/
theorem receive_refines (dc : Nat → Nat) {r : Msg} (hinv : MsgInv r) (inp : List Item) (hs : Sorted inp) :
    ∃ r1, Msg.receive dc r inp = .ok r1 ∧ MsgInv r1 ∧ items r1.mem r1.opts = inp ∧ r1.vb = r.orig ∧
      ∀ x ∈ r1.opts.toList, x.2.bid ≠ r1.vb.bid ∧ x.2.bid ≠ r1.orig.bid := by
  obtain ⟨r0, h0, hinv0, _, hvb0⟩ := msg_reset_spec hinv
  have horig0 : r0.orig = r.orig := by
    unfold Msg.reset at h0
    simp only [Options.reslice, bind, Except.bind, pure, Except.pure] at h0
    split at h0 <;> simp at h0
    rw [← h0]
  have hmem0 : r0.mem = r.mem := by
    unfold Msg.reset at h0
    simp only [Options.reslice, bind, Except.bind, pure, Except.pure] at h0
    split at h0 <;> simp at h0
    rw [← h0]
  obtain ⟨w1, w2⟩ := wire_layout r0.mem inp []
  simp only [List.nil_append, List.length_nil] at w1 w2
  have hlenV : ∀ (b o : Nat) (l : List Item), (wireViews b o l).length = l.length := by
    intro b o l
    induction l generalizing o with
    | nil => simp [wireViews]
    | cons y t ih => simp [wireViews, ih]
  let arr := recvArr dc r0.opts.arr inp.length (inp.length + 1)
  have htl : (⟨wireViews r0.mem.length 0 inp ++ arr.drop inp.length, inp.length⟩ : Options View).toList
      = wireViews r0.mem.length 0 inp := by
    unfold Options.toList
    simp only
    rw [← hlenV r0.mem.length 0 inp, List.take_left]
  refine ⟨{ r0 with mem := r0.mem ++ [wireBytes inp],
                    opts := ⟨wireViews r0.mem.length 0 inp ++ arr.drop inp.length, inp.length⟩ }, ?_, ?_, ?_, ?_, ?_⟩
  · unfold Msg.receive
    rw [h0]
    rfl
  · refine ⟨?_, ?_, ?_, ?_, ?_, ?_, ?_⟩
    · show inp.length ≤ (wireViews r0.mem.length 0 inp ++ arr.drop inp.length).length
      rw [List.length_append, hlenV]; omega
    · show Sorted (Options.toList _)
      rw [htl]
      have := (mapVal_sorted (r0.mem ++ [wireBytes inp]).read (l := wireViews r0.mem.length 0 inp))
      rw [w1] at this
      exact this.mp hs
    · show r0.vb.off + r0.vb.len ≤ (r0.mem ++ [wireBytes inp]).size r0.vb.bid
      rw [size_append_lt _ hinv0.vbBid]; exact hinv0.vbIn
    · intro x hx
      rw [htl] at hx
      obtain ⟨a, b⟩ := w2 x hx
      refine ⟨Or.inr ?_, Or.inr (Or.inl ?_)⟩
      · rw [a, size_append_new]; exact b
      · rw [a]; exact Nat.ne_of_gt hinv0.vbBid
    · show r0.orig.off + r0.orig.len ≤ (r0.mem ++ [wireBytes inp]).size r0.orig.bid
      rw [size_append_lt _ hinv0.origBid]; exact hinv0.origIn
    · show r0.vb.bid < (r0.mem ++ [wireBytes inp]).length
      have := hinv0.vbBid; simp; omega
    · show r0.orig.bid < (r0.mem ++ [wireBytes inp]).length
      have := hinv0.origBid; simp; omega
  · show mapVal _ (Options.toList _) = inp
    rw [htl]; exact w1
  · exact hvb0
  · intro x hx
    rw [htl] at hx
    obtain ⟨a, _⟩ := w2 x hx
    exact ⟨by rw [a]; exact Nat.ne_of_gt hinv0.vbBid, by rw [a]; exact Nat.ne_of_gt hinv0.origBid⟩

/-- **`received_then_edited`** — for every message state, every datagram (its options in wire order), every restart
policy of the decoder's option array, every history of editing operations afterwards and every growth policy of the
option slice and of the value buffer: no runtime panic, and the list a reader sees equals the sorted-multiset
reference folded over the history **starting from the list on the wire** — the values the message arrived with
included, byte-exact. -/
theorem received_then_edited (dc g : Nat → Nat) (gb : Nat → Nat → Nat) (ops : List Msg.Op) {r : Msg} (hinv : MsgInv r)
    (inp : List Item) (hs : Sorted inp) :
    ∃ r1 r', Msg.receive dc r inp = .ok r1 ∧ Msg.run g gb r1 ops = .ok r' ∧ MsgInv r' ∧
      items r'.mem r'.opts = ops.foldl specStep inp ∧ Sorted (items r'.mem r'.opts) := by
  obtain ⟨r1, h1, hinv1, hit, _, _⟩ := receive_refines dc hinv inp hs
  obtain ⟨r', h2, hinv', h3, h4⟩ := CoapVerif.Props.C15.history_refines g gb ops hinv1
  exact ⟨r1, r', h1, h2, hinv', by rw [h3, hit], h4⟩

/-- **`received_values_stable`** — until the message is reset, every value it arrived with still reads the bytes that
were on the wire: neither a later edit nor any growth of the value buffer writes into the unmarshal buffer. -/
theorem received_values_stable (dc g : Nat → Nat) (gb : Nat → Nat → Nat) (ops : List Msg.Op) {r : Msg} (hinv : MsgInv r)
    (inp : List Item) (hs : Sorted inp) (hnr : Spec.OptionOp.Op.reset ∉ ops) :
    ∃ r1 r', Msg.receive dc r inp = .ok r1 ∧ Msg.run g gb r1 ops = .ok r' ∧
      mapVal r'.mem.read r1.opts.toList = inp := by
  obtain ⟨r1, h1, hinv1, hit, _, _⟩ := receive_refines dc hinv inp hs
  obtain ⟨r', h2, h3⟩ := CoapVerif.Props.C15.values_stable g gb ops hinv1 hnr
  refine ⟨r1, r', h1, h2, ?_⟩
  rw [← hit]
  unfold items
  exact mapVal_congr (fun x hx => (h3 x hx).1)

/-! ## Non-vacuity -/
section Examples
def exG (c : Nat) : Nat := 2 * c + 1
def exGb (c need : Nat) : Nat := max (2 * c) need
def exDc (c : Nat) : Nat := if c = 0 then 16 else 2 * c
/-- GET /ab?c=d as it arrives -/
def exWire : List Item := [(11, [97, 98]), (15, [99, 61, 100])]

example : Sorted exWire := by unfold Sorted exWire; decide

/-- received into a new message whose option array is too small (capacity 1): the decoder restarts with a larger one -/
example : (Msg.receive exDc (Msg.new [] 1) exWire).map (fun r => (Msg.items r, r.opts.cap, r.vb.len))
    = .ok (exWire, 2, 256) := by decide

/-- a message whose value buffer has 4 bytes (the theorems hold for every size; `NewMessage` has 256) -/
def exSmall : Msg := ⟨[List.replicate 4 0], Options.make 4, ⟨0, 0, 4⟩, ⟨0, 0, 4⟩⟩

/-- … received into it, then a 6-byte query is added (the value buffer must grow: its block is full, so into a fresh
block): the values it arrived with are intact, the
new value sits behind them -/
example : ((Msg.receive exDc exSmall exWire).bind
      (fun r => Msg.run exG exGb r [.addQuery [120, 120, 120, 120, 120, 120]])).map Msg.items
    = .ok (exWire ++ [(15, [120, 120, 120, 120, 120, 120])]) := by decide
end Examples

section Audit
#print axioms read_new
#print axioms wire_layout
#print axioms receive_refines
#print axioms received_then_edited
#print axioms received_values_stable
end Audit

end CoapVerif.Props.C15Receive
