import CoapVerif.Model.Limiter
import CoapVerif.Lemmas.Limiter
import CoapVerif.Lemmas.LimiterOrder
import CoapVerif.Generated.LimiterWiring
import CoapVerif.Model.LimiterWiring
/-!
# C16 — parallel-request limits are never exceeded and never leak

Statement (properties.jsonl): at every instant the number of client requests in flight on a connection is at most the
configured total limit and, per target path, at most the per-endpoint limit, for every interleaving of arrivals,
completions and context cancellations.  Requests waiting for the same path are admitted in arrival order, a cancelled
waiter neither takes nor gives away a slot it does not own, and once all calls have returned the limiter is idle again
so that a new request is admitted immediately.

The theorems are about `Model/Limiter.lean` (the event system of `limitParallelRequests.go` after the F6 repair:
`acquireEndpoint`'s `ctx.Done()` branch removes its own waiter, or releases if it was admitted concurrently).  They
quantify over **arbitrary event lists** – every interleaving of arrivals, cancellations, completions and internal steps
of all goroutines, both outcomes of every two-way `select` – for any number of requests, paths and any limits (a limit
≤ 0 means "unlimited", as in `New`).  `semaphore.Weighted` is modelled (FIFO, `notifyWaiters` loop), not verified.
-/
namespace CoapVerif.Props.C16
open CoapVerif.Model.Limiter CoapVerif.Lemmas.Limiter

/-! ### Wiring: every request path of a connection is the limited one

The theorems below are about the limiter object.  The property is about the **connection**, so the tie also covers how
the connection constructors (`udp/client`, also used by DTLS, and `tcp/client`: `NewConnWithOpts`) hand out the functions
through which client requests leave: the extractor lists them from the AST on every run (Generated/LimiterWiring.lean) and
the obligation is decided over that list. -/

/-- A client package is wired through the limiter when
* the limiter wraps exactly the raw `cc.do` and `cc.doObserve`;
* the observation handler (whose `do` sends the deregistration GET of `Observation.Cancel`) is given `limiter.Do`;
* `client.New` receives the limiter (`Do`, `DoObserve`, `Get`, `Post`, `Put`, `Delete`, `Observe` of the connection are
  promoted from it), nothing on `Conn` shadows `Do` / `DoObserve`, and there is no second constructor of `Conn`;
* the raw functions are mentioned nowhere else in the package, except `doInternal` inside `do` (the single exchange,
  block-wise continuations included, that runs *inside* the limiter's slot). -/
def wiredThroughLimiter (w : Generated.LimiterWiring.Wiring) : Bool :=
  w.limiterWraps == ["cc.do", "cc.doObserve"] && w.handlerDo == .limiter && w.clientLimiter == .limiter &&
  w.otherRefs.all (· == ("do", "doInternal")) && w.shadowing.isEmpty && w.connLiterals == ["NewConnWithOpts"]

/-- Every request-issuing path that a connection hands to a component or exposes to its user is the limited one
    (for the datagram client, which DTLS shares, and the stream client). -/
theorem every_request_path_is_limited :
    Generated.LimiterWiring.wirings.map (·.pkg) = ["udp/client", "tcp/client"] ∧
    Generated.LimiterWiring.wirings.all wiredThroughLimiter = true ∧
    Generated.LimiterWiring.clientEmbedsLimiter = true ∧ Generated.LimiterWiring.clientOwnDo = [] := by decide

/-- the obligation is not vacuous: handing the raw function to the observation handler (seeded change C16-D) is rejected -/
def seededWiring : Generated.LimiterWiring.Wiring where
  pkg := "tcp/client"
  limiterWraps := ["cc.do", "cc.doObserve"]
  handlerDo := .raw
  handlerDoSrc := "cc.do"
  clientLimiter := .limiter
  clientLimiterSrc := "limitParallelRequests"
  otherRefs := [("do", "doInternal")]
  shadowing := []
  connLiterals := ["NewConnWithOpts"]

example : wiredThroughLimiter seededWiring = false := by decide

/-- Per path, the requests inside the wrapped function never exceed the endpoint limit. -/
theorem endpoint_limit_inv (limit epLimit : Int) (evs : List Event) (k : Key) :
    (inFlight (run (init limit epLimit) evs) k : Int) ≤ effective epLimit := by
  have h := Inv_reachable limit epLimit evs
  have hel : (run (init limit epLimit) evs).epLimit = effective epLimit := (run_limits evs _).2
  generalize run (init limit epLimit) evs = s at h hel
  have hle : inFlight s k ≤ holders s k := by
    apply List.countP_mono_left
    intro x _ hx
    simp only [Bool.and_eq_true] at hx ⊢
    refine ⟨?_, hx.2⟩
    cases hp : s.pc x <;> simp [hp, isRunning] at hx <;> rfl
  cases he : s.eps k with
  | none =>
    have := (h.ep.none_ k he).1
    have hp := effective_pos epLimit
    omega
  | some ep =>
    obtain ⟨a, _, c, _⟩ := h.ep.some_ k ep he
    rw [hel] at c
    omega

/-- The requests inside the wrapped function never exceed the total limit. -/
theorem total_limit_inv (limit epLimit : Int) (evs : List Event) :
    (inFlightTotal (run (init limit epLimit) evs) : Int) ≤ effective limit := by
  have h := Inv_reachable limit epLimit evs
  have hl : (run (init limit epLimit) evs).limit = effective limit := (run_limits evs _).1
  generalize run (init limit epLimit) evs = s at h hl
  have hle : inFlightTotal s ≤ semHolders s := by
    apply List.countP_mono_left
    intro x _ hx
    cases hp : s.pc x <;> simp [hp, isRunning] at hx <;> rfl
  have h1 := h.sem.cur
  have h2 := h.sem.le
  rw [hl] at h2
  omega

/-- The queue of a path is always exactly the list of its parked requests in arrival order (`ids` is the arrival order). -/
theorem queue_is_arrival_order (limit epLimit : Int) (evs : List Event) (k : Key) (ep : Ep)
    (h : (run (init limit epLimit) evs).eps k = some ep) :
    ep.queue = waitingFor (run (init limit epLimit) evs) k :=
  ((Inv_reachable limit epLimit evs).ep.some_ k ep h).2.2.2

/-- Arrival appends to `ids`: whoever is already in `ids` arrived before the newcomer. -/
theorem arrive_appends (s : State) (id : Id) (k : Key) (h : s.pc id = .idle ∧ id ∉ s.ids) :
    (step s (.arrive id k)).ids = s.ids ++ [id] := by
  simp only [step, h, not_false_eq_true, and_self, if_true]
  unfold epRegister; simp only
  split
  · rfl
  · split <;> rfl

/-!
### Arrival order — what is promised and what is not

"Requests waiting for the same path are admitted in arrival order" is a statement about the **per-path queue**: requests
that wait *for the path* (all slots of the path are taken) get the path's slots in the order in which they arrived
(`Before s.ids a b`: `a` registered with the limiter before `b`).  It is proved in three forms: one event
(`fifo_per_path`), every reachable state (`no_overtake_at_endpoint`), and in terms of what a client can observe
(`fifo_observable`, the clause the judge checks).

It is **not** a promise about the order in which requests that already own a slot of their path enter the wrapped
function: with an endpoint limit ≥ 2 two requests of one path can both own a path slot and then race for the total limit
(`semaphore.Acquire`); the one whose goroutine calls `Acquire` first wins, whatever the arrival order (`example` below;
the real limiter shows this readily when two requests arrive in the same scheduling window).  The semaphore itself is
first-come-first-served in the order of the `Acquire` calls, which is not the arrival order.
-/

/-- FIFO per path, one event: while an earlier request for the same path is still parked in the path's queue, no event
    admits a later one to the path. -/
theorem fifo_per_path (limit epLimit : Int) (evs : List Event) (ev : Event) (a b : Id) :
    let s := run (init limit epLimit) evs
    s.pc a = .epQueued → s.pc b = .epQueued → s.key a = s.key b → Before s.ids a b →
    (step s ev).pc b ≠ .epGranted := by
  intro s ha hb hk hbef
  exact fifo_step (Inv_reachable limit epLimit evs) ev a b ha hb hk hbef

/-- FIFO per path, every reachable state: nobody owns a slot of a path (let alone is in flight) while a request that
    arrived earlier for the same path is still parked in the path's queue. -/
theorem no_overtake_at_endpoint (limit epLimit : Int) (evs : List Event) (a b : Id) :
    let s := run (init limit epLimit) evs
    Before s.ids a b → s.key a = s.key b → s.pc a = .epQueued → epHolder (s.pc b) = false := by
  intro s hbef hk ha
  exact NoOvertake_reachable limit epLimit evs a b hbef hk ha

/-- FIFO per path, as a client observes it (this is the `fifo` clause of the judge): when all slots of a path are in flight,
    a request of that path that arrived earlier and has neither started nor returned is waiting *for the path*, and then no
    request that arrived later for the same path is in flight. -/
theorem fifo_observable (limit epLimit : Int) (evs : List Event) (a b : Id) :
    let s := run (init limit epLimit) evs
    Before s.ids a b → s.key a = s.key b →
    s.pc a ≠ .running → isDone (s.pc a) = false →
    (inFlight s (s.key a) : Int) = effective epLimit →
    s.pc b ≠ .running := by
  intro s hbef hk hnr hnd hfull hb
  have h : Inv s := Inv_reachable limit epLimit evs
  have hel : s.epLimit = effective epLimit := (run_limits evs _).2
  obtain ⟨hma, hmb⟩ := Before_mem hbef
  -- a owns no slot: otherwise the path would have more owners than slots
  have hna : epHolder (s.pc a) = false := by
    cases hh : epHolder (s.pc a) with
    | false => rfl
    | true =>
      exfalso
      have hlt : inFlight s (s.key a) < holders s (s.key a) := by
        apply countP_lt_of_witness (a := a) _ hma
        · simp [hh]
        · have : isRunning (s.pc a) = false := by
            cases hp : s.pc a <;> simp [isRunning] <;> exact absurd hp hnr
          simp [this]
        · intro x _ hx
          simp only [Bool.and_eq_true] at hx ⊢
          refine ⟨?_, hx.2⟩
          cases hp : s.pc x <;> simp [hp, isRunning] at hx <;> rfl
      cases he : s.eps (s.key a) with
      | none => have := (h.ep.none_ _ he).1; omega
      | some ep =>
        obtain ⟨hc, _, hcl, _⟩ := h.ep.some_ _ ep he
        rw [hel] at hcl
        omega
  -- so it is parked in the path's queue, and nobody who arrived later owns a slot
  have hqa : s.pc a = .epQueued := by
    have hni : s.pc a ≠ .idle := (h.base.arrived a).mp hma
    cases hp : s.pc a <;> simp [hp, epHolder, isDone] at hna hnd hni ⊢
  have := NoOvertake_reachable limit epLimit evs a b hbef hk hqa
  rw [hb] at this
  simp [epHolder] at this

/-- Not promised (and false): the order in which requests that own a slot of their path obtain the total limit.  Total limit 1,
    endpoint limit 2: request 9 (path 5) is in flight; 0 and then 1 arrive for path 7 and both get a path slot; the goroutine
    of 1 reaches `semaphore.Acquire` first; when 9 finishes, 1 is in flight and the earlier 0 still waits for the semaphore. -/
example : let s := run (init 1 2) [.arrive 9 5, .step 9 .grant, .arrive 0 7, .arrive 1 7, .step 1 .grant, .step 0 .grant,
      .finish 9, .step 9 .grant, .step 1 .grant]
    s.ids = [9, 0, 1] ∧ s.pc 1 = .running ∧ s.pc 0 = .semQueued ∧ inFlight s 7 = 1 := by decide

/-- A cancelled request that is still parked for its path owns nothing: resolving its cancellation removes it from the
    queue and changes **nothing else** – no other request moves, no counter, no semaphore unit, no other queue. -/
theorem cancel_neutral (limit epLimit : Int) (evs : List Event) (w : Id) :
    let s := run (init limit epLimit) evs
    s.pc w = .epQueued → s.cancelled w = true →
    let s' := step s (.step w .cancel)
    s'.pc w = .done .ctx ∧ (∀ j, j ≠ w → s'.pc j = s.pc j) ∧
    s'.semCur = s.semCur ∧ s'.semWaiters = s.semWaiters ∧
    (∀ k, k ≠ s.key w → s'.eps k = s.eps k) ∧
    (∃ ep, s.eps (s.key w) = some ep ∧ s'.eps (s.key w) = some { ep with queue := ep.queue.erase w }) ∧
    (∀ k, inFlight s' k = inFlight s k) := by
  intro s hw hc s'
  have h : Inv s := Inv_reachable limit epLimit evs
  have hwm : w ∈ s.ids := mem_ids_of_pc h.base hw (by simp)
  have hs' : s' = epCancel s w := by simp only [s', step, hw, hc, if_true]
  cases he : s.eps (s.key w) with
  | none =>
    have : w ∈ waitingFor s (s.key w) := mem_waitingFor.mpr ⟨hwm, hw, rfl⟩
    rw [(h.ep.none_ _ he).2] at this; cases this
  | some ep =>
    have hq := (h.ep.some_ _ ep he).2.2.2
    have hmem : w ∈ ep.queue := by rw [hq]; exact mem_waitingFor.mpr ⟨hwm, hw, rfl⟩
    have e : s' = setPc { s with eps := upd s.eps (s.key w) (some { ep with queue := ep.queue.erase w }) } w (.done .ctx) := by
      rw [hs']; simp only [epCancel, he, hmem, if_true]
    rw [e]
    refine ⟨upd_same _ _ _, fun j hj => upd_other _ _ _ _ hj, rfl, rfl, fun k hk => upd_other _ _ _ _ hk,
      ⟨ep, rfl, upd_same _ _ _⟩, ?_⟩
    intro k
    apply List.countP_congr
    intro x _
    show (isRunning (upd s.pc w (.done .ctx) x) && s.key x == k) = true ↔ _
    by_cases hx : x = w
    · subst hx; rw [upd_same, hw]; simp [isRunning]
    · rw [upd_other _ _ _ _ hx]

/-- A cancelled request parked in the semaphore owns an endpoint slot but no semaphore unit: resolving its cancellation
    takes it out of the semaphore queue, gives no unit to anybody, and leaves it with the release of its own slot. -/
theorem cancel_neutral_sem (limit epLimit : Int) (evs : List Event) (w : Id) :
    let s := run (init limit epLimit) evs
    s.pc w = .semQueued → s.cancelled w = true →
    let s' := step s (.step w .cancel)
    s'.pc w = .relEp .ctx ∧ (∀ j, j ≠ w → s'.pc j = s.pc j) ∧
    s'.semCur = s.semCur ∧ s'.semWaiters = s.semWaiters.erase w ∧ s'.eps = s.eps := by
  intro s hw hc s'
  have h : Inv s := Inv_reachable limit epLimit evs
  have hiw : w ∈ s.semWaiters := (h.sem.mem w).mpr hw
  have hne : s.semWaiters ≠ [] := by intro hh; rw [hh] at hiw; cases hiw
  have hfull := h.sem.full hne
  have hno : ¬ (s.semWaiters.head? = some w ∧ s.limit > s.semCur) := by intro hh; omega
  have hng : s.pc w ≠ .semGranted := by rw [hw]; simp
  have e : s' = setPc { s with semWaiters := s.semWaiters.erase w } w (.relEp .ctx) := by
    show step s (.step w .cancel) = _
    simp only [step, hw, hc, if_true]
    unfold semCancel
    rw [if_neg hng]
    simp only [hno, if_false]
  rw [e]
  exact ⟨upd_same _ _ _, fun j hj => upd_other _ _ _ _ hj, rfl, rfl, rfl⟩

/-- A request whose context is done never enters the wrapped function afterwards. -/
theorem cancelled_never_starts (s : State) (ev : Event) (id : Id)
    (hc : s.cancelled id = true) (hr : s.pc id ≠ .running) : (step s ev).pc id ≠ .running := by
  by_cases ha : id = actor ev
  · cases ev with
    | arrive i k =>
      simp only [actor] at ha; subst ha
      simp only [step]
      split
      · unfold epRegister; simp only
        split
        · simp
        · split <;> simp
      · exact hr
    | cancel i => exact hr
    | finish i =>
      simp only [actor] at ha; subst ha
      simp only [step]
      split
      · simp [setPc]
      · exact hr
    | step i br =>
      simp only [actor] at ha; subst ha
      have h1 : (epCancel s id).pc id ≠ .running := by
        unfold epCancel
        simp only
        split
        · simp [setPc]
        · split <;> simp [setPc]
      have h2 : (semCancel s id).pc id ≠ .running := by
        unfold semCancel
        split
        · simp [setPc]
        · simp only
          split <;> simp [setPc]
      have h3 : (semAcquire s id).pc id ≠ .running := by
        unfold semAcquire
        simp [hc, setPc]
      cases hp : s.pc id <;> cases br <;> simp only [step, hp, hc, if_true]
      all_goals first
        | exact h1
        | exact h2
        | exact h3
        | (rw [hp] at hr; exact hr)
        | (intro hh; cases hh)
        | simp [setPc]
  · rcases step_pc_other s ev id ha with h1 | h1 | h1
    · rw [h1]; exact hr
    · rw [h1.2]; simp
    · rw [h1.2]; simp

/-- Once every call has returned the limiter holds nothing: no endpoint entry, no semaphore unit, no waiter. -/
theorem idle_after_all (limit epLimit : Int) (evs : List Event)
    (hall : allReturned (run (init limit epLimit) evs)) : isIdle (run (init limit epLimit) evs) := by
  have h := Inv_reachable limit epLimit evs
  generalize run (init limit epLimit) evs = s at h hall
  have hnoHold : ∀ k, holders s k = 0 := by
    intro k
    apply List.countP_eq_zero.mpr
    intro x hx
    have := hall x hx
    cases hp : s.pc x <;> simp [hp, isDone] at this
    simp [epHolder]
  refine ⟨?_, ?_, ?_⟩
  · intro k
    cases he : s.eps k with
    | none => rfl
    | some ep =>
      obtain ⟨a, b, _, _⟩ := h.ep.some_ k ep he
      have := hnoHold k
      omega
  · have : semHolders s = 0 := by
      apply List.countP_eq_zero.mpr
      intro x hx
      have := hall x hx
      cases hp : s.pc x <;> simp [hp, isDone] at this
      simp [semHolder]
    have h1 := h.sem.cur
    omega
  · cases hw : s.semWaiters with
    | nil => rfl
    | cons w t =>
      have hq : s.pc w = .semQueued := (h.sem.mem w).mp (by rw [hw]; simp)
      have hm : w ∈ s.ids := mem_ids_of_pc h.base hq (by simp)
      have := hall w hm
      rw [hq] at this; simp [isDone] at this

/-- … so that a new request is admitted immediately: in an idle limiter a fresh request is inside the wrapped function
    after its own two steps, whatever its path. -/
theorem fresh_admitted (limit epLimit : Int) (evs : List Event) (id : Id) (k : Key) :
    let s := run (init limit epLimit) evs
    isIdle s → id ∉ s.ids → s.cancelled id = false →
    (run s [.arrive id k, .step id .grant]).pc id = .running := by
  intro s hidle hn hc
  have h : Inv s := Inv_reachable limit epLimit evs
  have hp : s.pc id = .idle := by
    by_cases hh : s.pc id = .idle
    · exact hh
    · exact absurd ((h.base.arrived id).mpr hh) hn
  obtain ⟨he, hcur, hws⟩ := hidle
  have hlim := h.base.limit_pos
  have e1 : step s (.arrive id k) =
      { s with key := upd s.key id k, ids := s.ids ++ [id], eps := upd s.eps k (some ⟨1, []⟩), pc := upd s.pc id .epGranted } := by
    simp only [step, hp, hn, not_false_eq_true, and_self, if_true, epRegister, he k]
  show (step (step s (.arrive id k)) (.step id .grant)).pc id = .running
  rw [e1]
  have hl0 : s.limit - 0 ≥ 1 := by omega
  simp only [step, upd_same, semAcquire, hc, hcur, hws, setPc, hl0, and_self, if_true, Bool.false_eq_true, if_false]

/-- nothing can happen without a new arrival, cancellation or completion: no goroutine has an enabled internal step -/
def Quiescent (s : State) : Prop := ∀ id ∈ s.ids, enabledBranches s id = []

/-- No capacity is lost: whenever everything has settled, a request that still waits (and was not cancelled) is held back
    by a limit that is really exhausted — its path has `endpointLimit` requests in flight, or the connection has
    `limit` requests in flight. -/
theorem waiting_justified (limit epLimit : Int) (evs : List Event) (w : Id) :
    let s := run (init limit epLimit) evs
    Quiescent s → (s.pc w = .epQueued ∨ s.pc w = .semQueued) →
    (inFlight s (s.key w) : Int) = effective epLimit ∨ (inFlightTotal s : Int) = effective limit := by
  intro s hq hw
  have h : Inv s := Inv_reachable limit epLimit evs
  have hf : QFull s := QFull_reachable limit epLimit evs
  have hl : s.limit = effective limit := (run_limits evs _).1
  have hel : s.epLimit = effective epLimit := (run_limits evs _).2
  -- at quiescence an arrived request is parked, running or done
  have hclass : ∀ j ∈ s.ids, s.pc j = .epQueued ∨ s.pc j = .semQueued ∨ s.pc j = .running ∨ ∃ r, s.pc j = .done r := by
    intro j hj
    have he := hq j hj
    have hne : s.pc j ≠ .idle := (h.base.arrived j).mp hj
    cases hp : s.pc j <;> simp [enabledBranches, hp] at he hne ⊢
  have hsem : semHolders s = inFlightTotal s := by
    apply List.countP_congr
    intro j hj
    rcases hclass j hj with hp | hp | hp | ⟨r, hp⟩ <;> simp [hp, semHolder, isRunning]
  -- if somebody is parked in the semaphore, the semaphore is full and all its units are in flight
  have hsemfull : ∀ j, s.pc j = .semQueued → (inFlightTotal s : Int) = effective limit := by
    intro j hj
    have hmem : j ∈ s.semWaiters := (h.sem.mem j).mpr hj
    have hne : s.semWaiters ≠ [] := by intro hh; rw [hh] at hmem; cases hmem
    have := h.sem.full hne
    have hc := h.sem.cur
    rw [← hl, ← hsem]; omega
  rcases hw with hw | hw
  · -- parked for its path
    have hwm : w ∈ s.ids := mem_ids_of_pc h.base hw (by simp)
    have hwq : w ∈ waitingFor s (s.key w) := mem_waitingFor.mpr ⟨hwm, hw, rfl⟩
    cases he : s.eps (s.key w) with
    | none => rw [(h.ep.none_ _ he).2] at hwq; cases hwq
    | some ep =>
      obtain ⟨hc, _, _, hqq⟩ := h.ep.some_ _ ep he
      have hne : ep.queue ≠ [] := by rw [hqq]; intro hh; rw [hh] at hwq; cases hwq
      have hfull := hf _ ep he hne
      by_cases hex : ∃ j ∈ s.ids, s.pc j = .semQueued
      · obtain ⟨j, _, hj⟩ := hex
        exact Or.inr (hsemfull j hj)
      · left
        have : holders s (s.key w) = inFlight s (s.key w) := by
          apply List.countP_congr
          intro j hj
          rcases hclass j hj with hp | hp | hp | ⟨r, hp⟩
          · simp [hp, epHolder, isRunning]
          · exact absurd ⟨j, hj, hp⟩ hex
          · simp [hp, epHolder, isRunning]
          · simp [hp, epHolder, isRunning]
        rw [← hel, ← this]; omega
  · exact Or.inr (hsemfull w hw)

/-! ### Connections made by the real constructors: options and servers

For a connection **accepted by a server** the property reads: at most the limits the *server* was configured with
(`options.WithLimitClientParallelRequest`, `WithLimitClientEndpointParallelRequest`).  The servers build the Config of an
accepted connection from the client package's `DefaultConfig`; at the reviewed revision they assign neither limit, so accepted
connections run with the defaults 1 / 1 — stricter than any configuration, hence within it.  A server may also hand down its
own setting **of the same limit**; anything else (e.g. the total limit used as the per-path limit) is rejected by
`server_and_option_wiring`, and `accepted_connection_within_configured` concludes the limits for whatever the extractor
found. -/

/-- a server may only leave a limit at its default or assign it from its own configuration of the same name -/
def serverWiredOk (w : Generated.LimiterWiring.ServerWiring) : Bool :=
  (w.base == "udpClient.DefaultConfig" || w.base == "client.DefaultConfig") &&
  w.sets.all (fun a => (a.1 == "LimitClientParallelRequests" || a.1 == "LimitClientEndpointParallelRequests") && a.2 == "s.cfg." ++ a.1)

/-- an `Apply` method of a limit option sets the Config field of its own limit from its own field -/
def optionApplyOk (a : String × String × String × String) : Bool :=
  (a.1 == "LimitClientParallelRequestOpt" && a.2.2.1 == "cfg.LimitClientParallelRequests" && a.2.2.2 == "o.limitClientParallelRequests") ||
  (a.1 == "LimitClientEndpointParallelRequestOpt" && a.2.2.1 == "cfg.LimitClientEndpointParallelRequests" &&
    a.2.2.2 == "o.limitClientEndpointParallelRequests")

/-- The set-up that the hand-built harness connections bypass, read from the source on every run: the three servers build accepted
    connections from `DefaultConfig` and assign a limit only from their own setting of that limit; the defaults are 1 / 1 (the
    smallest limits there are); every `…Apply` method of the two limit options (client and server Configs of all transports) and
    both `With…` constructors set the right field from the right value. -/
theorem server_and_option_wiring :
    Generated.LimiterWiring.serverWirings.map (·.pkg) = ["dtls/server", "tcp/server", "udp/server"] ∧
    Generated.LimiterWiring.serverWirings.all serverWiredOk = true ∧
    Generated.LimiterWiring.udpDefaultLimits = (1, 1) ∧ Generated.LimiterWiring.tcpDefaultLimits = (1, 1) ∧
    Generated.LimiterWiring.optionApplies.all optionApplyOk = true ∧
    Generated.LimiterWiring.optionApplies.map (fun a => (a.1, a.2.1)) =
      [("LimitClientParallelRequestOpt", "TCPServerApply"), ("LimitClientParallelRequestOpt", "TCPClientApply"),
       ("LimitClientParallelRequestOpt", "UDPServerApply"), ("LimitClientParallelRequestOpt", "DTLSServerApply"),
       ("LimitClientParallelRequestOpt", "UDPClientApply"),
       ("LimitClientEndpointParallelRequestOpt", "TCPServerApply"), ("LimitClientEndpointParallelRequestOpt", "TCPClientApply"),
       ("LimitClientEndpointParallelRequestOpt", "UDPServerApply"), ("LimitClientEndpointParallelRequestOpt", "DTLSServerApply"),
       ("LimitClientEndpointParallelRequestOpt", "UDPClientApply")] ∧
    Generated.LimiterWiring.optionCtors =
      [("WithLimitClientParallelRequest", "LimitClientParallelRequestOpt", "limitClientParallelRequests", "param"),
       ("WithLimitClientEndpointParallelRequest", "LimitClientEndpointParallelRequestOpt", "limitClientEndpointParallelRequests", "param")] := by
  decide

/-- the seeded slip (C16-G: the DTLS server assigns the per-path limit from its total limit) is rejected -/
def seededServerWiring : Generated.LimiterWiring.ServerWiring where
  pkg := "dtls/server"
  fn := "createConn"
  base := "udpClient.DefaultConfig"
  sets := [("LimitClientParallelRequests", "s.cfg.LimitClientParallelRequests"),
           ("LimitClientEndpointParallelRequests", "s.cfg.LimitClientParallelRequests")]

example : serverWiredOk seededServerWiring = false := by decide

/-- one place that can change a limit field of a Config is legitimate when it is: the `Apply` method of the limit option of this
    very field, assigning the option's own value (`optionApplies`, judged by `optionApplyOk` above); a server's connection
    set-up handing down its own setting of the same limit; or the defaults (1) in `config.NewCommon` -/
def limitWriteOk (w : String × String × String × String × String) : Bool :=
  (w.1 == "options/commonOptions.go" && w.2.2.2.1 == "assign" &&
    Generated.LimiterWiring.optionApplies.any (fun a => a.1 ++ "." ++ a.2.1 == w.2.1 && a.2.2.1 == "cfg." ++ w.2.2.1 && a.2.2.2 == w.2.2.2.2)) ||
  (w.2.2.2.1 == "assign" && w.2.2.2.2 == "s.cfg." ++ w.2.2.1 &&
    Generated.LimiterWiring.serverWirings.any (fun s => s.pkg ++ "/server.go" == w.1 && "Server." ++ s.fn == w.2.1)) ||
  (w.1 == "options/config/common.go" && w.2.1 == "NewCommon" && w.2.2.2.1 == "literal" && w.2.2.2.2 == "1")

/-- The converse of `server_and_option_wiring`: NOBODY ELSE writes the two limit fields. Over all non-test Go files of the
    repository, every assignment / increment / address-of / literal initialisation of `LimitClientParallelRequests` or
    `LimitClientEndpointParallelRequests` is one of the legitimate ones - so whatever other options stand before or after the
    limit options in an option list, the limiter is constructed with the limits the limit options gave (or the defaults). -/
theorem limits_written_only_by_limit_options :
    Generated.LimiterWiring.limitFieldWrites.all limitWriteOk = true ∧
    (Generated.LimiterWiring.limitFieldWrites.filter (fun w => w.2.2.2.1 != "literal")).length =
      Generated.LimiterWiring.optionApplies.length +
      (Generated.LimiterWiring.serverWirings.map (·.sets.length)).foldl (· + ·) 0 := by
  decide

/-- the seeded interaction (C16-L: `WithTransmission` raising the total limit to NSTART on the udp client Config) is rejected -/
example : limitWriteOk ("options/udpOptions.go", "TransmissionOpt.UDPClientApply", "LimitClientParallelRequests", "assign", "nStart") = false := by
  decide

theorem effective_one_le (l : Int) : effective 1 ≤ effective l := by
  have := effective_pos l
  have e : effective 1 = 1 := by decide
  omega

/-- On a connection accepted by a server configured with `L` / `E` — whichever of the two limits the server hands down, the
    other staying at its default 1 — the requests the server has in flight never exceed `E` per path nor `L` in total, in every
    interleaving. -/
theorem accepted_connection_within_configured (w : Generated.LimiterWiring.ServerWiring) (L E : Int) (evs : List Event) (k : Key) :
    let lim := Model.LimiterWiring.acceptedLimits w (1, 1) L E
    (inFlight (run (init lim.1 lim.2) evs) k : Int) ≤ effective E ∧
    (inFlightTotal (run (init lim.1 lim.2) evs) : Int) ≤ effective L := by
  intro lim
  have h1 := endpoint_limit_inv lim.1 lim.2 evs k
  have h2 := total_limit_inv lim.1 lim.2 evs
  have e2 : effective lim.2 ≤ effective E := by
    simp only [lim, Model.LimiterWiring.acceptedLimits]
    split
    · exact Int.le_refl _
    · exact effective_one_le E
  have e1 : effective lim.1 ≤ effective L := by
    simp only [lim, Model.LimiterWiring.acceptedLimits]
    split
    · exact Int.le_refl _
    · exact effective_one_le L
  omega

/-- a server that assigns neither limit (the reviewed revision) gives its accepted connections 1 / 1 whatever it was configured with;
    one that hands both down gives them its configuration; a client constructor's connection runs with the options' values -/
def plainServerWiring : Generated.LimiterWiring.ServerWiring where
  pkg := "dtls/server"
  fn := "createConn"
  base := "udpClient.DefaultConfig"
  sets := []

def handingDownServerWiring : Generated.LimiterWiring.ServerWiring where
  pkg := "dtls/server"
  fn := "createConn"
  base := "udpClient.DefaultConfig"
  sets := [("LimitClientParallelRequests", "s.cfg.LimitClientParallelRequests"),
           ("LimitClientEndpointParallelRequests", "s.cfg.LimitClientEndpointParallelRequests")]

example : Model.LimiterWiring.acceptedLimits plainServerWiring (1, 1) 4 1 = (1, 1) ∧
    Model.LimiterWiring.acceptedLimits handingDownServerWiring (1, 1) 4 1 = (4, 1) ∧
    serverWiredOk plainServerWiring = true ∧ serverWiredOk handingDownServerWiring = true ∧
    Model.LimiterWiring.limitsFor "tcpcli" 4 1 = (4, 1) := by decide

/-! ### Non-vacuity: concrete histories (limit 2, endpoint limit 1, three requests for one path) -/

/-- the F6 scenario: owner 0 in flight, 1 and 2 parked, the non-head waiter 2 is cancelled -/
def exampleEvs : List Event :=
  [.arrive 0 7, .step 0 .grant, .arrive 1 7, .arrive 2 7, .cancel 2, .step 2 .cancel]

example : let s := run (init 2 1) exampleEvs
    s.pc 0 = .running ∧ s.pc 1 = .epQueued ∧ s.pc 2 = .done .ctx ∧ s.eps 7 = some ⟨1, [1]⟩ ∧ inFlight s 7 = 1 := by decide

/-- hypotheses of `fifo_per_path` / `cancel_neutral` are satisfiable: before the cancel both 1 and 2 wait, 1 before 2 -/
example : let s := run (init 2 1) (exampleEvs.take 5)
    s.pc 1 = .epQueued ∧ s.pc 2 = .epQueued ∧ s.key 1 = s.key 2 ∧ s.cancelled 2 = true ∧ s.ids = [0, 1, 2] := by decide

example : Before [0, 1, 2] 1 2 := ⟨[0], [2], rfl, by simp⟩

/-- hypotheses of `fifo_observable`: all slots of path 7 in flight (request 0), 1 and 2 waiting, 1 before 2 -/
example : let s := run (init 2 1) (exampleEvs.take 4)
    s.ids = [0, 1, 2] ∧ s.key 1 = s.key 2 ∧ s.pc 1 ≠ .running ∧ isDone (s.pc 1) = false ∧
      (inFlight s (s.key 1) : Int) = effective 1 ∧ s.pc 2 ≠ .running := by decide

/-- a settled state with a waiter: 0 in flight, 1 parked behind it (hypotheses of `waiting_justified`) -/
example : let s := run (init 2 1) [.arrive 0 7, .step 0 .grant, .arrive 1 7]
    (∀ id ∈ s.ids, enabledBranches s id = []) ∧ s.pc 1 = .epQueued ∧ inFlight s 7 = 1 := by decide

/-- the owner finishes: the head waiter is admitted, and after everybody returned the limiter is idle -/
example : let s := run (init 2 1) (exampleEvs ++ [.finish 0, .step 0 .grant, .step 0 .grant, .step 1 .grant])
    s.pc 0 = .done .ok ∧ s.pc 1 = .running := by decide

example : let s := run (init 2 1) (exampleEvs ++ [.finish 0, .step 0 .grant, .step 0 .grant, .step 1 .grant,
      .finish 1, .step 1 .grant, .step 1 .grant])
    (∀ id ∈ s.ids, isDone (s.pc id) = true) ∧ s.eps 7 = none ∧ s.semCur = 0 ∧ s.semWaiters = [] := by decide

/-- a request parked in the semaphore (total limit 1, two paths) that is cancelled: hypotheses of `cancel_neutral_sem` -/
example : let s := run (init 1 1) [.arrive 0 1, .step 0 .grant, .arrive 1 2, .step 1 .grant, .cancel 1]
    s.pc 1 = .semQueued ∧ s.cancelled 1 = true ∧ s.semWaiters = [1] := by decide

end CoapVerif.Props.C16

section Audit
open CoapVerif.Props.C16
#print axioms every_request_path_is_limited
#print axioms server_and_option_wiring
#print axioms limits_written_only_by_limit_options
#print axioms effective_one_le
#print axioms accepted_connection_within_configured
#print axioms endpoint_limit_inv
#print axioms total_limit_inv
#print axioms queue_is_arrival_order
#print axioms arrive_appends
#print axioms fifo_per_path
#print axioms no_overtake_at_endpoint
#print axioms fifo_observable
#print axioms cancel_neutral
#print axioms cancel_neutral_sem
#print axioms cancelled_never_starts
#print axioms idle_after_all
#print axioms fresh_admitted
#print axioms waiting_justified
end Audit
