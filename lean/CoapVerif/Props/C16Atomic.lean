import CoapVerif.Props.C16
import CoapVerif.Model.LimiterTwoStep
import CoapVerif.Generated.SyncShape
/-!
# C16 — why `acquireEndpoint` / `releaseEndpoint` are atomic read-modify-writes of the per-path entry

Statement (properties.jsonl): at every instant the number of client requests in flight on a connection is at most the
configured total limit and, per target path, at most the per-endpoint limit, **for every interleaving of arrivals, completions
and context cancellations** …

The theorems of `Props/C16.lean` are about `Model/Limiter.lean`, in which an arrival (`LoadOrStoreWithFunc` of the endpoint
table with the limiter's callback pair) is one atomic event.  This file states and proves what that rests on
(`Model/LimiterTwoStep.lean` splits the arrival into the look-up of the entry and the run of the callbacks, with arbitrary
events of the other goroutines in between):

* `current_element_refines_atomic` — if every callback run happens on the element that is CURRENTLY in the table, every run
  of the two-step system is, look-ups erased, a run of the atomic model: for all event lists, all limits.
* `one_section_is_current` / `reviewed_shape_refines_atomic` — look-up and callbacks in one critical section (the shape of
  `LoadOrStoreWithFunc` in the reviewed source, `loswf_is_one_write_section`, re-read from the AST on every run) give exactly
  that guarantee; so every theorem about `Model/Limiter.lean` is a theorem about the two-step system of that shape
  (`endpoint_limit_two_step` spells out the first one).
* `stale_element_not_refined` — WITHOUT the guarantee (the callback applied to the element that was found before the write
  lock was taken, seeded change C16-U) the atomic model is not refined: a concrete run admits a request against the counter
  of an orphaned entry and ends with two requests in flight on a path with endpoint limit 1, which no run of the atomic
  model does.

On the real code the guarantee is observed, not assumed: harness/c14 `loswfr` (the callback of `LoadOrStoreWithFunc` compares
its argument with the element in the map, C14 clause callbacks-see-current-value) and the limiter itself over the
cooperative-mutex table (harness/c14/limiter_test.go, judged by Spec/Limiter.lean).
-/
namespace CoapVerif.Props.C16Atomic
open CoapVerif.Model.Limiter CoapVerif.Model.LimiterTwoStep

/-- `LoadOrStoreWithFunc` is ONE write-locked section that contains the look-up, both callbacks and the store (extracted). -/
theorem loswf_is_one_write_section :
    Generated.SyncShape.mapMethods.lookup "LoadOrStoreWithFunc"
      = some [(.w, [.read, .cb "onLoadFunc", .cb "createFunc", .write])] := by decide

theorem run2_cons (x : S2) (e : Ev2) (es : List Ev2) : run2 x (e :: es) = run2 (step2 x e) es := rfl

theorem run_cons (s : State) (e : Event) (es : List Event) : run s (e :: es) = run (step s e) es := rfl

/-- **Refinement.**  When every run of the callback pair happens on the element that is currently in the table, the two-step
    system does exactly what the atomic model does with the look-ups erased — every interleaving, any limits. -/
theorem current_element_refines_atomic (evs : List Ev2) (x : S2) (h : GoodRun x evs) :
    (run2 x evs).s = run x.s (abs evs) := by
  induction evs generalizing x with
  | nil => rfl
  | cons e es ih =>
    obtain ⟨he, hes⟩ := h
    rw [run2_cons, ih _ hes]
    cases e with
    | lookup id k => rfl
    | other e => rfl
    | apply id k =>
      simp only [Current] at he
      simp [step2, he, lift, abs, run_cons]

/-- Look-up and callbacks in one critical section: the element found IS the current one. -/
theorem one_section_is_current (x : S2) (id : Id) (k : Key) : Current (step2 x (.lookup id k)) id k := by
  unfold Current
  simp only [step2, upd_same]
  rfl

theorem abs_oneSection (l : List ((Id × Key) ⊕ Event)) : abs (oneSection l) = atomicOf l := by
  induction l with
  | nil => rfl
  | cons e es ih =>
    cases e with
    | inl p => obtain ⟨id, k⟩ := p; simp [oneSection, abs, atomicOf, ih]
    | inr e => simp [oneSection, abs, atomicOf, ih]

theorem oneSection_good (l : List ((Id × Key) ⊕ Event)) (x : S2) : GoodRun x (oneSection l) := by
  induction l generalizing x with
  | nil => trivial
  | cons e es ih =>
    cases e with
    | inl p =>
      obtain ⟨id, k⟩ := p
      exact ⟨trivial, one_section_is_current x id k, ih _⟩
    | inr e => exact ⟨trivial, ih _⟩

/-- The reviewed shape refines the atomic model: arrivals whose look-up and callbacks are one section, interleaved in any way
    with any other events, are runs of `Model/Limiter.lean`. -/
theorem reviewed_shape_refines_atomic (l : List ((Id × Key) ⊕ Event)) (limit epLimit : Int) :
    (run2 (init2 limit epLimit) (oneSection l)).s = run (init limit epLimit) (atomicOf l) := by
  rw [current_element_refines_atomic _ _ (oneSection_good l _), abs_oneSection]
  rfl

/-- … hence, e.g., the per-path limit for the two-step system of the reviewed shape. -/
theorem endpoint_limit_two_step (l : List ((Id × Key) ⊕ Event)) (limit epLimit : Int) (k : Key) :
    (inFlight (run2 (init2 limit epLimit) (oneSection l)).s k : Int) ≤ effective epLimit := by
  rw [reviewed_shape_refines_atomic]
  exact Props.C16.endpoint_limit_inv limit epLimit _ k

/-! ### without the guarantee -/

/-- total limit 2, endpoint limit 1, path 7.  Request 0 is in flight; request 1 looks the entry up; request 0 finishes and
    `releaseEndpoint` drops the entry (counter 0, queue empty); request 1's `onLoad` runs on the dropped entry: counter 0 < 1,
    admitted; request 2 finds no entry, creates one, admitted. -/
def staleRun : List Ev2 :=
  [.lookup 0 7, .apply 0 7, .other (.step 0 .grant),
   .lookup 1 7,
   .other (.finish 0), .other (.step 0 .grant), .other (.step 0 .grant),
   .apply 1 7, .other (.step 1 .grant),
   .lookup 2 7, .apply 2 7, .other (.step 2 .grant)]

/-- the run is NOT good: when request 1's callbacks run (8th event), the element it found (stamp 1) is not in the table -/
example : let x := run2 (init2 2 1) (staleRun.take 7)
    ¬ Current x 1 7 ∧ x.found 1 = some (some 1) ∧ curStamp x 7 = none := by decide

/-- what it ends in: requests 1 and 2 both inside the wrapped function, the table's entry counts one of them, the orphan
    the other -/
theorem stale_run_result :
    let x := run2 (init2 2 1) staleRun
    inFlight x.s 7 = 2 ∧ x.s.pc 1 = .running ∧ x.s.pc 2 = .running ∧ x.s.eps 7 = some ⟨1, []⟩ ∧ x.orph 7 1 = ⟨1, []⟩ := by
  decide

/-- **Witness.**  Without "the callback runs on the current element" the atomic model is not refined: the state the stale run
    ends in is not the state of ANY run of the atomic model with these limits. -/
theorem stale_element_not_refined : ∀ evs : List Event, (run2 (init2 2 1) staleRun).s ≠ run (init 2 1) evs := by
  intro evs h
  have h1 := Props.C16.endpoint_limit_inv 2 1 evs 7
  rw [← h] at h1
  have h2 : inFlight (run2 (init2 2 1) staleRun).s 7 = 2 := stale_run_result.1
  rw [h2] at h1
  revert h1
  decide

/-- the same arrivals with the guarantee (look-up and callbacks in one section): request 1 queues behind request 0 and is
    admitted when 0 has released, request 2 waits — one request in flight (non-vacuity of the refinement) -/
example :
    let l : List ((Id × Key) ⊕ Event) :=
      [.inl (0, 7), .inr (.step 0 .grant), .inl (1, 7), .inr (.finish 0), .inr (.step 0 .grant), .inr (.step 0 .grant),
       .inr (.step 1 .grant), .inl (2, 7)]
    let x := run2 (init2 2 1) (oneSection l)
    inFlight x.s 7 = 1 ∧ x.s.pc 1 = .running ∧ x.s.pc 2 = .epQueued ∧ x.s.eps 7 = some ⟨1, [2]⟩ := by decide

end CoapVerif.Props.C16Atomic

section Audit
open CoapVerif.Props.C16Atomic
#print axioms loswf_is_one_write_section
#print axioms run2_cons
#print axioms run_cons
#print axioms current_element_refines_atomic
#print axioms one_section_is_current
#print axioms abs_oneSection
#print axioms oneSection_good
#print axioms reviewed_shape_refines_atomic
#print axioms endpoint_limit_two_step
#print axioms stale_run_result
#print axioms stale_element_not_refined
end Audit
