import CoapVerif.Model.Limiter
import CoapVerif.Model.LimiterQueueSlice
/-!
# C16 — the per-path waiter queue is a Go slice: what the model's list stands for, at any length

Statement (properties.jsonl): … **Requests waiting for the same path are admitted in arrival order, a cancelled waiter neither
takes nor gives away a slot it does not own**, and once all calls have returned the limiter is idle again …

`Model/Limiter.lean` keeps the waiters of a path as a list (`Ep.queue`): an arrival that finds the path full does
`queue ++ [id]`, a release takes the head (`h :: t ↦ t`), a cancelled waiter is erased.  The code keeps a slice
`orderedRequest []chan struct{}`: `append`, `q[1:]`, `slices.Delete`.  The theorems of `Props/C16.lean` quantify over event
lists of any length, so over queues of any length — but they are about the list.  This file proves that the list IS the
contents of the slice, whatever its length and whatever the capacity and the history of its backing array
(`Model/LimiterQueueSlice.lean`):

* `append_refines`, `pop_refines`, `delete_refines` (bundle `slice_queue_refines_list`) — each slice operation of the reviewed
  code acts on the contents exactly as the model's list operation does; `pop_cap` records that a pop lowers the capacity
  together with the length (which is why only a burst of more than 64 waiters, drained, ever has a large and sparsely
  used array).
* `shrinkCopy_contents` — a step that moves the queue to a smaller array keeps the refinement if it copies into a slice of the
  queue's LENGTH.
* `copy_into_empty_copies_nothing`, `shrinkIntoEmpty_contents`, `seeded_shrink_loses_waiters` — the seeded shape C16-W
  (`make(…, 0, cap/2)` then `copy`) does not: when it fires the contents become empty; concretely a burst of 65 waiters
  drained by 44 pops has 21 waiters in an array of 84 cells, and the step leaves none.  `below_threshold_unchanged`: with an array
  of fewer than 64 cells the step is the identity — histories with a handful of waiters cannot tell the difference, which is
  why the generated set permanently contains bursts of 63..129 (thorough ..300) waiters on one path (checks/c16.py).

On the real code the situation is executed, not assumed: harness/c16 `burst` / the fixed burst histories, judged by
Spec/Limiter.lean (leak, endpoint-limit, fifo) and checked for trace inclusion in the model.
-/
namespace CoapVerif.Props.C16Queue
open CoapVerif.Model.LimiterQueueSlice CoapVerif.Model.LimiterQueueSlice.GoSlice

/-- the slice `q` holds exactly the model's queue `l` -/
def Holds (q : GoSlice) (l : List Nat) : Prop := q.WF ∧ q.contents = l

theorem take_set_succ (cells : List Nat) (n x : Nat) (h : n < cells.length) :
    (cells.set n x).take (n + 1) = cells.take n ++ [x] := by
  induction cells generalizing n with
  | nil => simp at h
  | cons a t ih =>
    cases n with
    | zero => simp
    | succ m =>
      simp only [List.length_cons] at h
      simp only [List.set_cons_succ, List.take_succ_cons, List.cons_append]
      rw [ih m (by omega)]

/-- `append(q, x)` (`acquireEndpoint`, path full) is `queue ++ [id]` -/
theorem append_refines (q : GoSlice) (l : List Nat) (x : Nat) (h : Holds q l) : Holds (q.append x) (l ++ [x]) := by
  obtain ⟨wf, hc⟩ := h
  unfold GoSlice.append
  by_cases hlt : q.len < q.cells.length
  · simp only [hlt, if_true]
    refine ⟨?_, ?_⟩
    · simp only [WF, List.length_set]; omega
    · simp only [contents]; rw [take_set_succ _ _ _ hlt]; rw [← hc]; rfl
  · simp only [hlt, if_false]
    have hlen : q.contents.length = q.len := by simp only [contents, List.length_take]; unfold WF at wf; omega
    refine ⟨?_, ?_⟩
    · simp only [WF, List.length_append, List.length_cons, List.length_replicate, hlen]; omega
    · have e : ∀ R : List Nat, q.contents ++ x :: R = (q.contents ++ [x]) ++ R := by intro R; simp
      show List.take (q.len + 1) (q.contents ++ x :: List.replicate (grown q.cells.length - (q.len + 1)) 0) = l ++ [x]
      rw [e, List.take_append_of_le_length (by simp [hlen]), List.take_of_length_le (by simp [hlen]), hc]

/-- `q[1:]` (`releaseEndpoint` hands the slot to the first waiter) is `h :: t ↦ t` -/
theorem pop_refines (q : GoSlice) (h : Nat) (t : List Nat) (hq : Holds q (h :: t)) : Holds q.pop t := by
  obtain ⟨wf, hc⟩ := hq
  unfold WF at wf
  cases hcells : q.cells with
  | nil => simp [contents, hcells] at hc
  | cons a rest =>
    have hpos : 0 < q.len := by
      cases hl : q.len with
      | zero => simp [contents, hl] at hc
      | succ m => omega
    obtain ⟨m, hm⟩ : ∃ m, q.len = m + 1 := ⟨q.len - 1, by omega⟩
    refine ⟨?_, ?_⟩
    · simp only [WF, pop, hcells, List.tail_cons, hm]; rw [hcells] at wf; simp only [List.length_cons] at wf; omega
    · simp only [contents, pop, hcells, List.tail_cons, hm] at hc ⊢
      simp only [Nat.add_sub_cancel, List.take_succ_cons, List.cons.injEq] at hc ⊢
      exact hc.2

/-- a pop lowers the capacity together with the length: the array of a burst stays as large as the burst made it only in the
    part behind the queue -/
theorem pop_cap (q : GoSlice) : q.pop.cap = q.cap - 1 := by simp [pop, cap]

theorem pop_len (q : GoSlice) : q.pop.len = q.len - 1 := rfl

/-- `slices.Delete(q, i, i+1)` (`cancelEndpoint` withdraws a queued waiter) removes the `i`-th waiter and nothing else; the
    capacity is unchanged -/
theorem delete_refines (q : GoSlice) (l : List Nat) (i : Nat) (h : Holds q l) : Holds (q.delete i) (l.eraseIdx i) := by
  obtain ⟨wf, hc⟩ := h
  unfold WF at wf
  have hlen : q.contents.length = q.len := by simp only [contents, List.length_take]; omega
  unfold GoSlice.delete
  by_cases hi : i < q.len
  · simp only [hi, if_true]
    have hel : (q.contents.eraseIdx i).length = q.len - 1 := by rw [List.length_eraseIdx]; simp [hlen, hi]
    refine ⟨?_, ?_⟩
    · simp only [WF, List.length_append, hel, List.length_cons, List.length_drop]; omega
    · show List.take (q.len - 1) (q.contents.eraseIdx i ++ 0 :: q.cells.drop q.len) = l.eraseIdx i
      rw [List.take_append_of_le_length (by omega), List.take_of_length_le (by omega), hc]
  · simp only [hi, if_false]
    refine ⟨wf, ?_⟩
    rw [hc, List.eraseIdx_of_length_le]
    rw [← hc, hlen]; omega

theorem delete_cap (q : GoSlice) (i : Nat) (wf : q.WF) : (q.delete i).cap = q.cap := by
  unfold WF at wf
  unfold GoSlice.delete
  by_cases hi : i < q.len
  · simp only [hi, if_true, cap, List.length_append, List.length_cons, List.length_drop, List.length_eraseIdx, contents,
      List.length_take]
    have : min q.len q.cells.length = q.len := by omega
    simp only [this, hi, if_true]; omega
  · simp [hi]

/-- The three operations the reviewed code performs on `orderedRequest` refine the three operations of the model's `Ep.queue`,
    for queues of any length in arrays of any capacity (the model's `erase id` is `eraseIdx` at the waiter's position: a request
    is queued at most once, `Lemmas/Limiter.lean`). -/
theorem slice_queue_refines_list (q : GoSlice) (l : List Nat) (h : Holds q l) :
    (∀ x, Holds (q.append x) (l ++ [x])) ∧
    (∀ hd t, l = hd :: t → Holds q.pop t) ∧
    (∀ i, Holds (q.delete i) (l.eraseIdx i)) :=
  ⟨fun x => append_refines q l x h, fun hd t e => pop_refines q hd t (e ▸ h), fun i => delete_refines q l i h⟩

theorem empty_holds : Holds GoSlice.empty [] := ⟨by simp [WF, GoSlice.empty], rfl⟩

/-- non-vacuity: three waiters, the middle one withdrawn, the first admitted -/
example : ((((GoSlice.empty.append 5).append 6).append 7).delete 1).pop.contents = [7] := by decide

/-- `copy(dst, src)` into a slice of length 0 copies nothing -/
theorem copy_into_empty_copies_nothing (c : Nat) (q : GoSlice) : (copyFrom (make 0 c) q).contents = [] := by
  simp [copyFrom, make, contents]

/-- moving the queue to a smaller array keeps every waiter when the new slice is made with the queue's length -/
theorem shrinkCopy_contents (q : GoSlice) (m : Nat) (wf : q.WF) : (shrinkCopy q m).contents = q.contents := by
  unfold WF at wf
  unfold shrinkCopy
  split
  · rfl
  · simp only [copyFrom, make, contents, Nat.min_self]
    rw [List.take_append_of_le_length (by simp only [List.length_take]; omega)]
    rw [List.take_take, Nat.min_self]

/-- the seeded step: whenever it fires, no waiter is left in the queue -/
theorem shrinkIntoEmpty_contents (q : GoSlice) (m : Nat) :
    (shrinkIntoEmpty q m).contents = if q.cells.length < m ∨ q.len > q.cells.length / 4 then q.contents else [] := by
  unfold shrinkIntoEmpty
  split
  · rfl
  · exact copy_into_empty_copies_nothing _ q

/-- below the threshold the seeded step is the identity: no history with an array of fewer than 64 cells can tell it from the
    reviewed code -/
theorem below_threshold_unchanged (q : GoSlice) (m : Nat) (h : q.cap < m) : shrinkIntoEmpty q m = q := by
  unfold shrinkIntoEmpty; simp only [cap] at h; simp [h]

/-- 65 requests queue up behind the holder (the array grows to 128 cells), 44 completions hand the path on: 21 waiters in an
    array of 84 cells — at most a quarter used, at least 64 cells.  The reviewed code keeps them; the seeded step leaves none. -/
def drained65 : GoSlice := popN (burst GoSlice.empty 1 65) 44

set_option maxRecDepth 200000 in
theorem seeded_shrink_loses_waiters :
    drained65.len = 21 ∧ drained65.cap = 84 ∧
    (keep drained65).contents = List.range' 45 21 ∧
    (shrinkCopy drained65 64).contents = List.range' 45 21 ∧
    (shrinkIntoEmpty drained65 64).contents = [] := by
  decide

set_option maxRecDepth 200000 in
/-- … and a burst of 64 never reaches the threshold once a waiter has been popped -/
example : (burst GoSlice.empty 1 64).cap = 64 ∧ (popN (burst GoSlice.empty 1 64) 1).cap = 63 := by decide

section Audit
#print axioms take_set_succ
#print axioms append_refines
#print axioms pop_refines
#print axioms pop_cap
#print axioms pop_len
#print axioms delete_refines
#print axioms delete_cap
#print axioms slice_queue_refines_list
#print axioms empty_holds
#print axioms copy_into_empty_copies_nothing
#print axioms shrinkCopy_contents
#print axioms shrinkIntoEmpty_contents
#print axioms below_threshold_unchanged
#print axioms seeded_shrink_loses_waiters
end Audit

end CoapVerif.Props.C16Queue
