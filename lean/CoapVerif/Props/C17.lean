import CoapVerif.Go.Basic
import CoapVerif.Model.Router
import CoapVerif.Spec.Router
import CoapVerif.Lemmas.RouterRegex
import CoapVerif.Lemmas.RouterCompile
import CoapVerif.Lemmas.RouterParse
import CoapVerif.Lemmas.RouterDispatch
import CoapVerif.Lemmas.RouterSegments
import CoapVerif.Lemmas.RouterSpec
/-!
# C17 — Router dispatches to a longest matching route, else the default

Statement (properties.jsonl): For every set of registered patterns and every request path, dispatch invokes exactly
one handler: a registered one whose pattern matches the entire path and for which no other matching pattern is longer,
or the default handler exactly when nothing matches. The route variables passed to the handler equal the
corresponding substrings of the path, middlewares wrap the handler in registration order, and registering or removing
routes concurrently with dispatch is free of data races and never dispatches to a pattern that does not match.

Model: `Model/Router.lean` (+ `Model/RouterPat.lean`, the trusted regexp subset).  Meaning of "matches":
`Spec.Router.Lang` (language of a variable's pattern) and `Spec.Router.TplMatches` (the path is the template's literals
verbatim with a word of each variable's language in place of the variable).  The iteration order of the Go map is a
parameter of every dispatch theorem (any permutation of the table).  Concurrency: `ServeCOAP` consists of two critical
sections (read the default handler; scan the table); `dispatch_interleaved` lets the table and the default handler be
those of two different moments.  Data-race freedom itself is `lock_discipline` over the accesses extracted from the
source (`Generated/RouterLockShape.lean`) — plus the race-detector run of the check, which is evidence only.
-/
namespace CoapVerif.Props.C17
open CoapVerif CoapVerif.Model.Router CoapVerif.Generated.RouterLockShape CoapVerif.Lemmas.Router
open CoapVerif.Spec.Router (Lang TplMatches dmatch Seg segments matchesPath decomps requestPath)

/-! ## The template parser never panics -/

/-- `braceIndices` on an arbitrary string: a well-nested index list, or the error "unbalanced braces" — never a panic. -/
theorem braceIndices_total (s : Str) :
    (∃ idxs, braceIndices s = .ok idxs ∧ Good 0 idxs s.length) ∨ braceIndices s = .error (.err .unbalanced) := by
  cases h : braceIndices s with
  | ok idxs => exact .inl ⟨idxs, rfl, braceIndices_good s idxs h⟩
  | error e => rw [braceIndices_error s e h]; exact .inr rfl

example : braceIndices ['/', '{', 'a', ':', 'x', '{', '2', '}', '}', '/', '{', 'b', '}'] = .ok [1, 9, 10, 13] := by decide
example : braceIndices ['/', '{', 'a', '}', '}'] = .error (.err .unbalanced) := by decide

/-- No slice or index expression of `newRouteRegexp`'s parsing loop is ever out of range, whatever the pattern text. -/
theorem parse_no_panic (s : Str) (p : PanicKind) : parseTemplate s ≠ .error (.panic p) :=
  parseTemplate_no_panic s p

/-- The only panic `newRouteRegexp` can raise is the deliberate one for capturing groups in a variable's pattern. -/
theorem newRouteRegexp_panics_only_on_capture_groups (s : Str) (p : PanicKind)
    (h : newRouteRegexp s = .error (.panic p)) : p = .captureGroups := by
  simp only [newRouteRegexp, bind, Except.bind] at h
  cases hp : parseTemplate s with
  | error e =>
    rw [hp] at h
    simp only [Except.error.injEq] at h
    subst h
    exact (parseTemplate_no_panic s p hp).elim
  | ok r =>
    rw [hp] at h
    simp only at h
    split at h
    · simp only [Except.error.injEq, Fail.panic.injEq] at h; exact h.symm
    · simp [pure, Except.pure] at h

/-! ## The two matchers -/

/-- The specification's derivative matcher decides the declarative language. -/
theorem derivative_matcher_correct (p : Pat) (w : Str) : dmatch p w = true ↔ Lang p w := dmatch_iff p w

/-- The model's backtracking matcher and the specification's derivative matcher accept the same words. -/
theorem matchers_agree (p : Pat) (w : Str) :
    (∃ σ' ∈ ms p.toRe ⟨0, w, []⟩, σ'.rem = []) ↔ dmatch p w = true :=
  backtracking_agrees_with_derivatives p w

/-! ## compile_matches_template -/

/-- The expression `newRouteRegexp` compiles, used as `Router.Match` uses it (unanchored `MatchString`), accepts exactly
    the paths the template describes: the literal pieces verbatim — whatever characters they contain, regex
    metacharacters included — and, for each variable, a word of its pattern's language. -/
theorem compile_matches_template (tpl : Str) (rx : RouteRegexp) (h : newRouteRegexp tpl = .ok rx) (path : Str) :
    matchString rx.regexp path = true ↔ Matches tpl path := by
  have he : RouteOK (tpl, ⟨.named "", tpl, rx⟩) := ⟨rfl, h⟩
  exact pathMatch_iff he path

/-- a literal made only of metacharacters matches itself and nothing else -/
example : matchString (compile [] ['/', '.', '*']) ['/', '.', '*'] = true := by decide
example : matchString (compile [] ['/', '.', '*']) ['/', 'a', 'b'] = false := by decide
example : matchString (compile [] ['/', 'a']) ['/', 'a', '/', 'b'] = false := by decide

/-! ## vars_are_substrings -/

/-- When a route's expression matches, `extractRouteParams` does not panic and the variables it stores are exactly the
    words of ONE decomposition of the path along the template: literals and values re-assemble the path
    (`TplMatches`), each value lies in its variable's language, names are the template's names in order, and the map is
    filled left to right. -/
theorem vars_are_substrings (tpl : Str) (rx : RouteRegexp) (h : newRouteRegexp tpl = .ok rx) (path : Str) (rp : RouteParams)
    (hm : matchString rx.regexp path = true) :
    ∃ parts trailing b, parseTemplate tpl = .ok (parts, trailing) ∧
      TplMatches (toSegs parts trailing) path b ∧ b.map (·.1) = rx.varsN ∧
      extractRouteParams rx path rp = .ok { rp with vars := some (bindAll b (rp.vars.getD [])) } := by
  obtain ⟨parts, trailing, hp, hrx⟩ := newRouteRegexp_ok h
  subst hrx
  obtain ⟨b, hb, hn, he⟩ := extractRouteParams_spec parts trailing tpl path rp hm
  exact ⟨parts, trailing, b, hp, hb, hn, he⟩

/-! ## dispatch_spec -/

/-- What the property admits for one dispatch, given the table `z`, the default handler and the middlewares. -/
def Admissible (mws : List String) (dflt : Option Handler) (z : List (Str × Route)) (p : Str) : Outcome → Prop
  | .invoked h (some pat) rp run =>
      -- a registered route …
      (∃ rt, (pat, rt) ∈ z ∧ rt.h = h) ∧
      -- … whose pattern matches the entire path …
      Matches pat p ∧
      -- … and no matching pattern is longer;
      (∀ e ∈ z, Matches e.1 p → byteLen e.1 ≤ byteLen pat) ∧
      -- the variables are the words of a decomposition of the path along that pattern;
      (∃ parts trailing b, parseTemplate pat = .ok (parts, trailing) ∧ TplMatches (toSegs parts trailing) p b ∧
        rp = ⟨p, some (bindAll b []), pat⟩) ∧
      -- the middlewares wrap that handler, first registered outermost
      run = mws.foldr applyMw h.run
  | .invoked h none rp run =>
      (∀ e ∈ z, ¬ Matches e.1 p) ∧ dflt = some h ∧ rp = {} ∧ run = mws.foldr applyMw h.run
  | .nothing => (∀ e ∈ z, ¬ Matches e.1 p) ∧ dflt = none
  | .fail _ => False

/-- `ServeCOAP` with the default handler of one moment and the route table of a (possibly) later one: for every table
    whose routes were compiled from their keys, EVERY iteration order of the map and every path, the outcome is
    admissible.  In particular the pattern dispatched to always matches the entire path — also when routes are
    registered or removed between the two critical sections. -/
theorem dispatch_interleaved (mws : List String) (dflt : Option Handler) (z order : List (Str × Route))
    (hz : ∀ e ∈ z, RouteOK e) (hperm : order.Perm z) (path : Option Str) :
    Admissible mws dflt z (filterPath (path.getD [])) (serveWith mws dflt order path) := by
  have hmem : ∀ e, e ∈ order ↔ e ∈ z := fun e => hperm.mem_iff
  have hsc := scan_spec order (filterPath (path.getD []))
  simp only [serveWith, matchRoute]
  cases hs : scan order (filterPath (path.getD [])) with
  | none =>
    rw [hs] at hsc
    have hnone : ∀ e ∈ z, ¬ Matches e.1 (filterPath (path.getD [])) := by
      intro e he hm
      have := hsc e ((hmem e).2 he)
      rw [(pathMatch_iff (hz e he) _).2 hm] at this
      cases this
    cases dflt with
    | none => exact ⟨hnone, rfl⟩
    | some h => exact ⟨hnone, rfl, rfl, by simp [wrapLoop, wrapLoopG_eq]⟩
  | some e =>
    rw [hs] at hsc
    obtain ⟨pattern, route⟩ := e
    obtain ⟨he, hm, hmax⟩ := hsc
    have hez := (hmem _).1 he
    have hok := hz _ hez
    obtain ⟨parts, trailing, hp, hrx⟩ := newRouteRegexp_ok hok.2
    simp only at hrx hm
    have hm' : matchString (compile parts trailing) (filterPath (path.getD [])) = true := by
      simpa [pathMatch, hrx] using hm
    obtain ⟨b, hb, _, hex⟩ := extractRouteParams_spec parts trailing pattern (filterPath (path.getD []))
      { path := filterPath (path.getD []), vars := some [], pathTemplate := pattern } hm'
    simp only [bind, Except.bind, hrx, Option.getD_none] at hex ⊢
    rw [hex]
    simp only [pure, Except.pure, Option.map_some]
    refine ⟨⟨route, hez, rfl⟩, ⟨parts, trailing, b, hp, hb⟩, ?_, ⟨parts, trailing, b, hp, hb, rfl⟩, by simp [wrapLoop, wrapLoopG_eq]⟩
    intro e' he' hme'
    exact hmax e' ((hmem e').2 he') ((pathMatch_iff (hz e' he') _).2 hme')

/-- **dispatch_spec.**  For every reachable (well-formed) router, every iteration order of its route map and every
    request path (`none` = no Uri-Path option): exactly one outcome, and it is admissible — a registered handler whose
    pattern matches the entire path and than which no matching pattern is longer (any of them when several have that
    length), with the variables cut out of the path and the middlewares in registration order; or the default handler
    exactly when nothing matches (nothing at all if the application set a nil default).  Never a panic. -/
theorem dispatch_spec (r : Router) (hwf : WF r) (order : List (Str × Route)) (hperm : order.Perm r.z) (path : Option Str) :
    Admissible r.middlewares r.defaultHandler r.z (filterPath (path.getD [])) (r.serveCOAP order path) :=
  dispatch_interleaved r.middlewares r.defaultHandler r.z order hwf.1 hperm path

/-- The admissible set is exactly what the iteration order can produce: every matching entry of maximal length IS chosen
    by some order (the one that yields it first). -/
theorem dispatch_tight (e : Str × Route) (rest : List (Str × Route)) (hz : ∀ x ∈ e :: rest, RouteOK x) (p : Str)
    (hm : Matches e.1 p) (hmax : ∀ x ∈ rest, Matches x.1 p → byteLen x.1 ≤ byteLen e.1) :
    scan (e :: rest) p = some e := by
  apply scan_head_wins e rest p ((pathMatch_iff (hz e (by simp)) p).2 hm)
  intro x hx hmx
  exact hmax x hx ((pathMatch_iff (hz x (by simp [hx])) p).1 hmx)

/-! Non-vacuity: a reachable router with three overlapping routes, two of them of equal (maximal) length. The map order
    decides between `/a/{v}` and `/{x}/b` for the path `/a/b`; the shorter literal route `/a/b` never wins. -/
section Example
def tA : Str := ['/', 'a', '/', '{', 'v', '}']
def tB : Str := ['/', 'a', '/', 'b']
def tC : Str := ['/', '{', 'x', '}', '/', 'b']
def exRouter : Router :=
  match (do
    let r1 ← ({} : Router).handle tA (some (.named "h1"))
    let r2 ← r1.handle tB (some (.named "h2"))
    let r3 ← r2.handle tC (some (.named "h3"))
    pure (r3.use "m1") : Except Fail Router) with
  | .ok r => r
  | .error _ => {}

structure Summary where
  h : Handler
  pat : Str
  vars : Option (List (Str × Str))
  evs : List Ev
  deriving DecidableEq

def summary : Outcome → Option Summary
  | .invoked h (some pat) rp run => some ⟨h, pat, rp.vars, run.evs⟩
  | _ => none

example : exRouter.z.map (·.1) = [tA, tB, tC] := by decide
example : summary (exRouter.serveCOAP exRouter.z (some ['/', 'a', '/', 'b'])) =
    some ⟨.named "h1", tA, some [(['v'], ['b'])], [.enter "m1", .handler "h1", .exit "m1"]⟩ := by decide
example : summary (exRouter.serveCOAP exRouter.z.reverse (some ['/', 'a', '/', 'b'])) =
    some ⟨.named "h3", tC, some [(['x'], ['a'])], [.enter "m1", .handler "h3", .exit "m1"]⟩ := by decide
/-- nothing matches `/zz`: the default (NotFound) handler, no variables -/
example : exRouter.serveCOAP exRouter.z (some ['/', 'z', 'z']) =
    .invoked (.named "notfound") none {} ⟨[.enter "m1", .handler "notfound", .exit "m1"], false⟩ := by decide
/-- a path that is only a prefix / only a suffix of what a template describes does not match -/
example : (exRouter.z.map (fun e => pathMatch e.2 ['/', 'a', '/', 'b', '/', 'c'])) = [false, false, false] := by decide
/-- greedy left-to-right assignment of ambiguous variables, as Go's leftmost-first semantics: `/{x}-{y}` on `/p-q-r` -/
example : (match newRouteRegexp ['/', '{', 'x', '}', '-', '{', 'y', '}'] with
    | .ok rx => (match extractRouteParams rx ['/', 'p', '-', 'q', '-', 'r'] {} with | .ok rp => rp.vars | .error _ => none)
    | .error _ => none) = some [(['x'], ['p', '-', 'q']), (['y'], ['r'])] := by decide
end Example

/-- Every router built from `NewRouter()` by Handle / HandleRemove / DefaultHandle / Use is well-formed. -/
theorem wf_reachable :
    WF {} ∧
    (∀ r r' p h, WF r → r.handle p h = .ok r' → WF r') ∧
    (∀ r r' p f, WF r → r.handleFunc p f = .ok r' → WF r') ∧
    (∀ r r' p, WF r → r.handleRemove p = .ok r' → WF r') ∧
    (∀ r h, WF r → WF (r.defaultHandle h)) ∧ (∀ r m, WF r → WF (r.use m)) := by
  refine ⟨wf_init, fun r r' p h hw hh => wf_handle hw hh, ?_, fun r r' p hw hh => wf_handleRemove hw hh,
    fun r h hw => wf_defaultHandle h hw, fun r m hw => wf_use m hw⟩
  intro r r' p f hw hh
  simp only [Router.handleFunc] at hh
  split at hh
  · cases hh
  · cases hh
  · rename_i r'' heq
    simp only [Except.ok.injEq] at hh
    subst hh
    exact wf_handle hw heq

/-- Argument validation: a nil handler is refused; an invalid pattern is refused (error from `Handle`, panic from
    `HandleFunc`) and leaves the table unchanged; removing a pattern that is not registered is an error. -/
theorem registration_validation (r : Router) (p : Str) :
    r.handle p none = .error (.err .nilHandler) ∧
    (∀ h e, newRouteRegexp (filterPath p) = .error e → r.handle p (some h) = .error e) ∧
    (∀ f k, newRouteRegexp (filterPath p) = .error (.err k) → r.handleFunc p f = .error (.panic .handleFuncErr)) ∧
    (zHas r.z (filterPath p) = false → r.handleRemove p = .error (.err .notRegistered)) := by
  refine ⟨rfl, ?_, ?_, ?_⟩
  · intro h e he; simp [Router.handle, he]
  · intro f k he; simp [Router.handleFunc, Router.handle, he]
  · intro hz; simp [Router.handleRemove, hz]

/-! ## The same statements against the specification's own reading of the template text -/

/-- The index-and-slice parse of the source (`braceIndices`, `path[end:idxs[i]]`, …) and the specification's one-pass
    structural cut of the same text agree on every string: same pieces and — up to the spelling of the default
    pattern `[^/]+` — the same segments when the text is a template; the same kind of refusal when it is not. -/
theorem template_parse_agrees_with_spec (tpl : Str) : ParseAgrees (parseTemplate tpl) (segments tpl) :=
  parseTemplate_segments tpl

/-- A template is accepted by `newRouteRegexp` exactly when the specification calls it well-formed; the deliberate
    panic corresponds to "contains a capturing group", each error to the same defect of the text. -/
theorem template_validity_agrees (tpl : Str) :
    match newRouteRegexp tpl with
    | .ok _ => ∃ segs, segments tpl = .ok segs
    | .error (.panic .captureGroups) => segments tpl = .error .capture
    | .error (.err .unbalanced) => segments tpl = .error .unbalanced
    | .error (.err .missing) => segments tpl = .error .missing
    | .error (.err .regex) => segments tpl = .error .regex
    | .error .unsupported => segments tpl = .error .unsupported
    | .error _ => False :=
  newRouteRegexp_segments tpl

/-- **compile_matches_template, independent form**: the compiled expression accepts exactly the paths that the
    template text describes according to the specification (which never saw an index or a regexp string). -/
theorem compile_matches_spec_template (tpl : Str) (rx : RouteRegexp) (h : newRouteRegexp tpl = .ok rx) (path : Str) :
    matchString rx.regexp path = true ↔ SpecMatches tpl path := by
  rw [compile_matches_template tpl rx h path]
  exact matches_iff_spec h path

/-- `Admissible` with every "matches" read by the specification alone. -/
def AdmissibleSpec (mws : List String) (dflt : Option Handler) (z : List (Str × Route)) (p : Str) : Outcome → Prop
  | .invoked h (some pat) rp run =>
      (∃ rt, (pat, rt) ∈ z ∧ rt.h = h) ∧ SpecMatches pat p ∧
      (∀ e ∈ z, SpecMatches e.1 p → byteLen e.1 ≤ byteLen pat) ∧
      (∃ segs b, segments pat = .ok segs ∧ TplMatches segs p b ∧ rp = ⟨p, some (bindAll b []), pat⟩) ∧
      run = mws.foldr applyMw h.run
  | .invoked h none rp run =>
      (∀ e ∈ z, ¬ SpecMatches e.1 p) ∧ dflt = some h ∧ rp = {} ∧ run = mws.foldr applyMw h.run
  | .nothing => (∀ e ∈ z, ¬ SpecMatches e.1 p) ∧ dflt = none
  | .fail _ => False

theorem admissibleSpec_of_admissible (mws : List String) (dflt : Option Handler) (z : List (Str × Route))
    (hz : ∀ e ∈ z, RouteOK e) (p : Str) (o : Outcome) (h : Admissible mws dflt z p o) : AdmissibleSpec mws dflt z p o := by
  have hiff : ∀ e ∈ z, (Matches e.1 p ↔ SpecMatches e.1 p) := fun e he => matches_iff_spec (hz e he).2 p
  cases o with
  | nothing =>
    simp only [Admissible, AdmissibleSpec] at h ⊢
    exact ⟨fun e he hm => h.1 e he ((hiff e he).2 hm), h.2⟩
  | fail f => exact h
  | invoked hd pat rp run =>
    cases pat with
    | none =>
      simp only [Admissible, AdmissibleSpec] at h ⊢
      exact ⟨fun e he hm => h.1 e he ((hiff e he).2 hm), h.2⟩
    | some pat =>
      simp only [Admissible, AdmissibleSpec] at h ⊢
      obtain ⟨⟨rt, hrt, hh⟩, hm, hmax, ⟨parts, trailing, b, hp, hb, hrp⟩, hrun⟩ := h
      obtain ⟨segs, hs, hconv⟩ := tplMatches_to_spec (hz _ hrt).2 hp
      refine ⟨⟨rt, hrt, hh⟩, (hiff _ hrt).1 hm, ?_, ⟨segs, b, hs, (hconv p b).1 hb, hrp⟩, hrun⟩
      intro e he hme
      exact hmax e he ((hiff e he).2 hme)

/-- **dispatch_spec, independent form.** -/
theorem dispatch_spec_independent (r : Router) (hwf : WF r) (order : List (Str × Route)) (hperm : order.Perm r.z)
    (path : Option Str) :
    AdmissibleSpec r.middlewares r.defaultHandler r.z (filterPath (path.getD [])) (r.serveCOAP order path) :=
  admissibleSpec_of_admissible _ _ _ hwf.1 _ _ (dispatch_spec r hwf order hperm path)

/-- The judge's executable tests are exact: its "matches the entire path" (derivatives of the concatenated template)
    and its enumeration of decompositions (used to check the variables) decide the declarative `TplMatches`. -/
theorem judge_matcher_exact (segs : List Seg) (path : Str) :
    matchesPath segs path = true ↔ ∃ b, TplMatches segs path b := matchesPath_iff segs path

theorem judge_decompositions_exact (segs : List Seg) (w : Str) (b : List (Str × Str)) :
    b ∈ decomps segs w ↔ TplMatches segs w b := mem_decomps segs w b

/-! ## Requests served one after another through `mux.ToHandler` -/

/-- `mux.ToHandler` — the adapter through which every udp/tcp/dtls server calls the router — hands `ServeCOAP` a
    `mux.Message` whose `RouteParams` is an object built for this request alone (`new(RouteParams)`; fact regenerated from
    the AST of mux/muxResponseWriter.go, the recogniser fails closed on any other shape of the call).  This is what
    entitles the model to start every dispatch from empty route parameters (`serveWith` calls `matchRoute order p {}`):
    `Router.Match` only ADDS the variables of the matched pattern, so with a recycled object the variables of earlier
    requests would survive (see the example below). -/
theorem toHandler_fresh_route_params : toHandlerFreshRouteParams = true := by decide

/-- what would happen with a recycled `RouteParams`: `Match` on `/a` (pattern without variables) keeps a stale `x` -/
example : (match ({} : Router).handle ['/', 'a'] (some (.named "h")) with
    | .ok r => (match matchRoute r.z ['/', 'a'] ⟨[], some [(['x'], ['1'])], []⟩ with
                | .ok (_, rp) => rp.vars
                | .error _ => none)
    | .error _ => none) = some [(['x'], ['1'])] := by decide

/-- Requests served one after another (each with whatever order the map yields that time): every single outcome is
    admissible on its own — the variables a handler receives are exactly those of the dispatched pattern for THIS path
    (none at all for a pattern without variables and for the default handler), whatever was served before. -/
theorem sequence_independent (r : Router) (hwf : WF r) (reqs : List (List (Str × Route) × Option Str))
    (hperm : ∀ q ∈ reqs, q.1.Perm r.z) :
    ∀ q ∈ reqs, AdmissibleSpec r.middlewares r.defaultHandler r.z (filterPath (q.2.getD [])) (r.serveCOAP q.1 q.2) :=
  fun q hq => dispatch_spec_independent r hwf q.1 (hperm q hq) q.2

/-! ## Requests that arrive as bytes on a connection whose handler is `options.WithMux(router)` -/

/-- Every `MuxHandlerOpt.<X>Apply` (tcp server/client, udp server/client, dtls server) installs `mux.ToHandler[…](o.m)` itself:
    nothing stands between the connection's handler slot and the router's adapter, so whatever message the connection
    hands to its handler — with whatever code — is dispatched (facts regenerated from options/commonOptions.go; a body
    of any other shape than `cfg.Handler = <expr>` fails closed). -/
theorem mux_installed_directly : muxApplyDirect.length = 5 ∧ ∀ e ∈ muxApplyDirect, e.2 = true := by decide

/-- the decoder's length window for Uri-Path, from the regenerated option-definition table, is the RFC's 0 … 255 -/
theorem uri_path_window (n : Nat) : optionKept uriPathOptionID n = decide (n ≤ 255) := by
  simp [optionKept, uriPathOptionID, CoapVerif.Generated.OptionDefs.coapOptionDefs, List.find?]

/-- No legal Uri-Path segment — the EMPTY one included — is lost between the wire and the router. -/
theorem uri_path_segments_survive_decoding (segs : List Str) (h : ∀ s ∈ segs, byteLen s ≤ 255) :
    decodedSegs segs = segs := by
  simp only [decodedSegs]
  rw [List.filter_eq_self]
  intro s hs
  rw [uri_path_window]
  exact decide_eq_true (h s hs)

theorem wirePath_eq_requestPath (segs : List Str) : wirePath segs = requestPath segs := by
  cases segs with
  | nil => rfl
  | cons a t =>
    simp only [wirePath, requestPath, Option.some.injEq]
    induction (a :: t) with
    | nil => rfl
    | cons x xs ih => simp [List.flatMap_cons, ih]

/-- **dispatch_spec on the wire.**  A message with any code and any legal list of Uri-Path option values (empty values
    included), received by a connection that got its handler from `options.WithMux(router)`: exactly one outcome, and it
    is the admissible one for the path `/seg₁/…/segₙ` made of ALL the segments as they are on the wire. -/
theorem wire_dispatch_spec (r : Router) (hwf : WF r) (order : List (Str × Route)) (hperm : order.Perm r.z)
    (code : Nat) (segs : List Str) (hlegal : ∀ s ∈ segs, byteLen s ≤ 255) :
    AdmissibleSpec r.middlewares r.defaultHandler r.z (filterPath ((requestPath segs).getD []))
      (r.wireServe order code segs) := by
  simp only [Router.wireServe, uri_path_segments_survive_decoding segs hlegal, wirePath_eq_requestPath]
  exact dispatch_spec_independent r hwf order hperm (requestPath segs)

/-- `/a/` (segments `a`, empty) goes to the route `/a/`, not to `/a`; FETCH or GET makes no difference -/
example : summary (exRouter.wireServe exRouter.z 5 [['a'], ['b']]) = summary (exRouter.wireServe exRouter.z 1 [['a'], ['b']]) := by decide
example : wirePath (decodedSegs [['a'], []]) = some ['/', 'a', '/'] := by decide

/-! ## Failed exchanges leave no token in front of the router -/

/-- Both tables that are consulted before the configured handler drop the token of an exchange on its failing exits
    (facts regenerated from net/observation/handler.go and udp/server/discover.go; unknown shapes fail closed). -/
theorem failed_exchanges_clean_up :
    observationCleansUpOnEveryError = true ∧ discoveryCleansUpOnFailedWrite = true := by decide

theorem failed_exchanges_leave_no_token (failed : List FailedExchange) (t : PreMux) :
    failed.foldl PreMux.fail t = t := by
  induction failed generalizing t with
  | nil => rfl
  | cons e es ih =>
    have he : t.fail e = t := by
      cases e <;> simp [PreMux.fail, failed_exchanges_clean_up.1, failed_exchanges_clean_up.2]
    simp only [List.foldl_cons, he, ih]

/-- After any number of failed observe registrations and failed discoveries, a message with ANY token — also the token
    of one of those exchanges — is dispatched by the router exactly like a message on a fresh connection. -/
theorem dispatch_after_failed_exchanges (r : Router) (failed : List FailedExchange) (order : List (Str × Route))
    (code : Nat) (tok : Token) (segs : List Str) :
    r.connServe failed order code tok segs = r.wireServe order code segs := by
  simp [Router.connServe, failed_exchanges_leave_no_token]

example : exRouter.connServe [.observe [0xa1, 0xb2], .discovery [0xa1, 0xb2]] exRouter.z 1 [0xa1, 0xb2] [['a'], ['b']] =
    exRouter.wireServe exRouter.z 1 [['a'], ['b']] := by decide

/-! ## Concurrent writers -/

/-- Every write to the route table outside the constructor updates it IN PLACE (`r.z[k] = v`, `delete(r.z, k)`) — under
    the write lock by `lock_discipline` — and never installs a table computed from an earlier read (`r.z = …`): a
    registration or removal is one atomic read-modify-write of the shared table, so concurrent writers cannot lose each
    other's updates. -/
theorem route_table_updated_in_place :
    ∀ a ∈ accesses, a.field = "z" → a.write = true → a.fn ≠ "NewRouter" → a.whole = false ∧ a.lock = .w := by
  decide

/-- Atomic updates of DIFFERENT patterns commute: whichever order the mutex serialises two writers in, every pattern ends
    up with the same route (or none) — so after concurrent writers on disjoint patterns have joined the table is the one
    the harness expects (`harness/c17race: runWriters`). -/
theorem disjoint_updates_commute (z : List (Str × Route)) (hnd : (z.map (·.1)).Nodup) (a b : Str) (hab : a ≠ b) (x y : Route) (q : Str) :
    zGet (zSet (zSet z a x) b y) q = zGet (zSet (zSet z b y) a x) q ∧
    zGet (zErase (zSet z a x) b) q = zGet (zSet (zErase z b) a x) q := by
  have hnd' : ((zSet z a x).map (·.1)).Nodup := by
    rw [zSet_keys]
    by_cases hm : a ∈ z.map (·.1)
    · simpa [hm] using hnd
    · simp only [hm, if_false]
      rw [List.nodup_append]
      exact ⟨hnd, by simp, by
        intro u hu v hv
        simp only [List.mem_singleton] at hv
        subst hv
        intro huv; subst huv; exact hm hu⟩
  refine ⟨?_, ?_⟩
  · simp only [zGet_zSet]
    by_cases h1 : b = q <;> by_cases h2 : a = q <;> simp [h1, h2]
    exact (hab (h2.trans h1.symm)).elim
  · rw [zGet_zErase _ _ _ hnd', zGet_zSet, zGet_zSet, zGet_zErase _ _ _ hnd]
    by_cases h1 : b = q <;> by_cases h2 : a = q <;> simp [h1, h2]
    exact (hab (h2.trans h1.symm)).elim

/-- `Router.Use` appends to the router's own slice; it never adopts the caller's variadic slice, so nothing the caller does
    with its slice afterwards (appending to it, handing it to another router, overwriting an element) can change this
    router's chain (regenerated from mux/middleware.go). -/
theorem use_keeps_own_chain : useAppendsToOwnSlice = true := by decide

/-! ## middleware_order -/

/-- The loop of `ServeCOAP` (from the last registered middleware down to the first) builds
    `mw₁ (mw₂ (… (mwₖ h)))`: middlewares wrap the handler in registration order — for any notion of handler and of
    applying a middleware. -/
theorem middleware_order {M H : Type} (apply : M → H → H) (mws : List M) (h : H) :
    wrapLoopG apply mws.reverse h = mws.foldr apply h := by
  rw [wrapLoopG_eq, List.reverse_reverse]

/-- For the recording middlewares of the harness: entered in registration order, then the handler, then left in reverse. -/
theorem middleware_trace (mws : List String) (n : String) :
    wrapLoop mws.reverse (Handler.named n).run =
      ⟨mws.map Ev.enter ++ [Ev.handler n] ++ mws.reverse.map Ev.exit, false⟩ := by
  simp only [wrapLoop, middleware_order, Handler.run]
  exact foldr_applyMw_ok mws [Ev.handler n]

example : wrapLoop ["a", "b"].reverse (Handler.named "h").run =
    ⟨[.enter "a", .enter "b", .handler "h", .exit "b", .exit "a"], false⟩ := by decide

/-! ## lock_discipline -/

/-- Every access to the route table `z` and to `defaultHandler` outside the constructor happens with the router's
    mutex held: writes under `Lock`, reads under `RLock` or `Lock` (decided over the accesses extracted from mux/*.go). -/
theorem lock_discipline :
    ∀ a ∈ accesses, a.fn ≠ "NewRouter" → (a.field = "z" ∨ a.field = "defaultHandler") →
      (a.write = true → a.lock = .w) ∧ (a.write = false → a.lock ≠ .none) := by
  decide

/-- The remaining fields (`middlewares`, `errors`) are configuration: the operations the property speaks about
    (Handle, HandleFunc, HandleRemove, DefaultHandle, DefaultHandleFunc, ServeCOAP, Match, GetRoute, GetRoutes) never
    write them, so these operations cannot race with each other on any field; and every unguarded access is to one of
    those two fields or happens in the constructor. -/
theorem route_ops_write_only_guarded_fields :
    (∀ a ∈ accesses, a.write = true → a.lock = .none →
        a.fn = "NewRouter" ∨ (a.fn = "Use" ∧ a.field = "middlewares")) ∧
    (∀ a ∈ accesses, a.lock = .none → a.fn = "NewRouter" ∨ a.field = "middlewares" ∨ a.field = "errors") ∧
    (∀ a ∈ accesses, a.write = true → (a.field = "middlewares" ∨ a.field = "errors") →
        a.fn = "Use" ∨ a.fn = "SetErrorHandler") := by
  decide

/-- No Router method that takes the mutex is called while the mutex is held (no self-deadlock, no recursive read lock). -/
theorem no_nested_locking : ∀ c ∈ calls, c.callee ∈ lockingFns → c.lock = .none := by
  decide

end CoapVerif.Props.C17

section Audit
open CoapVerif.Props.C17
#print axioms braceIndices_total
#print axioms parse_no_panic
#print axioms newRouteRegexp_panics_only_on_capture_groups
#print axioms derivative_matcher_correct
#print axioms matchers_agree
#print axioms compile_matches_template
#print axioms vars_are_substrings
#print axioms dispatch_interleaved
#print axioms dispatch_spec
#print axioms dispatch_tight
#print axioms wf_reachable
#print axioms registration_validation
#print axioms template_parse_agrees_with_spec
#print axioms template_validity_agrees
#print axioms compile_matches_spec_template
#print axioms admissibleSpec_of_admissible
#print axioms dispatch_spec_independent
#print axioms judge_matcher_exact
#print axioms judge_decompositions_exact
#print axioms toHandler_fresh_route_params
#print axioms sequence_independent
#print axioms mux_installed_directly
#print axioms uri_path_window
#print axioms uri_path_segments_survive_decoding
#print axioms wirePath_eq_requestPath
#print axioms wire_dispatch_spec
#print axioms failed_exchanges_clean_up
#print axioms failed_exchanges_leave_no_token
#print axioms dispatch_after_failed_exchanges
#print axioms route_table_updated_in_place
#print axioms disjoint_updates_commute
#print axioms use_keeps_own_chain
#print axioms middleware_order
#print axioms middleware_trace
#print axioms lock_discipline
#print axioms route_ops_write_only_guarded_fields
#print axioms no_nested_locking
end Audit
