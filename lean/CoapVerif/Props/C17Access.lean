import CoapVerif.Go.Basic
import CoapVerif.Model.Router
import CoapVerif.Model.RouterAccess
import CoapVerif.Props.C17
import CoapVerif.Lemmas.RouterAccess
/-!
# C17, third part — the accessors of the router agree with its history and with dispatch

Statement (properties.jsonl, C17): "For every set of registered patterns …".  WHICH patterns are registered after a history
of `Handle` / `HandleFunc` / `HandleRemove` / `DefaultHandle` / `Use` calls, and what `GetRoute`, `GetRoutes`,
`Route.GetRouteRegexp` and `SetErrorHandler` (Model/RouterAccess.lean) say about them:

* `getRoute_is_the_last_live_registration` — after ANY history, `GetRoute p` is the route of the last successful registration
  of (the filtered) `p` that no later `HandleRemove` took away: the last registration wins, a removed pattern is gone
  (`removed_pattern_is_gone`, `last_registration_wins`), refused registrations change nothing;
* `getRoutes_are_the_live_registrations` — `GetRoutes` has exactly those entries, each pattern once;
* `dispatch_route_is_listed` — the route that serves a path is an entry of `GetRoutes` and is what `GetRoute` returns for its pattern;
* `getRouteRegexp_of_stored_route` — `GetRouteRegexp` of a stored route is the expression text built from its pattern;
* `setErrorHandler_leaves_routing_alone`, `errors_go_to_the_current_handler`.
-/
namespace CoapVerif.Props.C17Access
open CoapVerif CoapVerif.Model.Router CoapVerif.Lemmas.Router

/-- **GetRoute after any history.**  `liveRev q rev` reads the history (latest first): the last operation that concerned the
    pattern `q` decides.  `GetRoute p` returns exactly the route `Handle` built for that registration — or nil. -/
theorem getRoute_is_the_last_live_registration (ops : List Op) (p : Str) :
    (({} : Router).run ops).getRoute p = (liveRev (filterPath p) ops.reverse).bind (mkRoute (filterPath p)) :=
  (tracks_run ops).2 (filterPath p)

/-- **GetRoutes after any history**: exactly the live registrations — an entry `(q, rt)` iff `q` is live and `rt` is the route
    of its last registration — and no pattern twice. -/
theorem getRoutes_are_the_live_registrations (ops : List Op) :
    ((({} : Router).run ops).getRoutes.map (·.1)).Nodup ∧
    ∀ q rt, (q, rt) ∈ (({} : Router).run ops).getRoutes ↔ (liveRev q ops.reverse).bind (mkRoute q) = some rt := by
  obtain ⟨hwf, ht⟩ := tracks_run ops
  refine ⟨hwf.2, ?_⟩
  intro q rt
  simp only [Router.getRoutes]
  rw [mem_iff_zGet _ hwf.2, ht q]

/-- a removed pattern is gone, whatever happened before -/
theorem removed_pattern_is_gone (ops : List Op) (p : Str) :
    (({} : Router).run (ops ++ [.handleRemove p])).getRoute p = none := by
  rw [getRoute_is_the_last_live_registration]
  simp [liveRev]

/-- the last registration of a pattern wins, whatever was registered under it before -/
theorem last_registration_wins (ops : List Op) (p : Str) (h : Handler) (rx : RouteRegexp)
    (hok : newRouteRegexp (filterPath p) = .ok rx) :
    (({} : Router).run (ops ++ [.handle p (some h)])).getRoute p = some ⟨h, filterPath p, rx⟩ := by
  rw [getRoute_is_the_last_live_registration]
  simp [liveRev, accepts, mkRoute, hok]

/-- a refused registration (nil handler, ill-formed pattern) leaves every answer of `GetRoute` as it was -/
theorem refused_registration_changes_nothing (ops : List Op) (p : Str) (h : Option Handler) (e : Fail)
    (hbad : (({} : Router).run ops).handle p h = .error e) (q : Str) :
    (({} : Router).run (ops ++ [.handle p h])).getRoute q = (({} : Router).run ops).getRoute q := by
  simp only [Router.run, List.foldl_append, List.foldl_cons, List.foldl_nil, Router.apply]
  have : okOr (List.foldl Router.apply {} ops) ((List.foldl Router.apply {} ops).handle p h) = List.foldl Router.apply {} ops := by
    simp only [Router.run] at hbad
    rw [hbad]; rfl
  rw [this]

/-- **dispatch agrees with the accessors**: after any history, whenever `ServeCOAP` invokes a route handler, that route is an
    entry of `GetRoutes` under the dispatched pattern, and `GetRoute` of that pattern returns it. -/
theorem dispatch_route_is_listed (ops : List Op) (order : List (Str × Route))
    (hperm : order.Perm (({} : Router).run ops).z) (path : Option Str) :
    match (({} : Router).run ops).serveCOAP order path with
    | .invoked h (some pat) _ _ =>
        ∃ rt, (pat, rt) ∈ (({} : Router).run ops).getRoutes ∧ rt.h = h ∧ (({} : Router).run ops).getRoute pat = some rt
    | _ => True := by
  obtain ⟨hwf, ht⟩ := tracks_run ops
  have hadm := CoapVerif.Props.C17.dispatch_spec _ hwf order hperm path
  cases ho : (({} : Router).run ops).serveCOAP order path with
  | nothing => trivial
  | fail f => trivial
  | invoked h pat rp run =>
    cases pat with
    | none => trivial
    | some pat =>
      rw [ho] at hadm
      simp only [CoapVerif.Props.C17.Admissible] at hadm
      obtain ⟨⟨rt, hrt, hh⟩, _⟩ := hadm
      refine ⟨rt, hrt, hh, ?_⟩
      have hget := (mem_iff_zGet _ hwf.2 _ _).1 hrt
      have hlive := ht pat
      rw [hget] at hlive
      cases hl : liveRev pat ops.reverse with
      | none => rw [hl] at hlive; simp at hlive
      | some h' =>
        simp only [Router.getRoute, liveRev_some_filtered _ _ _ hl]
        exact hget

/-- `GetRouteRegexp` of a route stored by `Handle`: never the "no regexp" error, but the text `^` quoted literal
    `(?P<vI>pattern)` … quoted literal `$` built from the pattern it is stored under. -/
theorem getRouteRegexp_of_stored_route (e : Str × Route) (he : RouteOK e) :
    ∃ parts trailing, parseTemplate e.1 = .ok (parts, trailing) ∧ e.2.getRouteRegexp = .ok (regexpText parts trailing) := by
  obtain ⟨parts, trailing, hp, hrx⟩ := newRouteRegexp_ok he.2
  refine ⟨parts, trailing, hp, ?_⟩
  simp only [Route.getRouteRegexp, hrx, hp]

/-- `/a.b/{x}-{y:[0-9]+}`: the dot is quoted, the groups are numbered -/
example : (match ({} : Router).handle ['/', 'a', '.', 'b', '/', '{', 'x', '}', '-', '{', 'y', ':', '[', '0', '-', '9', ']', '+', '}'] (some (.named "h")) with
    | .ok r => (match r.getRoute ['/', 'a', '.', 'b', '/', '{', 'x', '}', '-', '{', 'y', ':', '[', '0', '-', '9', ']', '+', '}'] with
        | some rt => (match rt.getRouteRegexp with | .ok t => some (String.ofList t) | .error _ => none)
        | none => none)
    | .error _ => none) = some "^/a\\.b/(?P<v0>[^/]+)-(?P<v1>[0-9]+)$" := by decide

/-! ## SetErrorHandler -/

/-- `SetErrorHandler` touches nothing dispatch or the accessors read -/
theorem setErrorHandler_leaves_routing_alone (x : RouterE) (h : String) : (x.setErrorHandler h).r = x.r := rfl

/-- a failing response writer is reported to the handler set LAST — and only by the built-in NotFound responder: a route
    handler or an application default handler never reaches `errors` -/
theorem errors_go_to_the_current_handler (x : RouterE) (h : String) (order : List (Str × Route)) (path : Option Str) (fails : Bool) :
    (x.setErrorHandler h).errorsCalled order path fails = [] ∨
    ((x.setErrorHandler h).errorsCalled order path fails = [h] ∧ fails = true ∧
      ∃ rp run, x.r.serveCOAP order path = .invoked (.named "notfound") none rp run) := by
  simp only [RouterE.errorsCalled, RouterE.setErrorHandler]
  split
  · rename_i rp run heq
    by_cases hf : (fails && !run.panics) = true
    · right
      simp only [Bool.and_eq_true] at hf
      exact ⟨by simp [hf.1, hf.2], hf.1, rp, run, heq⟩
    · left; simp [hf]
  · left; rfl

example : (({} : RouterE).setErrorHandler "e1").errorsCalled [] (some ['/', 'x']) true = ["e1"] := by decide
example : ((({} : RouterE).setErrorHandler "e1").setErrorHandler "e2").errorsCalled [] (some ['/', 'x']) true = ["e2"] := by decide
example : (({} : RouterE).setErrorHandler "e1").errorsCalled [] (some ['/', 'x']) false = [] := by decide

/-- non-vacuity of the history theorems: register, replace, remove -/
example : ((({} : Router).run [.handle ['/', 'a'] (some (.named "h1")), .handle ['/', 'a'] (some (.named "h2")),
    .handle ['/', 'b'] (some (.named "h3")), .handleRemove ['/', 'b'], .handle ['/', '{'] (some (.named "h4"))]).getRoutes.map
      (fun e => (e.1, e.2.h))) = [(['/', 'a'], .named "h2")] := by decide

end CoapVerif.Props.C17Access

section Audit
open CoapVerif.Props.C17Access
#print axioms getRoute_is_the_last_live_registration
#print axioms getRoutes_are_the_live_registrations
#print axioms removed_pattern_is_gone
#print axioms last_registration_wins
#print axioms refused_registration_changes_nothing
#print axioms dispatch_route_is_listed
#print axioms getRouteRegexp_of_stored_route
#print axioms setErrorHandler_leaves_routing_alone
#print axioms errors_go_to_the_current_handler
end Audit
