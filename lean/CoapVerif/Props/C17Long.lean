import CoapVerif.Go.Basic
import CoapVerif.Model.Router
import CoapVerif.Model.RouterAccess
import CoapVerif.Model.RouterChurn
import CoapVerif.Props.C17
import CoapVerif.Props.C17Access
import CoapVerif.Lemmas.RouterAccess
/-!
# C17, sixth part — dispatch after a LONG history: only the live registrations count, not how many modifications there were

Statement (properties.jsonl, C17): "For every set of registered patterns and every request path, dispatch invokes exactly one
handler: a registered one whose pattern matches the entire path and for which no other matching pattern is longer, or the
default handler exactly when nothing matches. … never dispatches to a pattern that does not match."

"Registered" is read off the history the way the words say (`Lemmas/RouterAccess.liveRev`: the LAST operation that concerned a
pattern decides).  The histories are lists of ANY length — 2^16, 2^16 ± 1, 2^17 … modifications between two dispatches are
ordinary members of the quantifier; nothing here depends on the number of operations:

* `dispatch_after_any_history` — after every history, every map order, every path: the handler invoked is the handler of the
  LAST live registration of the dispatched pattern (not of one that was replaced or removed since, however long ago), that
  pattern matches the entire path, no LIVE matching pattern is longer; the default handler (or nothing) only if no live
  pattern matches;
* `untouched_patterns_keep_their_registration` — operations that do not concern a pattern (as many as one likes) leave its
  registration as it was; `churn_leaves_other_patterns_alone` for the runs of Model/RouterChurn;
* `register_then_remove_restores_router`, `churn_even_restores_router`, `churn_does_not_change_dispatch` — a run of 2k
  modifications on fresh patterns (every k: 32768, 65536, …) gives back the SAME router, so the dispatch behind it is the
  dispatch in front of it;
* `churnLoop_is_run` — the run as the harness executes it (stop at the first refusal) is `Router.run` of the operation list.
-/
namespace CoapVerif.Props.C17Long
open CoapVerif CoapVerif.Model.Router CoapVerif.Lemmas.Router

/-- a live pattern is an entry of the table, with the handler of its last registration -/
theorem live_iff_entry (ops : List Op) (q : Str) (h : Handler) :
    liveRev q ops.reverse = some h ↔ ∃ rt, (q, rt) ∈ (({} : Router).run ops).z ∧ rt.h = h := by
  obtain ⟨hwf, ht⟩ := tracks_run ops
  constructor
  · intro hl
    have hacc : ∃ rt, mkRoute q h = some rt ∧ rt.h = h := by
      have : accepts q = true := by
        clear ht hwf
        generalize ops.reverse = rev at hl
        induction rev with
        | nil => simp [liveRev] at hl
        | cons op rest ih =>
          cases op with
          | handle p h' =>
            cases h' with
            | none => exact ih (by simpa [liveRev] using hl)
            | some h' =>
              simp only [liveRev] at hl
              split at hl
              · rename_i hc; exact hc.2
              · exact ih hl
          | handleFunc p f =>
            simp only [liveRev] at hl
            split at hl
            · rename_i hc; exact hc.2
            · exact ih hl
          | handleRemove p =>
            simp only [liveRev] at hl
            split at hl
            · simp at hl
            · exact ih hl
          | defaultHandle h' => exact ih (by simpa [liveRev] using hl)
          | use m => exact ih (by simpa [liveRev] using hl)
      simp only [accepts] at this
      simp only [mkRoute]
      split at this
      · simp
      · simp at this
    obtain ⟨rt, hmk, hh⟩ := hacc
    refine ⟨rt, ?_, hh⟩
    rw [mem_iff_zGet _ hwf.2, ht q, hl]
    simpa using hmk
  · rintro ⟨rt, hmem, hh⟩
    have hget := (mem_iff_zGet _ hwf.2 _ _).1 hmem
    rw [ht q] at hget
    cases hl : liveRev q ops.reverse with
    | none => rw [hl] at hget; simp at hget
    | some h' =>
      rw [hl] at hget
      simp only [Option.bind_some, mkRoute] at hget
      split at hget
      · simp only [Option.some.injEq] at hget
        subst hget
        simp at hh
        rw [hh]
      · simp at hget

/-- **Dispatch after any history, of any length.**  The invoked handler is the handler of the LAST live registration of the
    dispatched pattern; that pattern matches the entire path; no live matching pattern is longer; the default handler (or no
    handler when there is none) exactly when no live pattern matches.  A route that was removed or replaced — one, 65536 or
    131072 modifications ago — is never dispatched to. -/
theorem dispatch_after_any_history (ops : List Op) (order : List (Str × Route))
    (hperm : order.Perm (({} : Router).run ops).z) (path : Option Str) :
    match (({} : Router).run ops).serveCOAP order path with
    | .invoked h (some pat) _ _ =>
        liveRev pat ops.reverse = some h ∧ Matches pat (filterPath (path.getD [])) ∧
        ∀ q h', liveRev q ops.reverse = some h' → Matches q (filterPath (path.getD [])) → byteLen q ≤ byteLen pat
    | .invoked h none _ _ =>
        (({} : Router).run ops).defaultHandler = some h ∧
        ∀ q h', liveRev q ops.reverse = some h' → ¬ Matches q (filterPath (path.getD []))
    | .nothing =>
        (({} : Router).run ops).defaultHandler = none ∧
        ∀ q h', liveRev q ops.reverse = some h' → ¬ Matches q (filterPath (path.getD []))
    | .fail _ => False := by
  obtain ⟨hwf, _⟩ := tracks_run ops
  have hadm := CoapVerif.Props.C17.dispatch_spec _ hwf order hperm path
  cases ho : (({} : Router).run ops).serveCOAP order path with
  | nothing =>
    rw [ho] at hadm
    simp only [CoapVerif.Props.C17.Admissible] at hadm
    refine ⟨hadm.2, ?_⟩
    intro q h' hl
    obtain ⟨rt, hmem, _⟩ := (live_iff_entry ops q h').1 hl
    exact hadm.1 _ hmem
  | fail f =>
    rw [ho] at hadm
    exact hadm
  | invoked h pat rp run =>
    cases pat with
    | none =>
      rw [ho] at hadm
      simp only [CoapVerif.Props.C17.Admissible] at hadm
      refine ⟨hadm.2.1, ?_⟩
      intro q h' hl
      obtain ⟨rt, hmem, _⟩ := (live_iff_entry ops q h').1 hl
      exact hadm.1 _ hmem
    | some pat =>
      rw [ho] at hadm
      simp only [CoapVerif.Props.C17.Admissible] at hadm
      obtain ⟨hreg, hm, hmax, _, _⟩ := hadm
      refine ⟨(live_iff_entry ops pat h).2 hreg, hm, ?_⟩
      intro q h' hl hmq
      obtain ⟨rt, hmem, _⟩ := (live_iff_entry ops q h').1 hl
      exact hmax _ hmem hmq

/-! ## operations that do not concern a pattern -/

/-- does the operation concern the pattern `q`? -/
def concerns (q : Str) : Op → Prop
  | .handle p _ => filterPath p = q
  | .handleFunc p _ => filterPath p = q
  | .handleRemove p => filterPath p = q
  | _ => False

theorem liveRev_skip (q : Str) (rev : List Op) : ∀ (l : List Op), (∀ op ∈ l, ¬ concerns q op) →
    liveRev q (l ++ rev) = liveRev q rev := by
  intro l
  induction l with
  | nil => intro _; rfl
  | cons op l ih =>
    intro hl
    have hrest := ih (fun o ho => hl o (List.mem_cons_of_mem _ ho))
    have hop := hl op (List.mem_cons_self ..)
    cases op with
    | handle p h =>
      simp only [concerns] at hop
      cases h with
      | none => simpa [liveRev] using hrest
      | some h => simp only [List.cons_append, liveRev, hop, false_and, if_false]; exact hrest
    | handleFunc p f =>
      simp only [concerns] at hop
      simp only [List.cons_append, liveRev, hop, false_and, if_false]; exact hrest
    | handleRemove p =>
      simp only [concerns] at hop
      simp only [List.cons_append, liveRev, hop, if_false]; exact hrest
    | defaultHandle h => simpa [liveRev] using hrest
    | use m => simpa [liveRev] using hrest

/-- **However many operations follow — if none of them concerns the pattern, its registration is what it was**: still live
    with the same handler, or still gone. -/
theorem untouched_patterns_keep_their_registration (ops extra : List Op) (q : Str)
    (hno : ∀ op ∈ extra, ¬ concerns q op) :
    liveRev q (ops ++ extra).reverse = liveRev q ops.reverse := by
  rw [List.reverse_append]
  exact liveRev_skip q _ _ (fun op hop => hno op (List.mem_reverse.1 hop))

/-- the runs of Model/RouterChurn concern only the patterns `<prefix><j>` -/
theorem churn_leaves_other_patterns_alone (ops : List Op) (pre : Str) (h : Handler) (n : Nat) (q : Str)
    (hq : ∀ j, filterPath (churnPat pre j) ≠ q) :
    liveRev q (ops ++ churnOps pre h n).reverse = liveRev q ops.reverse := by
  apply untouched_patterns_keep_their_registration
  intro op hop
  simp only [churnOps, churnFrom, List.mem_map] at hop
  obtain ⟨i, _, rfl⟩ := hop
  simp only [churnOp]
  split
  · exact hq _
  · exact hq _

/-- … so a route removed before the run is still gone behind it, whatever `n` is -/
theorem removed_stays_removed_through_churn (ops : List Op) (p pre : Str) (h : Handler) (n : Nat)
    (hq : ∀ j, filterPath (churnPat pre j) ≠ filterPath p) :
    (({} : Router).run (ops ++ [.handleRemove p] ++ churnOps pre h n)).getRoute p = none := by
  rw [CoapVerif.Props.C17Access.getRoute_is_the_last_live_registration, churn_leaves_other_patterns_alone _ _ _ _ _ hq]
  simp [liveRev]

/-! ## register + remove of a fresh pattern gives back the same router -/

theorem zErase_zSet_fresh : ∀ (z : List (Str × Route)) (k : Str) (v : Route), zHas z k = false → zErase (zSet z k v) k = z := by
  intro z
  induction z with
  | nil => intro k v _; simp [zSet, zErase]
  | cons e t ih =>
    intro k v hk
    obtain ⟨k', v'⟩ := e
    simp only [zHas, List.any_cons, Bool.or_eq_false_iff, decide_eq_false_iff_not] at hk
    have hne : k' ≠ k := hk.1
    have ht : zHas t k = false := by simpa [zHas] using hk.2
    simp only [zSet, hne, if_false]
    have := ih k v ht
    simp only [zErase] at this ⊢
    simp only [List.filter_cons, ne_eq, hne, not_false_eq_true, decide_true, if_true, this]

theorem zHas_zSet_self : ∀ (z : List (Str × Route)) (k : Str) (v : Route), zHas (zSet z k v) k = true := by
  intro z
  induction z with
  | nil => intro k v; simp [zSet, zHas]
  | cons e t ih =>
    intro k v
    obtain ⟨k', v'⟩ := e
    by_cases hk : k' = k
    · simp [zSet, hk, zHas]
    · have := ih k v
      simp only [zHas] at this
      simp [zSet, hk, zHas, this]

/-- `Handle(p, h)` followed by `HandleRemove(p)` for a pattern that is not registered: the router is what it was (also when
    `Handle` refuses the pattern: then `HandleRemove` finds nothing) -/
theorem register_then_remove_restores_router (r : Router) (p : Str) (h : Option Handler)
    (hfresh : zHas r.z (filterPath p) = false) :
    (r.apply (.handle p h)).apply (.handleRemove p) = r := by
  have hrem : r.apply (.handleRemove p) = r := by
    simp [Router.apply, Router.handleRemove, hfresh, okOr]
  cases h with
  | none => simpa [Router.apply, Router.handle, okOr] using hrem
  | some h =>
    cases hrx : newRouteRegexp (filterPath p) with
    | error e =>
      have : r.apply (.handle p (some h)) = r := by simp [Router.apply, Router.handle, hrx, okOr]
      rw [this]; exact hrem
    | ok rx =>
      have : r.apply (.handle p (some h)) = { r with z := zSet r.z (filterPath p) ⟨h, filterPath p, rx⟩ } := by
        simp [Router.apply, Router.handle, hrx, okOr]
      rw [this]
      simp only [Router.apply, Router.handleRemove, zHas_zSet_self, if_true, okOr, zErase_zSet_fresh _ _ _ hfresh]

theorem churnFrom_pair (pre : Str) (h : Handler) (j k : Nat) :
    churnFrom pre h (2 * j) (2 * (k + 1)) =
      .handle (churnPat pre j) (some h) :: .handleRemove (churnPat pre j) :: churnFrom pre h (2 * (j + 1)) (2 * k) := by
  have e1 : 2 * (k + 1) = (2 * k + 1) + 1 := by omega
  have e2 : 2 * (j + 1) = 2 * j + 1 + 1 := by omega
  have m0 : 2 * j % 2 = 0 := by omega
  have m1 : (2 * j + 1) % 2 = 1 := by omega
  have d0 : 2 * j / 2 = j := by omega
  have d1 : (2 * j + 1) / 2 = j := by omega
  simp only [churnFrom, e1, e2, List.range'_succ, List.map_cons, churnOp, m0, m1, d0, d1, if_true]
  simp

/-- **A run of 2k modifications on fresh patterns gives back the same router** — for every k: 1, 32768 (2^16
    modifications), 65536 (2^17) … -/
theorem churn_even_restores_router (pre : Str) (h : Handler) (r : Router)
    (hfresh : ∀ j, zHas r.z (filterPath (churnPat pre j)) = false) :
    ∀ (k j : Nat), r.run (churnFrom pre h (2 * j) (2 * k)) = r := by
  intro k
  induction k with
  | zero => intro j; simp [churnFrom, Router.run]
  | succ k ih =>
    intro j
    rw [churnFrom_pair]
    simp only [Router.run, List.foldl_cons]
    have := register_then_remove_restores_router r (churnPat pre j) (some h) (hfresh j)
    rw [this]
    exact ih (j + 1)

/-- … so the dispatch behind the run is the dispatch in front of it: same handler, pattern, variables and chain, for every
    path and every map order -/
theorem churn_does_not_change_dispatch (pre : Str) (h : Handler) (r : Router)
    (hfresh : ∀ j, zHas r.z (filterPath (churnPat pre j)) = false) (k : Nat) (order : List (Str × Route)) (path : Option Str) :
    (r.run (churnOps pre h (2 * k))).serveCOAP order path = r.serveCOAP order path := by
  have := churn_even_restores_router pre h r hfresh k 0
  simp only [churnOps]
  simp only [Nat.mul_zero] at this
  rw [this]

/-! ## the run as the harness executes it -/

theorem apply_of_answer_ok {r r' : Router} {op : Op} (h : r.answer op = .ok r') : r.apply op = r' := by
  cases op with
  | handle p hh => simp only [Router.answer] at h; simp [Router.apply, h, okOr]
  | handleFunc p f => simp only [Router.answer] at h; simp [Router.apply, h, okOr]
  | handleRemove p => simp only [Router.answer] at h; simp [Router.apply, h, okOr]
  | defaultHandle hh => simp only [Router.answer, Except.ok.injEq] at h; simp [Router.apply, h]
  | use m => simp only [Router.answer, Except.ok.injEq] at h; simp [Router.apply, h]

/-- a run no operation of which is refused is `Router.run` of its operation list -/
theorem churnLoop_is_run (pre : Str) (h : Handler) : ∀ (n i : Nat) (r : Router),
    (churnLoop pre h n i r).2 = none → (churnLoop pre h n i r).1 = r.run (churnFrom pre h i n) := by
  intro n
  induction n with
  | zero => intro i r _; simp [churnLoop, churnFrom, Router.run]
  | succ n ih =>
    intro i r hnone
    simp only [churnLoop] at hnone ⊢
    cases ha : r.answer (churnOp pre h i) with
    | error f => rw [ha] at hnone; simp at hnone
    | ok r' =>
      rw [ha] at hnone
      simp only [] at hnone ⊢
      rw [ih (i + 1) r' hnone]
      simp only [churnFrom, List.range'_succ, List.map_cons, Router.run, List.foldl_cons, apply_of_answer_ok ha]

/-! ## non-vacuity -/

/-- `/d/{i}` registered, dispatched to, removed, four more modifications: the default handler answers `/d/7` -/
example : (match (({} : Router).run ([.handle ['/', 'd', '/', '{', 'i', '}'] (some (.named "h1")), .handleRemove ['/', 'd', '/', '{', 'i', '}']] ++
      churnOps ['/', 't'] (.named "c") 4)).serveCOAP [] (some ['/', 'd', '/', '7']) with
    | .invoked h pat _ _ => some (h, pat)
    | _ => none) = some (.named "notfound", none) := by decide

/-- an odd run leaves its last pattern registered, and it is dispatched to -/
example : (match (({} : Router).run (churnOps ['/', 't'] (.named "c") 3)).serveCOAP
      (({} : Router).run (churnOps ['/', 't'] (.named "c") 3)).z (some ['/', 't', '1']) with
    | .invoked h pat _ _ => some (h, pat)
    | _ => none) = some (.named "c", some ['/', 't', '1']) := by decide

example : (({} : Router).churn ['/', 't'] (.named "c") 4).1 = ({} : Router) := by decide
example : (({} : Router).churn ['/', '{'] (.named "c") 4).2 = some (0, .err .unbalanced) := by decide

end CoapVerif.Props.C17Long

section Audit
open CoapVerif.Props.C17Long
#print axioms live_iff_entry
#print axioms dispatch_after_any_history
#print axioms untouched_patterns_keep_their_registration
#print axioms churn_leaves_other_patterns_alone
#print axioms removed_stays_removed_through_churn
#print axioms register_then_remove_restores_router
#print axioms churn_even_restores_router
#print axioms churn_does_not_change_dispatch
#print axioms churnLoop_is_run
#print axioms liveRev_skip
#print axioms zErase_zSet_fresh
#print axioms zHas_zSet_self
#print axioms churnFrom_pair
#print axioms apply_of_answer_ok
end Audit
