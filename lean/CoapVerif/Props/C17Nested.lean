import CoapVerif.Go.Basic
import CoapVerif.Model.Router
import CoapVerif.Model.RouterNested
import CoapVerif.Spec.RouterPrefer
import CoapVerif.Lemmas.RouterDispatch
import CoapVerif.Lemmas.RouterPrefer
import CoapVerif.Lemmas.RouterPreferSpec
/-!
# C17, fourth part — a message dispatched more than once: only its CURRENT path counts

Statement (properties.jsonl, C17): "For every set of registered patterns and every request path, dispatch invokes exactly one
handler: a registered one whose pattern matches the entire path …".  `Props/C17.lean` proves this for the fresh `RouteParams`
object `mux.ToHandler` builds per request.  A `*mux.Message` can reach `ServeCOAP` again — a router mounted as the handler of
a route of another router (the handler strips the mount prefix and hands the same message on), a handler or middleware that
rewrites the path and dispatches again, an application that reuses the object.  Here: whatever an earlier dispatch left in the
message's `RouteParams`, the handler chosen, the pattern, `Path`, `PathTemplate` and the values of the matched pattern's
variables are those of a fresh dispatch of the message's current path (`dispatch_ignores_route_params_history`); the only
thing that survives is the presence of OTHER variable names in the map (`Match` only adds).
-/
namespace CoapVerif.Props.C17Nested
open CoapVerif CoapVerif.Model.Router CoapVerif.Lemmas.Router
open CoapVerif.Spec.Router (Chosen)

/-- the dispatch of `Props/C17.lean` is the one with a fresh `RouteParams` object -/
theorem serveWith_is_fresh (mws : List String) (dflt : Option Handler) (order : List (Str × Route)) (path : Option Str) :
    serveWith mws dflt order path = serveWithRp mws dflt order path {} := rfl

/-- **Dispatch is a function of the router and of the message's current path.**  For every table whose routes were compiled
    from their keys, every iteration order, every current path and EVERY content `rp` of the message's `RouteParams` (left by
    earlier dispatches): the same handler runs under the same pattern with the same middleware chain as for a fresh object;
    `Path` and `PathTemplate` are overwritten with those of this dispatch; the variables are the preferred decomposition of
    the CURRENT path written over the old map; when nothing matches the default handler runs and the object is not touched. -/
theorem dispatch_ignores_route_params_history (mws : List String) (dflt : Option Handler) (z order : List (Str × Route))
    (hz : ∀ e ∈ z, RouteOK e) (hperm : order.Perm z) (path : Option Str) (rp : RouteParams) :
    match serveWithRp mws dflt order path {}, serveWithRp mws dflt order path rp with
    | .invoked h (some pat) rp0 run, .invoked h' (some pat') rp' run' =>
        h' = h ∧ pat' = pat ∧ run' = run ∧ rp'.path = rp0.path ∧ rp'.pathTemplate = rp0.pathTemplate ∧
        ∃ parts trailing b, parseTemplate pat = .ok (parts, trailing) ∧
          Chosen (toSegs parts trailing) (filterPath (path.getD [])) b ∧
          rp0.vars = some (bindAll b []) ∧ rp'.vars = some (bindAll b (rp.vars.getD []))
    | .invoked h none rp0 run, .invoked h' none rp' run' => h' = h ∧ run' = run ∧ rp0 = {} ∧ rp' = rp
    | .nothing, .nothing => True
    | _, _ => False := by
  have hmem : ∀ e, e ∈ order ↔ e ∈ z := fun e => hperm.mem_iff
  have hsc := scan_spec order (filterPath (path.getD []))
  simp only [serveWithRp, matchRoute]
  cases hs : scan order (filterPath (path.getD [])) with
  | none => cases dflt <;> simp
  | some e =>
    rw [hs] at hsc
    obtain ⟨pattern, route⟩ := e
    obtain ⟨he, hm, _⟩ := hsc
    have hok := hz _ ((hmem _).1 he)
    obtain ⟨parts, trailing, hp, hrx⟩ := newRouteRegexp_ok hok.2
    simp only at hrx hm
    have hm' : matchString (compile parts trailing) (filterPath (path.getD [])) = true := by
      simpa [pathMatch, hrx] using hm
    obtain ⟨b, hb, _, hex⟩ := extractRouteParams_chosen parts trailing pattern (filterPath (path.getD []))
      { path := filterPath (path.getD []), vars := some [], pathTemplate := pattern } hm'
    obtain ⟨b', hb', _, hex'⟩ := extractRouteParams_chosen parts trailing pattern (filterPath (path.getD []))
      { rp with path := filterPath (path.getD []), vars := some (rp.vars.getD []), pathTemplate := pattern } hm'
    have hbb : b' = b := chosen_unique hb' hb
    subst hbb
    simp only [bind, Except.bind, hrx, Option.getD_none, Option.getD_some] at hex hex' ⊢
    rw [hex, hex']
    simp only [pure, Except.pure, Option.map_some]
    refine ⟨?_, ?_, ?_, ?_, ?_, parts, trailing, b', hp, hb, ?_, ?_⟩ <;> first | trivial | rfl

/-! The scenario of a mounted router: the outer route `/api/{rest:.*}` strips the prefix, the inner router knows `/dev/{id}`;
    then the same object, its path rewritten, is dispatched again by the outer router. -/
section Example
def tApi : Str := ['/', 'a', 'p', 'i', '/', '{', 'r', 'e', 's', 't', ':', '.', '*', '}']
def tDev : Str := ['/', 'd', 'e', 'v', '/', '{', 'i', 'd', '}']
def outerR : Router :=
  match ({} : Router).handle tApi (some (.named "mount:rest")) with
  | .ok r => r.defaultHandle (some (.named "outer-default"))
  | .error _ => {}
def innerR : Router :=
  match ({} : Router).handle tDev (some (.named "dev")) with
  | .ok r => r.defaultHandle (some (.named "inner-default"))
  | .error _ => {}
def mv (h : Handler) : Option Str := if h = .named "mount:rest" then some ['r', 'e', 's', 't'] else none
def summary (x : NestedOutcome × MsgObj) : Option (Bool × String × Option Str × Str × Str) :=
  match x.1 with
  | .nested _ (.invoked (.named n) pat rp _) => some (true, n, pat, rp.path, varLookup (rp.vars.getD []) ['i', 'd'])
  | .plain (.invoked (.named n) pat rp _) => some (false, n, pat, rp.path, [])
  | _ => none
def first : NestedOutcome × MsgObj :=
  serveNested outerR innerR mv outerR.z innerR.z ⟨some ['/', 'a', 'p', 'i', '/', 'd', 'e', 'v', '/', '4', '2'], {}⟩

/-- `/api/dev/42` → mount → inner route `/dev/{id}` with `Path = /dev/42`, `id = 42` -/
example : summary first = some (true, "dev", some tDev, ['/', 'd', 'e', 'v', '/', '4', '2'], ['4', '2']) := by decide
/-- second dispatch of the same object after its path became `/nothing/here`: the outer default handler -/
example : summary (serveNested outerR innerR mv outerR.z innerR.z (first.2.setPath (some ['/', 'n', 'o', 't', 'h', 'i', 'n', 'g']))) =
    some (false, "outer-default", none, ['/', 'd', 'e', 'v', '/', '4', '2'], []) := by decide
end Example

end CoapVerif.Props.C17Nested

section Audit
open CoapVerif.Props.C17Nested
#print axioms serveWith_is_fresh
#print axioms dispatch_ignores_route_params_history
end Audit
