import CoapVerif.Go.Basic
import CoapVerif.Model.Router
import CoapVerif.Spec.Router
import CoapVerif.Spec.RouterPrefer
import CoapVerif.Lemmas.RouterDispatch
import CoapVerif.Lemmas.RouterPrefer
import CoapVerif.Lemmas.RouterPreferSpec
import CoapVerif.Lemmas.RouterPreferBridge
/-!
# C17, second part — WHICH substrings: the variables are those of the leftmost-first decomposition

Statement (properties.jsonl, C17): "… The route variables passed to the handler equal the corresponding substrings of the
path …".  `Props/C17.lean: vars_are_substrings` proves that the variables are the words of SOME decomposition of the path
along the template.  When the template is ambiguous there are several; Go's `regexp` documentation fixes the one
`FindStringSubmatchIndex` reports (leftmost-first: first alternative, greedy = one more round, lazy = stop, earlier
choices outweigh later ones).  `Spec/RouterPrefer.lean` writes that choice down declaratively (`Chosen`: the decomposition
preferred to every decomposition, compared variable by variable from the left, each variable by the preference order of
its own pattern over parse trees).  Here:

* `backtracking_order_is_preference_order` — the model's backtracking search lists its results in strictly decreasing
  preference, and lists every parse;
* `vars_are_the_preferred_decomposition`, `vars_are_the_preferred_decomposition_spec`, `dispatch_vars_preferred` — the variables `extractRouteParams` / `ServeCOAP`
  hand over are those of the `Chosen` decomposition, for every template of the supported subset and every path;
* `preferred_decomposition_unique` — there is only one;
* `vars_positions` — each value is `path[x:y]` for the cumulated lengths of the literals and values before it;
* `delimited_templates_are_unambiguous`, `delimited_decomposition_is_chosen` — when every variable is followed by a
  literal starting with a character its pattern excludes, the path has one decomposition only;
* `judge_chosen_exact`, `judge_parse_enumeration_exact`, `judge_preference_exact` — the judge's executable forms decide
  the declarative ones.
-/
namespace CoapVerif.Props.C17Vars
open CoapVerif CoapVerif.Model.Router CoapVerif.Lemmas.Router
open CoapVerif.Spec.Router (Lang TplMatches Seg PTree IsParse Better BetterEq WordPref LexPref Chosen chosen parsesOf betterB
  decomps Delimited segments)

/-! ## The search order is the preference order -/

/-- The model's backtracking matcher, with each result labelled by the choices that led to it (`msT`; forgetting the labels
    gives `ms` on the compiled pattern): every label is a parse tree of the consumed prefix, every parse tree of every
    prefix occurs, and an earlier result is strictly preferred (`Better`) to every later one. -/
theorem backtracking_order_is_preference_order (p : Pat) (σ : St) :
    (msT p σ).map (·.2) = ms p.toRe σ ∧
    (∀ r ∈ msT p σ, ∃ w, IsParse p r.1 w ∧ σ.rem = w ++ r.2.rem) ∧
    (∀ t w rest, IsParse p t w → σ.rem = w ++ rest → ∃ r ∈ msT p σ, r.1 = t ∧ r.2.rem = rest) ∧
    (msT p σ).Pairwise (fun x y => Better p x.1 y.1) := by
  refine ⟨msT_snd p σ, ?_, ?_, msT_sorted p σ⟩
  · intro r hr
    obtain ⟨w, hw, hrem, _, _⟩ := msT_sound p σ r hr
    exact ⟨w, hw, hrem⟩
  · intro t w rest ht hrem
    have := msT_complete p t w ht σ.pos rest σ.caps
    have hσ : (⟨σ.pos, w ++ rest, σ.caps⟩ : St) = σ := by cases σ; simp only at hrem; simp [hrem]
    rw [hσ] at this
    exact ⟨_, this, rfl, rfl⟩

/-- greedy `a*` on `aab`: first two rounds, then one, then none — lazy `a*?` the other way round -/
example : (msT (.star (.chr 'a') true) ⟨0, ['a', 'a', 'b'], []⟩).map (·.2.pos) = [2, 1, 0] := by decide
example : (msT (.star (.chr 'a') false) ⟨0, ['a', 'a', 'b'], []⟩).map (·.2.pos) = [0, 1, 2] := by decide
/-- `a|ab` on `ab`: the first alternative first, although it consumes less -/
example : (msT (.alt (.chr 'a') (.cat (.chr 'a') (.chr 'b'))) ⟨0, ['a', 'b'], []⟩).map (·.2.pos) = [1, 2] := by decide

/-! ## The variables are those of the preferred decomposition -/

/-- **(a)** When a route's expression matches, the variables `extractRouteParams` stores are the words of THE decomposition of
    the path that the leftmost-first rule prefers to every other decomposition (`Chosen`), for every template the router
    accepts and every path. -/
theorem vars_are_the_preferred_decomposition (tpl : Str) (rx : RouteRegexp) (h : newRouteRegexp tpl = .ok rx) (path : Str)
    (rp : RouteParams) (hm : matchString rx.regexp path = true) :
    ∃ parts trailing b, parseTemplate tpl = .ok (parts, trailing) ∧
      Chosen (toSegs parts trailing) path b ∧ b.map (·.1) = rx.varsN ∧
      extractRouteParams rx path rp = .ok { rp with vars := some (bindAll b (rp.vars.getD [])) } := by
  obtain ⟨parts, trailing, hp, hrx⟩ := newRouteRegexp_ok h
  subst hrx
  obtain ⟨b, hb, hn, he⟩ := extractRouteParams_chosen parts trailing tpl path rp hm
  exact ⟨parts, trailing, b, hp, hb, hn, he⟩

/-- **(a), independent form**: the same with the template read by the specification alone (`segments`: its own one-pass cut
    of the text, a bare `{name}` = one or more non-slash characters) — this is the `Chosen` the judge computes. -/
theorem vars_are_the_preferred_decomposition_spec (tpl : Str) (rx : RouteRegexp) (h : newRouteRegexp tpl = .ok rx) (path : Str)
    (rp : RouteParams) (hm : matchString rx.regexp path = true) :
    ∃ segs b, segments tpl = .ok segs ∧ Chosen segs path b ∧ chosen segs path = some b ∧ b.map (·.1) = rx.varsN ∧
      extractRouteParams rx path rp = .ok { rp with vars := some (bindAll b (rp.vars.getD [])) } := by
  obtain ⟨parts, trailing, b, hp, hb, hn, he⟩ := vars_are_the_preferred_decomposition tpl rx h path rp hm
  obtain ⟨segs, hs, hconv⟩ := chosen_to_spec h hp
  have hc := (hconv path b).1 hb
  exact ⟨segs, b, hs, hc, (chosen_iff segs path b).2 hc, hn, he⟩

/-- there is only one such decomposition: `Chosen` determines the variables -/
theorem preferred_decomposition_unique (segs : List Seg) (path : Str) (b b' : List (Str × Str))
    (h : Chosen segs path b) (h' : Chosen segs path b') : b = b' := chosen_unique h h'

/-- `ServeCOAP`, for every table whose routes were compiled from their keys, every iteration order of the map and every
    path: a route handler receives exactly the variables of the preferred decomposition of THIS path along the dispatched
    pattern. -/
theorem dispatch_vars_preferred (mws : List String) (dflt : Option Handler) (z order : List (Str × Route))
    (hz : ∀ e ∈ z, RouteOK e) (hperm : order.Perm z) (path : Option Str) :
    match serveWith mws dflt order path with
    | .invoked _ (some pat) rp _ =>
        ∃ parts trailing b, parseTemplate pat = .ok (parts, trailing) ∧
          Chosen (toSegs parts trailing) (filterPath (path.getD [])) b ∧
          rp = ⟨filterPath (path.getD []), some (bindAll b []), pat⟩
    | _ => True := by
  have hmem : ∀ e, e ∈ order ↔ e ∈ z := fun e => hperm.mem_iff
  have hsc := scan_spec order (filterPath (path.getD []))
  simp only [serveWith, matchRoute]
  cases hs : scan order (filterPath (path.getD [])) with
  | none => cases dflt <;> simp
  | some e =>
    rw [hs] at hsc
    obtain ⟨pattern, route⟩ := e
    obtain ⟨he, hm, _⟩ := hsc
    have hok := hz _ ((hmem _).1 he)
    obtain ⟨parts, trailing, hp, hrx⟩ := newRouteRegexp_ok hok.2
    simp only at hrx hm
    have hm' : matchString (compile parts trailing) (filterPath (path.getD [])) = true := by
      simpa [pathMatch, hrx] using hm
    obtain ⟨b, hb, _, hex⟩ := extractRouteParams_chosen parts trailing pattern (filterPath (path.getD []))
      { path := filterPath (path.getD []), vars := some [], pathTemplate := pattern } hm'
    simp only [bind, Except.bind, hrx, Option.getD_none] at hex ⊢
    rw [hex]
    simp only [pure, Except.pure, Option.map_some]
    exact ⟨parts, trailing, b, hp, hb, rfl⟩

/-- **(c)** positions: the j-th value is `path[x:y]`, where `x` is the total length of the literals and values before it and
    `y - x` its own length (`spans`), and literals and values re-assemble the path (`TplMatches`, part of `Chosen`). -/
theorem vars_positions (parts : List CPart) (trailing path : Str) (b : List (Str × Str))
    (h : Chosen (toSegs parts trailing) path b) (j : Nat) (hj : j < parts.length) :
    ∃ (x y : Nat) (v : Str), (spans 0 parts b)[j]? = some (x, y) ∧ (b.map (·.2))[j]? = some v ∧
      x ≤ y ∧ y ≤ path.length ∧ v = (path.drop x).take (y - x) := by
  obtain ⟨x, y, v, hx, hv, hs⟩ := spans_slice parts trailing path b h.1 [] j hj
  simp only [List.length_nil, List.nil_append] at hx hs
  refine ⟨x, y, v, hx, hv, ?_⟩
  simp only [goSlice] at hs
  split at hs
  · rename_i hc
    simp only [Except.ok.injEq, Int.toNat_natCast] at hs
    exact ⟨by omega, by omega, hs.symm⟩
  · cases hs

/-! ## Ambiguous templates: what the rule says -/
section Examples
open CoapVerif.Spec.Router (segmentPat)
def aOrAb : Pat := .alt (.chr 'a') (.cat (.chr 'a') (.chr 'b'))
def abOrA : Pat := .alt (.cat (.chr 'a') (.chr 'b')) (.chr 'a')
def bOpt : Pat := Pat.quest (.chr 'b') true

/-- `/{x}-{y}` on `/p-q-r`: two bare variables in one segment, the first takes as much as it can -/
example : chosen [.lit ['/'], .var ['x'] segmentPat, .lit ['-'], .var ['y'] segmentPat, .lit []] ['/', 'p', '-', 'q', '-', 'r'] =
    some [(['x'], ['p', '-', 'q']), (['y'], ['r'])] := by decide
/-- `/{x:.+?}-{y:.*}` on `/p-q-r`: a lazy first variable takes as little as it can -/
example : chosen [.lit ['/'], .var ['x'] (Pat.plus Pat.dot false), .lit ['-'], .var ['y'] (.star Pat.dot true), .lit []]
    ['/', 'p', '-', 'q', '-', 'r'] = some [(['x'], ['p']), (['y'], ['q', '-', 'r'])] := by decide
/-- `/{a:a|ab}{b:b?}c` on `/abc`: the first alternative that lets the rest match, not the longest … -/
example : chosen [.lit ['/'], .var ['a'] aOrAb, .var ['b'] bOpt, .lit ['c']] ['/', 'a', 'b', 'c'] =
    some [(['a'], ['a']), (['b'], ['b'])] := by decide
/-- … and `/{a:ab|a}{b:b?}c` the other way round -/
example : chosen [.lit ['/'], .var ['a'] abOrA, .var ['b'] bOpt, .lit ['c']] ['/', 'a', 'b', 'c'] =
    some [(['a'], ['a', 'b']), (['b'], [])] := by decide
/-- there really are two decompositions to choose from -/
example : (decomps [.lit ['/'], .var ['a'] aOrAb, .var ['b'] bOpt, .lit ['c']] ['/', 'a', 'b', 'c']).length = 2 := by decide
/-- the model computes the same for `/{a:a|ab}{b:b?}c` (the non-vacuity instance of `vars_are_the_preferred_decomposition`) -/
example : (match newRouteRegexp ['/', '{', 'a', ':', 'a', '|', 'a', 'b', '}', '{', 'b', ':', 'b', '?', '}', 'c'] with
    | .ok rx => (match extractRouteParams rx ['/', 'a', 'b', 'c'] {} with | .ok rp => rp.vars | .error _ => none)
    | .error _ => none) = some [(['a'], ['a']), (['b'], ['b'])] := by decide
end Examples

/-! ## Unambiguous templates -/

/-- **(b)** When every variable (but a last one) is followed by a literal whose first character no word of the variable's
    pattern contains — `/a/{x}/b/{y:[0-9]+}`: `{x}` cannot contain the `/` that follows — the path has at most ONE
    decomposition: the substrings are determined by the template alone, no preference rule is needed. -/
theorem delimited_templates_are_unambiguous (segs : List Seg) (w : Str) (b b' : List (Str × Str))
    (hd : Delimited segs) (h : TplMatches segs w b) (h' : TplMatches segs w b') : b = b' :=
  delimited_unique segs w b b' hd h h'

theorem lexPref_refl : ∀ (segs : List Seg) (b : List (Str × Str)), LexPref segs b b
  | [], _ => by simp [LexPref]
  | .lit _ :: r, b => by simp only [LexPref]; exact lexPref_refl r b
  | .var _ _ :: _, [] => by simp [LexPref]
  | .var _ _ :: r, (_, _) :: b => by
    simp only [LexPref]
    exact ⟨fun _ => lexPref_refl r b, fun h => (h rfl).elim⟩

/-- … and that one decomposition is the chosen one. -/
theorem delimited_decomposition_is_chosen (segs : List Seg) (w : Str) (b : List (Str × Str))
    (hd : Delimited segs) (h : TplMatches segs w b) : Chosen segs w b := by
  refine ⟨h, ?_⟩
  intro b' hb'
  rw [delimited_unique segs w b' b hd hb' h]
  exact lexPref_refl segs b

/-- `/a/{x}/b/{y:[0-9]+}` is delimited (`{x}` = non-slash characters, followed by `/`; `{y}` is last) -/
example : Delimited [.lit "/a/".toList, .var ['x'] CoapVerif.Spec.Router.segmentPat, .lit "/b/".toList,
    .var ['y'] (Pat.plus (.cls false [.range '0' '9']) true), .lit []] := by
  refine ⟨?_, trivial⟩
  intro v hv
  have key : ∀ (v : Str), Lang (.star (.cls true [.range '/' '/']) true) v → '/' ∉ v := by
    intro v hv
    generalize hp : Pat.star (.cls true [.range '/' '/']) true = p at hv
    induction hv with
    | starNil => simp
    | starCons hu _ _ ih2 =>
      cases hp
      obtain ⟨c, rfl, hc⟩ := lang_cls_inv hu
      have hc' : c ≠ '/' := by
        intro e; subst e; revert hc; decide
      intro hm
      simp only [List.cons_append, List.nil_append, List.mem_cons] at hm
      rcases hm with hm | hm
      · exact hc' hm.symm
      · exact ih2 rfl hm
    | _ => cases hp
  simp only [CoapVerif.Spec.Router.segmentPat, Pat.plus] at hv
  obtain ⟨u, w, rfl, hu, hw⟩ := lang_cat_inv hv
  obtain ⟨c, rfl, hc⟩ := lang_cls_inv hu
  have hc' : c ≠ '/' := by
    intro e; subst e; revert hc; decide
  intro hm
  simp only [List.cons_append, List.nil_append, List.mem_cons] at hm
  rcases hm with hm | hm
  · exact hc' hm.symm
  · exact key w hw hm

/-! ## The judge's executable forms -/

/-- The judge's `chosen` (enumerate the decompositions, keep the one preferred to all) returns exactly THE decomposition
    `Chosen` describes. -/
theorem judge_chosen_exact (segs : List Seg) (path : Str) (b : List (Str × Str)) :
    chosen segs path = some b ↔ Chosen segs path b := chosen_iff segs path b

theorem judge_parse_enumeration_exact (p : Pat) (t : PTree) (w : Str) : t ∈ parsesOf p w ↔ IsParse p t w :=
  mem_parsesOf p t w

theorem judge_preference_exact (p : Pat) (t t' : PTree) : betterB p t t' = true ↔ Better p t t' := betterB_iff p t t'

end CoapVerif.Props.C17Vars

section Audit
open CoapVerif.Props.C17Vars
#print axioms backtracking_order_is_preference_order
#print axioms vars_are_the_preferred_decomposition
#print axioms vars_are_the_preferred_decomposition_spec
#print axioms preferred_decomposition_unique
#print axioms dispatch_vars_preferred
#print axioms vars_positions
#print axioms delimited_templates_are_unambiguous
#print axioms lexPref_refl
#print axioms delimited_decomposition_is_chosen
#print axioms judge_chosen_exact
#print axioms judge_parse_enumeration_exact
#print axioms judge_preference_exact
end Audit
