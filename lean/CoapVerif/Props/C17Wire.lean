import CoapVerif.Go.Basic
import CoapVerif.Model.Router
import CoapVerif.Model.RouterWireOpts
import CoapVerif.Spec.Router
import CoapVerif.Spec.RouterWireOpts
import CoapVerif.Props.C17
/-!
# C17, fifth part — the path the router is handed is the path on the wire, whatever other options the request carries

Statement (properties.jsonl, C17): "For every set of registered patterns and every request path, dispatch invokes exactly one
handler: a registered one whose pattern matches the entire path and for which no other matching pattern is longer, or the default
handler exactly when nothing matches. …"  Anchored mechanism "path reconstruction from Uri-Path options".

`Props/C17.lean` (`wire_dispatch_spec`) starts from the list of Uri-Path values.  On the wire an option is a (delta, value) pair and
"Uri-Path" means "the deltas up to here add up to 11" (RFC 7252 §3.1).  The decoder SKIPS options whose value length is out of
range (an empty Uri-Host, a 4-byte Observe, a non-empty If-None-Match, a 9-byte ETag, a 3-byte Uri-Port …); here: for EVERY
option list whose numbers fit 16 bits and whose Uri-Path values are at most 255 bytes — whatever other options stand in front of,
between or behind the Uri-Path options, kept or skipped — the decoded Uri-Path values are exactly the values of the options whose
deltas add up to 11 (`skipped_options_do_not_move_the_path`), and dispatch is the admissible one for that path
(`wire_options_dispatch_spec`).  This rests on the regenerated fact that the loop of `Options.Unmarshal` takes the COMPUTED number
as the base of the next delta (`option_delta_base_is_the_computed_number`); `decoded_id_as_delta_base_loses_the_path` shows that the
other recognised shape (the ID of the decoded object, 0 after a skipped option) does not have the property.
-/
namespace CoapVerif.Props.C17Wire
open CoapVerif CoapVerif.Model.Router CoapVerif.Generated.RouterLockShape CoapVerif.Lemmas.Router
open CoapVerif.Spec.Router (optionNumbers requestSegments requestPath uriPathNumber)
open CoapVerif.Props.C17 (uri_path_window wirePath_eq_requestPath dispatch_spec_independent AdmissibleSpec summary exRouter)

/-- The loop of `message.Options.Unmarshal` takes the number it computed for an option as the base of the next option's delta
    (fact regenerated from message/options.go; shapes other than the two recognised ones fail closed). -/
theorem option_delta_base_is_the_computed_number : optionDeltaBase = .computed := by decide

/-- what the decoder keeps of a numbered option list -/
def keptOpts (opts : List (Nat × Str)) : List (Nat × Str) :=
  opts.filter (fun o => optionKept o.1 (byteLen o.2) && decide (o.1 ≠ 0))

theorem unmarshal_computed_from (ws : List WireOpt) :
    ∀ prev, (∀ o ∈ optionNumbers ws, o.1 + prev ≤ optionIDMax) →
      unmarshalOpts .computed prev ws = some (keptOpts ((optionNumbers ws).map (fun o => (o.1 + prev, o.2)))) := by
  induction ws with
  | nil => intro prev _; rfl
  | cons w rest ih =>
    obtain ⟨d, v⟩ := w
    intro prev h
    have hd : prev + d ≤ optionIDMax := by
      have := h (d, v) (by simp [optionNumbers])
      simp only at this; omega
    have hrest : ∀ o ∈ optionNumbers rest, o.1 + (prev + d) ≤ optionIDMax := by
      intro o ho
      have := h (o.1 + d, o.2) (by
        simp only [optionNumbers, List.mem_cons, List.mem_map]
        exact Or.inr ⟨o, ho, rfl⟩)
      simp only at this; omega
    have hmap : ((optionNumbers rest).map (fun o => (o.1 + d, o.2))).map (fun o => (o.1 + prev, o.2)) =
        (optionNumbers rest).map (fun o => (o.1 + (prev + d), o.2)) := by
      rw [List.map_map]
      apply List.map_congr_left
      intro o _
      simp only [Function.comp, Prod.mk.injEq, and_true]
      omega
    simp only [unmarshalOpts, ih (prev + d) hrest, optionNumbers, List.map_cons, hmap, keptOpts, List.filter_cons,
      Nat.add_comm d prev]
    rw [if_neg (by omega)]
    generalize prev + d = n
    by_cases hk : optionKept n (byteLen v) = true <;> by_cases h0 : n = 0 <;> simp [hk, h0]

/-- **The decoder reconstructs the option numbers of RFC 7252 §3.1, skipped options included.**  For every option list whose
    numbers fit an OptionID: decoding succeeds and yields the options numbered by the sum of the deltas up to them, minus those
    the decoder skips (value length outside the window of the definition; number 0) — a skipped option still counts towards the
    numbers of the options behind it. -/
theorem decoder_numbers_options_by_delta_sums (ws : List WireOpt) (h : ∀ o ∈ optionNumbers ws, o.1 ≤ 65535) :
    unmarshalOpts optionDeltaBase 0 ws = some (keptOpts (optionNumbers ws)) := by
  rw [option_delta_base_is_the_computed_number, unmarshal_computed_from ws 0 (by simpa [optionIDMax] using h)]
  simp

/-- **Skipped options do not move the path.**  The Uri-Path values `Options.Path()` joins are the values of the options whose
    deltas add up to 11, all of them and in their order — whatever other options the request carries, in front of, between or
    behind them, and whether the decoder keeps or skips those. -/
theorem skipped_options_do_not_move_the_path (ws : List WireOpt) (h : ∀ o ∈ optionNumbers ws, o.1 ≤ 65535)
    (hlegal : ∀ s ∈ requestSegments ws, byteLen s ≤ 255) :
    (unmarshalOpts optionDeltaBase 0 ws).map uriPathValues = some (requestSegments ws) := by
  rw [decoder_numbers_options_by_delta_sums ws h]
  simp only [Option.map_some, Option.some.injEq, uriPathValues, requestSegments, keptOpts, List.filter_filter]
  congr 1
  apply List.filter_congr
  intro o ho
  by_cases h11 : o.1 = uriPathNumber
  · have hs : byteLen o.2 ≤ 255 := hlegal o.2 (by
      simp only [requestSegments, List.mem_map, List.mem_filter]
      exact ⟨o, ⟨ho, by simp [h11]⟩, rfl⟩)
    have h11' : o.1 = uriPathOptionID := by simpa [uriPathNumber, uriPathOptionID] using h11
    have hk : optionKept o.1 (byteLen o.2) = true := by
      rw [h11', uri_path_window]; exact decide_eq_true hs
    have h0 : o.1 ≠ 0 := by rw [h11]; decide
    have e : (o.1 = uriPathOptionID) = True := eq_true h11'
    have e2 : (o.1 = uriPathNumber) = True := eq_true h11
    have e3 : (o.1 = 0) = False := eq_false h0
    simp only [hk, e, e2, e3, decide_true, Bool.and_self, ne_eq, not_false_eq_true]
  · have h11' : ¬ o.1 = uriPathOptionID := by simpa [uriPathNumber, uriPathOptionID] using h11
    simp [h11, h11']

/-- **dispatch_spec for a message with any option list.**  A message with any code whose options are ANY list of (delta, value)
    pairs with 16-bit numbers and Uri-Path values of at most 255 bytes, received by a connection that got its handler from
    `options.WithMux(router)`: exactly one outcome, the admissible one for the path made of the values of the options numbered 11
    by the RFC's delta sums. -/
theorem wire_options_dispatch_spec (r : Router) (hwf : WF r) (order : List (Str × Route)) (hperm : order.Perm r.z)
    (code : Nat) (ws : List WireOpt) (h : ∀ o ∈ optionNumbers ws, o.1 ≤ 65535)
    (hlegal : ∀ s ∈ requestSegments ws, byteLen s ≤ 255) :
    AdmissibleSpec r.middlewares r.defaultHandler r.z (filterPath ((requestPath (requestSegments ws)).getD []))
      (r.wireOptsServe order code ws) := by
  have hp := skipped_options_do_not_move_the_path ws h hlegal
  simp only [Router.wireOptsServe]
  cases hu : unmarshalOpts optionDeltaBase 0 ws with
  | none => rw [hu] at hp; simp at hp
  | some opts =>
    rw [hu] at hp
    simp only [Option.map_some, Option.some.injEq] at hp
    simp only [hp, wirePath_eq_requestPath]
    exact dispatch_spec_independent r hwf order hperm (requestPath (requestSegments ws))

/-- the same message as `Router.wireServe` sees it: only its Uri-Path values matter -/
theorem wire_options_serve_eq_wireServe (r : Router) (order : List (Str × Route)) (code : Nat) (ws : List WireOpt)
    (h : ∀ o ∈ optionNumbers ws, o.1 ≤ 65535) (hlegal : ∀ s ∈ requestSegments ws, byteLen s ≤ 255) :
    r.wireOptsServe order code ws = r.wireServe order code (requestSegments ws) := by
  have hp := skipped_options_do_not_move_the_path ws h hlegal
  simp only [Router.wireOptsServe, Router.wireServe]
  cases hu : unmarshalOpts optionDeltaBase 0 ws with
  | none => rw [hu] at hp; simp at hp
  | some opts =>
    rw [hu] at hp
    simp only [Option.map_some, Option.some.injEq] at hp
    simp only [hp, CoapVerif.Props.C17.uri_path_segments_survive_decoding _ hlegal]

/-- the shape `prev = option.ID` does NOT have the property: an empty Uri-Host (number 3, skipped) in front of `/a/b` (deltas 8, 0)
    and the decoder numbers the two path options 8 (Location-Path): no Uri-Path value is left -/
theorem decoded_id_as_delta_base_loses_the_path :
    (unmarshalOpts .decoded 0 [(3, []), (8, ['a']), (0, ['b'])]).map uriPathValues = some [] ∧
    requestSegments [(3, []), (8, ['a']), (0, ['b'])] = [['a'], ['b']] := by decide

/-- non-vacuity: an empty Uri-Host, a 4-byte Observe, then `/a/b`, then a 3-byte Content-Format: the path is `/a/b` -/
example : (unmarshalOpts optionDeltaBase 0 [(3, []), (3, ['1', '2', '3', '4']), (5, ['a']), (0, ['b']), (1, ['x', 'y', 'z'])]).map uriPathValues =
    some [['a'], ['b']] := by decide
example : summary (exRouter.wireOptsServe exRouter.z 1 [(3, []), (8, ['a']), (0, ['b'])]) =
    summary (exRouter.wireServe exRouter.z 1 [['a'], ['b']]) := by decide

end CoapVerif.Props.C17Wire

section Audit
open CoapVerif.Props.C17Wire
#print axioms option_delta_base_is_the_computed_number
#print axioms unmarshal_computed_from
#print axioms decoder_numbers_options_by_delta_sums
#print axioms skipped_options_do_not_move_the_path
#print axioms wire_options_dispatch_spec
#print axioms wire_options_serve_eq_wireServe
#print axioms decoded_id_as_delta_base_loses_the_path
end Audit
