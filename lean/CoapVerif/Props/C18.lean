import CoapVerif.Go.Basic
import CoapVerif.Model.Monitor
import CoapVerif.Spec.Monitor
/-!
# C18 — Inactivity and keep-alive monitors close exactly the dead connections

Statement (properties.jsonl): a connection guarded by an inactivity monitor is closed by the monitor only if
no message was received from the peer for a full configured period, and it is closed at the first
housekeeping tick after such a period.  With keep-alive, the connection is closed only after more than the
configured number of consecutive pings went unanswered; any answered ping or other received message resets the
count, and a late answer to an earlier ping is not credited to a later one.

Model: `Model/Monitor.lean` (comparison operators, "Notify resets the counter" and the datagram server's
look-ahead are regenerated from the AST of /repo).  Histories are arbitrary lists of
{message received, pong received, tick at time t} events with arbitrary times.

Reading of "more than the configured number": with `maxRetries = n` the monitor makes at most `n` ping attempts in a
row; the connection is closed at the `(n+1)`-th consecutive idle firing, i.e. after `n` ping attempts went unanswered
(that is what `v > maxRetries` in `OnInactive` implements).  A *firing* is a housekeeping tick later than
`lastActivity + period`; `OnInactive` does not touch `lastActivity`, so once the period has elapsed EVERY further tick
is a firing: consecutive pings are spaced by the housekeeping interval, not by the period, and a ping whose send fails
counts like one that was sent.  Nothing here (and nothing in the property) says how long a ping is given to be
answered; see observation O4 in `Findings/C18.lean` and docs/notes/C18.md.

The datagram server's per-datagram expiry check uses `now + look-ahead` (10 ms): see `datagram_close_bound`
(partial) and `Findings/C18.lean` (witness: a peer can be closed although it was silent for less than a period).
-/
namespace CoapVerif.Props.C18
open CoapVerif CoapVerif.Model.Monitor CoapVerif.Generated.Monitor
open CoapVerif.Spec.Monitor (Ev Out lastMsg streak noDatagram)

theorem run_append (cfg : Cfg) (s : St) (a b : List Ev) :
    run cfg s (a ++ b) = ((run cfg (run cfg s a).1 b).1, (run cfg s a).2 ++ (run cfg (run cfg s a).1 b).2) := by
  induction a generalizing s with
  | nil => simp [run]
  | cons e a ih => simp [run, ih, List.append_assoc]

theorem run_closed (cfg : Cfg) (s : St) (evs : List Ev) (h : s.closed = true) : run cfg s evs = (s, []) := by
  induction evs with
  | nil => rfl
  | cons e es ih => simp [run, step, h, ih]

/-- A step never reopens a closed connection and a closed step leaves a closed state. -/
theorem step_closed_mono (cfg : Cfg) (s : St) (e : Ev) (h : (step cfg s e).1.closed = false) : s.closed = false := by
  cases hc : s.closed with
  | false => rfl
  | true => simp [step, hc] at h

theorem run_closed_mono (cfg : Cfg) (s : St) (evs : List Ev) (h : (run cfg s evs).1.closed = false) :
    s.closed = false := by
  cases hc : s.closed with
  | false => rfl
  | true => rw [run_closed cfg s evs hc] at h; simp [hc] at h

/-- While the connection is open, `last` is the time of the latest message and — with keep-alive — the failure
    counter is the number of consecutive idle firings since that message (all histories, server look-ups included). -/
theorem run_track (cfg : Cfg) (hp : cfg.period ≠ 0) (evs : List Ev) : ∀ (s : St),
    (run cfg s evs).1.closed = false →
      (run cfg s evs).1.last = lastMsg s.last evs ∧
      (cfg.maxRetries.isSome = true → (run cfg s evs).1.fails = streak cfg.period s.last s.fails evs) := by
  induction evs with
  | nil => intro s _; simp [run, lastMsg, streak]
  | cons e es ih =>
    intro s hopen
    have hs : s.closed = false := run_closed_mono cfg s (e :: es) hopen
    simp only [run] at hopen ⊢
    have hopen1 : (step cfg s e).1.closed = false := run_closed_mono cfg _ es hopen
    cases e with
    | recv t =>
      have := ih (step cfg s (.recv t)).1 hopen
      simp only [step, hs, Bool.false_eq_true, if_false, notify] at this ⊢
      simp only [lastMsg, streak]
      refine ⟨this.1, fun hk => ?_⟩
      have h2 := this.2 hk
      simpa [hk, notifyResetsFails] using h2
    | pong g t =>
      have := ih (step cfg s (.pong g t)).1 hopen
      simp only [lastMsg, streak]
      have hl : (step cfg s (.pong g t)).1.last = t := by
        simp only [step, hs, Bool.false_eq_true, if_false, notify]; split <;> rfl
      have hf : cfg.maxRetries.isSome = true → (step cfg s (.pong g t)).1.fails = 0 := by
        intro hk
        simp only [step, hs, Bool.false_eq_true, if_false, notify, hk, notifyResetsFails, Bool.and_self, if_true]
        split
        · simp
        · rfl
      refine ⟨by rw [this.1, hl], fun hk => ?_⟩
      rw [this.2 hk, hl, hf hk]
    | tick t =>
      have := ih (step cfg s (.tick t)).1 hopen
      simp only [lastMsg, streak]
      simp only [step, hs, Bool.false_eq_true, if_false, check, hp, fireStrict, if_true] at this hopen1 ⊢
      by_cases hf : t > s.last + cfg.period
      · simp only [hf, if_true] at this hopen1 ⊢
        cases hm : cfg.maxRetries with
        | none => simp [hm] at hopen1
        | some n =>
          simp only [hm, onInactive, closeWhenGreater, if_true] at this hopen1 ⊢
          by_cases hv : s.fails + 1 > n
          · simp [hv] at hopen1
          · simp only [hv, if_false, if_true, Bool.false_eq_true] at this ⊢
            exact ⟨this.1, fun _ => this.2 (by simp)⟩
      · simp only [hf, if_false] at this ⊢
        exact this
    | tickFail t =>
      have := ih (step cfg s (.tickFail t)).1 hopen
      simp only [lastMsg, streak]
      simp only [step, hs, Bool.false_eq_true, if_false, check, hp, fireStrict, if_true] at this hopen1 ⊢
      by_cases hf : t > s.last + cfg.period
      · simp only [hf, if_true] at this hopen1 ⊢
        cases hm : cfg.maxRetries with
        | none => simp [hm] at hopen1
        | some n =>
          simp only [hm, onInactive, closeWhenGreater, if_true] at this hopen1 ⊢
          by_cases hv : s.fails + 1 > n
          · simp [hv] at hopen1
          · simp only [hv, if_false, if_true, Bool.false_eq_true] at this ⊢
            exact ⟨this.1, fun _ => this.2 (by simp)⟩
      · simp only [hf, if_false] at this ⊢
        exact this
    | datagram t =>
      have := ih (step cfg s (.datagram t)).1 hopen
      simp only [lastMsg, streak]
      have hstep : (step cfg s (.datagram t)).1 = notify cfg (check cfg s (t + serverLookaheadNs)).1 t := by
        simp only [step, hs, Bool.false_eq_true, if_false] at hopen1 ⊢
        split
        · rename_i hcl; simp [hcl] at hopen1
        · rfl
      have hl : (step cfg s (.datagram t)).1.last = t := by rw [hstep]; rfl
      have hf : cfg.maxRetries.isSome = true → (step cfg s (.datagram t)).1.fails = 0 := by
        intro hk; rw [hstep]; simp [notify, hk, notifyResetsFails]
      refine ⟨by rw [this.1, hl], fun hk => ?_⟩
      rw [this.2 hk, hl, hf hk]

/-- a housekeeping tick; `fail` = nothing can be sent at that moment -/
def tickEv (fail : Bool) (t : Int) : Ev := if fail then .tickFail t else .tick t

theorem step_tickEv (cfg : Cfg) (s : St) (fail : Bool) (t : Int) (hs : s.closed = false) :
    step cfg s (tickEv fail t) = check cfg s t (!fail) := by
  cases fail <;> simp [tickEv, step, hs]

/-- **closed_only_if_silent_for_period** (plain inactivity monitor): if the tick at time `t` closes the connection,
    then more than a full period has passed since the latest message from the peer (every earlier history, with or
    without server look-ups; either kind of tick). -/
theorem closed_only_if_silent_for_period (cfg : Cfg) (t0 : Int) (pre : List Ev) (t : Int) (fail : Bool)
    (hm : cfg.maxRetries = none)
    (hopen : (run cfg (init t0) pre).1.closed = false)
    (hclose : Out.close ∈ (step cfg (run cfg (init t0) pre).1 (tickEv fail t)).2) :
    cfg.period ≠ 0 ∧ t > lastMsg t0 pre + cfg.period := by
  rw [step_tickEv _ _ _ _ hopen] at hclose
  have hp : cfg.period ≠ 0 := by
    intro h0
    simp [check, h0] at hclose
  have htr : (run cfg (init t0) pre).1.last = lastMsg t0 pre := (run_track cfg hp pre (init t0) hopen).1
  refine ⟨hp, ?_⟩
  simp only [check, hp, fireStrict, if_true, if_false] at hclose
  by_cases hf : t > (run cfg (init t0) pre).1.last + cfg.period
  · rw [htr] at hf; exact hf
  · simp [hf] at hclose

/-- **closed_at_first_tick_after_period**: an open, plainly monitored connection is closed by the first tick that
    comes more than a period after the latest message. -/
theorem closed_at_first_tick_after_period (cfg : Cfg) (t0 : Int) (pre : List Ev) (t : Int) (fail : Bool)
    (hm : cfg.maxRetries = none) (hp : cfg.period ≠ 0)
    (hopen : (run cfg (init t0) pre).1.closed = false)
    (hidle : t > lastMsg t0 pre + cfg.period) :
    step cfg (run cfg (init t0) pre).1 (tickEv fail t) = ({ (run cfg (init t0) pre).1 with closed := true }, [.close]) := by
  have htr : (run cfg (init t0) pre).1.last = lastMsg t0 pre := (run_track cfg hp pre (init t0) hopen).1
  have hf : t > (run cfg (init t0) pre).1.last + cfg.period := by rw [htr]; exact hidle
  rw [step_tickEv _ _ _ _ hopen]
  simp [check, hp, fireStrict, hf, hm]

/-- A tick inside the period does nothing at all (no ping, no close). -/
theorem tick_within_period_noop (cfg : Cfg) (s : St) (t : Int) (h : ¬ t > s.last + cfg.period) :
    step cfg s (.tick t) = (s, []) := by
  by_cases hc : s.closed = true
  · simp [step, hc]
  · have hc' : s.closed = false := by simpa using hc
    simp [step, hc', check, fireStrict, h]

/-- **keepalive_close_needs_unanswered_run**: with keep-alive (`maxRetries = n`), the tick (of either kind) that
    closes the connection is an idle firing that was preceded by at least `n` consecutive idle firings since the latest
    message from the peer.  Each of those made one ping attempt (`firing_attempts_one_ping`: a ping was sent, or its
    send failed) and none was answered — an answer is a message and would have reset the streak.  Nothing is said
    about the time between the firings: see O4. -/
theorem keepalive_close_needs_unanswered_run (cfg : Cfg) (n : Nat) (t0 : Int) (pre : List Ev) (t : Int) (fail : Bool)
    (hm : cfg.maxRetries = some n)
    (hopen : (run cfg (init t0) pre).1.closed = false)
    (hclose : Out.close ∈ (step cfg (run cfg (init t0) pre).1 (tickEv fail t)).2) :
    cfg.period ≠ 0 ∧ t > lastMsg t0 pre + cfg.period ∧ streak cfg.period t0 0 pre ≥ n := by
  rw [step_tickEv _ _ _ _ hopen] at hclose
  have hp : cfg.period ≠ 0 := by
    intro h0
    simp [check, h0] at hclose
  have htr0 := run_track cfg hp pre (init t0) hopen
  have htr : (run cfg (init t0) pre).1.last = lastMsg t0 pre := htr0.1
  have hfails : (run cfg (init t0) pre).1.fails = streak cfg.period t0 0 pre := htr0.2 (by simp [hm])
  refine ⟨hp, ?_⟩
  simp only [check, hp, fireStrict, if_true, if_false] at hclose
  by_cases hf : t > (run cfg (init t0) pre).1.last + cfg.period
  · simp only [hf, if_true, hm, onInactive, closeWhenGreater] at hclose
    by_cases hv : (run cfg (init t0) pre).1.fails + 1 > n
    · refine ⟨by rw [htr] at hf; exact hf, ?_⟩
      rw [← hfails]; omega
    · exfalso
      cases fail <;>
        (simp only [hv, if_false, Bool.not_false, Bool.not_true, if_true, Bool.false_eq_true] at hclose
         simp only [List.mem_append, List.mem_singleton] at hclose
         rcases hclose with h | h
         · split at h <;> simp at h
         · cases h)
  · simp [hf] at hclose

/-- Each idle firing below the limit sends exactly one new ping, after cancelling the superseded one. -/
theorem firing_sends_one_ping (n : Nat) (s : St) (h : ¬ s.fails + 1 > n) :
    (onInactive n s).2 = (match s.cancelSet with | some g => [Out.cancelPing g] | none => []) ++ [Out.ping (s.gen + 1)] := by
  unfold onInactive
  simp only [closeWhenGreater, h, if_true, if_false]
  rfl

/-- the same when the send fails: one attempt (`pingFailed`), the generation still advances, nothing is left to cancel -/
theorem firing_attempts_one_ping (n : Nat) (s : St) (h : ¬ s.fails + 1 > n) :
    (onInactive n s false).2 = (match s.cancelSet with | some g => [Out.cancelPing g] | none => []) ++ [Out.pingFailed (s.gen + 1)] := by
  unfold onInactive
  simp only [closeWhenGreater, h, if_true, if_false]
  rfl

/-- **answered_resets**: any message from the peer — a pong or anything else — resets the count of unanswered pings. -/
theorem answered_resets (cfg : Cfg) (n : Nat) (s : St) (hm : cfg.maxRetries = some n) (hs : s.closed = false) :
    (∀ t, (step cfg s (.recv t)).1.fails = 0) ∧ (∀ g t, (step cfg s (.pong g t)).1.fails = 0) := by
  constructor
  · intro t; simp [step, hs, notify, hm, notifyResetsFails]
  · intro g t
    simp only [step, hs, Bool.false_eq_true, if_false, notify, hm, notifyResetsFails, Option.isSome_some, Bool.and_self, if_true]
    split
    · simp
    · rfl

/-- **late_pong_not_credited**: the answer to a ping that has been superseded (its handler was cancelled when the next
    ping was sent) never reaches the pong callback of the newer ping: all it does is what every received message does
    (`notify`: it refreshes `lastActivity` and — since fix F14 — resets the counter, because it proves the peer alive;
    the property's two clauses "any received message resets the count" and "a late answer is not credited to a later
    ping" meet here: the reset is that of a received message, the generation token keeps the callback out of it). -/
theorem late_pong_not_credited (cfg : Cfg) (s : St) (g : Nat) (t : Int) (hs : s.closed = false)
    (hg : s.pending ≠ some g) : step cfg s (.pong g t) = (notify cfg s t, []) := by
  have : (notify cfg s t).pending ≠ some g := by simpa [notify] using hg
  simp [step, hs, this]

/-- Only the newest ping can ever be pending: sending a new ping unregisters the previous one. -/
theorem pending_is_newest (n : Nat) (s : St) : (onInactive n s).1.pending = none ∨
    (onInactive n s).1.pending = some (onInactive n s).1.gen := by
  unfold onInactive
  simp only [closeWhenGreater, if_true]
  by_cases h : s.fails + 1 > n
  · left; simp [h]
  · right; simp [h]

/-- **datagram_close_bound** (partial, datagram server): a known peer's connection can be closed on the arrival of its own
    datagram only when that datagram comes later than `period − look-ahead` after the previous message. The full
    statement (`> period`) is false of the code: see `Findings/C18.lean`. -/
theorem datagram_close_bound_partial (cfg : Cfg) (s : St) (t : Int) (hs : s.closed = false)
    (hclose : Out.close ∈ (step cfg s (.datagram t)).2) :
    t + serverLookaheadNs > s.last + cfg.period := by
  by_cases hf : t + (serverLookaheadNs : Int) > s.last + cfg.period
  · exact hf
  · exfalso
    have hc : check cfg s (t + serverLookaheadNs) = (s, []) := by
      unfold check
      by_cases hp : cfg.period = 0
      · simp [hp]
      · simp [hp, fireStrict, hf]
    simp [step, hs, hc] at hclose

/-! Non-vacuity: period 100, plain monitor — closed by the tick at 301 after the last message at 200; keep-alive with
    one retry — ping at 101, message at 150 resets, ping again at 251, closed at 252. -/
example : (run ⟨100, none⟩ (init 0) [.recv 50, .tick 120, .recv 200, .tick 300, .tick 301]).2 = [.close] := by decide
example : (run ⟨100, some 1⟩ (init 0) [.tick 101, .recv 150, .tick 251, .tick 252]).2
    = [.ping 1, .cancelPing 1, .ping 2, .cancelPing 2, .close] := by decide

/-! ### servers: the per-connection theorems apply to every accepted connection -/

theorem modifyAt_length (f : St → St) (i : Nat) (ss : List St) : (modifyAt f i ss).length = ss.length := by
  induction ss generalizing i with
  | nil => simp [modifyAt]
  | cons s r ih => cases i <;> simp [modifyAt, ih]

theorem modifyAt_get (f : St → St) (i j : Nat) (ss : List St) :
    (modifyAt f i ss)[j]? = if j = i then ss[j]?.map f else ss[j]? := by
  induction ss generalizing i j with
  | nil => simp [modifyAt]
  | cons s r ih =>
    cases i with
    | zero => cases j <;> simp [modifyAt]
    | succ i =>
      cases j with
      | zero => simp [modifyAt]
      | succ j => simp [modifyAt, ih]

theorem run_fst_append (cfg : Cfg) (s : St) (a b : List Ev) :
    (run cfg s (a ++ b)).1 = (run cfg (run cfg s a).1 b).1 := by
  rw [run_append]

theorem run_single (cfg : Cfg) (s : St) (e : Ev) : (run cfg s [e]).1 = (step cfg s e).1 := by
  simp [run]

/-- One server step, seen from connection `i`: it is the run of what `i` sees of the event. -/
theorem srvStep_proj (cfg : Cfg) (ss : List St) (ev : SrvEv) (i : Nat) :
    (srvStep cfg ss ev)[i]? = ss[i]?.map (fun s => (run cfg s (projEv i ev)).1) := by
  cases ev with
  | conn j e =>
    simp only [srvStep, projEv, modifyAt_get]
    by_cases h : i = j
    · subst h; simp [run_single]
    · have h' : ¬ j = i := fun x => h x.symm
      simp [h, h', run]
  | tickAll t => simp [srvStep, projEv, run_single]

/-- **Refinement.** Whatever happens on the other connections of a server and however the server's ticks interleave with
    them, the monitor state of the `i`-th accepted connection is the state the single-connection model reaches on what
    that connection saw: its own messages and every server tick.  All single-connection theorems above therefore hold
    for every connection of a server. -/
theorem server_conn_is_single_conn (cfg : Cfg) (evs : List SrvEv) : ∀ (ss : List St) (i : Nat),
    (srvRun cfg ss evs)[i]? = ss[i]?.map (fun s => (run cfg s (proj i evs)).1) := by
  induction evs with
  | nil => intro ss i; simp [srvRun, proj, run]
  | cons ev r ih =>
    intro ss i
    have h := ih (srvStep cfg ss ev) i
    simp only [srvRun, List.foldl_cons] at h ⊢
    rw [h, srvStep_proj]
    cases hs : ss[i]? with
    | none => simp
    | some s =>
      simp only [Option.map_some, proj, List.flatMap_cons]
      rw [run_fst_append]

/-- the number of connections is not changed by events -/
theorem srvRun_length (cfg : Cfg) (evs : List SrvEv) : ∀ ss : List St, (srvRun cfg ss evs).length = ss.length := by
  induction evs with
  | nil => intro ss; simp [srvRun]
  | cons ev r ih =>
    intro ss
    have := ih (srvStep cfg ss ev)
    simp only [srvRun, List.foldl_cons] at this ⊢
    rw [this]
    cases ev <;> simp [srvStep, modifyAt_length]

/-- Consequence used by the server-level runs: a connection that is heard from right before every tick - at a time no
    earlier than `period` before it - is not closed by that tick. -/
theorem talkative_survives_tick (cfg : Cfg) (s : St) (t : Int) (hp : 0 ≤ cfg.period) :
    ((run cfg s [.recv t, .tick t]).1).closed = s.closed := by
  by_cases hc : s.closed = true
  · simp [run, step, hc]
  · have hc' : s.closed = false := by simpa using hc
    have : ¬ t > t + cfg.period := by omega
    simp only [run, step, hc', notify, check]
    by_cases h0 : cfg.period = 0
    · simp [h0, hc']
    · by_cases hf : fireStrict = true
      · simp [h0, hf, this, hc']
      · -- non-strict firing (`≥`) closes a connection heard from at the very instant of the tick only if period = 0
        have hf' : fireStrict = false := by simpa using hf
        have : ¬ t ≥ t + cfg.period := by omega
        simp [h0, hf', this, hc']

-- three connections; the second one is silent, the third one is heard from before every tick: only the silent one is closed
example : ((srvRun ⟨100, none⟩ [init 0, init 0, init 0]
      [.conn 0 (.recv 50), .conn 2 (.recv 120), .tickAll 120, .conn 2 (.recv 240), .tickAll 240]).map (·.closed))
    = [true, true, false] := by decide
example : proj 0 [.conn 0 (.recv 50), .conn 2 (.recv 120), .tickAll 120] = [.recv 50, .tick 120] := by decide

end CoapVerif.Props.C18

section Audit
open CoapVerif.Props.C18
#print axioms run_append
#print axioms run_closed
#print axioms step_closed_mono
#print axioms run_closed_mono
#print axioms run_track
#print axioms step_tickEv
#print axioms closed_only_if_silent_for_period
#print axioms closed_at_first_tick_after_period
#print axioms tick_within_period_noop
#print axioms keepalive_close_needs_unanswered_run
#print axioms firing_sends_one_ping
#print axioms firing_attempts_one_ping
#print axioms answered_resets
#print axioms late_pong_not_credited
#print axioms pending_is_newest
#print axioms datagram_close_bound_partial
#print axioms modifyAt_length
#print axioms modifyAt_get
#print axioms run_fst_append
#print axioms run_single
#print axioms srvStep_proj
#print axioms server_conn_is_single_conn
#print axioms srvRun_length
#print axioms talkative_survives_tick
end Audit
