import CoapVerif.Props.C18
/-!
# C18, far along: the count of unanswered pings at every retry limit

Statement (properties.jsonl): "… With keep-alive, the connection is closed only after more than the configured number of
consecutive pings went unanswered; any answered ping or other received message resets the count …", quantified over
"all retry limits".

`Props/C18.lean` proves the *only-if* half (`keepalive_close_needs_unanswered_run`).  The eleventh seeded round (C18-W: the
count kept in the low 16 bits of a word shared with the ping number) showed the other half missing: a dead peer IS closed,
at exactly the `(maxRetries+1)`-th consecutive idle firing, for EVERY `maxRetries` — there is no bound on `n` below, the
induction is over the history.

* `keepalive_closes_when_run_exceeds` — every history; if at least `n` consecutive idle firings have happened since the
  latest message, the next idle tick (sendable or not) closes the connection and sends no ping.
* `keepalive_pings_below_limit` — … and with fewer than `n` it does not close and makes exactly one ping attempt.
* `silent_run_open` / `silent_run_closes` — a silent stretch of ticks written out: `k ≤ n - fails` idle ticks leave the
  connection open with the count advanced by `k`; the tick after `n - fails` of them closes.
* `fails_le_succ_retries` — the count never exceeds `n + 1` in any history: a counter of `w` bits is exact (never wraps) for
  every `n` with `n + 1 < 2^w`; Go's `numFails` is a `uint32` and `maxRetries` a `uint32`, so the model's unbounded `Nat`
  agrees with the code for every `n ≤ 2^32 − 2`.  (`n = 2^32 − 1`: the code's count wraps to 0 at the 2^32-th firing and
  the connection is never closed — observation O5 in docs/notes/C18.md; reaching it takes 2^32 housekeeping ticks.)
-/
namespace CoapVerif.Props.C18Far
open CoapVerif CoapVerif.Model.Monitor CoapVerif.Generated.Monitor CoapVerif.Props.C18
open CoapVerif.Spec.Monitor (Ev Out lastMsg streak)

/-- what an idle firing does to an open keep-alive connection whose count has reached the limit: it closes, no ping -/
theorem firing_at_limit_closes (cfg : Cfg) (n : Nat) (s : St) (t : Int) (sendOK : Bool)
    (hm : cfg.maxRetries = some n) (hp : cfg.period ≠ 0) (hidle : t > s.last + cfg.period) (hk : s.fails ≥ n) :
    (check cfg s t sendOK).1.closed = true ∧ Out.close ∈ (check cfg s t sendOK).2 ∧
      (∀ g, Out.ping g ∉ (check cfg s t sendOK).2) := by
  have hv : s.fails + 1 > n := by omega
  simp only [check, hp, fireStrict, if_true, if_false, hidle, hm, onInactive, closeWhenGreater, hv]
  refine ⟨by simp, by simp, ?_⟩
  intro g hg
  simp only [List.mem_append, List.mem_singleton] at hg
  rcases hg with h | h
  · split at h <;> simp at h
  · cases h

/-- … and below the limit: stays open, the count advances by one, exactly one ping attempt -/
theorem firing_below_limit_pings (cfg : Cfg) (n : Nat) (s : St) (t : Int) (sendOK : Bool)
    (hm : cfg.maxRetries = some n) (hp : cfg.period ≠ 0) (hs : s.closed = false)
    (hidle : t > s.last + cfg.period) (hk : s.fails < n) :
    (check cfg s t sendOK).1.closed = false ∧ (check cfg s t sendOK).1.fails = s.fails + 1 ∧
      (check cfg s t sendOK).1.last = s.last ∧ Out.close ∉ (check cfg s t sendOK).2 ∧
      ((check cfg s t sendOK).2.filter (fun o => o == Out.ping (s.gen + 1) || o == Out.pingFailed (s.gen + 1))).length = 1 := by
  have hv : ¬ s.fails + 1 > n := by omega
  cases sendOK <;> cases hc : s.cancelSet <;>
    simp [check, hp, fireStrict, hidle, hm, onInactive, closeWhenGreater, hv, hs, hc]

/-- **keepalive_closes_when_run_exceeds** (every retry limit `n`, every earlier history): once `n` consecutive idle
    firings have happened since the latest message from the peer, the next tick that still finds the peer silent for more
    than the period closes the connection. -/
theorem keepalive_closes_when_run_exceeds (cfg : Cfg) (n : Nat) (t0 : Int) (pre : List Ev) (t : Int) (fail : Bool)
    (hm : cfg.maxRetries = some n) (hp : cfg.period ≠ 0)
    (hopen : (run cfg (init t0) pre).1.closed = false)
    (hidle : t > lastMsg t0 pre + cfg.period) (hk : streak cfg.period t0 0 pre ≥ n) :
    (step cfg (run cfg (init t0) pre).1 (tickEv fail t)).1.closed = true ∧
      Out.close ∈ (step cfg (run cfg (init t0) pre).1 (tickEv fail t)).2 ∧
      (∀ g, Out.ping g ∉ (step cfg (run cfg (init t0) pre).1 (tickEv fail t)).2) := by
  have htr := run_track cfg hp pre (init t0) hopen
  have hl : (run cfg (init t0) pre).1.last = lastMsg t0 pre := htr.1
  have hf : (run cfg (init t0) pre).1.fails = streak cfg.period t0 0 pre := htr.2 (by simp [hm])
  rw [step_tickEv _ _ _ _ hopen]
  exact firing_at_limit_closes cfg n _ t (!fail) hm hp (by rw [hl]; exact hidle) (by rw [hf]; exact hk)

/-- **keepalive_pings_below_limit**: with fewer than `n` consecutive idle firings so far, an idle tick does not close: it
    makes exactly one ping attempt and the count advances. -/
theorem keepalive_pings_below_limit (cfg : Cfg) (n : Nat) (t0 : Int) (pre : List Ev) (t : Int) (fail : Bool)
    (hm : cfg.maxRetries = some n) (hp : cfg.period ≠ 0)
    (hopen : (run cfg (init t0) pre).1.closed = false)
    (hidle : t > lastMsg t0 pre + cfg.period) (hk : streak cfg.period t0 0 pre < n) :
    (step cfg (run cfg (init t0) pre).1 (tickEv fail t)).1.closed = false ∧
      Out.close ∉ (step cfg (run cfg (init t0) pre).1 (tickEv fail t)).2 ∧
      (step cfg (run cfg (init t0) pre).1 (tickEv fail t)).1.fails = streak cfg.period t0 0 pre + 1 := by
  have htr := run_track cfg hp pre (init t0) hopen
  have hl : (run cfg (init t0) pre).1.last = lastMsg t0 pre := htr.1
  have hf : (run cfg (init t0) pre).1.fails = streak cfg.period t0 0 pre := htr.2 (by simp [hm])
  rw [step_tickEv _ _ _ _ hopen]
  have h := firing_below_limit_pings cfg n _ t (!fail) hm hp hopen (by rw [hl]; exact hidle) (by rw [hf]; exact hk)
  exact ⟨h.1, h.2.2.2.1, by rw [h.2.1, hf]⟩

/-- a silent stretch: the ticks at the times `ts`, nothing received in between -/
def silent (ts : List Int) : List Ev := ts.map Ev.tick

/-- **silent_run_open**: `k` idle ticks in a row with `fails + k ≤ n` leave the connection open; the count is `fails + k`,
    the last activity is untouched (so every further tick is idle too). -/
theorem silent_run_open (cfg : Cfg) (n : Nat) (hm : cfg.maxRetries = some n) (hp : cfg.period ≠ 0) (ts : List Int) :
    ∀ (s : St), s.closed = false → (∀ t ∈ ts, t > s.last + cfg.period) → s.fails + ts.length ≤ n →
      (run cfg s (silent ts)).1.closed = false ∧ (run cfg s (silent ts)).1.fails = s.fails + ts.length ∧
      (run cfg s (silent ts)).1.last = s.last ∧ Out.close ∉ (run cfg s (silent ts)).2 := by
  induction ts with
  | nil => intro s hs _ _; simp [silent, run, hs]
  | cons t ts ih =>
    intro s hs hidle hk
    simp only [List.length_cons] at hk
    have h1 := firing_below_limit_pings cfg n s t true hm hp hs (hidle t (by simp)) (by omega)
    have hstep : step cfg s (.tick t) = check cfg s t true := by simp [step, hs]
    have h2 := ih (check cfg s t true).1 h1.1
      (by intro t' ht'; rw [h1.2.2.1]; exact hidle t' (by simp [ht'])) (by rw [h1.2.1]; omega)
    simp only [silent, List.map_cons, run, hstep] at h2 ⊢
    refine ⟨h2.1, by rw [h2.2.1, h1.2.1]; simp only [List.length_cons]; omega, by rw [h2.2.2.1, h1.2.2.1], ?_⟩
    intro hmem
    rcases List.mem_append.mp hmem with h | h
    · exact h1.2.2.2.1 h
    · exact h2.2.2.2 h

/-- **silent_run_closes**: a dead peer is closed at exactly the `(n + 1 − fails)`-th idle tick of a silent stretch —
    `n − fails` ticks that ping and stay open (`silent_run_open`), then the closing one.  Every `n`. -/
theorem silent_run_closes (cfg : Cfg) (n : Nat) (hm : cfg.maxRetries = some n) (hp : cfg.period ≠ 0) (ts : List Int) (t : Int)
    (s : St) (hs : s.closed = false) (hidle : ∀ t' ∈ ts ++ [t], t' > s.last + cfg.period) (hk : s.fails + ts.length = n) :
    (run cfg s (silent ts)).1.closed = false ∧ (run cfg s (silent (ts ++ [t]))).1.closed = true ∧
      Out.close ∈ (run cfg s (silent (ts ++ [t]))).2 := by
  have ho := silent_run_open cfg n hm hp ts s hs (fun t' h => hidle t' (by simp [h])) (by omega)
  refine ⟨ho.1, ?_⟩
  have hsplit : silent (ts ++ [t]) = silent ts ++ [Ev.tick t] := by simp [silent]
  have hstep : step cfg (run cfg s (silent ts)).1 (.tick t) = check cfg (run cfg s (silent ts)).1 t true := by
    simp [step, ho.1]
  have hc := firing_at_limit_closes cfg n (run cfg s (silent ts)).1 t true hm hp
    (by rw [ho.2.2.1]; exact hidle t (by simp)) (by rw [ho.2.1]; omega)
  rw [hsplit, run_append]
  simp only [run, hstep, List.append_nil]
  exact ⟨hc.1, List.mem_append.mpr (Or.inr hc.2.1)⟩

/-- `Notify` never raises the count and leaves `closed` alone -/
theorem notify_fails_le (cfg : Cfg) (s : St) (t : Int) :
    (notify cfg s t).fails ≤ s.fails ∧ (notify cfg s t).closed = s.closed := by
  refine ⟨?_, rfl⟩
  simp only [notify]; split <;> omega

/-- one `CheckInactivity` on an open connection whose count is within the limit -/
theorem check_fails_bound (cfg : Cfg) (n : Nat) (hm : cfg.maxRetries = some n) (s : St) (hf : s.fails ≤ n) (t : Int) (ok : Bool) :
    ((check cfg s t ok).1.closed = false → (check cfg s t ok).1.fails ≤ n) ∧ (check cfg s t ok).1.fails ≤ n + 1 := by
  unfold check
  by_cases hp : cfg.period = 0
  · simp only [hp, if_true]; exact ⟨fun _ => hf, by omega⟩
  · simp only [hp, if_false, fireStrict, if_true]
    by_cases hi : t > s.last + cfg.period
    · simp only [hi, if_true, hm, onInactive, closeWhenGreater]
      by_cases hv : s.fails + 1 > n
      · simp only [hv, if_true]; exact ⟨fun h => by simp at h, by omega⟩
      · cases ok <;> simp only [hv, if_false, if_true, Bool.false_eq_true] <;> exact ⟨fun _ => by omega, by omega⟩
    · simp only [hi, if_false]; exact ⟨fun _ => hf, by omega⟩

/-- one step of an open connection whose count is within the limit -/
theorem step_fails_bound (cfg : Cfg) (n : Nat) (hm : cfg.maxRetries = some n) (s : St) (hc : s.closed = false)
    (hf : s.fails ≤ n) (e : Ev) :
    ((step cfg s e).1.closed = false → (step cfg s e).1.fails ≤ n) ∧ (step cfg s e).1.fails ≤ n + 1 := by
  have hn := fun t => (notify_fails_le cfg s t).1
  cases e with
  | recv t =>
    have : (step cfg s (.recv t)).1 = notify cfg s t := by simp [step, hc]
    rw [this]; have := hn t; exact ⟨fun _ => by omega, by omega⟩
  | pong g t =>
    have : (step cfg s (.pong g t)).1.fails ≤ (notify cfg s t).fails := by
      simp only [step, hc, Bool.false_eq_true, if_false]
      split
      · simp only; split <;> omega
      · exact Nat.le_refl _
    have := hn t; exact ⟨fun _ => by omega, by omega⟩
  | tick t =>
    have : step cfg s (.tick t) = check cfg s t true := by simp [step, hc]
    rw [this]; exact check_fails_bound cfg n hm s hf t true
  | tickFail t =>
    have : step cfg s (.tickFail t) = check cfg s t false := by simp [step, hc]
    rw [this]; exact check_fails_bound cfg n hm s hf t false
  | datagram t =>
    have k := check_fails_bound cfg n hm s hf (t + serverLookaheadNs) true
    cases hcl : (check cfg s (t + serverLookaheadNs) true).1.closed with
    | true =>
      have : (step cfg s (.datagram t)).1 = (check cfg s (t + serverLookaheadNs) true).1 := by
        simp [step, hc, hcl]
      rw [this]; exact ⟨fun h => by simp [hcl] at h, k.2⟩
    | false =>
      have : (step cfg s (.datagram t)).1 = notify cfg (check cfg s (t + serverLookaheadNs) true).1 t := by
        simp [step, hc, hcl]
      rw [this]
      have h1 := (notify_fails_le cfg (check cfg s (t + serverLookaheadNs) true).1 t).1
      have h2 := k.1 hcl
      exact ⟨fun _ => by omega, by omega⟩

/-- **fails_le_succ_retries**: in every history the count of unanswered pings stays within `n + 1`, and within `n` while
    the connection is open — a counter of `w` bits with `n + 1 < 2^w` never wraps. -/
theorem fails_le_succ_retries (cfg : Cfg) (n : Nat) (hm : cfg.maxRetries = some n) (evs : List Ev) :
    ∀ (s : St), (s.closed = false → s.fails ≤ n) → s.fails ≤ n + 1 →
      ((run cfg s evs).1.closed = false → (run cfg s evs).1.fails ≤ n) ∧ (run cfg s evs).1.fails ≤ n + 1 := by
  induction evs with
  | nil => intro s h1 h2; exact ⟨h1, h2⟩
  | cons e es ih =>
    intro s h1 h2
    simp only [run]
    cases hc : s.closed with
    | true =>
      have : step cfg s e = (s, []) := by simp [step, hc]
      rw [this]; exact ih s h1 h2
    | false =>
      have k := step_fails_bound cfg n hm s hc (h1 hc) e
      exact ih _ k.1 k.2

/-- from a fresh monitor: the count is at most `maxRetries + 1` after any history -/
theorem fails_bounded_from_init (cfg : Cfg) (n : Nat) (hm : cfg.maxRetries = some n) (t0 : Int) (evs : List Ev) :
    (run cfg (init t0) evs).1.fails ≤ n + 1 :=
  (fails_le_succ_retries cfg n hm evs (init t0) (fun _ => by simp [init]) (by simp [init])).2

/-! Non-vacuity: two retries — pings at the first two idle ticks, closed at the third; a message in between starts the
    count again; and the shape of the far-along cases (`n` idle ticks open, the next one closes) at `n = 5`. -/
example : (run ⟨100, some 2⟩ (init 0) (silent [101, 102, 103])).2
    = [.ping 1, .cancelPing 1, .ping 2, .cancelPing 2, .close] := by decide
example : (run ⟨100, some 2⟩ (init 0) (silent [101, 102] ++ [.recv 150] ++ silent [251, 252])).1.closed = false := by decide
example : (run ⟨100, some 5⟩ (init 0) (silent [101, 102, 103, 104, 105])).1.closed = false ∧
    (run ⟨100, some 5⟩ (init 0) (silent ([101, 102, 103, 104, 105] ++ [106]))).1.closed = true :=
  let h := silent_run_closes ⟨100, some 5⟩ 5 rfl (by decide) [101, 102, 103, 104, 105] 106 (init 0) rfl (by decide) rfl
  ⟨h.1, h.2.1⟩

section Audit
#print axioms firing_at_limit_closes
#print axioms firing_below_limit_pings
#print axioms notify_fails_le
#print axioms check_fails_bound
#print axioms step_fails_bound
#print axioms keepalive_closes_when_run_exceeds
#print axioms keepalive_pings_below_limit
#print axioms silent_run_open
#print axioms silent_run_closes
#print axioms fails_le_succ_retries
#print axioms fails_bounded_from_init
end Audit

end CoapVerif.Props.C18Far
