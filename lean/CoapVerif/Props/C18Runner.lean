import CoapVerif.Model.Runner
/-!
# C18 / C09 — the housekeeping runner calls every live registration exactly once per period

"Closed at the first housekeeping tick after such a period" (C18) and the datagram server's completion of a closed peer's
shutdown on its next sweep (C09) presuppose that the runner which drives the ticks (`pkg/runner/periodic` when shared
through `options.WithPeriodicRunner`, the default goroutine-per-registration runner otherwise) calls every registered
function once per period, and drops a registration only after it has answered "no".  Model: `Model/Runner.lean`; tie X:
`harness/c18` `TestC18Runner` drives the real runners under synctest with register / finish / tick histories.
-/
namespace CoapVerif.Props.C18Runner
open CoapVerif.Model.Runner

/-! ### the housekeeping runner: every live registration is called exactly once per period -/

/-- ids registered by an op sequence are fresh w.r.t. a state (what the harness does, and what the callers do: every
    registration is a new closure) -/
def FreshOps (s : List Reg) : List Op → Prop
  | [] => True
  | .reg k :: r => k ∉ ids s ∧ FreshOps (s ++ [{ id := k }]) r
  | .fin k :: r => FreshOps (s.map (fun x => if x.id = k then { x with finishing := true } else x)) r
  | .tick :: r => FreshOps (s.filter (fun x => !x.finishing)) r

theorem ids_map_fin (s : List Reg) (k : Nat) :
    ids (s.map (fun x => if x.id = k then { x with finishing := true } else x)) = ids s := by
  induction s with
  | nil => rfl
  | cons a r ih =>
    simp only [ids, List.map_cons] at ih ⊢
    rw [ih]
    by_cases h : a.id = k <;> simp [h]

theorem ids_filter_sub (s : List Reg) (p : Reg → Bool) : ∀ k, k ∈ ids (s.filter p) → k ∈ ids s := by
  intro k hk
  simp only [ids, List.mem_map, List.mem_filter] at hk ⊢
  obtain ⟨a, ⟨ha, _⟩, rfl⟩ := hk
  exact ⟨a, ha, rfl⟩

theorem nodup_filter (s : List Reg) (p : Reg → Bool) (h : (ids s).Nodup) : (ids (s.filter p)).Nodup := by
  induction s with
  | nil => simpa [ids]
  | cons a r ih =>
    simp only [ids, List.map_cons, List.nodup_cons] at h
    by_cases hp : p a = true
    · simp only [ids, List.filter_cons, hp, if_true, List.map_cons, List.nodup_cons]
      refine ⟨fun hm => h.1 ?_, ih h.2⟩
      exact ids_filter_sub r p _ hm
    · simp only [ids, List.filter_cons, hp]
      exact ih h.2

/-- One step keeps the ids of the live registrations distinct (fresh registrations). -/
theorem step_nodup (b : Bool) (s : List Reg) (o : Op) (h : (ids s).Nodup) (hf : FreshOps s [o]) :
    (ids (step b s o).1).Nodup := by
  cases o with
  | reg k =>
    simp only [step, ids, List.map_append, List.map_cons, List.map_nil]
    rw [List.nodup_append]
    refine ⟨h, by simp, ?_⟩
    intro a ha b' hb'
    simp at hb'
    subst hb'
    intro hab; subst hab
    exact hf.1 ha
  | fin k => simpa [step, ids_map_fin] using h
  | tick => exact nodup_filter s _ h

/-- **Every live registration is called exactly once per period**: the calls of a tick are exactly the ids of the live
    registrations, without repetition - for every reachable state (any history of fresh registrations, finishes, ticks). -/
theorem tick_calls_every_live_once (b : Bool) (ops : List Op) : ∀ (s : List Reg), (ids s).Nodup → FreshOps s ops →
    let s' := (run b s ops).1
    (step b s' .tick).2 = ids s' ∧ (ids s').Nodup := by
  induction ops with
  | nil => intro s h _; exact ⟨rfl, h⟩
  | cons o r ih =>
    intro s h hf
    have h1 : (ids (step b s o).1).Nodup := by
      apply step_nodup b s o h
      cases o with
      | reg k => exact ⟨hf.1, trivial⟩
      | fin k => trivial
      | tick => trivial
    have hf1 : FreshOps (step b s o).1 r := by
      cases o with
      | reg k => exact hf.2
      | fin k => exact hf
      | tick => exact hf
    have := ih (step b s o).1 h1 hf1
    simpa [run] using this

/-- A registration that was not told to finish survives every step: no other registration, finish or tick removes or
    replaces it (C09-H: a later registration took the key of a live one). -/
theorem live_survives (b : Bool) (s : List Reg) (o : Op) (x : Reg) (hx : x ∈ s) (hnf : x.finishing = false)
    (ho : o ≠ .fin x.id) : ∃ y ∈ (step b s o).1, y.id = x.id ∧ y.finishing = false := by
  cases o with
  | reg k => exact ⟨x, by simp [step, hx], rfl, hnf⟩
  | fin k =>
    have hk : x.id ≠ k := fun h => ho (by rw [h])
    refine ⟨x, ?_, rfl, hnf⟩
    simp only [step, List.mem_map]
    exact ⟨x, hx, by simp [hk]⟩
  | tick => exact ⟨x, by simp [step, hx, hnf], rfl, hnf⟩

/-- A function that answered "no" is not called again. -/
theorem finished_not_called_again (b : Bool) (s : List Reg) (k : Nat) :
    k ∉ ids ((step b (step b s (.fin k)).1 .tick).1) := by
  simp only [step, ids, List.mem_map, List.mem_filter, not_exists, not_and]
  intro x hx hid
  obtain ⟨⟨y, hy, rfl⟩, hfin⟩ := hx
  by_cases hyk : y.id = k
  · simp [hyk] at hfin
  · simp [hyk] at hid

example : (run false [] [.reg 1, .reg 2, .tick, .fin 1, .tick, .reg 3, .tick]).2 = [[], [], [1, 2], [], [1, 2], [], [2, 3]] := by decide
example : (run true [] [.reg 1, .tick, .fin 1, .tick, .tick]).2 = [[1], [1], [], [1], []] := by decide


end CoapVerif.Props.C18Runner

section Audit
open CoapVerif.Props.C18Runner
#print axioms ids_map_fin
#print axioms ids_filter_sub
#print axioms nodup_filter
#print axioms step_nodup
#print axioms tick_calls_every_live_once
#print axioms live_survives
#print axioms finished_not_called_again
end Audit
