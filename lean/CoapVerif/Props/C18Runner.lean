import CoapVerif.Model.Runner
/-!
# C18 / C09 / C13 — the housekeeping runner calls every live registration exactly once per period

"Closed at the first housekeeping tick after such a period" (C18), the datagram server's completion of a closed peer's
shutdown on its next sweep (C09) and the expiry sweeps of every table (C13) presuppose that the runner which drives the
ticks (`pkg/runner/periodic` when shared through `options.WithPeriodicRunner`, the default goroutine-per-registration
runner otherwise) calls every registered function once per period, drops a registration only after it has answered "no",
and keeps a registration that is made while a tick is running.  Model: `Model/Runner.lean`; tie X: `harness/c18`
`TestC18Runner` drives the real runners under synctest with register / finish / nested-register / tick histories.
-/
namespace CoapVerif.Props.C18Runner
open CoapVerif.Model.Runner

/-- ids are distinct, among the live registrations and the ones about to be born -/
structure Inv (s : List Reg) : Prop where
  ids_nodup : (ids s).Nodup
  nest_nodup : (nestIds s).Nodup
  disjoint : ∀ a ∈ ids s, a ∉ nestIds s

/-- what the callers guarantee: every registration is a new function (fresh id); a function is asked to register another
    one only once per call -/
def Fresh (s : List Reg) : Op → Prop
  | .reg k => k ∉ ids s ∧ k ∉ nestIds s
  | .nest k j => j ∉ ids s ∧ j ∉ nestIds s ∧ ∀ r ∈ s, r.id = k → r.nest = none
  | .fin _ => True
  | .tick => True

def FreshOps (b : Bool) (s : List Reg) : List Op → Prop
  | [] => True
  | o :: r => Fresh s o ∧ FreshOps b (step b s o).1 r

/-! #### bookkeeping lemmas -/

theorem ids_map_fin (s : List Reg) (k : Nat) :
    ids (s.map (fun x => if x.id = k then { x with finishing := true } else x)) = ids s := by
  induction s with
  | nil => rfl
  | cons a r ih =>
    simp only [ids, List.map_cons] at ih ⊢
    rw [ih]
    by_cases h : a.id = k <;> simp [h]

theorem nestIds_map_fin (s : List Reg) (k : Nat) :
    nestIds (s.map (fun x => if x.id = k then { x with finishing := true } else x)) = nestIds s := by
  induction s with
  | nil => rfl
  | cons a r ih =>
    simp only [nestIds, List.map_cons, List.filterMap_cons] at ih ⊢
    rw [ih]
    by_cases h : a.id = k <;> simp [h]

theorem ids_map_nest (s : List Reg) (k j : Nat) :
    ids (s.map (fun x => if x.id = k then { x with nest := some j } else x)) = ids s := by
  induction s with
  | nil => rfl
  | cons a r ih =>
    simp only [ids, List.map_cons] at ih ⊢
    rw [ih]
    by_cases h : a.id = k <;> simp [h]

theorem map_nest_of_not_mem (s : List Reg) (k j : Nat) (h : k ∉ ids s) :
    s.map (fun x => if x.id = k then { x with nest := some j } else x) = s := by
  induction s with
  | nil => rfl
  | cons a r ih =>
    simp only [ids, List.map_cons, List.mem_cons, not_or] at h
    have h1 : ¬ a.id = k := fun e => h.1 e.symm
    simp only [List.map_cons, h1, if_false]
    rw [ih (by simpa [ids] using h.2)]

theorem mem_nestIds_map_nest (s : List Reg) (k j a : Nat)
    (h : a ∈ nestIds (s.map (fun x => if x.id = k then { x with nest := some j } else x))) : a ∈ nestIds s ∨ a = j := by
  induction s with
  | nil => simp [nestIds] at h
  | cons x r ih =>
    simp only [nestIds, List.map_cons, List.filterMap_cons] at h ih ⊢
    by_cases hx : x.id = k
    · simp only [hx, if_true] at h
      rcases List.mem_cons.mp h with h | h
      · exact Or.inr h
      · rcases ih h with h | h
        · left; cases hn : x.nest <;> simp [hn, h]
        · exact Or.inr h
    · simp only [hx, if_false] at h
      cases hn : x.nest with
      | none =>
        simp only [hn] at h ⊢
        exact ih h
      | some v =>
        simp only [hn] at h ⊢
        rcases List.mem_cons.mp h with h | h
        · left; exact List.mem_cons.mpr (Or.inl h)
        · rcases ih h with h | h
          · left; exact List.mem_cons.mpr (Or.inr h)
          · exact Or.inr h

theorem nestIds_map_nest_nodup (s : List Reg) (k j : Nat) (hi : (ids s).Nodup) (hn : (nestIds s).Nodup)
    (hj : j ∉ nestIds s) (hk : ∀ r ∈ s, r.id = k → r.nest = none) :
    (nestIds (s.map (fun x => if x.id = k then { x with nest := some j } else x))).Nodup := by
  induction s with
  | nil => simp [nestIds]
  | cons x r ih =>
    simp only [ids, List.map_cons, List.nodup_cons] at hi
    have hkr : ∀ y ∈ r, y.id = k → y.nest = none := fun y hy => hk y (List.mem_cons.mpr (Or.inr hy))
    by_cases hx : x.id = k
    · have hxn : x.nest = none := hk x (List.mem_cons.mpr (Or.inl rfl)) hx
      have hnot : k ∉ ids r := by rw [← hx]; exact hi.1
      have hrn : (nestIds r).Nodup := by simpa [nestIds, hxn] using hn
      have hjr : j ∉ nestIds r := by simpa [nestIds, hxn] using hj
      simp only [List.map_cons, hx, if_true]
      rw [map_nest_of_not_mem r k j hnot]
      simp only [nestIds, List.filterMap_cons]
      exact List.nodup_cons.mpr ⟨by simpa [nestIds] using hjr, by simpa [nestIds] using hrn⟩
    · simp only [List.map_cons, hx, if_false]
      cases hxn : x.nest with
      | none =>
        have hrn : (nestIds r).Nodup := by simpa [nestIds, hxn] using hn
        have hjr : j ∉ nestIds r := by simpa [nestIds, hxn] using hj
        have := ih (by simpa [ids] using hi.2) hrn hjr hkr
        simpa [nestIds, hxn] using this
      | some v =>
        have hn' : v ∉ nestIds r ∧ (nestIds r).Nodup := by simpa [nestIds, hxn] using hn
        have hj' : j ≠ v ∧ j ∉ nestIds r := by simpa [nestIds, hxn] using hj
        have := ih (by simpa [ids] using hi.2) hn'.2 hj'.2 hkr
        simp only [nestIds, List.filterMap_cons, hxn]
        refine List.nodup_cons.mpr ⟨?_, by simpa [nestIds] using this⟩
        intro hm
        rcases mem_nestIds_map_nest r k j v (by simpa [nestIds] using hm) with h | h
        · exact hn'.1 h
        · exact hj'.1 h.symm

theorem ids_survivors_sub (s : List Reg) : ∀ k, k ∈ ids (survivors s) → k ∈ ids s := by
  intro k hk
  simp only [ids, survivors, List.mem_map, List.mem_filter] at hk ⊢
  obtain ⟨a, ⟨b, ⟨hb, _⟩, rfl⟩, rfl⟩ := hk
  exact ⟨b, hb, rfl⟩

theorem ids_survivors_nodup (s : List Reg) (h : (ids s).Nodup) : (ids (survivors s)).Nodup := by
  induction s with
  | nil => simp [ids, survivors]
  | cons a r ih =>
    simp only [ids, List.map_cons, List.nodup_cons] at h
    by_cases hp : a.finishing = true
    · have : survivors (a :: r) = survivors r := by simp [survivors, hp]
      rw [this]; exact ih h.2
    · have hp' : a.finishing = false := by simpa using hp
      have : survivors (a :: r) = { a with nest := none } :: survivors r := by simp [survivors, hp']
      rw [this]
      simp only [ids, List.map_cons, List.nodup_cons]
      exact ⟨fun hm => h.1 (ids_survivors_sub r _ hm), ih h.2⟩

theorem nestIds_survivors (s : List Reg) : nestIds (survivors s) = [] := by
  induction s with
  | nil => rfl
  | cons a r ih =>
    by_cases hp : a.finishing = true
    · have : survivors (a :: r) = survivors r := by simp [survivors, hp]
      rw [this]; exact ih
    · have hp' : a.finishing = false := by simpa using hp
      have : survivors (a :: r) = { a with nest := none } :: survivors r := by simp [survivors, hp']
      rw [this]
      simpa [nestIds] using ih

theorem nestIds_born (l : List Nat) : nestIds (l.map (fun j => ({ id := j } : Reg))) = [] := by
  induction l with
  | nil => rfl
  | cons a r ih => simpa [nestIds] using ih

theorem ids_born (l : List Nat) : ids (l.map (fun j => ({ id := j } : Reg))) = l := by
  induction l with
  | nil => rfl
  | cons a r ih => simp only [ids, List.map_cons, List.map_map] at ih ⊢; rw [ih]

theorem nestIds_append (a b : List Reg) : nestIds (a ++ b) = nestIds a ++ nestIds b := by
  simp [nestIds, List.filterMap_append]

theorem ids_append (a b : List Reg) : ids (a ++ b) = ids a ++ ids b := by
  simp [ids]

/-! #### the invariant -/

theorem step_inv (b : Bool) (s : List Reg) (o : Op) (h : Inv s) (hf : Fresh s o) : Inv (step b s o).1 := by
  cases o with
  | reg k =>
    have hk : k ∉ ids s ∧ k ∉ nestIds s := hf
    refine ⟨?_, ?_, ?_⟩
    · simp only [step, ids_append]
      rw [List.nodup_append]
      refine ⟨h.ids_nodup, by simp [ids], ?_⟩
      intro a ha c hc
      simp [ids] at hc
      subst hc
      intro e; subst e; exact hk.1 ha
    · simpa [step, nestIds_append, nestIds] using h.nest_nodup
    · intro a ha
      simp only [step, ids_append, List.mem_append] at ha
      simp only [step, nestIds_append]
      have hn : nestIds [({ id := k } : Reg)] = [] := rfl
      rw [hn, List.append_nil]
      rcases ha with ha | ha
      · exact h.disjoint a ha
      · simp [ids] at ha; subst ha; exact hk.2
  | fin k =>
    exact ⟨by simpa [step, ids_map_fin] using h.ids_nodup, by simpa [step, nestIds_map_fin] using h.nest_nodup,
           by simpa [step, ids_map_fin, nestIds_map_fin] using h.disjoint⟩
  | nest k j =>
    have hj : j ∉ ids s ∧ j ∉ nestIds s ∧ ∀ r ∈ s, r.id = k → r.nest = none := hf
    refine ⟨by simpa [step, ids_map_nest] using h.ids_nodup,
            nestIds_map_nest_nodup s k j h.ids_nodup h.nest_nodup hj.2.1 hj.2.2, ?_⟩
    intro a ha
    simp only [step, ids_map_nest] at ha
    simp only [step]
    intro hm
    rcases mem_nestIds_map_nest s k j a hm with hm | hm
    · exact h.disjoint a ha hm
    · subst hm; exact hj.1 ha
  | tick =>
    refine ⟨?_, ?_, ?_⟩
    · simp only [step, ids_append, ids_born]
      rw [List.nodup_append]
      refine ⟨ids_survivors_nodup s h.ids_nodup, h.nest_nodup, ?_⟩
      intro a ha c hc e
      subst e
      exact h.disjoint a (ids_survivors_sub s a ha) hc
    · simp [step, nestIds_append, nestIds_survivors, nestIds_born]
    · intro a _
      simp [step, nestIds_append, nestIds_survivors, nestIds_born]

theorem run_inv (b : Bool) (ops : List Op) : ∀ s, Inv s → FreshOps b s ops → Inv (run b s ops).1 := by
  induction ops with
  | nil => intro s h _; simpa [run] using h
  | cons o r ih =>
    intro s h hf
    have := ih (step b s o).1 (step_inv b s o h hf.1) hf.2
    simpa [run] using this

/-! #### the properties -/

/-- **Every live registration is called exactly once per period**: in every reachable state (any history of fresh
    registrations, finishes, nested registrations and ticks) the calls of a tick are exactly the ids of the live
    registrations (plus, for the runner that calls at registration, the ones born in this tick), and no function is called
    twice. -/
theorem tick_calls_every_live_once (b : Bool) (ops : List Op) (s : List Reg) (h : Inv s) (hf : FreshOps b s ops) :
    let s' := (run b s ops).1
    (step b s' .tick).2 = ids s' ++ (if b then nestIds s' else []) ∧ (step b s' .tick).2.Nodup := by
  have hi := run_inv b ops s h hf
  refine ⟨rfl, ?_⟩
  simp only [step]
  cases b with
  | false => simpa using hi.ids_nodup
  | true =>
    simp only [if_true]
    rw [List.nodup_append]
    exact ⟨hi.ids_nodup, hi.nest_nodup, fun a ha c hc e => hi.disjoint a ha (e ▸ hc)⟩

/-- A registration that was not told to finish survives every step: no other registration, finish, nested registration or
    tick removes or replaces it (seeded change C09-H: a later registration took the key of a live one). -/
theorem live_survives (b : Bool) (s : List Reg) (o : Op) (x : Reg) (hx : x ∈ s) (hnf : x.finishing = false)
    (ho : o ≠ .fin x.id) : ∃ y ∈ (step b s o).1, y.id = x.id ∧ y.finishing = false := by
  cases o with
  | reg k => exact ⟨x, by simp [step, hx], rfl, hnf⟩
  | fin k =>
    have hk : x.id ≠ k := fun h => ho (by rw [h])
    refine ⟨x, ?_, rfl, hnf⟩
    simp only [step, List.mem_map]
    exact ⟨x, hx, by simp [hk]⟩
  | nest k j =>
    by_cases hk : x.id = k
    · refine ⟨{ x with nest := some j }, ?_, rfl, hnf⟩
      simp only [step, List.mem_map]
      exact ⟨x, hx, by simp [hk]⟩
    · refine ⟨x, ?_, rfl, hnf⟩
      simp only [step, List.mem_map]
      exact ⟨x, hx, by simp [hk]⟩
  | tick =>
    refine ⟨{ x with nest := none }, ?_, rfl, hnf⟩
    simp only [step, survivors, List.mem_append, List.mem_map, List.mem_filter]
    exact Or.inl ⟨x, ⟨hx, by simp [hnf]⟩, rfl⟩

/-- A function registered while a tick is running is live afterwards (seeded change C13-G: the filtered list installed at
    the end of a tick dropped it). -/
theorem born_in_tick_is_live (b : Bool) (s : List Reg) (x : Reg) (j : Nat) (hx : x ∈ s) (hn : x.nest = some j) :
    ∃ y ∈ (step b s .tick).1, y.id = j ∧ y.finishing = false := by
  refine ⟨{ id := j }, ?_, rfl, rfl⟩
  simp only [step, List.mem_append, List.mem_map]
  right
  exact ⟨j, by simp only [nestIds, List.mem_filterMap]; exact ⟨x, hx, hn⟩, rfl⟩

theorem survivor_origin (t : List Reg) (k : Nat) (h : k ∈ ids (survivors t)) : ∃ z ∈ t, z.id = k ∧ z.finishing = false := by
  simp only [ids, survivors, List.mem_map, List.mem_filter] at h
  obtain ⟨y, ⟨z, ⟨hz, hf⟩, rfl⟩, rfl⟩ := h
  exact ⟨z, hz, rfl, by simpa using hf⟩

/-- A function that answered "no" is not called again. -/
theorem finished_not_called_again (b : Bool) (s : List Reg) (k : Nat) (h : Inv s) (hk : k ∈ ids s) :
    k ∉ ids ((step b (step b s (.fin k)).1 .tick).1) := by
  have hd : k ∉ nestIds s := h.disjoint k hk
  simp only [step, ids_append, ids_born, nestIds_map_fin, List.mem_append, not_or]
  refine ⟨?_, hd⟩
  intro hm
  obtain ⟨z, hz, hid, hfin⟩ := survivor_origin _ k hm
  simp only [List.mem_map] at hz
  obtain ⟨w, _, rfl⟩ := hz
  by_cases hw : w.id = k
  · simp [hw] at hfin
  · simp [hw] at hid

example : (run false [] [.reg 1, .reg 2, .tick, .fin 1, .tick, .reg 3, .tick]).2 = [[], [], [1, 2], [], [1, 2], [], [2, 3]] := by decide
example : (run true [] [.reg 1, .tick, .fin 1, .tick, .tick]).2 = [[1], [1], [], [1], []] := by decide
-- a function finishes and another one registers a third in the same tick: the third is called from the next tick on
example : (run false [] [.reg 1, .reg 2, .fin 1, .nest 2 3, .tick, .tick]).2 = [[], [], [], [], [1, 2], [2, 3]] := by decide
example : Inv [] := ⟨by simp [ids], by simp [nestIds], by simp [ids]⟩

end CoapVerif.Props.C18Runner

section Audit
open CoapVerif.Props.C18Runner
#print axioms ids_map_fin
#print axioms nestIds_map_fin
#print axioms ids_map_nest
#print axioms map_nest_of_not_mem
#print axioms mem_nestIds_map_nest
#print axioms nestIds_map_nest_nodup
#print axioms ids_survivors_sub
#print axioms ids_survivors_nodup
#print axioms nestIds_survivors
#print axioms nestIds_born
#print axioms ids_born
#print axioms nestIds_append
#print axioms ids_append
#print axioms step_inv
#print axioms run_inv
#print axioms tick_calls_every_live_once
#print axioms live_survives
#print axioms born_in_tick_is_live
#print axioms survivor_origin
#print axioms finished_not_called_again
end Audit
