import CoapVerif.Go.Basic
import CoapVerif.Model.BlockOpt
import CoapVerif.Spec.BlockOpt
import CoapVerif.Lemmas.Bits
/-!
# C19 — Block option value codec is the RFC 7959 mapping on its whole domain

Statement (properties.jsonl): encoding and decoding of Block1/Block2 option values implement exactly
the RFC 7959 §2.2 layout: decoding is defined for every 24-bit value and returns its (size exponent,
block number, more) triple, encoding accepts every triple with exponent 0-7 and a 20-bit block
number, and the two are mutually inverse.  Values or arguments outside that domain are refused with
an error instead of being wrapped or truncated, and the byte size associated with exponent s is
2^(s+4) (1024 for BERT, whose blocks are whole multiples of 1024 bounded by the maximum message size).

All theorems quantify over unbounded `Nat`/`Int`; nothing is enumerated.  The model
(`Model/BlockOpt.lean`) uses the constants regenerated from /repo (`Generated/Blockwise.lean`), the
specification (`Spec/BlockOpt.lean`) does not.
-/
namespace CoapVerif.Props.C19
open CoapVerif CoapVerif.Model.BlockOpt CoapVerif.Generated.Blockwise CoapVerif.Lemmas

/-- Decoder = RFC mapping on *all* naturals (covers: total on 24-bit values, refuses everything else). -/
theorem decode_eq_spec (v : Nat) : (decodeBlock v).toOption = Spec.BlockOpt.decode v := by
  unfold decodeBlock Spec.BlockOpt.decode
  simp only [maxBlockValue, maxBlockNumber, szxMask, moreMask, and_7, and_8_ne_zero, shr_4]
  by_cases h : v < 2 ^ 24
  · have h1 : ¬ v > 16777215 := by omega
    have h2 : ¬ v / 16 > 1048575 := by omega
    simp [h, h1, h2, Except.toOption]
  · have h1 : v > 16777215 := by omega
    simp [h, h1, Except.toOption]

/-- Decoding is defined for every 24-bit value and returns the RFC triple. -/
theorem decode_total (v : Nat) (h : v < 2 ^ 24) :
    decodeBlock v = .ok (v % 8, v / 16, v / 8 % 2 == 1) := by
  have := decode_eq_spec v
  unfold Spec.BlockOpt.decode at this
  simp only [h, if_true] at this
  cases hd : decodeBlock v with
  | error e => simp [hd, Except.toOption] at this
  | ok t => simp [hd, Except.toOption] at this; simp [this]

/-- Values outside the 24-bit domain are refused. -/
theorem decode_rejects (v : Nat) (h : 2 ^ 24 ≤ v) : ∃ e, decodeBlock v = .error e := by
  have := decode_eq_spec v
  unfold Spec.BlockOpt.decode at this
  have h' : ¬ v < 2 ^ 24 := by omega
  simp only [h', if_false] at this
  cases hd : decodeBlock v with
  | error e => exact ⟨e, rfl⟩
  | ok t => simp [hd, Except.toOption] at this

/-- Encoder = RFC mapping on all arguments (accepts exactly exponent 0..7 and 20-bit numbers, no wrap). -/
theorem encode_eq_spec (szx : Nat) (num : Int) (more : Bool) :
    (encodeBlock szx num more).toOption = Spec.BlockOpt.encode szx num more := by
  unfold encodeBlock Spec.BlockOpt.encode u32
  simp only [maxBlockNumber, szxBERT]
  by_cases hs : szx ≤ 7 ∧ 0 ≤ num ∧ num < 2 ^ 20
  · obtain ⟨a, b, c⟩ := hs
    have h1 : ¬ szx > 7 := by omega
    have h2 : ¬ num < 0 := by omega
    have h3 : ¬ num > ((1048575 : Nat) : Int) := by omega
    have hn : num.toNat < 1048576 := by omega
    have hs' : szx ≤ 7 ∧ 0 ≤ num ∧ num < 2 ^ 20 := ⟨a, b, c⟩
    simp only [h1, h2, h3, hs', ↓reduceIte, Except.toOption]
    congr 1
    cases more <;> simp <;> omega
  · simp only [hs, ↓reduceIte]
    by_cases h1 : szx > 7
    · simp only [h1, ↓reduceIte, Except.toOption]
    · by_cases h2 : num < 0
      · simp only [h1, h2, ↓reduceIte, Except.toOption]
      · have h3 : num > ((1048575 : Nat) : Int) := by omega
        simp only [h1, h2, h3, ↓reduceIte, Except.toOption]

theorem encode_total (szx : Nat) (num : Int) (more : Bool)
    (hs : szx ≤ 7) (h0 : 0 ≤ num) (h1 : num < 2 ^ 20) :
    encodeBlock szx num more = .ok (num.toNat * 16 + (if more then 8 else 0) + szx) := by
  have := encode_eq_spec szx num more
  unfold Spec.BlockOpt.encode at this
  simp only [hs, h0, h1, and_self, if_true] at this
  cases hd : encodeBlock szx num more with
  | error e => simp [hd, Except.toOption] at this
  | ok t => simp [hd, Except.toOption] at this; simp [this]

theorem encode_rejects (szx : Nat) (num : Int) (more : Bool)
    (h : 7 < szx ∨ num < 0 ∨ 2 ^ 20 ≤ num) : ∃ e, encodeBlock szx num more = .error e := by
  have := encode_eq_spec szx num more
  unfold Spec.BlockOpt.encode at this
  have h' : ¬ (szx ≤ 7 ∧ 0 ≤ num ∧ num < 2 ^ 20) := by omega
  simp only [h', if_false] at this
  cases hd : encodeBlock szx num more with
  | error e => exact ⟨e, rfl⟩
  | ok t => simp [hd, Except.toOption] at this

/-- decode ∘ encode = id on the encoder's domain. -/
theorem decode_encode (szx : Nat) (num : Int) (more : Bool) (v : Nat)
    (h : encodeBlock szx num more = .ok v) : decodeBlock v = .ok (szx, num.toNat, more) := by
  have he := encode_eq_spec szx num more
  rw [h] at he
  unfold Spec.BlockOpt.encode at he
  by_cases hd : szx ≤ 7 ∧ 0 ≤ num ∧ num < 2 ^ 20
  · simp only [hd, and_self, ↓reduceIte, Except.toOption] at he
    injection he with he
    have hn : num.toNat < 1048576 := by omega
    have hv : v < 2 ^ 24 := by cases more <;> simp at he <;> omega
    rw [decode_total v hv]
    cases more <;> simp at he ⊢ <;> omega
  · simp only [hd, ↓reduceIte, Except.toOption] at he
    cases he

/-- encode ∘ decode = id on the decoder's domain. -/
theorem encode_decode (v szx num : Nat) (more : Bool)
    (h : decodeBlock v = .ok (szx, num, more)) : encodeBlock szx (num : Int) more = .ok v := by
  have hd := decode_eq_spec v
  rw [h] at hd
  unfold Spec.BlockOpt.decode at hd
  by_cases hv : v < 2 ^ 24
  · simp only [hv, if_true, Except.toOption] at hd
    injection hd with hd
    injection hd with h1 hd
    injection hd with h2 h3
    subst h1 h2
    rw [encode_total _ _ _ (by omega) (by omega) (by omega)]
    cases hm : more <;> simp [hm] at h3 ⊢ <;> omega
  · simp [hv, Except.toOption] at hd

/-- The byte size of exponent s is 2^(s+4); 1024 for BERT; -1 ("unknown") otherwise. -/
theorem size_pow2 (s : Nat) : szxSize s = Spec.BlockOpt.size s := by
  unfold szxSize Spec.BlockOpt.size
  by_cases h : s < 8
  · have : s = 0 ∨ s = 1 ∨ s = 2 ∨ s = 3 ∨ s = 4 ∨ s = 5 ∨ s = 6 ∨ s = 7 := by omega
    rcases this with h | h | h | h | h | h | h | h <;> subst h <;> decide
  · have h1 : ¬ s < 7 := by omega
    have h2 : ¬ s = 7 := by omega
    have e : ∀ k, k < 8 → (s == k) = false := by intro k hk; simp; omega
    have : szxToSize.lookup s = none := by
      simp [szxToSize, List.lookup, e]
    simp [this, h1, h2]

/-- BERT blocks are whole multiples of 1024 bounded by the maximum message size;
    every other exponent has its fixed size. -/
theorem bert_buffer_multiple (maxSize : Nat) :
    bufferSize 7 maxSize = 1024 * ((maxSize / 1024 : Nat) : Int) ∧ bufferSize 7 maxSize ≤ maxSize
    ∧ (maxSize : Int) - bufferSize 7 maxSize < 1024 := by
  have hs : szxSize 7 = 1024 := by decide
  unfold bufferSize
  simp only [szxBERT, hs, Nat.lt_irrefl, if_false]
  omega

theorem buffer_fixed (s maxSize : Nat) (h : s < 7) : bufferSize s maxSize = ((2 ^ (s + 4) : Nat) : Int) := by
  unfold bufferSize
  simp only [szxBERT, h, if_true]
  rw [size_pow2]; simp [Spec.BlockOpt.size, h]

/-! Non-vacuity: concrete instances in the interior and on the edges of each domain. -/
example : decodeBlock 0xFFFFFF = .ok (7, 0xFFFFF, true) := by decide
example : encodeBlock 7 0xFFFFF true = .ok 0xFFFFFF := by decide
example : encodeBlock 3 5 false = .ok 83 ∧ decodeBlock 83 = .ok (3, 5, false) := by decide
example : bufferSize 7 2500 = 2048 := by decide

end CoapVerif.Props.C19

section Audit
open CoapVerif.Props.C19
#print axioms decode_eq_spec
#print axioms decode_total
#print axioms decode_rejects
#print axioms encode_eq_spec
#print axioms encode_total
#print axioms encode_rejects
#print axioms decode_encode
#print axioms encode_decode
#print axioms size_pow2
#print axioms bert_buffer_multiple
#print axioms buffer_fixed
end Audit
