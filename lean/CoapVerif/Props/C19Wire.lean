import CoapVerif.Go.Basic
import CoapVerif.Model.BlockOptWire
import CoapVerif.Spec.Wire
import CoapVerif.Props.C19
import CoapVerif.Props.C01
/-!
# C19 (glue) — the block option as messages carry it

`Props/C19.lean` proves that `EncodeBlockOption` / `DecodeBlockOption` are the RFC 7959 §2.2 mapping on `uint32`
values.  A block message does not carry a `uint32` but an option value of 0–3 bytes: `blockwise.go` stores the value with
`SetOptionUint32` (`message.EncodeUint32`: big-endian, fewest bytes) and reads it back with `GetOptionUint32`
(`message.DecodeUint32`).  The theorems below compose C19's model with the integer codec of the option list (C15's
`Model/OptionValues.lean`) and with the coders of C01: for every triple of the domain the option value has at most three
bytes (what RFC 7959 and the option registry allow), the receiver decodes exactly the triple that was encoded — also
from a zero-padded encoding a foreign peer may send — distinct triples have distinct encodings, everything outside the
domain is refused before any byte is produced, every value of at most three bytes decodes, and the option survives both
coders unchanged.  Nothing is enumerated.
-/
namespace CoapVerif.Props.C19Wire
open CoapVerif CoapVerif.Model.BlockOpt CoapVerif.Model.BlockOptWire CoapVerif.Model.Options
open CoapVerif.Generated.OptionList CoapVerif.Spec.Wire

/-- `DecodeUint32 ∘ EncodeUint32 = id` on every `uint32`. -/
theorem uint32_wire_roundtrip (v : Nat) (h : v < 2 ^ 32) : decodeUint32 (encodeUint32Bytes v) = v := by
  unfold encodeUint32Bytes decodeUint32
  simp only [max1ByteNumber, max2ByteNumber, max3ByteNumber]
  by_cases h0 : v = 0
  · simp [h0]
  by_cases h1 : v ≤ 255
  · simp [h0, h1, List.foldl, UInt8.toNat_ofNat']; omega
  by_cases h2 : v ≤ 65535
  · simp [h0, h1, h2, List.foldl, UInt8.toNat_ofNat']; omega
  by_cases h3 : v ≤ 16777215
  · simp [h0, h1, h2, h3, List.foldl, UInt8.toNat_ofNat']; omega
  · simp [h0, h1, h2, h3, List.foldl, UInt8.toNat_ofNat']; omega

/-- `EncodeUint32` uses the fewest bytes (RFC 7252 §3.2 "uint": no leading zero bytes, the empty string for 0). -/
theorem uint32_wire_minimal (v : Nat) :
    (encodeUint32Bytes v).length =
      (if v = 0 then 0 else if v < 256 then 1 else if v < 65536 then 2 else if v < 16777216 then 3 else 4) := by
  unfold encodeUint32Bytes
  simp only [max1ByteNumber, max2ByteNumber, max3ByteNumber]
  by_cases h0 : v = 0
  · simp [h0]
  by_cases h1 : v ≤ 255
  · have : v < 256 := by omega
    simp [h0, h1, this]
  by_cases h2 : v ≤ 65535
  · have a : ¬ v < 256 := by omega
    have b : v < 65536 := by omega
    simp [h0, h1, h2, a, b]
  by_cases h3 : v ≤ 16777215
  · have a : ¬ v < 256 := by omega
    have b : ¬ v < 65536 := by omega
    have c : v < 16777216 := by omega
    simp [h0, h1, h2, h3, a, b, c]
  · have a : ¬ v < 256 := by omega
    have b : ¬ v < 65536 := by omega
    have c : ¬ v < 16777216 := by omega
    simp [h0, h1, h2, h3, a, b, c]

/-- … and the first byte of a non-empty encoding is not zero. -/
theorem uint32_wire_no_leading_zero (v : Nat) (h : v < 2 ^ 32) : (encodeUint32Bytes v).head? ≠ some 0 := by
  unfold encodeUint32Bytes
  simp only [max1ByteNumber, max2ByteNumber, max3ByteNumber]
  by_cases h0 : v = 0
  · simp [h0]
  by_cases h1 : v ≤ 255
  · simp only [h0, h1, if_true, if_false, List.head?_cons, ne_eq, Option.some.injEq]
    intro hc
    have := congrArg UInt8.toNat hc
    simp [UInt8.toNat_ofNat'] at this; omega
  by_cases h2 : v ≤ 65535
  · simp only [h0, h1, h2, if_true, if_false, List.head?_cons, ne_eq, Option.some.injEq]
    intro hc
    have := congrArg UInt8.toNat hc
    simp [UInt8.toNat_ofNat'] at this; omega
  by_cases h3 : v ≤ 16777215
  · simp only [h0, h1, h2, h3, if_true, if_false, List.head?_cons, ne_eq, Option.some.injEq]
    intro hc
    have := congrArg UInt8.toNat hc
    simp [UInt8.toNat_ofNat'] at this; omega
  · simp only [h0, h1, h2, h3, if_false, List.head?_cons, ne_eq, Option.some.injEq]
    intro hc
    have := congrArg UInt8.toNat hc
    simp [UInt8.toNat_ofNat'] at this; omega

/-- A peer may pad the integer with leading zero bytes (RFC 7252 §3.2: "a recipient MUST be prepared to process values
with leading zero bytes"): within the four bytes `DecodeUint32` reads, padding does not change the value. -/
theorem decodeUint32_padded (bs : List UInt8) (h : bs.length ≤ 3) : decodeUint32 (0 :: bs) = decodeUint32 bs := by
  unfold decodeUint32
  have h1 : (0 :: bs).take 4 = 0 :: bs.take 3 := by simp
  have h2 : bs.take 4 = bs := List.take_of_length_le (by omega)
  have h3 : bs.take 3 = bs := List.take_of_length_le h
  rw [h1, h2, h3]
  simp [List.foldl]

/-- every option value of at most three bytes is below 2^24 -/
theorem decodeUint32_lt_of_len (bs : List UInt8) (h : bs.length ≤ 3) : decodeUint32 bs < 2 ^ 24 := by
  unfold decodeUint32
  rw [List.take_of_length_le (by omega)]
  match bs, h with
  | [], _ => simp
  | [a], _ => simp [List.foldl]; have := a.toNat_lt; omega
  | [a, b], _ => simp [List.foldl]; have := a.toNat_lt; have := b.toNat_lt; omega
  | [a, b, c], _ => simp [List.foldl]; have := a.toNat_lt; have := b.toNat_lt; have := c.toNat_lt; omega

/-- Every triple the encoder accepts becomes an option value of at most three bytes (RFC 7959 §2.1: "uint, 0-3"; the
length the option registry — and with it both decoders — admits for Block1/Block2). -/
theorem block_wire_len (szx : Nat) (num : Int) (more : Bool) (bs : List UInt8)
    (h : toWire szx num more = .ok bs) : bs.length ≤ 3 := by
  unfold toWire at h
  cases he : encodeBlock szx num more with
  | error e => simp [he] at h
  | ok v =>
    simp only [he, Except.ok.injEq] at h
    have hd := C19.decode_encode szx num more v he
    have hv : v < 2 ^ 24 := by
      by_cases hv : v < 2 ^ 24
      · exact hv
      · obtain ⟨e, he'⟩ := C19.decode_rejects v (by omega)
        rw [hd] at he'; cases he'
    rw [← h, uint32_wire_minimal]
    repeat' split
    all_goals omega

/-- The receiver's `DecodeBlockOption(GetOptionUint32(…))` returns exactly the triple the sender encoded. -/
theorem block_wire_roundtrip (szx : Nat) (num : Int) (more : Bool) (bs : List UInt8)
    (h : toWire szx num more = .ok bs) : fromWire bs = .ok (szx, num.toNat, more) := by
  unfold toWire at h
  cases he : encodeBlock szx num more with
  | error e => simp [he] at h
  | ok v =>
    simp only [he, Except.ok.injEq] at h
    have hd := C19.decode_encode szx num more v he
    have hv : v < 2 ^ 32 := by
      by_cases hv : v < 2 ^ 24
      · omega
      · obtain ⟨e, he'⟩ := C19.decode_rejects v (by omega)
        rw [hd] at he'; cases he'
    unfold fromWire
    rw [← h, uint32_wire_roundtrip v hv, hd]

/-- … also when a peer pads the value to three bytes with leading zeros. -/
theorem block_wire_roundtrip_padded (szx : Nat) (num : Int) (more : Bool) (bs : List UInt8)
    (h : toWire szx num more = .ok bs) (hl : bs.length ≤ 2) : fromWire (0 :: bs) = .ok (szx, num.toNat, more) := by
  have := block_wire_roundtrip szx num more bs h
  unfold fromWire at this ⊢
  rw [decodeUint32_padded bs (by omega)]; exact this

/-- Distinct triples have distinct option values. -/
theorem block_wire_injective (s1 s2 : Nat) (n1 n2 : Int) (m1 m2 : Bool) (bs : List UInt8)
    (h1 : toWire s1 n1 m1 = .ok bs) (h2 : toWire s2 n2 m2 = .ok bs) : s1 = s2 ∧ n1 = n2 ∧ m1 = m2 := by
  have a := block_wire_roundtrip s1 n1 m1 bs h1
  have b := block_wire_roundtrip s2 n2 m2 bs h2
  rw [a] at b
  simp only [Except.ok.injEq, Prod.mk.injEq] at b
  have p1 : 0 ≤ n1 := by
    by_cases p : 0 ≤ n1
    · exact p
    · obtain ⟨e, he⟩ := C19.encode_rejects s1 n1 m1 (by omega)
      unfold toWire at h1; simp [he] at h1
  have p2 : 0 ≤ n2 := by
    by_cases p : 0 ≤ n2
    · exact p
    · obtain ⟨e, he⟩ := C19.encode_rejects s2 n2 m2 (by omega)
      unfold toWire at h2; simp [he] at h2
  refine ⟨b.1, ?_, b.2.2⟩
  have := b.2.1
  omega

/-- Outside the domain nothing is produced: the refusal happens before any byte is written. -/
theorem block_wire_refused (szx : Nat) (num : Int) (more : Bool)
    (h : 7 < szx ∨ num < 0 ∨ 2 ^ 20 ≤ num) : ∃ e, toWire szx num more = .error e := by
  obtain ⟨e, he⟩ := C19.encode_rejects szx num more h
  exact ⟨e, by unfold toWire; simp [he]⟩

/-- Inside the domain the encoder produces a value. -/
theorem block_wire_total (szx : Nat) (num : Int) (more : Bool) (hs : szx ≤ 7) (h0 : 0 ≤ num) (h1 : num < 2 ^ 20) :
    ∃ bs, toWire szx num more = .ok bs := by
  have := C19.encode_total szx num more hs h0 h1
  refine ⟨encodeUint32Bytes (num.toNat * 16 + (if more then 8 else 0) + szx), ?_⟩
  unfold toWire; rw [this]

/-- Every option value the registry admits for a block option (0–3 bytes) decodes to a triple: the receive path cannot
be made to fail by a well-formed message's block option, whatever its bytes. -/
theorem fromWire_total (bs : List UInt8) (h : bs.length ≤ 3) : ∃ t, fromWire bs = .ok t := by
  have hv := decodeUint32_lt_of_len bs h
  exact ⟨_, C19.decode_total _ hv⟩

/-- The option value of a block message is registry-legal for Block2 (23) and Block1 (27): adding it never takes a
message out of the coders' domain `WF`. -/
theorem block_value_registry_legal (szx : Nat) (num : Int) (more : Bool) (bs : List UInt8)
    (h : toWire szx num more = .ok bs) :
    lengthLegal rfcRegistry 23 bs.length = true ∧ lengthLegal rfcRegistry 27 bs.length = true := by
  have hl := block_wire_len szx num more bs h
  unfold lengthLegal
  have e23 : lookup rfcRegistry 23 = some (0, 3) := by decide
  have e27 : lookup rfcRegistry 27 = some (0, 3) := by decide
  rw [e23, e27]
  simp [hl]

/-- End to end through the datagram coder (C01): a well-formed message that carries the block option is decoded by the
peer to a message that carries the same option, and the peer reads the triple that was encoded. -/
theorem block_option_through_datagram (m : Msg) (h : WF .udp m = true) (o : Opt) (ho : o ∈ m.options)
    (szx : Nat) (num : Int) (more : Bool) (hw : toWire szx num more = .ok o.val) (cap : Nat) (hc : m.options.length ≤ cap) :
    ∃ m' n, Model.UdpCoder.decode cap (encUdp m) = .ok (m', n) ∧ o ∈ m'.options ∧
      fromWire o.val = .ok (szx, num.toNat, more) :=
  ⟨_, _, C01.udp_decode_encode m h cap hc, ho, block_wire_roundtrip szx num more o.val hw⟩

/-- … and through the stream coder. -/
theorem block_option_through_stream (m : Msg) (h : WF .tcp m = true) (o : Opt) (ho : o ∈ m.options)
    (szx : Nat) (num : Int) (more : Bool) (hw : toWire szx num more = .ok o.val) (cap : Nat) (hc : m.options.length ≤ cap) :
    ∃ m' n, Model.TcpCoder.decode cap (encTcp m) = .ok (m', n) ∧ o ∈ m'.options ∧
      fromWire o.val = .ok (szx, num.toNat, more) :=
  ⟨_, _, C01.tcp_decode_encode m h cap hc, by simpa [canon] using ho, block_wire_roundtrip szx num more o.val hw⟩

/-! Non-vacuity -/
example : toWire 6 0 false = .ok [6] ∧ fromWire [6] = .ok (6, 0, false) := by decide
example : toWire 0 0 false = .ok [] ∧ fromWire [] = .ok (0, 0, false) := by decide
example : toWire 7 0xFFFFF true = .ok [0xff, 0xff, 0xff] ∧ fromWire [0xff, 0xff, 0xff] = .ok (7, 0xFFFFF, true) := by decide
example : toWire 2 4096 true = .ok [1, 0, 10] ∧ fromWire [0, 0, 6] = .ok (6, 0, false) := by decide
example : toWire 8 0 false = .error .invalidSZX := by decide
example : WF .udp { typ := 0, mid := 7, code := 69, token := [1], options := [⟨23, [1, 0, 10]⟩], payload := [9] } = true := by decide

end CoapVerif.Props.C19Wire

section Audit
open CoapVerif.Props.C19Wire
#print axioms uint32_wire_roundtrip
#print axioms uint32_wire_minimal
#print axioms uint32_wire_no_leading_zero
#print axioms decodeUint32_padded
#print axioms decodeUint32_lt_of_len
#print axioms block_wire_len
#print axioms block_wire_roundtrip
#print axioms block_wire_roundtrip_padded
#print axioms block_wire_injective
#print axioms block_wire_refused
#print axioms block_wire_total
#print axioms fromWire_total
#print axioms block_value_registry_legal
#print axioms block_option_through_datagram
#print axioms block_option_through_stream
end Audit
