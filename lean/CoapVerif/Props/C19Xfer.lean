import CoapVerif.Props.C19
import CoapVerif.Model.BlockOptXfer
import CoapVerif.Spec.BlockOptXfer
/-!
# C19 inside a transfer — the whole 20-bit range of the block number is usable (eleventh seeded round)

"… encoding accepts every triple with exponent 0-7 and a 20-bit block number … Values or arguments outside that domain are
refused with an error instead of being wrapped or truncated" — read at the place where the codec is USED: the block-wise layer
(`Handle` for downloads, `Do` and `WriteMessage` for uploads; `Model/BlockOptXfer.lean`) asked for block `num` of a body.

* `xfer_serves_domain` — every block whose number fits 20 bits, of every body below 4 GiB that needs more than one block, on
  every entrance, with every exponent 0..7 (BERT: every maximum message size of at least 1024): the model produces exactly the
  block the RFC names (`Spec/BlockOptXfer.expect`: value `num·16 + M·8 + szx`, length, M iff bytes follow).  In particular
  the last block of a body of exactly 2^20 blocks (number 0xfffff) is produced — nothing inside the domain is refused.
* `xfer_refuses_unwritable` — a block whose number does not fit 20 bits is never produced, on no entrance.
* `xfer_model_eq_spec_serve` / `xfer_model_eq_spec_refuse` — the same two facts in the judge's words.

All sizes are unbounded naturals; nothing is enumerated (the eight exponents are a case split).
-/
namespace CoapVerif.Props.C19Xfer
open CoapVerif CoapVerif.Model.BlockOpt CoapVerif.Model.BlockOptXfer CoapVerif.Generated.Blockwise CoapVerif.Props.C19

theorem unit_eq {s : Nat} (h : s ≤ 7) : unit s = Spec.BlockOptXfer.unit s := by
  have : s = 0 ∨ s = 1 ∨ s = 2 ∨ s = 3 ∨ s = 4 ∨ s = 5 ∨ s = 6 ∨ s = 7 := by omega
  rcases this with h | h | h | h | h | h | h | h <;> subst h <;> decide

theorem bufLen_eq {s : Nat} (mx : Nat) (h : s ≤ 7) : bufLen s mx = Spec.BlockOptXfer.blockLen s mx := by
  unfold bufLen Spec.BlockOptXfer.blockLen
  by_cases h7 : s < 7
  · rw [buffer_fixed s mx h7, Int.toNat_natCast]; simp [h7]
  · have : s = 7 := by omega
    subst this
    have := (bert_buffer_multiple mx).1
    rw [this]; simp only [Nat.lt_irrefl, if_false]; omega

theorem getSzx_self (s : Nat) : getSzx s s = s := by simp [getSzx]

theorem spec_unit_pos (s : Nat) : 0 < Spec.BlockOptXfer.unit s := by
  unfold Spec.BlockOptXfer.unit; split
  · exact Nat.two_pow_pos _
  · omega

/-- the value a peer writes for (szx, n, m) decodes to that triple -/
theorem decode_value {s n : Nat} (m : Bool) (hs : s ≤ 7) (hn : n < 2 ^ 20) :
    decodeBlock (n * 16 + (if m then 8 else 0) + s) = .ok (s, n, m) := by
  have hv : n * 16 + (if m then 8 else 0) + s < 2 ^ 24 := by cases m <;> simp <;> omega
  rw [decode_total _ hv]
  cases m <;> simp <;> omega

/-- `createSendingMessage` on a request for block `n` (value `n·16 + M·8 + s`): the block that starts at `q` units — `q = n`,
    or `n` plus the acknowledged buffer on the upload path — is produced with its RFC value when `q` fits 20 bits … -/
theorem createSending_block {b1 skip m : Bool} {s mx body n q : Nat} (hs : s ≤ 7) (hn : n < 2 ^ 20)
    (hq : n * Spec.BlockOptXfer.unit s + (if b1 && skip then Spec.BlockOptXfer.blockLen s mx else 0) = q * Spec.BlockOptXfer.unit s)
    (hq20 : q < 2 ^ 20) (hoff : q * Spec.BlockOptXfer.unit s < body) (hbody : body < 4294967296) :
    createSending b1 s mx body (n * 16 + (if m then 8 else 0) + s) skip
      = .block (q * 16 + (if q * Spec.BlockOptXfer.unit s + min (Spec.BlockOptXfer.blockLen s mx) (body - q * Spec.BlockOptXfer.unit s) < body then 8 else 0) + s)
               (min (Spec.BlockOptXfer.blockLen s mx) (body - q * Spec.BlockOptXfer.unit s)) := by
  unfold createSending
  rw [decode_value m hs hn]
  simp only [getSzx_self, unit_eq hs, bufLen_eq mx hs, hq]
  generalize Spec.BlockOptXfer.unit s * 1 = dummy
  have hU := spec_unit_pos s
  generalize hUe : Spec.BlockOptXfer.unit s = U at *
  generalize Spec.BlockOptXfer.blockLen s mx = B at *
  generalize hoe : q * U = off at *
  have hdiv : off / U = q := by rw [← hoe]; exact Nat.mul_div_cancel _ hU
  have h1 : ¬ (B ≠ 0 ∧ min B (body - off) < B ∧ off + min B (body - off) ≠ body) := by omega
  have h2 : ¬ body ≥ 4294967296 := by omega
  simp only [h1, h2, if_false, hdiv]
  rw [encode_total s (q : Int) _ hs (by omega) (by omega)]
  simp only [Int.toNat_natCast]
  by_cases h3 : off + min B (body - off) < body
  · have : off + min B (body - off) ≠ body := by omega
    simp [h3, this]
  · have : off + min B (body - off) = body := by omega
    simp [this]

/-- … and refused (never produced) when it does not -/
theorem createSending_refuses {b1 skip m : Bool} {s mx body n q : Nat} (hs : s ≤ 7) (hn : n < 2 ^ 20)
    (hq : n * Spec.BlockOptXfer.unit s + (if b1 && skip then Spec.BlockOptXfer.blockLen s mx else 0) = q * Spec.BlockOptXfer.unit s)
    (hq20 : 2 ^ 20 ≤ q) :
    ∃ e, createSending b1 s mx body (n * 16 + (if m then 8 else 0) + s) skip = .refused e := by
  unfold createSending
  rw [decode_value m hs hn]
  simp only [getSzx_self, unit_eq hs, bufLen_eq mx hs, hq]
  have hU := spec_unit_pos s
  have hdiv : q * Spec.BlockOptXfer.unit s / Spec.BlockOptXfer.unit s = q := Nat.mul_div_cancel _ hU
  rw [hdiv]
  split
  · exact ⟨_, rfl⟩
  · split
    · exact ⟨_, rfl⟩
    · obtain ⟨e, he⟩ := encode_rejects s (q : Int) (decide (q * Spec.BlockOptXfer.unit s + min (Spec.BlockOptXfer.blockLen s mx) (body - q * Spec.BlockOptXfer.unit s) ≠ body)) (by omega)
      simp only [he]
      exact ⟨_, rfl⟩

/-- the number of units in one buffer (`bufferSize / Size`): 1 below BERT, `maxMsg / 1024` for BERT -/
def unitsPerBlock (s mx : Nat) : Nat := Spec.BlockOptXfer.blockLen s mx / Spec.BlockOptXfer.unit s

theorem blockLen_units (s mx : Nat) : Spec.BlockOptXfer.blockLen s mx = unitsPerBlock s mx * Spec.BlockOptXfer.unit s := by
  unfold unitsPerBlock Spec.BlockOptXfer.blockLen Spec.BlockOptXfer.unit
  split
  · rw [Nat.div_self (Nat.two_pow_pos _)]; omega
  · omega

theorem ackValue_eq {s mx num : Nat} (hs : s ≤ 7) (hk : unitsPerBlock s mx ≠ 0) (hle : unitsPerBlock s mx ≤ num)
    (hlt : num - unitsPerBlock s mx < 2 ^ 20) :
    ackValue s mx num = some ((num - unitsPerBlock s mx) * 16 + 8 + s) := by
  unfold ackValue
  simp only [unit_eq hs, bufLen_eq mx hs]
  have h1 : ¬ (Spec.BlockOptXfer.blockLen s mx / Spec.BlockOptXfer.unit s = 0 ∨ num < Spec.BlockOptXfer.blockLen s mx / Spec.BlockOptXfer.unit s) := by
    unfold unitsPerBlock at hk hle; omega
  simp only [h1, if_false]
  rw [encode_total s _ true hs (by omega) (by unfold unitsPerBlock at hlt; omega)]
  simp [unitsPerBlock]

/-- **Nothing inside the domain is refused.**  Every block `num < 2^20` that lies inside a body of more than one block and less
    than 4 GiB is produced, on every entrance, with the value and length the RFC names (for `ul` / `wm` and `num > 0`: whenever
    the peer can acknowledge the block before it, i.e. `num` is not inside the first BERT buffer). -/
theorem xfer_serves_domain (way : Way) {s mx body num : Nat} (hs : s ≤ 7)
    (hB : Spec.BlockOptXfer.blockLen s mx ≠ 0) (hbody : Spec.BlockOptXfer.unit s < body) (h32 : body < 4294967296)
    (hnum : num < 2 ^ 20) (hin : num * Spec.BlockOptXfer.unit s < body)
    (hack : way = .dl ∨ num = 0 ∨ unitsPerBlock s mx ≤ num)
    -- `Do` sends the first block with M = 1 unconditionally (DESIGN §6 O2 when the whole body is in it): bodies beyond one buffer
    (hO2 : way = .ul → num = 0 → Spec.BlockOptXfer.blockLen s mx < body) :
    xfer way s mx body num
      = .block (num * 16 + (if num * Spec.BlockOptXfer.unit s + min (Spec.BlockOptXfer.blockLen s mx) (body - num * Spec.BlockOptXfer.unit s) < body then 8 else 0) + s)
               (min (Spec.BlockOptXfer.blockLen s mx) (body - num * Spec.BlockOptXfer.unit s)) := by
  have hU := spec_unit_pos s
  have hk : unitsPerBlock s mx ≠ 0 := by
    intro h; have := blockLen_units s mx; rw [h] at this; omega
  unfold xfer
  have h1 : ¬ s > szxBERT := by simp [szxBERT]; omega
  have h2 : ¬ body ≤ unit s := by rw [unit_eq hs]; omega
  simp only [h1, h2, if_false]
  have hstart : encodeBlock s 0 true = .ok (8 + s) := by
    rw [encode_total s 0 true hs (by omega) (by omega)]; simp
  rw [hstart]
  simp only []
  -- the first block (value 0·16 + 8 + s)
  have hfirst : ∀ b1, createSending b1 s mx body (8 + s) false
      = .block ((if min (Spec.BlockOptXfer.blockLen s mx) body < body then 8 else 0) + s) (min (Spec.BlockOptXfer.blockLen s mx) body) := by
    intro b1
    have := @createSending_block b1 false true s mx body 0 0 hs (by omega) (by simp) (by omega) (by omega) h32
    simpa using this
  -- a later block through the peer's acknowledgement
  have hlater : num ≠ 0 → unitsPerBlock s mx ≤ num →
      (match ackValue s mx num with
        | none => Res.skip
        | some a => createSending true s mx body a true)
      = .block (num * 16 + (if num * Spec.BlockOptXfer.unit s + min (Spec.BlockOptXfer.blockLen s mx) (body - num * Spec.BlockOptXfer.unit s) < body then 8 else 0) + s)
               (min (Spec.BlockOptXfer.blockLen s mx) (body - num * Spec.BlockOptXfer.unit s)) := by
    intro _ hle
    rw [ackValue_eq hs hk hle (by omega)]
    simp only []
    have h := @createSending_block true true true s mx body (num - unitsPerBlock s mx) num hs (by omega)
      (by simp only [Bool.and_self, if_true]; rw [blockLen_units s mx, ← Nat.add_mul]; congr 1; omega) hnum hin h32
    simp only [↓reduceIte] at h
    exact h
  cases way with
  | dl =>
    simp only [hfirst false]
    by_cases h0 : num = 0
    · subst h0; simp
    · simp only [h0, if_false]
      have := @createSending_block false true false s mx body num num hs hnum (by simp) hnum hin h32
      simp only [Bool.false_eq_true, if_false, Nat.add_zero] at this
      exact this
  | ul =>
    have h3 : ¬ body ≥ 4294967296 := by omega
    simp only [h3, if_false]
    by_cases h0 : num = 0
    · subst h0
      have := hO2 rfl rfl
      simp only [if_true, bufLen_eq mx hs]
      have e1 : min (Spec.BlockOptXfer.blockLen s mx) body = min (Spec.BlockOptXfer.blockLen s mx) (body - 0 * Spec.BlockOptXfer.unit s) := by simp
      have e2 : 0 * Spec.BlockOptXfer.unit s + min (Spec.BlockOptXfer.blockLen s mx) (body - 0 * Spec.BlockOptXfer.unit s) < body := by
        simp; omega
      simp only [e2, if_true]
      simp
    · simp only [h0, if_false]
      rcases hack with h | h | h
      · cases h
      · exact absurd h h0
      · exact hlater h0 h
  | wm =>
    simp only [hfirst true]
    by_cases h0 : num = 0
    · subst h0; simp
    · simp only [h0, if_false]
      rcases hack with h | h | h
      · cases h
      · exact absurd h h0
      · exact hlater h0 h

/-- **Refused, not wrapped.**  A block whose number does not fit 20 bits is never produced, on no entrance, for no body. -/
theorem xfer_refuses_unwritable (way : Way) {s mx body num : Nat} (hs : s ≤ 7) (hnum : 2 ^ 20 ≤ num) :
    ∀ v l, xfer way s mx body num ≠ .block v l := by
  intro v l
  have hU := spec_unit_pos s
  have h0 : num ≠ 0 := by omega
  -- the request for such a block cannot even be decoded
  have hdl : ∃ e, createSending false s mx body (num * 16 + s) true = .refused e := by
    unfold createSending
    obtain ⟨e, he⟩ := decode_rejects (num * 16 + s) (by omega)
    simp only [he]; exact ⟨_, rfl⟩
  -- … and the block after an acknowledged one is numbered from its offset
  have hlater : ∀ r, r = (match ackValue s mx num with
        | none => Res.skip
        | some a => createSending true s mx body a true) → r ≠ .block v l := by
    intro r hr
    by_cases hk : unitsPerBlock s mx ≠ 0 ∧ unitsPerBlock s mx ≤ num ∧ num - unitsPerBlock s mx < 2 ^ 20
    · obtain ⟨hk0, hle, hlt⟩ := hk
      rw [ackValue_eq hs hk0 hle hlt] at hr
      simp only [] at hr
      obtain ⟨e, he⟩ := @createSending_refuses true true true s mx body (num - unitsPerBlock s mx) num hs hlt
        (by simp only [Bool.and_self, if_true]; rw [blockLen_units s mx, ← Nat.add_mul]; congr 1; omega) hnum
      simp only [↓reduceIte] at he
      rw [he] at hr; rw [hr]; intro h; cases h
    · -- no acknowledgement leads there
      have : ackValue s mx num = none := by
        unfold ackValue
        simp only [unit_eq hs, bufLen_eq mx hs]
        by_cases hc : Spec.BlockOptXfer.blockLen s mx / Spec.BlockOptXfer.unit s = 0 ∨ num < Spec.BlockOptXfer.blockLen s mx / Spec.BlockOptXfer.unit s
        · simp only [hc, if_true]
        · simp only [hc, if_false]
          obtain ⟨e, he⟩ := encode_rejects s ((num - Spec.BlockOptXfer.blockLen s mx / Spec.BlockOptXfer.unit s : Nat) : Int) true
            (by unfold unitsPerBlock at hk; omega)
          simp only [he]
      rw [this] at hr; rw [hr]; intro h; cases h
  unfold xfer
  split
  · intro h; cases h
  · split
    · intro h; cases h
    · rw [encode_total s 0 true hs (by omega) (by omega)]
      simp only []
      cases way with
      | dl =>
        simp only []
        obtain ⟨e, he⟩ := hdl
        split
        · rw [he]; intro h; cases h
        · rename_i r hr
          intro h; rw [h] at hr; exact hr _ _ rfl
      | ul =>
        simp only []
        split
        · intro h; cases h
        · exact hlater _ rfl
      | wm =>
        simp only []
        split
        · exact hlater _ rfl
        · rename_i r hr
          intro h; rw [h] at hr; exact hr _ _ rfl

/-- In the judge's words: where the specification says `serve` or `serveOrRefuse` (below 4 GiB), the model produces that block. -/
theorem xfer_model_eq_spec_serve (way : Way) {s mx body num v l : Nat} (h32 : body < 4294967296)
    (hv : Spec.BlockOptXfer.expect s mx body num = .serve v l ∨ Spec.BlockOptXfer.expect s mx body num = .serveOrRefuse v l)
    (hack : way = .dl ∨ num = 0 ∨ unitsPerBlock s mx ≤ num) :
    xfer way s mx body num = .block v l := by
  unfold Spec.BlockOptXfer.expect at hv
  by_cases hs : s > 7
  · simp [hs] at hv
  · simp only [hs, if_false] at hv
    by_cases h1 : body ≤ Spec.BlockOptXfer.unit s ∨ body ≤ Spec.BlockOptXfer.blockLen s mx ∨ Spec.BlockOptXfer.blockLen s mx = 0
    · simp [h1] at hv
    · simp only [h1, if_false] at hv
      by_cases h2 : 2 ^ 20 ≤ num
      · simp [h2] at hv
      · simp only [h2, if_false] at hv
        by_cases h3 : body ≤ num * Spec.BlockOptXfer.unit s
        · simp [h3] at hv
        · simp only [h3, if_false] at hv
          have hs' : s ≤ 7 := by omega
          have hn : num < 2 ^ 20 := by omega
          have henc : ∀ m, Spec.BlockOpt.encode s (num : Int) m = some (num * 16 + (if m then 8 else 0) + s) := by
            intro m; unfold Spec.BlockOpt.encode
            have : s ≤ 7 ∧ (0 : Int) ≤ (num : Int) ∧ (num : Int) < 2 ^ 20 := ⟨hs', by omega, by omega⟩
            rw [if_pos this]; simp
          rw [henc] at hv
          have := xfer_serves_domain way (s := s) (mx := mx) (body := body) (num := num) hs' (by omega) (by omega) h32 hn (by omega) hack
            (by intro _ _; omega)
          rw [this]
          by_cases hb : body ≤ 2 ^ 20 * Spec.BlockOptXfer.unit s
          · simp only [hb, if_true] at hv
            rcases hv with hv | hv
            · injection hv with e1 e2; subst e1 e2; simp
            · cases hv
          · simp only [hb, if_false] at hv
            rcases hv with hv | hv
            · cases hv
            · injection hv with e1 e2; subst e1 e2; simp

/-- … and where it says `refuse`, the model produces no block. -/
theorem xfer_model_eq_spec_refuse (way : Way) {s mx body num : Nat}
    (hv : Spec.BlockOptXfer.expect s mx body num = .refuse) : ∀ v l, xfer way s mx body num ≠ .block v l := by
  unfold Spec.BlockOptXfer.expect at hv
  by_cases hs : s > 7
  · simp [hs] at hv
  · simp only [hs, if_false] at hv
    by_cases h1 : body ≤ Spec.BlockOptXfer.unit s ∨ body ≤ Spec.BlockOptXfer.blockLen s mx ∨ Spec.BlockOptXfer.blockLen s mx = 0
    · simp [h1] at hv
    · simp only [h1, if_false] at hv
      by_cases h2 : 2 ^ 20 ≤ num
      · exact xfer_refuses_unwritable way (by omega) h2
      · simp only [h2, if_false] at hv
        by_cases h3 : body ≤ num * Spec.BlockOptXfer.unit s
        · simp [h3] at hv
        · simp only [h3, if_false] at hv
          have : s ≤ 7 ∧ (0 : Int) ≤ (num : Int) ∧ (num : Int) < 2 ^ 20 := ⟨by omega, by omega, by omega⟩
          simp only [Spec.BlockOpt.encode, this, and_self, if_true] at hv
          split at hv <;> cases hv

/-! Non-vacuity: the edge itself — the last block (number 0xfffff) of a body of exactly 2^20 blocks, on all three entrances, with
the smallest exponent, the largest and BERT; one byte more and the block that follows cannot be numbered. -/
example : xfer .dl 0 1152 16777216 1048575 = .block 16777200 16 := by decide
example : xfer .ul 0 1152 16777216 1048575 = .block 16777200 16 := by decide
example : xfer .wm 6 1152 1073741824 1048575 = .block 16777206 1024 := by decide
example : xfer .ul 7 4096 1073741824 1048572 = .block 16777159 4096 := by decide
example : Spec.BlockOptXfer.expect 0 1152 16777216 1048575 = .serve 16777200 16 := by decide
example : xfer .ul 0 1152 16777217 1048576 = .refused (some .exceedLimit) := by decide
example : Spec.BlockOptXfer.expect 0 1152 16777217 1048576 = .refuse := by decide

end CoapVerif.Props.C19Xfer

section Audit
open CoapVerif.Props.C19Xfer
#print axioms unit_eq
#print axioms getSzx_self
#print axioms spec_unit_pos
#print axioms blockLen_units
#print axioms bufLen_eq
#print axioms decode_value
#print axioms createSending_block
#print axioms createSending_refuses
#print axioms ackValue_eq
#print axioms xfer_serves_domain
#print axioms xfer_refuses_unwritable
#print axioms xfer_model_eq_spec_serve
#print axioms xfer_model_eq_spec_refuse
end Audit
