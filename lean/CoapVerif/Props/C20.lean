import CoapVerif.Go.Basic
import CoapVerif.Model.NoResponse
import CoapVerif.Spec.NoResponse
/-!
# C20 — No-Response suppression follows RFC 7967 for every value and code

Statement (properties.jsonl): for every No-Response option value a request can carry and every
response code, a handler's attempt to set a response through the response writer is refused exactly
when RFC 7967 marks that response class as not of interest (bit value 2 for 2.xx, 8 for 4.xx, 16 for
5.xx) and accepted otherwise.  Consequently a suppressed response is never put on the wire (a
confirmable request still gets its bare acknowledgement) and a response of a class that was not
suppressed is never dropped.

The theorems quantify over all naturals `code` and `v` (no enumeration).  The model's class switch is
regenerated from the AST of `IsNoResponseCode` on every run.
-/
namespace CoapVerif.Props.C20
open CoapVerif CoapVerif.Model.NoResponse CoapVerif.Generated.NoResponse
open CoapVerif.Spec.NoResponse (Transport ReqType Sent Wire suppressed supOf expected judge expectedCalls judgeCalls)

/-- `v &&& 2^k ≠ 0` is bit `k` of `v`. -/
theorem and_two_pow_ne_zero (v k : Nat) : ((v &&& 2 ^ k) != 0) = v.testBit k := by
  cases h : v.testBit k
  · have : v &&& 2 ^ k = 0 := by
      apply Nat.eq_of_testBit_eq
      intro i
      simp only [Nat.testBit_and, Nat.testBit_two_pow, Nat.zero_testBit]
      by_cases hi : k = i
      · subst hi; simp [h]
      · simp [hi]
    simp [this]
  · have hb : (v &&& 2 ^ k).testBit k = true := by
      simp [Nat.testBit_and, Nat.testBit_two_pow, h]
    have : v &&& 2 ^ k ≠ 0 := by
      intro h0; rw [h0] at hb; simp at hb
    simp [this]

/-- The predicate equals the RFC 7967 class rule for **every** code and **every** option value. -/
theorem isNoResponse_eq_spec (code v : Nat) : isNoResponse code v = suppressed code v := by
  unfold isNoResponse classBit suppressed
  simp only [classShift, classBits, Nat.shiftRight_eq_div_pow]
  have e : (2 : Nat) ^ 5 = 32 := by decide
  rw [e]
  by_cases h2 : code / 32 = 2
  · have := and_two_pow_ne_zero v 1
    simp [List.lookup, h2] at this ⊢; exact this
  · by_cases h4 : code / 32 = 4
    · have := and_two_pow_ne_zero v 3
      simp [List.lookup, h4] at this ⊢; exact this
    · by_cases h5 : code / 32 = 5
      · have := and_two_pow_ne_zero v 4
        simp [List.lookup, h5] at this ⊢; exact this
      · have b2 : (code / 32 == 2) = false := by simp [h2]
        have b4 : (code / 32 == 4) = false := by simp [h4]
        have b5 : (code / 32 == 5) = false := by simp [h5]
        simp [List.lookup, b2, b4, b5]

/-- Only the five low bits of the option value matter (in fact only bits 1, 3 and 4). -/
theorem only_low_bits_matter (code v : Nat) : isNoResponse code v = isNoResponse code (v % 32) := by
  rw [isNoResponse_eq_spec, isNoResponse_eq_spec]
  unfold suppressed
  have t : ∀ i, i < 5 → (v % 32).testBit i = v.testBit i := by
    intro i hi
    have : (v % 2 ^ 5).testBit i = (decide (i < 5) && v.testBit i) := Nat.testBit_mod_two_pow v 5 i
    simpa [hi] using this
  rw [t 1 (by decide), t 3 (by decide), t 4 (by decide)]

/-- `SetResponse` is refused exactly when the request carries a No-Response value that suppresses the class. -/
theorem setResponse_refused_iff (noResp : Option Nat) (code : Nat) :
    setResponseAccepted noResp code = !supOf noResp code := by
  unfold setResponseAccepted supOf
  cases noResp with
  | none => rfl
  | some v => simp only [isNoResponse_eq_spec]

/-- **Other options do not matter**: whatever options precede or follow it in the request (in particular options with
    higher numbers: Request-Tag 292, OCF 2049/2053, vendor options), the response writer reads the request's
    No-Response option, and a response is refused exactly when that value suppresses its class. -/
theorem noRespOption_anywhere (pre post : List (Nat × List UInt8)) (v : List UInt8) (h : ∀ o ∈ pre, o.1 ≠ 258) :
    noRespOption (pre ++ (258, v) :: post) = some v := by
  unfold noRespOption
  induction pre with
  | nil => simp
  | cons a t ih =>
    have ha : (a.1 == 258) = false := by simpa using h a (List.mem_cons_self)
    simp only [List.cons_append, List.find?_cons, ha]
    exact ih (fun o ho => h o (List.mem_cons_of_mem _ ho))

theorem request_options_position_irrelevant (pre post : List (Nat × List UInt8)) (v : List UInt8) (code : Nat)
    (h : ∀ o ∈ pre, o.1 ≠ 258) :
    setResponseAccepted (noResponseValue (noRespOption (pre ++ (258, v) :: post))) code
      = !suppressed code (decodeUint32 v) := by
  rw [noRespOption_anywhere pre post v h]
  simp [noResponseValue, setResponseAccepted, isNoResponse_eq_spec]

theorem no_option_never_refused (opts : List (Nat × List UInt8)) (code : Nat) (h : ∀ o ∈ opts, o.1 ≠ 258) :
    setResponseAccepted (noResponseValue (noRespOption opts)) code = true := by
  have : opts.find? (fun o => o.1 == 258) = none := by
    rw [List.find?_eq_none]; intro o ho; simpa using h o ho
  simp [noRespOption, this, noResponseValue, setResponseAccepted]

/-- facts read from `net/responsewriter/responseWriter.go` on every run: the response writer takes a snapshot of the
    request's No-Response value when it is constructed (so nothing a handler does to its request object afterwards can
    change what is suppressed) and finds the option by a lookup over the whole list (`noRespOption`, not the last slot). -/
theorem writer_snapshots_whole_list_lookup :
    Generated.NoResponse.readAtConstruction = true ∧ Generated.NoResponse.lookupOverWholeList = true := by decide

/-- What reaches the wire conforms to the property for every transport, request type, option value and code. -/
theorem serve_conforms (tr : Transport) (rt : ReqType) (noResp : Option Nat) (code : Nat) :
    judge tr rt noResp code (serve tr rt noResp code) = true := by
  have hacc := setResponse_refused_iff noResp code
  unfold judge serve expected
  rw [hacc]
  cases supOf noResp code <;> cases tr <;> cases rt <;> simp <;>
    (by_cases h0 : code = 0 <;> simp [h0])

/-- A suppressed response is never put on the wire (a confirmable datagram request gets exactly its bare ACK). -/
theorem suppressed_not_sent (tr : Transport) (rt : ReqType) (v code : Nat) (h : suppressed code v = true) :
    (serve tr rt (some v) code).2 = (if tr = .udp ∧ rt = .con then [⟨"ack", 0, "req", false⟩] else []) := by
  have hacc : setResponseAccepted (some v) code = false := by
    simp [setResponseAccepted, isNoResponse_eq_spec, h]
  unfold serve
  cases tr <;> cases rt <;> simp [hacc]

/-- A response of a class that was not suppressed is never dropped: exactly one message with its code and token. -/
theorem unsuppressed_sent (tr : Transport) (rt : ReqType) (noResp : Option Nat) (code : Nat)
    (h : ∀ v, noResp = some v → suppressed code v = false) :
    ∃ s, (serve tr rt noResp code).2 = [s] ∧ s.code = code ∧ s.token = true := by
  have hacc : setResponseAccepted noResp code = true := by
    cases noResp with
    | none => rfl
    | some v => simp [setResponseAccepted, isNoResponse_eq_spec, h v rfl]
  unfold serve
  cases tr <;> cases rt <;> simp [hacc] <;> (by_cases h0 : code = 0 <;> simp [h0])

/-! ### Several `SetResponse` calls in one handler (any number, any codes) -/

/-- one call: `serve` is `wire` applied to the message the single call leaves -/
theorem serve_eq_wire (tr : Transport) (rt : ReqType) (noResp : Option Nat) (code : Nat) :
    (serve tr rt noResp code).2 = wire tr rt (afterCalls noResp [code]) := by
  unfold serve wire afterCalls
  cases h : setResponseAccepted noResp code <;> cases tr <;> cases rt <;> simp [h] <;>
    (by_cases h0 : code = 0 <;> simp [h0])

theorem foldl_lastAccepted (p : Nat → Bool) (cs : List Nat) (s : Option Nat) :
    cs.foldl (fun s c => if p c then some c else s) s = ((cs.filter p).getLast?).or s := by
  induction cs generalizing s with
  | nil => simp
  | cons c cs ih =>
    simp only [List.foldl_cons, ih, List.filter_cons]
    cases hp : p c
    · simp
    · simp only [if_true]
      cases hl : (cs.filter p).getLast? with
      | none =>
        have : cs.filter p = [] := by simpa [List.getLast?_eq_none_iff] using hl
        simp [this]
      | some x =>
        have hne : cs.filter p ≠ [] := by intro h; simp [h] at hl
        simp [List.getLast?_cons_of_ne_nil hne, hl] <;> simp_all

/-- the message after the calls carries the code of the last call that was not refused -/
theorem afterCalls_eq_lastAccepted (noResp : Option Nat) (cs : List Nat) :
    afterCalls noResp cs = (cs.filter (setResponseAccepted noResp)).getLast? := by
  unfold afterCalls
  rw [foldl_lastAccepted (setResponseAccepted noResp) cs none]
  simp

/-- **serveCalls_conforms.** For every transport, request type, option value and every sequence of `SetResponse` calls of a
    handler: each call is refused exactly when RFC 7967 suppresses its class, and the wire carries the response of the last
    call that was not refused (an accepted response is not dropped by a later refused call), else the suppression outcome. -/
theorem serveCalls_conforms (tr : Transport) (rt : ReqType) (noResp : Option Nat) (cs : List Nat) :
    judgeCalls tr rt noResp cs (serveCalls tr rt noResp cs) = true := by
  have hfun : setResponseAccepted noResp = fun c => !supOf noResp c := by
    funext c; rw [setResponse_refused_iff]
  unfold judgeCalls serveCalls expectedCalls
  rw [afterCalls_eq_lastAccepted, hfun]
  cases hl : (cs.filter (fun c => !supOf noResp c)).getLast? with
  | none => cases tr <;> cases rt <;> simp [wire]
  | some c => cases tr <;> cases rt <;> simp [wire] <;> (by_cases h0 : c = 0 <;> simp [h0])

/-- **accepted_survives_refusal.** If the handler's response `c1` was accepted, a later call with a suppressed code `c2`
    changes nothing on the wire. -/
theorem accepted_survives_refusal (tr : Transport) (rt : ReqType) (noResp : Option Nat) (pre : List Nat) (c2 : Nat)
    (h2 : supOf noResp c2 = true) :
    (serveCalls tr rt noResp (pre ++ [c2])).2 = (serveCalls tr rt noResp pre).2 := by
  have hacc : setResponseAccepted noResp c2 = false := by rw [setResponse_refused_iff]; simp [h2]
  simp [serveCalls, afterCalls, List.foldl_append, hacc]

example : serveCalls .udp .con (some 16) [69, 160] = ([true, false], [⟨"ack", 69, "req", true⟩]) := by decide
example : serveCalls .tcp .non (some 2) [69, 132, 68] = ([false, true, false], [⟨"-", 132, "-", true⟩]) := by decide

/-- The option value read by the response writer is the big-endian value of at most four bytes. -/
theorem decodeUint32_lt (bs : List UInt8) : decodeUint32 bs < 2 ^ 32 := by
  unfold decodeUint32
  have key : ∀ (l : List UInt8) (acc k : Nat), acc < 256 ^ k →
      l.foldl (fun acc b => acc * 256 + b.toNat) acc < 256 ^ (k + l.length) := by
    intro l
    induction l with
    | nil => intro acc k h; simpa using h
    | cons b t ih =>
      intro acc k h
      simp only [List.foldl_cons, List.length_cons]
      have hb := b.toNat_lt
      have h1 : acc * 256 + b.toNat < 256 ^ (k + 1) := by
        rw [Nat.pow_succ]
        have : acc + 1 ≤ 256 ^ k := h
        have := Nat.mul_le_mul_right 256 this
        omega
      have := ih (acc * 256 + b.toNat) (k + 1) h1
      have e : k + 1 + t.length = k + (t.length + 1) := by omega
      rwa [e] at this
  have h := key (bs.take 4) 0 0 (by decide)
  have hl : (bs.take 4).length ≤ 4 := by simp [List.length_take]; omega
  have : 256 ^ (0 + (bs.take 4).length) ≤ 256 ^ 4 := Nat.pow_le_pow_right (by decide) (by omega)
  have e : (256 : Nat) ^ 4 = 2 ^ 32 := by decide
  omega

/-! Non-vacuity: concrete instances (4.08 Request Entity Incomplete with value 8; an unlisted 2.31; a 5.xx code). -/
example : isNoResponse 136 8 = true ∧ isNoResponse 95 2 = true ∧ isNoResponse 165 16 = true ∧ isNoResponse 69 24 = false := by decide
example : serve .udp .con (some 2) 69 = (false, [⟨"ack", 0, "req", false⟩]) := by decide
example : serve .udp .non (some 26) 132 = (false, []) := by decide
example : serve .tcp .non (some 2) 132 = (true, [⟨"-", 132, "-", true⟩]) := by decide

end CoapVerif.Props.C20

section Audit
open CoapVerif.Props.C20
#print axioms and_two_pow_ne_zero
#print axioms isNoResponse_eq_spec
#print axioms only_low_bits_matter
#print axioms setResponse_refused_iff
#print axioms writer_snapshots_whole_list_lookup
#print axioms noRespOption_anywhere
#print axioms request_options_position_irrelevant
#print axioms no_option_never_refused
#print axioms serve_conforms
#print axioms suppressed_not_sent
#print axioms unsuppressed_sent
#print axioms decodeUint32_lt
#print axioms serve_eq_wire
#print axioms foldl_lastAccepted
#print axioms afterCalls_eq_lastAccepted
#print axioms serveCalls_conforms
#print axioms accepted_survives_refusal
end Audit
