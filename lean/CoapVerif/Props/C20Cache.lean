import CoapVerif.Props.C20
import CoapVerif.Model.NoResponseCache
import CoapVerif.Spec.NoResponseCache
/-!
# C20 — a request whose message ID has been used on the connection before

Statement (properties.jsonl): … Consequently a suppressed response is never put on the wire (a confirmable request
still gets its bare acknowledgement) and a response of a class that was not suppressed is never dropped.

On a datagram connection a reply cache sits in front of the handler and the response writer: a request whose message
ID finds a live cached reply is answered from the cache and nobody looks at its No-Response option.  That is right
for a duplicate (inside EXCHANGE_LIFETIME, RFC 7252 §4.5) and wrong for a new request that re-uses the message ID
after EXCHANGE_LIFETIME (§4.4) — a 16-bit counter that has wrapped, a peer that has restarted.  The theorems say that
in EVERY history of requests and cache sweeps (any message IDs, any times — not even ordered —, any No-Response values
and codes, sweeps anywhere or never) every request that is not a duplicate by the RFC's definition is handled by the
response writer and what reaches the wire conforms to the property (`history_conforms`), and that the periodic sweep
cannot be seen from outside (`sweep_invisible`).
-/
namespace CoapVerif.Props.C20Cache
open CoapVerif CoapVerif.Model.NoResponseCache
open CoapVerif.Spec.NoResponse (ReqType Sent judge)
open CoapVerif.Spec.NoResponseCache (HReq Obs isDuplicate judgeReq judgeHistory exchangeLifetimeMs)

/-- the code's `ExchangeLifetime` is the RFC's EXCHANGE_LIFETIME -/
theorem lifetime_is_rfc : lifetimeMs = exchangeLifetimeMs := by decide

/-- the request as the specification sees it -/
def hreq (r : Req) : HReq := ⟨r.mid, r.rt, r.noResp, r.code⟩

/-- the model's outcome in the specification's observation vocabulary (does a datagram carry THIS request's token?) -/
def toObs (r : Req) (o : Out) : Obs :=
  (o.ran, o.sent.map (fun m => ⟨m.typ, m.code, m.mid, m.tok == some r.id⟩))

def hreqs : List (Nat × Ev) → List (Nat × HReq)
  | [] => []
  | (t, .req r) :: h => (t, hreq r) :: hreqs h
  | (_, .sweep) :: h => hreqs h

def obsOf (c : Cache) : List (Nat × Ev) → List Obs
  | [] => []
  | (t, .req r) :: h => toObs r (request c t r).2 :: obsOf (request c t r).1 h
  | (t, .sweep) :: h => obsOf (sweep c t) h

/-- `obsOf` is `run` with every outcome translated for its request -/
theorem obsOf_length (c : Cache) (h : List (Nat × Ev)) : (obsOf c h).length = (run c h).length := by
  induction h generalizing c with
  | nil => rfl
  | cons x h ih =>
    obtain ⟨t, e⟩ := x
    cases e with
    | req r => simp [obsOf, run, step, ih]
    | sweep => simp [obsOf, run, step, ih]

/-- a request that is handled conforms: `Props.C20.serve_conforms` through the translation -/
theorem fresh_conforms (r : Req) :
    ∃ acc, (toObs r (fresh r)).1 = some acc ∧ judge .udp r.rt r.noResp r.code (acc, (toObs r (fresh r)).2) = true := by
  refine ⟨(Model.NoResponse.serve .udp r.rt r.noResp r.code).1, rfl, ?_⟩
  have hmap : (toObs r (fresh r)).2 = (Model.NoResponse.serve .udp r.rt r.noResp r.code).2 := by
    simp only [toObs, fresh, List.map_map]
    conv => rhs; rw [← List.map_id (Model.NoResponse.serve .udp r.rt r.noResp r.code).2]
    apply List.map_congr_left
    intro m _
    cases m with
    | mk typ code mid token => cases token <;> simp
  rw [hmap]
  exact Props.C20.serve_conforms .udp r.rt r.noResp r.code

/-- an expired element is not served: the request is handled -/
theorem expired_not_replayed (c : Cache) (t : Nat) (r : Req)
    (h : ∀ e, c r.mid = some e → e.validUntil < t) : (request c t r).2 = fresh r := by
  have hl : load c r.mid t = none := by
    unfold load
    cases hc : c r.mid with
    | none => rfl
    | some e => simp [Entry.expired, h e hc]
  simp [request, hl]

/-- the sweep removes only what `Load` would not return any more: at any later (or the same) time the cache answers
    alike with and without it -/
theorem load_sweep (c : Cache) (ts m t : Nat) (h : ts ≤ t) : load (sweep c ts) m t = load c m t := by
  cases hc : c m with
  | none => simp [sweep, load, hc]
  | some e =>
    by_cases h1 : e.validUntil < ts
    · have h2 : e.validUntil < t := by omega
      simp [sweep, load, hc, Entry.expired, h1, h2]
    · simp [sweep, load, hc, Entry.expired, h1]

/-- … so a request is answered alike whether or not `CheckExpirations` has run before it -/
theorem sweep_invisible (c : Cache) (ts t : Nat) (r : Req) (h : ts ≤ t) :
    (request (sweep c ts) t r).2 = (request c t r).2 := by
  unfold request
  rw [load_sweep c ts r.mid t h]
  cases load c r.mid t <;> rfl

/-- every cached reply was stored for a request with its message ID and is valid for `ExchangeLifetime` from then on -/
def Inv (c : Cache) (earlier : List (Nat × Nat)) : Prop :=
  ∀ m e, c m = some e → ∃ t', (t', m) ∈ earlier ∧ e.validUntil = t' + lifetimeMs

theorem inv_sweep {c : Cache} {earlier : List (Nat × Nat)} (h : Inv c earlier) (t : Nat) : Inv (sweep c t) earlier := by
  intro m e hs
  apply h m e
  unfold sweep load at hs
  cases hc : c m with
  | none => simp [hc] at hs
  | some e' =>
    simp only [hc] at hs
    by_cases hx : e'.expired t
    · simp [hx] at hs
    · simp [hx] at hs; rw [hs]

theorem inv_request {c : Cache} {earlier : List (Nat × Nat)} (h : Inv c earlier) (t : Nat) (r : Req) :
    Inv (request c t r).1 ((t, r.mid) :: earlier) := by
  have hmono : Inv c ((t, r.mid) :: earlier) := by
    intro m e hc
    obtain ⟨t', hm, hv⟩ := h m e hc
    exact ⟨t', List.mem_cons_of_mem _ hm, hv⟩
  unfold request
  cases load c r.mid t with
  | some e => exact hmono
  | none =>
    simp only
    cases hk : cached t (fresh r) with
    | none => exact hmono
    | some e =>
      intro m e' hs
      simp only [store] at hs
      by_cases hm : m = r.mid
      · simp [hm] at hs
        subst hm
        refine ⟨t, List.mem_cons_self, ?_⟩
        unfold cached at hk
        cases hsent : (fresh r).sent with
        | nil => simp [hsent] at hk
        | cons x xs => simp [hsent] at hk; rw [← hs, ← hk]
      · simp [hm] at hs
        exact hmono m e' hs

/-- a request that is not a duplicate by the RFC's definition conforms, whatever the cache still holds -/
theorem request_conforms {c : Cache} {earlier : List (Nat × Nat)} (h : Inv c earlier) (t : Nat) (r : Req) :
    judgeReq earlier t (hreq r) (toObs r (request c t r).2) = none := by
  unfold judgeReq
  cases hd : isDuplicate earlier t (hreq r).mid with
  | true => simp
  | false =>
    have hexp : ∀ e, c r.mid = some e → e.validUntil < t := by
      intro e hc
      obtain ⟨t', hm, hv⟩ := h r.mid e hc
      unfold isDuplicate at hd
      rw [List.any_eq_false] at hd
      have := hd (t', r.mid) hm
      simp [hreq] at this
      rw [hv, lifetime_is_rfc]
      omega
    rw [expired_not_replayed c t r hexp]
    obtain ⟨acc, h1, h2⟩ := fresh_conforms r
    simp [h1, hreq, h2]

theorem history_conforms_from {c : Cache} {earlier : List (Nat × Nat)} (h : Inv c earlier) (i : Nat)
    (hist : List (Nat × Ev)) : judgeHistory earlier i (hreqs hist) (obsOf c hist) = none := by
  induction hist generalizing c earlier i with
  | nil => simp [hreqs, obsOf, judgeHistory]
  | cons x hist ih =>
    obtain ⟨t, e⟩ := x
    cases e with
    | sweep => simp only [hreqs, obsOf]; exact ih (inv_sweep h t) i
    | req r =>
      simp only [hreqs, obsOf, judgeHistory, request_conforms h t r]
      exact ih (inv_request h t r) (i + 1)

/-- **Every history**: requests with any message IDs at any times, any No-Response values, any codes, cache sweeps
    anywhere or never — the specification's judge has nothing to object to in what the model does.  In particular a
    new request that re-uses a message ID after EXCHANGE_LIFETIME is never answered from the reply cache, swept or not:
    its suppressed response is not put on the wire (a confirmable one gets its bare acknowledgement), its response of
    a class that is of interest is not dropped. -/
theorem history_conforms (hist : List (Nat × Ev)) : judgeHistory [] 0 (hreqs hist) (obsOf empty hist) = none :=
  history_conforms_from (c := empty) (earlier := []) (by intro m e hc; simp [empty] at hc) 0 hist

/-! non-vacuity: the situation of the seeded change C20-V, and what a cache that forgets to look at the clock does -/

/-- the first request (no option) is answered 2.05 and cached; 247.001 s later the same message ID carries No-Response 2 -/
example : run empty [(0, .req ⟨0, 7, .con, none, 69⟩), (247001, .req ⟨1, 7, .con, some 2, 69⟩)]
    = [⟨some true, [⟨"ack", 69, "req", some 0⟩]⟩, ⟨some false, [⟨"ack", 0, "req", none⟩]⟩] := by decide
/-- inside the lifetime the same datagram is a duplicate and gets the cached reply -/
example : run empty [(0, .req ⟨0, 7, .con, none, 69⟩), (247000, .req ⟨1, 7, .con, some 2, 69⟩)]
    = [⟨some true, [⟨"ack", 69, "req", some 0⟩]⟩, ⟨none, [⟨"ack", 69, "req", some 0⟩]⟩] := by decide
/-- the judge objects to a replay after the lifetime (request 1: the handler was not asked) -/
example : judgeHistory [] 0 [(0, ⟨7, .con, none, 69⟩), (247001, ⟨7, .con, some 2, 69⟩)]
    [(some true, [⟨"ack", 69, "req", true⟩]), (none, [⟨"ack", 69, "req", false⟩])] = some (1, "the handler was not asked") := by decide
/-- the hypothesis of `sweep_invisible` is needed: a sweep dated in the future does remove what is still live now -/
example : (request (sweep (request empty 0 ⟨0, 7, .con, none, 69⟩).1 300000) 10 ⟨1, 7, .con, none, 69⟩).2
    ≠ (request (request empty 0 ⟨0, 7, .con, none, 69⟩).1 10 ⟨1, 7, .con, none, 69⟩).2 := by decide

section Audit
#print axioms lifetime_is_rfc
#print axioms obsOf_length
#print axioms fresh_conforms
#print axioms expired_not_replayed
#print axioms load_sweep
#print axioms sweep_invisible
#print axioms inv_sweep
#print axioms inv_request
#print axioms request_conforms
#print axioms history_conforms_from
#print axioms history_conforms
end Audit

end CoapVerif.Props.C20Cache
