/-!
Specification written from RFC 7959 §2.2 only (no generated constants, no reference to the code):
a block option value is a 24-bit unsigned integer `NUM·16 + M·8 + SZX`.
-/
namespace CoapVerif.Spec.BlockOpt

/-- RFC 7959 §2.2: decoding is defined for every 24-bit value. -/
def decode (v : Nat) : Option (Nat × Nat × Bool) :=
  if v < 2 ^ 24 then some (v % 8, v / 16, v / 8 % 2 == 1) else none

/-- Encoding is defined for exponent 0..7 and a 20-bit block number. -/
def encode (szx : Nat) (num : Int) (more : Bool) : Option Nat :=
  if szx ≤ 7 ∧ 0 ≤ num ∧ num < 2 ^ 20 then some (num.toNat * 16 + (if more then 8 else 0) + szx) else none

/-- Size in bytes of exponent `s` (BERT, s = 7, uses 1024-byte units). -/
def size (s : Nat) : Int := if s < 7 then (2 ^ (s + 4) : Nat) else if s = 7 then 1024 else -1

end CoapVerif.Spec.BlockOpt
