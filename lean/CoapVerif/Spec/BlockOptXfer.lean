import CoapVerif.Spec.BlockOpt
/-!
What RFC 7959 §2.2 and the words of C19 say about block number `num` of a body of `body` bytes transferred in blocks of
exponent `szx` (written from the RFC; no generated constant, no reference to the code):

* the block number has 20 bits and the exponent three: every block whose number is at most 2^20 − 1 can be written, so a body
  of at most 2^20 blocks is inside the domain and NONE of its blocks may be refused — block `num` is served with the value
  `num·16 + M·8 + szx`, M set iff bytes follow it (the LAST block of a body of exactly 2^20 blocks carries the number 0xfffff);
* a block whose number does not fit 20 bits is never produced (refused, not wrapped or truncated);
* a body of more than 2^20 blocks cannot be transferred completely: refusing it at once or only at the block that cannot be
  numbered are both acceptable, but a block that IS produced carries its RFC value.

A block of exponent s < 7 has 2^(s+4) bytes; with BERT (s = 7) the number counts units of 1024 bytes and a block is the largest
multiple of 1024 not above the maximum message size.
-/
namespace CoapVerif.Spec.BlockOptXfer

inductive Verdict
  | unjudged                       -- outside what C19 words (a body that fits one block - whether and how it is sent block-wise
                                   -- is C04's, DESIGN §6 O2 for BERT -, a block beyond the end of the body)
  | refuse                         -- must be refused with an error
  | serve (val len : Nat)          -- must be produced: option value and payload length
  | serveOrRefuse (val len : Nat)  -- may be refused; if produced, then with this value and length
  deriving Repr, DecidableEq

def unit (szx : Nat) : Nat := if szx < 7 then 2 ^ (szx + 4) else 1024
def blockLen (szx maxMsg : Nat) : Nat := if szx < 7 then 2 ^ (szx + 4) else maxMsg / 1024 * 1024

def expect (szx maxMsg body num : Nat) : Verdict :=
  if szx > 7 then .unjudged
  else if body ≤ unit szx ∨ body ≤ blockLen szx maxMsg ∨ blockLen szx maxMsg = 0 then .unjudged
  else if 2 ^ 20 ≤ num then .refuse
  else if body ≤ num * unit szx then .unjudged
  else
    let off := num * unit szx
    let len := min (blockLen szx maxMsg) (body - off)
    let more := off + len < body
    match Spec.BlockOpt.encode szx (num : Int) more with
    | none => .refuse
    | some v => if body ≤ 2 ^ 20 * unit szx then .serve v len else .serveOrRefuse v len

end CoapVerif.Spec.BlockOptXfer
