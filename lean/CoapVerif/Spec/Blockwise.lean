/-!
Specification for C04, written from the words of the property and RFC 7959 (no reference to the code, no
generated constants).

Two applications, one on each side of a connection, hand messages (code, token, ETag, other options, body) to
their block-wise layers; the layers exchange blocks over a network that may deliver, duplicate, drop, reorder or
replay them; each layer hands messages to its application.  The judge looks at one history of such events and
decides whether

* `exact`   every message handed to an application that is a *body delivery* (see `classify`) equals — body, code,
            ETag and other options — what the peer's application supplied under that token (and that ETag);
            this includes "never a partial body presented as complete" and "other options preserved";
* `once`    the number of body deliveries for a token and direction never exceeds the number of times a first
            block (NUM = 0, or a message that is not block-wise at all) for that token and direction arrived:
            each reassembly is delivered at most once, and nothing is delivered that did not start;
* `slice`   every data block a layer puts on the wire is an aligned slice of the body its application supplied:
            offset NUM·2^(SZX+4) (1024-byte units for BERT), never flagged as the last block before the end of
            the body (a set `more` flag on the block that happens to end the body only costs progress — DESIGN §6 O2 —
            and is not judged), total size announced correctly (RFC 7959 §2.2, §4);
* `hang`    when the history ends every call has returned (with a response or an error);
* `leak`    long after every deadline has passed and both sides have been swept, no reassembly or sending buffer is held;
* `szx`     block-size negotiation clamps to the smaller side: what a layer puts on the wire while it handles a message
            that carried a block option never uses a larger size exponent than that option showed, and — RFC 7959 §2.4,
            "a server MUST use the block size indicated or a smaller size" — is never a body of more bytes than one
            block of that size (exponent 7, BERT, counts in multiples of 1024 and is not bounded here);
* `oneway`  a one-way write that reported success, in a history without any fault and with nothing left in flight, has
            brought its body to the peer's application (the one-way style has no other way to "end with an error").

Bodies are compared through a digest (length, 64-bit FNV-1a) so that the histories stay small.
-/
namespace CoapVerif.Spec.Blockwise

abbrev Bytes := List UInt8

structure Dig where
  len : Nat
  fnv : UInt64
  deriving DecidableEq, Repr, Inhabited

def fnvStep (h : UInt64) (b : UInt8) : UInt64 := (h ^^^ b.toUInt64) * 0x100000001b3
def digest (bs : Bytes) : Dig := ⟨bs.length, bs.foldl fnvStep 0xcbf29ce484222325⟩

/-- block option as RFC 7959 §2.2 reads it: size exponent, block number, more flag -/
abbrev Blk := Nat × Nat × Bool

/-- RFC 7959 §2.2: block size of exponent `s`; exponent 7 (BERT, RFC 8323 §6) counts in units of 1024 bytes -/
def unit (s : Nat) : Nat := if s < 7 then 2 ^ (s + 4) else 1024

/-- what an application supplies for transfer -/
structure Sent where
  side : Nat            -- 0 / 1: which application supplied it
  tok : Nat
  code : Nat
  etag : Option Bytes
  other : List (Nat × Bytes)
  body : Bytes
  deriving DecidableEq, Repr

/-- a message as it is seen on the wire or at the boundary to an application -/
structure Seen where
  code : Nat
  tok : Nat
  block1 : Option Blk
  block2 : Option Blk
  size1 : Option Nat
  size2 : Option Nat
  etag : Option Bytes
  other : List (Nat × Bytes)
  body : Dig
  deriving DecidableEq, Repr

inductive Ev
  | sent (s : Sent)                   -- an application supplies (or replaces) a message for a token
  | wire (side : Nat) (m : Seen)      -- the layer of `side` puts `m` on the wire
  | arrive (side : Nat) (m : Seen)    -- the network hands `m` to the layer of `side`
  | deliver (side : Nat) (m : Seen)   -- the layer of `side` hands `m` to its application
  | started (tok : Nat)               -- a request/response call starts
  | returned (tok : Nat)              -- … and returns (response or error)
  | finished                          -- end of the history (after every deadline has passed)
  | wrote (side tok : Nat) (ok : Bool) -- a one-way write of `side`'s application returned
  | disturbed                         -- the network did something else than deliver the oldest message, or time passed
  | settled (inFlight : Nat)          -- the history is at rest: this many messages are still in flight
  | atRest (held : Nat)               -- long after every deadline, both sides swept: this many cache entries are still held
  | stuck (side : Nat)                -- everything is at rest and the layer of `side` has not finished handling a message
  | quiet                             -- everything is at rest: whatever is put on the wire from now on answers what arrives from now on
  deriving Repr

inductive Class | request | response | other
  deriving DecidableEq, Repr

def classOf (code : Nat) : Class :=
  if 1 ≤ code ∧ code ≤ 4 then .request           -- 0.01 … 0.04
  else if 64 ≤ code ∧ code < 224 then .response   -- 2.xx … 5.xx (6.xx unused)
  else .other                                     -- empty message, signalling codes

/-- 2.31 Continue and 4.08 Request Entity Incomplete are the block-wise layer's own signals (RFC 7959 §2.9):
    they carry no body of an application and tell it that the transfer did not (yet) complete. -/
def isLayerSignal (code : Nat) : Bool := code == 95 || code == 136

/-- the block option that describes the payload of a message of this class -/
def dataBlock (m : Seen) : Option Blk :=
  match classOf m.code with
  | .request => m.block1
  | .response => m.block2
  | .other => none

def dataSize (m : Seen) : Option Nat :=
  match classOf m.code with
  | .request => m.size1
  | .response => m.size2
  | .other => none

/-- the largest size exponent the block options of a message show (the weakest reading when a message carries both) -/
def shownSzx (m : Seen) : Option Nat :=
  match m.block1, m.block2 with
  | some (a, _, _), some (b, _, _) => some (max a b)
  | some (a, _, _), none => some a
  | none, some (b, _, _) => some b
  | none, none => none

/-- Is handing `m` to an application a delivery of a body? -/
def isBodyDelivery (m : Seen) : Bool :=
  classOf m.code != .other && !isLayerSignal m.code

/-- Is the arrival of `m` the possible start of a body (first block, or not block-wise)? -/
def isStart (m : Seen) : Bool :=
  isBodyDelivery m && (match dataBlock m with | some (_, n, _) => decide (n = 0) | none => true)

/-- what `side`'s peer supplied under this token, class and ETag, latest first.  Under the ETag discipline of
    RFC 7959 §2.4 (an ETag stands for one representation) there is at most one; if an application hands out one ETag
    for several bodies, a message is judged against each of them and accepted if it is right for one: which of its own
    equally-tagged bodies a sender serves is not the layer's business. -/
def candidates (sents : List Sent) (side : Nat) (m : Seen) : List Sent :=
  sents.reverse.filter (fun s => s.side != side && s.tok == m.tok && classOf s.code == classOf m.code && s.etag == m.etag)

/-- first complaint of a list of verdicts (latest candidate first), unless one candidate has none -/
def anyAccepts (vs : List (Option String)) : Option String :=
  if vs.any (·.isNone) then none else vs.head?.join

def anyFor (sents : List Sent) (side : Nat) (m : Seen) : Bool :=
  sents.any (fun s => s.side != side && s.tok == m.tok && classOf s.code == classOf m.code)

structure Count where
  side : Nat
  tok : Nat
  cls : Class
  starts : Nat := 0
  deliveries : Nat := 0
  deriving Repr

structure JState where
  sents : List Sent := []
  counts : List Count := []
  open_ : List Nat := []        -- calls started and not yet returned
  wrotes : List (Nat × Nat) := []      -- (side, token) of one-way writes that returned success
  handed : List (Nat × Nat) := []      -- (side, token) of body deliveries
  disturbed : Bool := false
  asked : Option (Nat × Nat × Nat) := none   -- (side, token, size exponent shown) of the message `side` is handling
  deriving Repr

def bump (cs : List Count) (side tok : Nat) (cls : Class) (ds dd : Nat) : List Count × Count :=
  match cs.find? (fun c => c.side == side && c.tok == tok && c.cls == cls) with
  | some c =>
    let c' := { c with starts := c.starts + ds, deliveries := c.deliveries + dd }
    (cs.map (fun x => if x.side == side && x.tok == tok && x.cls == cls then c' else x), c')
  | none =>
    let c' : Count := { side := side, tok := tok, cls := cls, starts := ds, deliveries := dd }
    (c' :: cs, c')

def anyAcceptsIn (s : JState) (cs : List Sent) (f : Sent → Option String) : JState × Option String :=
  (s, anyAccepts (cs.map f))

/-- verdict on one event: `none` = fine, `some clause` = the property is violated here -/
def judgeEv (s : JState) : Ev → JState × Option String
  | .sent x => ({ s with sents := s.sents ++ [x] }, none)
  | .started tok => ({ s with open_ := tok :: s.open_ }, none)
  | .returned tok => ({ s with open_ := s.open_.erase tok }, none)
  | .finished => (s, if s.open_.isEmpty then none else some s!"hang: calls {s.open_} never returned")
  | .wrote side tok ok => (if ok then { s with wrotes := (side, tok) :: s.wrotes } else s, none)
  | .disturbed => ({ s with disturbed := true }, none)
  | .atRest held =>
    (s, if held = 0 then none else some s!"leak: {held} block-wise buffers (cache entries) outlive their exchanges: still held after every deadline has passed and both sides were swept")
  | .stuck side =>
    (s, some s!"hang: the layer of side {side} never finished handling a message (blocked although nothing else is running)")
  | .settled n =>
    -- the one-way style has no answer to wait for: a write that reported success, in a history without any fault, whose
    -- messages have all been delivered, must have brought its body to the peer's application
    if n ≠ 0 ∨ s.disturbed then (s, none) else
    match s.wrotes.find? (fun (side, tok) => !s.handed.contains (1 - side, tok)) with
    | some (_, tok) => (s, some s!"oneway: token {tok}: WriteMessage returned success and every message was delivered without a fault, but nothing reached the peer's application")
    | none => (s, none)
  | .quiet => ({ s with asked := none }, none)
  | .arrive side m =>
    let s := { s with asked := (shownSzx m).map (fun z => (side, m.tok, z)) }
    if isStart m then ({ s with counts := (bump s.counts side m.tok (classOf m.code) 1 0).1 }, none) else (s, none)
  | .wire side m =>
    -- negotiation: never larger than the peer showed in the message being handled
    let tooLarge : Option String :=
      match s.asked with
      | none => none
      | some (sd, tok, z) =>
        if sd ≠ side ∨ tok ≠ m.tok then none else
        match shownSzx m with
        | some e =>
          if e > z then some s!"szx: token {m.tok}: side {side} answers a message that showed size exponent {z} with size exponent {e}"
          else if z < 7 ∧ isBodyDelivery m ∧ m.body.len > unit z then
            some s!"szx: token {m.tok}: side {side} answers a message that showed blocks of {unit z} bytes with a block of {m.body.len} bytes"
          else none
        | none =>
          if z < 7 ∧ isBodyDelivery m ∧ m.body.len > unit z then
            some s!"szx: token {m.tok}: side {side} answers a message that showed blocks of {unit z} bytes with {m.body.len} bytes and no block option"
          else none
    if tooLarge.isSome then (s, tooLarge) else
    -- a data block on the wire must be an aligned slice of what this side's application supplied
    match dataBlock m with
    | none => (s, none)
    | some (szx, num, more) =>
      if isLayerSignal m.code then (s, none) else
      -- supplied by `side` itself = by the peer of `1 - side`; no candidate: not a body of this side's application
      anyAcceptsIn s (candidates s.sents (1 - side) m) (fun x =>
        let off := num * unit szx
        let slice := (x.body.drop off).take m.body.len
        if off > x.body.length ∨ digest slice ≠ m.body then
          some s!"slice: block {num} (szx {szx}) of token {m.tok} is not bytes [{off}, {off + m.body.len}) of the body supplied"
        else if more = false ∧ off + m.body.len < x.body.length then
          some s!"slice: block {num} (szx {szx}) of token {m.tok} is flagged as the last one but ends at {off + m.body.len} of {x.body.length}"
        else if dataSize m ≠ some x.body.length then
          some s!"slice: token {m.tok}: announced size {dataSize m}, body has {x.body.length} bytes"
        else if m.other ≠ x.other then some s!"slice: token {m.tok}: options of the block differ from the message's options"
        else none)
  | .deliver side m =>
    if !isBodyDelivery m then (s, none) else
    let (cs, c) := bump s.counts side m.tok (classOf m.code) 0 1
    let s' := { s with counts := cs, handed := (side, m.tok) :: s.handed }
    if c.deliveries > c.starts then
      (s', some s!"once: token {m.tok}: delivery {c.deliveries} of a body to side {side} after only {c.starts} arrivals of a first block")
    else
    if (candidates s.sents side m).isEmpty then
      if anyFor s.sents side m then (s', some s!"exact: token {m.tok}: a body with ETag {repr m.etag} was delivered to side {side} but never supplied")
      else (s', some s!"exact: token {m.tok}: a message was delivered to side {side} that the peer's application never supplied")
    else
      anyAcceptsIn s' (candidates s.sents side m) (fun x =>
        if digest x.body ≠ m.body then
          some s!"exact: token {m.tok}: delivered {m.body.len} bytes (fnv {m.body.fnv}), supplied {x.body.length} bytes"
        else if x.code ≠ m.code then some s!"exact: token {m.tok}: delivered code {m.code}, supplied {x.code}"
        else if x.other ≠ m.other then some s!"exact: token {m.tok}: other options not preserved"
        else none)

/-- the whole history: first violated clause, if any -/
def judge : JState → List Ev → Option String
  | _, [] => none
  | s, e :: es =>
    match judgeEv s e with
    | (_, some v) => some v
    | (s', none) => judge s' es

end CoapVerif.Spec.Blockwise
