import CoapVerif.Spec.Rfc8323Parse
/-!
# Executable judges for C01 and C02

Each judge takes an input of the line protocol and what an implementation *did* (decoded observation)
and says whether the conclusion of the property holds for that case.  Only `Spec/Wire.lean` and the
reference parsers are used — not the model.

`Verdict.skip` = the case is outside the property's preconditions (C01: a message that is neither
well-formed nor in the "must be refused" class, e.g. unsorted options), so the property says nothing.
-/
set_option linter.unusedVariables false
namespace CoapVerif.Spec.CodecJudge
open CoapVerif.Spec.Wire

inductive Verdict
  | ok
  | skip
  | violates (clause : String)
deriving Repr, DecidableEq

def Verdict.toString : Verdict → String
  | .ok => "ok" | .skip => "skip" | .violates c => "violates " ++ c

/-- "Anything outside the preconditions (oversized token, invalid type or message ID)"; the preconditions also
list "code 0-255" (`codes.Code` is a `uint16`, the wire has one byte). -/
def mustRefuse (f : Framing) (m : Msg) : Bool :=
  decide (m.token.length > 8) || decide (m.code > 255) ||
  (match f with
   | .udp => decide (m.typ < 0) || decide (m.typ > 3) || decide (m.mid < 0) || decide (m.mid > 65535)
   | .tcp => false)

/-- Which precondition a must-refuse message violates (names the clause of a violation).  Types
4..255 have their own clause: the library's `ValidateType` admits them (DESIGN §6-F15). -/
def refuseClause (f : Framing) (m : Msg) : String :=
  if m.token.length > 8 then "refuses-oversized-token"
  else if m.code > 255 then "refuses-invalid-code"
  else if f = .udp ∧ (m.mid < 0 ∨ m.mid > 65535) then "refuses-invalid-mid"
  else if f = .udp ∧ 3 < m.typ ∧ m.typ ≤ 255 then "refuses-type-above-reset"
  else "refuses-invalid-type"

/-- What an encoder call returned. -/
structure EncObs where
  n : Int
  err : String          -- "ok", "tooSmall", or another error name
  buf : Bytes           -- contents of the destination window after the call
  canary : Bool         -- bytes after the window untouched

/-! ## C01 -/

/-- `Size(m)`: equals the length of the RFC encoding. -/
def judgeSize (f : Framing) (m : Msg) (n : Int) (err : String) : Verdict :=
  if err = "panic" then .violates "no-crash"
  else if WF f m then
    if err = "ok" ∧ n = ((enc f m).length : Int) then .ok else .violates "size-equals-bytes-written"
  else if decide (m.token.length > 8) then
    if err ≠ "ok" then .ok else .violates "refuses-oversized-token"
  else .skip

/-- `Encode(m, buf)` with `len(buf) = cap`, window pre-filled with `fill`. -/
def judgeEnc (f : Framing) (m : Msg) (cap : Nat) (fill : UInt8) (o : EncObs) : Verdict :=
  if o.err = "panic" then .violates "no-crash"
  else if !o.canary then .violates "no-write-beyond-buffer"
  else if o.buf.length ≠ cap then .violates "no-write-beyond-buffer"
  else if WF f m then
    let e := enc f m
    if cap < e.length then
      if o.err = "tooSmall" ∧ o.n = (e.length : Int) then .ok else .violates "too-small-reports-size"
    else
      if o.err = "ok" ∧ o.n = (e.length : Int) ∧ o.buf = e ++ List.replicate (cap - e.length) fill then .ok
      else .violates "encode-equals-rfc"
  else if mustRefuse f m then
    if o.err ≠ "ok" ∧ o.err ≠ "tooSmall" then .ok else .violates (refuseClause f m)
  else .skip

/-- Aggregate over every buffer length `0..size`. -/
def judgeEncAll (f : Framing) (m : Msg) (size : Int) (err : String) (nSize nCanary : Nat)
    (full : Option EncObs) : Verdict :=
  if err = "panic" then .violates "no-crash"
  else if WF f m then
    let e := enc f m
    if err ≠ "ok" ∨ size ≠ (e.length : Int) then .violates "size-equals-bytes-written"
    else if nCanary ≠ e.length + 1 then .violates "no-write-beyond-buffer"
    else if nSize ≠ e.length then .violates "too-small-reports-size"
    else
      match full with
      | some o => if o.err = "ok" ∧ o.n = (e.length : Int) ∧ o.buf = e then .ok else .violates "encode-equals-rfc"
      | none => .violates "encode-equals-rfc"
  else if mustRefuse f m then
    -- refused either by `Size` already or by every `Encode`
    if err ≠ "ok" then .ok
    else
      match full with
      | some o => if o.err ≠ "ok" ∧ o.err ≠ "tooSmall" then .ok else .violates (refuseClause f m)
      | none => .violates (refuseClause f m)
  else .skip

/-- `Options.Marshal` on its own, over the nil buffer and every buffer length `0..len`: the sizing pass
reports the length of the RFC encoding with "too small", every shorter buffer reports the same length
with "too small" without leaving its window, the exact buffer receives the RFC bytes. -/
def judgeOptionsMarshal (os : List Opt) (n0 : Int) (err0 : String) (nSize nCanary : Nat) (full : Option EncObs) : Verdict :=
  if err0 = "panic" then .violates "no-crash"
  else if optsWF [] 0 os then
    let e := encOpts 0 os
    if n0 ≠ (e.length : Int) ∨ err0 ≠ "tooSmall" then .violates "size-equals-bytes-written"
    else if nCanary ≠ e.length + 1 then .violates "no-write-beyond-buffer"
    else if nSize ≠ e.length then .violates "too-small-reports-size"
    else
      match full with
      | some o => if o.err = "ok" ∧ o.n = (e.length : Int) ∧ o.buf = e then .ok else .violates "encode-equals-rfc"
      | none => .violates "encode-equals-rfc"
  else .skip

/-! ### C01 through the real entry points -/

/-- A stream of encodings of well-formed messages, written to a connection in any chunks: the application receives
exactly those messages, in order, and the connection stays open ("decoding the result yields an equal message and
consumes exactly the bytes produced" — the next frame starts exactly where the previous one ended). -/
def judgeStream (msgs : List Msg) (delivered : List (Option Msg)) (closed : Bool) : Verdict :=
  if msgs.all (fun m => WF .tcp m) then
    if !closed ∧ delivered = msgs.map (fun m => some (canon .tcp m)) then .ok else .violates "stream-roundtrip"
  else .skip

/-- A real datagram server: every well-formed message sent as one datagram (not larger than the server's maximum
message size) reaches the application as the same message. -/
def judgeDatagramServer (maxSize : Nat) (msgs : List Msg) (delivered : List (Option Msg)) : Verdict :=
  if msgs.all (fun m => WF .udp m && decide ((encUdp m).length ≤ maxSize)) then
    if delivered = msgs.map (fun m => some m) then .ok else .violates "datagram-roundtrip"
  else .skip

/-- The pooled entry point: token set through `pool.Message.SetToken`, then `MarshalWithEncoder`. -/
def judgePooledToken (f : Framing) (m : Msg) (err : String) (wire tokBack : Bytes) : Verdict :=
  if err = "panic" then .violates "no-crash"
  else if WF f m then
    if err = "ok" ∧ wire = enc f m ∧ tokBack = m.token then .ok else .violates "encode-equals-rfc"
  else if mustRefuse f m then
    if err ≠ "ok" ∧ err ≠ "tooSmall" then .ok else .violates (refuseClause f m)
  else .skip

/-- The scenario's handler: 2.05 Content, Content-Format 42, the request's payload, piggybacked on the ACK. -/
def echoResponse (mid : Int) (tok pay : Bytes) : Msg := ⟨2, mid, 69, tok, [⟨12, [42]⟩], pay⟩

/-- Every datagram a connection wrote decodes (reference parser) to the message the application handed to it for that
exchange — also when it is sent again for a duplicate of the request. -/
def judgeExchange (expected : List Msg) (sent : List Bytes) : Verdict :=
  if sent.map Rfc7252.parse = expected.map some then .ok else .violates "reply-roundtrip"

/-- Result of a decoder call: error name or (message, consumed). -/
structure DecObs where
  err : String
  n : Int
  msg : Option Msg

/-- Encode then decode. -/
def judgeRoundTrip (f : Framing) (m : Msg) (encN : Int) (encErr : String) (wire : Bytes) (d : Option DecObs) : Verdict :=
  if encErr = "panic" then .violates "no-crash"
  else if WF f m then
    let e := enc f m
    if encErr ≠ "ok" ∨ encN ≠ (e.length : Int) ∨ wire ≠ e then .violates "encode-equals-rfc"
    else
      match d with
      | none => .violates "decode-inverts-encode"
      | some d =>
        if d.err = "panic" ∨ d.err = "hang" then .violates "no-crash"
        else if d.err = "ok" ∧ d.msg = some (canon f m) ∧ d.n = (e.length : Int) then .ok
        else .violates "decode-inverts-encode"
  else if mustRefuse f m then
    if encErr ≠ "ok" ∧ encErr ≠ "tooSmall" then .ok else .violates (refuseClause f m)
  else .skip

/-! ## C02 -/

/-- Reference verdict for a byte string: message and consumed bytes. -/
def refParse (f : Framing) (bs : Bytes) : Option (Msg × Nat) :=
  match f with
  | .udp => (Rfc7252.parse bs).map fun m => (m, bs.length)
  | .tcp => Rfc8323.parse bs

/-- `Decode(bytes)` into a message whose option slice has capacity `cap` (`pooled` = through the
pooled-message API, which retries with a larger slice and so must never report the capacity error). -/
def judgeDecode (f : Framing) (pooled : Bool) (cap : Nat) (bs : Bytes) (d : DecObs) : Verdict :=
  if d.err = "panic" then .violates "no-crash"
  else if d.err = "hang" then .violates "bounded-time"
  else
    let r := refParse f bs
    if d.err = "optCap" then
      if pooled then .violates "bounded-time"          -- the retry loop must resolve it
      else if cap ≥ bs.length then .violates "equals-reference-parser" else .skip
    else if d.err = "ok" then
      match r, d.msg with
      | some (m, n), some m' => if m = m' ∧ d.n = (n : Int) then .ok else .violates "equals-reference-parser"
      | _, _ => .violates "equals-reference-parser"
    else
      match r with
      | none => .ok
      | some _ => .violates "equals-reference-parser"

/-- Whatever is accepted re-encodes, and decoding the re-encoding gives the same message again. -/
def judgeCanonical (f : Framing) (m : Msg) (reErr : String) (reBytes : Bytes) (d2 : Option DecObs) : Verdict :=
  if reErr = "panic" then .violates "no-crash"
  else if reErr ≠ "ok" then .violates "accepted-reencodes"
  else
    match d2 with
    | none => .violates "decode-canonical"
    | some d2 =>
      if d2.err = "panic" then .violates "no-crash"
      else if d2.err = "ok" ∧ d2.msg = some m ∧ d2.n = (reBytes.length : Int) then .ok
      else .violates "decode-canonical"

/-- A datagram server with several peers: the application receives, on each peer's connection, exactly the reference
parses of the datagrams THAT peer sent, in order — whatever else the socket read in between. -/
def judgePeers (sentPerPeer : List (List Bytes)) (gotPerPeer : List (List (Option Msg))) (unknown : Bool) : Verdict :=
  let want := sentPerPeer.map fun ds => ds.map Rfc7252.parse
  if unknown then .violates "each-peer-gets-its-own-bytes"
  else if want.all (fun l => l.all Option.isSome) then
    if gotPerPeer = want then .ok else .violates "each-peer-gets-its-own-bytes"
  else .skip

/-- `DecodeHeader`: `short` = asks for more bytes (ErrShortRead). -/
def judgeHeader (bs : Bytes) (err : String) (hdrLen msgLen code : Nat) (token : Bytes) : Verdict :=
  if err = "panic" then .violates "no-crash"
  else
    match Rfc8323.parseHead bs with
    | .incomplete => if err = "shortRead" then .ok else .violates "header-equals-reference"
    | .malformed => if err ≠ "ok" ∧ err ≠ "shortRead" then .ok else .violates "header-equals-reference"
    | .ok h =>
      if err = "ok" ∧ hdrLen = h.hdrLen ∧ msgLen = h.total ∧ code = h.code ∧ token = h.token then .ok
      else .violates "header-equals-reference"

end CoapVerif.Spec.CodecJudge
